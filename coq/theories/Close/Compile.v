(* Close/Compile.v — IM of the compiler slice that decides where the close
   stack is pushed and truncated.  Executable definitions only.

   Mirrors, for the skeleton language of Close/Skel.v:
     ir/context.go   lexicalScope{label,height}, pushNew (height inherited), pop, addHeight, getLabel
     ir/builder.go   PushContext, PopContext (emitTruncate(parent) iff parent.height < top.height),
                     PushCloseAction (addHeight(1); PushCloseStack), HasPendingCloseActions,
                     EmitJump (walk outwards to the scope owning the label, emitTruncate(that scope), Jump),
                     DeclareUniqueGotoLabel / DeclareGotoLabel / GetNewLabel (labels numbered per function)
     astcomp/compstat.go  ProcessBlockStat, compileBlock / compileBlockNoPop (every local statement
                     opens a nested scope; getLabels / getBackLabels pre-declaration; return before the
                     pops), ProcessWhileStat, ProcessRepeatStat, ProcessForInStat (the closing value is
                     ALWAYS pushed), ProcessIfStat, break, goto, labels, getTailCall
     astcomp/compexp.go   compileFunctionBody (root scope of height 0, a return is always appended)
   Output: the close-relevant abstract instruction stream.  Registers and
   everything else of the compiler are outside this model. *)
From Coq Require Import List Arith Bool.
From GV Require Import Close.Skel.
Import ListNotations.

Inductive lname := NBreak | NUser (n : nat).

Definition lname_eqb (a b : lname) : bool :=
  match a, b with
  | NBreak, NBreak => true
  | NUser x, NUser y => Nat.eqb x y
  | _, _ => false
  end.

Record scope := mkScope { labels : list (lname * nat); height : nat }.
Definition ctx := list scope.            (* innermost scope first *)

Inductive instr :=
| IClPush (v : tbcv)                     (* clpush r   (r holds the value v) *)
| IClTrunc (h : nat)                     (* cltrunc h *)
| IJump (l : nat)
| IJumpIf (l : nat) (nt : bool) (sense : bool)  (* JumpIf{Label,Not}; consumes a decision d, jumps iff d = sense *)
| ICond                                  (* evaluation of a repeat loop's condition: consumes a decision, remembers it *)
| IJumpLast (l : nat) (nt : bool)        (* JumpIf{Label,Not} on the remembered condition: jumps iff it was true *)
| ILabel (l : nat)
| ICall (c : list instr)                 (* MkClosure(code c) ... Call{Tail:false} *)
| ITailCall (c : list instr)             (* MkClosure(code c) ... Call{Cont: new continuation, Tail:true} *)
| IRet                                   (* Call{Cont: caller, Tail:true} *)
| IPcall (c : list instr)
| ICoro (c : list instr) (k : option nat)
| IYield
| IOpen (id : nat)                       (* the helper call creating closable value id *)
| IBad                                   (* the helper call creating a value without __close *)
| IMark (n : nat)
| IRaise (e : nat).

Definition code := list instr.

Definition top_height (cx : ctx) : nat :=
  match cx with s :: _ => height s | [] => 0 end.

(* lexicalContext.pushNew *)
Definition push_ctx (cx : ctx) : ctx := mkScope [] (top_height cx) :: cx.

(* lexicalContext.addLabel *)
Definition add_label (cx : ctx) (name : lname) (l : nat) : ctx :=
  match cx with
  | s :: r => mkScope ((name, l) :: labels s) (height s) :: r
  | [] => []
  end.

(* lexicalContext.addHeight(1) *)
Definition add_height (cx : ctx) : ctx :=
  match cx with
  | s :: r => mkScope (labels s) (S (height s)) :: r
  | [] => []
  end.

Fixpoint scope_label (name : lname) (ls : list (lname * nat)) : option nat :=
  match ls with
  | [] => None
  | (n, l) :: r => if lname_eqb name n then Some l else scope_label name r
  end.

(* lexicalContext.getLabel *)
Fixpoint get_label (cx : ctx) (name : lname) : option nat :=
  match cx with
  | [] => None
  | s :: r => match scope_label name (labels s) with Some l => Some l | None => get_label r name end
  end.

(* CodeBuilder.emitTruncate(m) when the current top scope has height curh *)
Definition emit_truncate (h curh : nat) : code :=
  if Nat.ltb h curh then [IClTrunc h] else [].

(* CodeBuilder.PopContext: the code emitted when the top scope of cx is popped *)
Definition pop_code (cx : ctx) : code :=
  match cx with
  | top :: r => emit_truncate (top_height r) (height top)
  | [] => []
  end.

(* CodeBuilder.EmitJump *)
Fixpoint emit_jump_from (curh : nat) (cx : ctx) (name : lname) : option code :=
  match cx with
  | [] => None
  | s :: r =>
    match scope_label name (labels s) with
    | Some l => Some (emit_truncate (height s) curh ++ [IJump l])
    | None => emit_jump_from curh r name
    end
  end.
Definition emit_jump (cx : ctx) (name : lname) : option code :=
  emit_jump_from (top_height cx) cx name.

(* ---- label pre-declaration (getLabels / getBackLabels) ---- *)
Inductive shape := ShLabel (l : nat) | ShLocal | ShOther.

Definition shape_of (t : stmt) : shape :=
  match t with SLabel l => ShLabel l | SLocal _ => ShLocal | _ => ShOther end.

Fixpoint shapes (b : block) : list shape :=
  match b with BCons t r => shape_of t :: shapes r | _ => [] end.

Fixpoint has_ret (b : block) : bool :=
  match b with BNil => false | BRet _ => true | BCons _ r => has_ret r end.

(* DeclareUniqueGotoLabel *)
Definition declare_unique (cx : ctx) (n : nat) (l : nat) : option (ctx * nat) :=
  match get_label cx (NUser l) with
  | Some _ => None                                   (* "label already defined" *)
  | None => Some (add_label cx (NUser l) n, S n)
  end.

(* getLabels: declares labels up to the first local; true iff the whole list was processed *)
Fixpoint get_labels (cx : ctx) (n : nat) (sh : list shape) : option (ctx * nat * bool) :=
  match sh with
  | [] => Some (cx, n, true)
  | ShLabel l :: r =>
    match declare_unique cx n l with
    | Some (cx', n') => get_labels cx' n' r
    | None => None
    end
  | ShLocal :: _ => Some (cx, n, false)
  | ShOther :: r => get_labels cx n r
  end.

(* getBackLabels on the reversed statement list *)
Fixpoint get_back_labels (cx : ctx) (n : nat) (rsh : list shape) (count : nat) : option (ctx * nat * nat) :=
  match rsh with
  | ShLabel l :: r =>
    match declare_unique cx n l with
    | Some (cx', n') => get_back_labels cx' n' r (S count)
    | None => None
    end
  | _ => Some (cx, n, count)
  end.

(* the first part of compileBlockNoPop: returns the context, the label counter
   and truncLen *)
Definition block_prologue (cx : ctx) (n : nat) (b : block) (complete fbody : bool)
  : option (ctx * nat * nat) :=
  let sh := shapes b in
  match get_labels cx n sh with
  | None => None
  | Some (cx1, n1, nobacklabels) =>
    if complete && negb nobacklabels && negb (has_ret b || fbody) then
      match get_back_labels cx1 n1 (rev sh) 0 with
      | None => None
      | Some (cx2, n2, cnt) => Some (cx2, n2, length sh - cnt)
      end
    else Some (cx1, n1, length sh)
  end.

Definition open_code (v : tbcv) : code :=
  match v with VObj id _ => [IOpen id] | VBad _ => [IBad] | _ => [] end.

Definition local_code (v : tbcv) : code :=
  open_code v ++ match v with VPlain => [] | _ => [IClPush v] end.

Definition local_ctx (cx : ctx) (v : tbcv) : ctx :=
  match v with VPlain => cx | _ => add_height cx end.

Definition forin_val (v : tbcv) : tbcv := match v with VPlain => VNil | _ => v end.

Definition obind {A B} (o : option A) (f : A -> option B) : option B :=
  match o with Some a => f a | None => None end.

Definition root_ctx : ctx := [mkScope [] 0].

(* compile_stats cx n tl fbody b : the statements of b from the current
   position; tl = number of statements left before truncLen; fbody: b is a
   function body (a return is appended when it has none).  Includes the pops
   of the scopes opened by its local statements; endc is emitted where the
   statements end without a return (the `until` condition of a repeat loop,
   evaluated before the pops).
   compile_stmt: a single statement that is not a local. *)
Fixpoint compile_stats (cx : ctx) (n : nat) (tl : nat) (fbody : bool) (endc : code) (b : block) {struct b}
  : option (code * nat) :=
  match b with
  | BNil => Some ((if fbody then [IRet] else endc), n)
  | BRet RPlain => Some ([IRet], n)
  | BRet (RCall body) =>
    match block_prologue root_ctx 0 body true true with
    | None => None
    | Some (cx0, n0, tl0) =>
      obind (compile_stats cx0 n0 tl0 true [] body) (fun '(c, _) =>
        if Nat.eqb (top_height cx) 0 then Some ([ITailCall c], n) else Some ([ICall c; IRet], n))
    end
  | BCons (SLocal v) rest =>
    let cx1 := push_ctx cx in
    obind (get_labels cx1 n (firstn (pred tl) (shapes rest))) (fun '(cx2, n2, _) =>
      let cx3 := local_ctx cx2 v in
      obind (compile_stats cx3 n2 (pred tl) fbody endc rest) (fun '(c, n3) =>
        Some (local_code v ++ c ++ pop_code cx3, n3)))
  | BCons t rest =>
    obind (compile_stmt cx n t) (fun '(c1, n1) =>
      obind (compile_stats cx n1 (pred tl) fbody endc rest) (fun '(c2, n2) =>
        Some (c1 ++ c2, n2)))
  end
with compile_stmt (cx : ctx) (n : nat) (t : stmt) {struct t} : option (code * nat) :=
  let block_in (cx : ctx) (n : nat) (b : block) (complete : bool) (endc : code) :=
    match block_prologue cx n b complete false with
    | None => None
    | Some (cx', n', tl) => compile_stats cx' n' tl false endc b
    end in
  let do_block (cx : ctx) (n : nat) (b : block) :=      (* ProcessBlockStat *)
    let cx1 := push_ctx cx in
    obind (block_in cx1 n b true []) (fun '(c, n') => Some (c ++ pop_code cx1, n')) in
  let func (b : block) :=
    match block_prologue root_ctx 0 b true true with
    | None => None
    | Some (cx0, n0, tl0) => obind (compile_stats cx0 n0 tl0 true [] b) (fun '(c, _) => Some c)
    end in
  match t with
  | SLocal _ => None
  | SDo b => do_block cx n b
  | SLoop LWhile b =>
    let cx2 := add_label (push_ctx cx) NBreak n in
    obind (do_block cx2 (n + 2) b) (fun '(c, n') =>
      Some ([ILabel (n + 1); IJumpIf n true false] ++ c ++ [IJump (n + 1); ILabel n] ++ pop_code cx2, n'))
  | SLoop LRepeat b =>
    let cx2 := add_label (push_ctx cx) NBreak n in
    obind (block_in cx2 (n + 2) b false [ICond]) (fun '(c, n') =>
      Some ([ILabel (n + 1)] ++ c ++ [IJumpLast (n + 1) false; ILabel n] ++ pop_code cx2, n'))
  | SLoop (LForIn v) b =>
    let cx2 := add_height (push_ctx cx) in
    let cx3 := add_label cx2 NBreak (n + 1) in
    obind (block_in cx3 (n + 2) b true []) (fun '(c, n') =>
      Some (open_code v ++ [IClPush (forin_val v); ILabel n; IJumpIf (n + 1) false false] ++ c
            ++ [IJump n; ILabel (n + 1)] ++ pop_code cx3, n'))
  | SIf b =>
    obind (do_block cx (n + 2) b) (fun '(c, n') =>
      Some ([IJumpIf (n + 1) true false] ++ c ++ [ILabel (n + 1); ILabel n], n'))
  | SBreak => obind (emit_jump cx NBreak) (fun c => Some (c, n))
  | SGoto l => obind (emit_jump cx (NUser l)) (fun c => Some (c, n))
  | SLabel l => obind (get_label cx (NUser l)) (fun lbl => Some ([ILabel lbl], n))
  | SMark m => Some ([IMark m], n)
  | SCall b => obind (func b) (fun c => Some ([ICall c], n))
  | SPcall b => obind (func b) (fun c => Some ([IPcall c], n))
  | SCoro b k => obind (func b) (fun c => Some ([ICoro c k], n))
  | SYield => Some ([IYield], n)
  | SRaise e => Some ([IRaise e], n)
  end.

(* a function body (compileFunctionBody) *)
Definition compile_fun (b : block) : option code :=
  match block_prologue root_ctx 0 b true true with
  | None => None
  | Some (cx0, n0, tl0) => obind (compile_stats cx0 n0 tl0 true [] b) (fun '(c, _) => Some c)
  end.

(* The whole program: the harness wraps the body in pcall on the main thread. *)
Definition compile (b : block) : option code :=
  obind (compile_fun b) (fun c => Some [IPcall c]).
