(* Close/CompileProofs.v — facts about the compiler slice alone. *)
From Coq Require Import List Arith Bool Lia.
From GV Require Import Close.Skel Close.Compile.
Import ListNotations.

(* getTailCall: with a pending close action in the current scope a
   `return f()` is never compiled to a tail call: the call is an ordinary call
   followed by the return (whose isTail cleanup runs the handlers after f
   returned). *)
Lemma tailcall_disabled_with_pending_close :
  forall cx n tl fb ec body c n',
    0 < top_height cx ->
    compile_stats cx n tl fb ec (BRet (RCall body)) = Some (c, n') ->
    exists c', compile_fun body = Some c' /\ c = [ICall c'; IRet].
Proof.
  intros cx n tl fb ec body c n' H.
  cbn [compile_stats]. unfold compile_fun.
  destruct (block_prologue root_ctx 0 body true true) as [[[cx0 n0] tl0]|]; [|discriminate].
  destruct (compile_stats cx0 n0 tl0 true [] body) as [[c0 n1]|]; cbn [obind]; [|discriminate].
  destruct (Nat.eqb_spec (top_height cx) 0); [lia|].
  intros E. inversion E. eauto.
Qed.

Lemma tailcall_when_nothing_pending :
  forall cx n tl fb ec body c n',
    top_height cx = 0 ->
    compile_stats cx n tl fb ec (BRet (RCall body)) = Some (c, n') ->
    exists c', compile_fun body = Some c' /\ c = [ITailCall c'].
Proof.
  intros cx n tl fb ec body c n' H.
  cbn [compile_stats]. unfold compile_fun.
  destruct (block_prologue root_ctx 0 body true true) as [[[cx0 n0] tl0]|]; [|discriminate].
  destruct (compile_stats cx0 n0 tl0 true [] body) as [[c0 n1]|]; cbn [obind]; [|discriminate].
  rewrite H. cbn. intros E. inversion E. eauto.
Qed.
