(* Close/VMclose.v — IM of the run-time side of to-be-closed variables.
   Executable definitions only.

   Mirrors
     runtime/thread.go    closeStack (push/pop/truncate), cleanupCloseStack (LIFO calls of __close with
                          the current error, a handler's error replaces it, the loop goes on down to h),
                          CallContext (h := size at entry; cleanup to h with f's error; on a
                          ContextTerminationError panic the stack is truncated to h WITHOUT calling the
                          handlers — not reachable here, no quotas —; any other panic, threadClose in
                          particular, leaves the pending entries on the stack and re-panics [repaired]), Thread.end (cleanup to 0 with the thread's error), Thread.Close
                          (threadClose exception sent to the suspended thread).
                          Thread.end as of /repo 8db1ed8: on a ContextTerminationError (quota kill) the
                          pending handlers are discarded (truncate(0)); every other path (return, error,
                          threadClose) runs cleanupCloseStack(nil, 0, err) — the skeleton language has no
                          quotas, so only the latter paths are modelled here (the kill path is C05's)
     runtime/luacont.go   NewLuaCont (closeStackBase := size at creation), OpClStack push (a true value
                          without __close is an error) and truncate (to closeStackBase + h), OpCall with
                          isTail (cleanup to closeStackBase before leaving the continuation)
     lib/base/pcall.go    pcall = CallContext around the call
   over the abstract instruction stream produced by Close/Compile.v. *)
From Coq Require Import List Arith Bool.
From GV Require Import Close.Skel Close.Compile.
Import ListNotations.

Record vst := mkV { stack : list tbcv;      (* the thread's close stack, top first *)
                    vds : list bool;
                    vyc : option nat;
                    vlast : bool }.

Inductive vout :=
| VReturn                 (* the continuation returned to its caller *)
| VError (e : err)        (* an error propagates (Go error return) *)
| VClosed                 (* the threadClose panic unwinds the coroutine's goroutine *)
| VPanic.                 (* jump to a missing label / running off the code: cannot happen for compiled code *)

Definition vtriple := (list event * vout * vst)%type.

(* Metacall of __close on value v with error argument e *)
Definition call_close (v : tbcv) (e : option err) : list event * option err :=
  match v with
  | VObj id None => ([EvClose id e], e)
  | VObj id (Some h) => ([EvClose id e; EvRaise (EUser h)], Some (EUser h))
  | _ => ([], e)                       (* nil / false: skipped (Truth(v) is false) *)
  end.

(* Thread.cleanupCloseStack(c, h, err) *)
Fixpoint cleanup (stk : list tbcv) (h : nat) (e : option err) : list event * list tbcv * option err :=
  match stk with
  | [] => ([], [], e)
  | v :: r =>
    if Nat.ltb h (length stk) then
      let (ev1, e1) := call_close v e in
      let '(ev2, stk2, e2) := cleanup r h e1 in
      (ev1 ++ ev2, stk2, e2)
    else ([], stk, e)
  end.

(* closeStack.truncate(h) *)
Definition truncate (stk : list tbcv) (h : nat) : list tbcv :=
  skipn (length stk - h) stk.

Fixpoint after_label (l : nat) (c : code) : option code :=
  match c with
  | [] => None
  | ILabel l' :: r => if Nat.eqb l l' then Some r else after_label l r
  | _ :: r => after_label l r
  end.

Definition vnext (s : vst) : bool * vst :=
  match vds s with
  | [] => (false, s)
  | d :: r => (d, mkV (stack s) r (vyc s) (vlast s))
  end.

Definition vbind (r : res vtriple) (k : list event -> vout -> vst -> res vtriple) : res vtriple :=
  match r with
  | OutOfFuel => OutOfFuel
  | Done (ev, o, s) => k ev o s
  end.

Definition vprepend (ev : list event) (r : res vtriple) : res vtriple :=
  match r with
  | OutOfFuel => OutOfFuel
  | Done (ev', o, s) => Done (ev ++ ev', o, s)
  end.

Definition set_stack (s : vst) (stk : list tbcv) : vst := mkV stk (vds s) (vyc s) (vlast s).

(* exec fuel whole rest base s: run the continuation of a function whose code
   is [whole], currently at [rest], with closeStackBase = base. *)
Fixpoint exec (fuel : nat) (whole rest : code) (base : nat) (s : vst) {struct fuel} : res vtriple :=
  match fuel with
  | 0 => OutOfFuel
  | S f =>
    match rest with
    | [] => Done ([], VPanic, s)
    | i :: k =>
      match i with
      | IClPush (VBad _) => Done ([], VError EMissing, s)
      | IClPush v => exec f whole k base (set_stack s (v :: stack s))
      | IClTrunc h =>
        let '(ev, stk, e) := cleanup (stack s) (base + h) None in
        match e with
        | Some x => Done (ev, VError x, set_stack s stk)
        | None => vprepend ev (exec f whole k base (set_stack s stk))
        end
      | IJump l =>
        match after_label l whole with
        | Some r => exec f whole r base s
        | None => Done ([], VPanic, s)
        end
      | IJumpIf l _ sense =>
        let (d, s1) := vnext s in
        if Bool.eqb d sense then
          match after_label l whole with
          | Some r => exec f whole r base s1
          | None => Done ([], VPanic, s1)
          end
        else exec f whole k base s1
      | ICond =>
        let (d, s1) := vnext s in
        exec f whole k base (mkV (stack s1) (vds s1) (vyc s1) d)
      | IJumpLast l _ =>
        if vlast s then
          match after_label l whole with
          | Some r => exec f whole r base s
          | None => Done ([], VPanic, s)
          end
        else exec f whole k base s
      | ILabel _ => exec f whole k base s
      | ICall c =>
        vbind (exec f c c (length (stack s)) s) (fun ev o s1 =>
          match o with
          | VReturn => vprepend ev (exec f whole k base s1)
          | _ => Done (ev, o, s1)
          end)
      | ITailCall c =>
        let '(ev, stk, e) := cleanup (stack s) base None in
        match e with
        | Some x => Done (ev, VError x, set_stack s stk)
        | None => vprepend ev (exec f c c (length stk) (set_stack s stk))
        end
      | IRet =>
        let '(ev, stk, e) := cleanup (stack s) base None in
        match e with
        | Some x => Done (ev, VError x, set_stack s stk)
        | None => Done (ev, VReturn, set_stack s stk)
        end
      | IPcall c =>
        let h := length (stack s) in
        vbind (exec f c c h s) (fun ev o s1 =>
          match o with
          | VReturn =>
            let '(ev2, stk, e) := cleanup (stack s1) h None in
            vprepend (ev ++ ev2 ++ [EvPcall e]) (exec f whole k base (set_stack s1 stk))
          | VError x =>
            let '(ev2, stk, e) := cleanup (stack s1) h (Some x) in
            vprepend (ev ++ ev2 ++ [EvPcall e]) (exec f whole k base (set_stack s1 stk))
          | VClosed => Done (ev, VClosed, s1)     (* not a ContextTerminationError: entries stay, Thread.end runs them *)
          | VPanic => Done (ev, VPanic, s1)
          end)
      | ICoro c j =>
        vbind (exec f c c 0 (mkV [] (vds s) j (vlast s))) (fun ev o s1 =>
          match o with
          | VPanic => Done (ev, VPanic, s1)
          | _ =>
            let '(ev2, _, e) :=
              cleanup (stack s1) 0 (match o with VError x => Some x | _ => None end) in
            vprepend (ev ++ ev2 ++ [EvCo e]) (exec f whole k base (mkV (stack s) (vds s1) (vyc s) (vlast s1)))
          end)
      | IYield =>
        match vyc s with
        | Some 0 => Done ([], VClosed, s)
        | Some (S j) => exec f whole k base (mkV (stack s) (vds s) (Some j) (vlast s))
        | None => exec f whole k base s
        end
      | IOpen id => vprepend [EvOpen id] (exec f whole k base s)
      | IBad => vprepend [EvRaise EMissing] (exec f whole k base s)
      | IMark n => vprepend [EvMark n] (exec f whole k base s)
      | IRaise e => Done ([EvRaise (EUser e)], VError (EUser e), s)
      end
    end
  end.

Definition vout_of (o : outcome) : vout :=
  match o with
  | ONormal | OReturn => VReturn
  | OError e => VError e
  | OClosed _ => VClosed
  | _ => VPanic
  end.

(* The whole program (Compile.compile: [IPcall c]) run as the main chunk of the
   harness: the main chunk returns after the pcall. *)
Definition run_vm (fuel : nat) (c : code) (d : list bool) : res (list event * vout) :=
  match exec fuel (c ++ [IRet]) (c ++ [IRet]) 0 (mkV [] d None false) with
  | Done (ev, o, _) => Done (ev, o)
  | OutOfFuel => OutOfFuel
  end.
