(* Close/Boundary.v — the frame discipline of the close stack and the
   invariant at a Go boundary.

   INVARIANT (what C10 needs from every place where Go code runs Lua code and
   gets an error back — pcall's CallContext, but also load with a reader
   function, a debug hook, a finaliser, a sort comparator, ...): when the Go
   code receives the error, the to-be-closed variables of the abandoned run
   have been closed with it, i.e. THE CLOSE STACK IS BACK AT WHAT IT WAS BEFORE
   THE CALL.  In golua this is Thread.RunContinuation followed by closePending
   (to the height before the run); in the model it is [exec] of the callee from
   base = height before the call followed by [cleanup] to that height — exactly
   what IPcall does.

   exec_frame: a continuation never touches the entries below its base, and
   when it returns it has removed everything above it.
   go_boundary_restores_close_stack: the corollary above. *)
From Coq Require Import List Arith Bool Lia.
From GV Require Import Close.Skel Close.Compile Close.VMclose Close.VMLemmas.
Import ListNotations.

Lemma cleanup_keeps_low : forall up low T e, length low <= T ->
  exists up', snd (fst (cleanup (up ++ low) T e)) = up' ++ low.
Proof.
  induction up as [|v up IH]; intros low T e H.
  - cbn [app]. rewrite (cleanup_nothing low T e H). exists []. reflexivity.
  - cbn [app]. destruct (Nat.lt_ge_cases T (length (v :: up ++ low))) as [Hlt|Hge].
    + rewrite (cleanup_cons v (up ++ low) T e Hlt). destruct (call_close v e) as [ev1 e1].
      destruct (IH low T e1 H) as [up' Hu]. destruct (cleanup (up ++ low) T e1) as [[ev2 stk2] e2].
      exists up'. exact Hu.
    + rewrite (cleanup_nothing _ T e Hge). exists (v :: up). reflexivity.
Qed.

Lemma cleanup_to_low : forall up low e, snd (fst (cleanup (up ++ low) (length low) e)) = low.
Proof.
  intros up low e. destruct (cleanup_keeps_low up low (length low) e (le_n _)) as [up' Hu].
  pose proof (cleanup_length (up ++ low) (length low) e ltac:(rewrite app_length; lia)) as Hl.
  rewrite Hu in *. rewrite app_length in Hl. destruct up'; [reflexivity|cbn in Hl; lia].
Qed.

Lemma vprepend_inv : forall ev r ev' o s, vprepend ev r = Done (ev', o, s) ->
  exists ev0, r = Done (ev0, o, s) /\ ev' = ev ++ ev0.
Proof. intros ev [[[e0 o0] s0]|] ev' o s H; cbn in H; [|discriminate]. inversion H; subst. eauto. Qed.

(* a continuation with base = length low never touches low; when it returns nothing is left above low *)
Theorem exec_frame : forall fuel whole rest base s ev o s1 up low,
  exec fuel whole rest base s = Done (ev, o, s1) -> stack s = up ++ low -> length low = base -> o <> VPanic ->
  exists up', stack s1 = up' ++ low /\ (o = VReturn -> up' = []).
Proof.
  induction fuel as [|f IH]; intros whole rest base s ev o s1 up low H Hs Hl Ho; [discriminate|].
  cbn [exec] in H. destruct rest as [|i k]; [inversion H; subst; contradiction|].
  assert (SAME : forall s' r, stack s' = stack s -> exec f whole r base s' = Done (ev, o, s1) ->
            exists up', stack s1 = up' ++ low /\ (o = VReturn -> up' = [])).
  { intros s' r Hss Hx. eapply IH; [exact Hx|rewrite Hss; exact Hs|exact Hl|exact Ho]. }
  destruct i.
  - (* clpush *)
    destruct v; try (eapply (IH _ _ _ _ _ _ _ (_ :: up) low H); [cbn; rewrite Hs; reflexivity|exact Hl|exact Ho]).
    inversion H; subst. exists up. split; [exact Hs|discriminate].
  - (* cltrunc *)
    destruct (cleanup_keeps_low up low (base + h) None ltac:(lia)) as [up' Hu]. rewrite <- Hs in Hu.
    destruct (cleanup (stack s) (base + h) None) as [[ev0 stk] e]. cbn in Hu. subst stk.
    destruct e as [x|].
    + inversion H; subst. exists up'. split; [reflexivity|discriminate].
    + apply vprepend_inv in H as (ev1 & H & _).
      eapply (IH _ _ _ _ _ _ _ up' low H); [reflexivity|exact Hl|exact Ho].
  - destruct (after_label l whole); [eapply SAME; [reflexivity|exact H]|inversion H; subst; contradiction].
  - destruct (vnext s) as [d s'] eqn:Ev.
    assert (Hss : stack s' = stack s) by (unfold vnext in Ev; destruct (vds s); inversion Ev; reflexivity).
    destruct (Bool.eqb d sense).
    + destruct (after_label l whole); [eapply SAME; [exact Hss|exact H]|inversion H; subst; contradiction].
    + eapply SAME; [exact Hss|exact H].
  - (* ICond *)
    destruct (vnext s) as [d s'] eqn:Ev.
    assert (Hss : stack s' = stack s) by (unfold vnext in Ev; destruct (vds s); inversion Ev; reflexivity).
    eapply SAME; [|exact H]. exact Hss.
  - (* IJumpLast *)
    destruct (vlast s).
    + destruct (after_label l whole); [eapply SAME; [reflexivity|exact H]|inversion H; subst; contradiction].
    + eapply SAME; [reflexivity|exact H].
  - eapply SAME; [reflexivity|exact H].
  - (* ICall *)
    destruct (exec f c c (length (stack s)) s) as [[[ev0 o0] s0]|] eqn:E; [|discriminate]. cbn [vbind] in H.
    assert (Ho0 : o0 <> VPanic) by (intro Hq; subst o0; inversion H; subst; contradiction).
    destruct (IH _ _ _ _ _ _ _ [] (stack s) E eq_refl eq_refl Ho0) as (up0 & Hu0 & Hr0).
    destruct o0; try (inversion H; subst; exists (up0 ++ up); split; [rewrite Hu0, Hs, app_assoc; reflexivity|discriminate]).
    + rewrite (Hr0 eq_refl) in Hu0. cbn in Hu0. apply vprepend_inv in H as (ev1 & H & _).
      eapply (IH _ _ _ _ _ _ _ up low H); [rewrite Hu0; exact Hs|exact Hl|exact Ho].
  - (* ITailCall *)
    pose proof (cleanup_to_low up low None) as Hc. rewrite Hl, <- Hs in Hc.
    destruct (cleanup (stack s) base None) as [[ev0 stk] e]. cbn in Hc. subst stk.
    destruct e as [x|].
    + inversion H; subst. exists []. split; [reflexivity|discriminate].
    + apply vprepend_inv in H as (ev1 & H & _).
      eapply (IH _ _ _ _ _ _ _ [] low H); [reflexivity|reflexivity|exact Ho].
  - (* IRet *)
    pose proof (cleanup_to_low up low None) as Hc. rewrite Hl, <- Hs in Hc.
    destruct (cleanup (stack s) base None) as [[ev0 stk] e]. cbn in Hc. subst stk.
    destruct e as [x|]; inversion H; subst; exists []; split; reflexivity.
  - (* IPcall *)
    destruct (exec f c c (length (stack s)) s) as [[[ev0 o0] s0]|] eqn:E; [|discriminate]. cbn [vbind] in H.
    assert (Ho0 : o0 <> VPanic) by (intro Hq; subst o0; inversion H; subst; contradiction).
    destruct (IH _ _ _ _ _ _ _ [] (stack s) E eq_refl eq_refl Ho0) as (up0 & Hu0 & Hr0).
    destruct o0.
    + pose proof (cleanup_to_low up0 (stack s) None) as Hc. rewrite <- Hu0 in Hc.
      destruct (cleanup (stack s0) (length (stack s)) None) as [[ev2 stk] e]. cbn in Hc. subst stk.
      apply vprepend_inv in H as (ev1 & H & _).
      eapply (IH _ _ _ _ _ _ _ up low H); [exact Hs|exact Hl|exact Ho].
    + pose proof (cleanup_to_low up0 (stack s) (Some e)) as Hc. rewrite <- Hu0 in Hc.
      destruct (cleanup (stack s0) (length (stack s)) (Some e)) as [[ev2 stk] e']. cbn in Hc. subst stk.
      apply vprepend_inv in H as (ev1 & H & _).
      eapply (IH _ _ _ _ _ _ _ up low H); [exact Hs|exact Hl|exact Ho].
    + inversion H; subst. exists (up0 ++ up). split; [rewrite Hu0, Hs, app_assoc; reflexivity|discriminate].
    + contradiction.
  - (* ICoro *)
    destruct (exec f c c 0 (mkV [] (vds s) k0 (vlast s))) as [[[ev0 o0] s0]|] eqn:E; [|discriminate]. cbn [vbind] in H.
    assert (CONT : forall e0, (let '(ev2, _, e) := cleanup (stack s0) 0 e0 in
                   vprepend (ev0 ++ ev2 ++ [EvCo e]) (exec f whole k base (mkV (stack s) (vds s0) (vyc s) (vlast s0)))) = Done (ev, o, s1) ->
                   exists up', stack s1 = up' ++ low /\ (o = VReturn -> up' = [])).
    { intros e0 Hx. destruct (cleanup (stack s0) 0 e0) as [[ev2 stk2] e2].
      apply vprepend_inv in Hx as (ev1 & Hx & _).
      eapply (IH _ _ _ _ _ _ _ up low Hx); [exact Hs|exact Hl|exact Ho]. }
    destruct o0; try (eapply CONT; exact H).
    inversion H; subst. contradiction.
  - (* IYield *)
    destruct (vyc s) as [[|j]|].
    + inversion H; subst. exists up. split; [exact Hs|discriminate].
    + eapply SAME; [|exact H]. reflexivity.
    + eapply SAME; [|exact H]. reflexivity.
  - apply vprepend_inv in H as (ev1 & H & _). eapply IH; [exact H|exact Hs|exact Hl|exact Ho].
  - apply vprepend_inv in H as (ev1 & H & _). eapply IH; [exact H|exact Hs|exact Hl|exact Ho].
  - apply vprepend_inv in H as (ev1 & H & _). eapply IH; [exact H|exact Hs|exact Hl|exact Ho].
  - inversion H; subst. exists up. split; [exact Hs|discriminate].
Qed.

(* The invariant at a Go boundary: Go code runs the function c (RunContinuation)
   with the close stack at stk; whether the run returns or fails with an error,
   once the pending variables of the run have been closed down to the height
   before the call (nothing to do after a return; closePending with the error
   after a failure) the close stack is exactly stk again. *)
Theorem go_boundary_restores_close_stack : forall fuel c s ev o s1,
  exec fuel c c (length (stack s)) s = Done (ev, o, s1) ->
  (o = VReturn \/ exists x, o = VError x) ->
  snd (fst (cleanup (stack s1) (length (stack s)) (match o with VError x => Some x | _ => None end))) = stack s
  /\ (o = VReturn -> stack s1 = stack s).
Proof.
  intros fuel c s ev o s1 H Ho.
  assert (Hp : o <> VPanic) by (destruct Ho as [->|[x ->]]; discriminate).
  destruct (exec_frame _ _ _ _ _ _ _ _ [] (stack s) H eq_refl eq_refl Hp) as (up & Hu & Hr).
  split.
  - rewrite Hu. apply cleanup_to_low.
  - intro Hq. rewrite Hu, (Hr Hq). reflexivity.
Qed.
