(* Close/VMLemmas.v — facts about the close-stack VM used by the simulation
   proof: termination predicate closed under more fuel, one-instruction
   steps, cleanup algebra, leaving a scope through one pushed variable. *)
From Coq Require Import List Arith Bool Lia.
From GV Require Import Close.Skel Close.Compile Close.VMclose.
Import ListNotations.

(* Term: the continuation terminates with R for every sufficiently large fuel *)
Definition Term (whole : code) (base : nat) (rest : code) (vs : vst) (R : vtriple) : Prop :=
  exists F, forall F', F <= F' -> exec F' whole rest base vs = Done R.

Definition pre3 (ev : list event) (R : vtriple) : vtriple :=
  let '(e, o, s) := R in (ev ++ e, o, s).

(* Reach: whatever the configuration (b, vb) terminates with, (a, va) terminates
   with the same prefixed by ev *)
Definition Reach (whole : code) (base : nat) (a : code) (va : vst) (b : code) (vb : vst) (ev : list event) : Prop :=
  forall R, Term whole base b vb R -> Term whole base a va (pre3 ev R).

Lemma pre3_nil : forall R, pre3 [] R = R.
Proof. intros [[e o] s]. reflexivity. Qed.
Lemma pre3_app : forall a b R, pre3 a (pre3 b R) = pre3 (a ++ b) R.
Proof. intros a b [[e o] s]. cbn. rewrite app_assoc. reflexivity. Qed.

Lemma Reach_refl : forall w base a va, Reach w base a va a va [].
Proof. intros w base a va R H. rewrite pre3_nil. exact H. Qed.

Lemma Reach_trans : forall w base a va b vb c vc e1 e2,
  Reach w base a va b vb e1 -> Reach w base b vb c vc e2 -> Reach w base a va c vc (e1 ++ e2).
Proof. intros. intros R H1. rewrite <- pre3_app. apply H. apply H0. exact H1. Qed.

Lemma Reach_Term : forall w base a va b vb ev R,
  Reach w base a va b vb ev -> Term w base b vb R -> Term w base a va (pre3 ev R).
Proof. intros. apply H. exact H0. Qed.

Lemma Term_det : forall w base a va R1 R2, Term w base a va R1 -> Term w base a va R2 -> R1 = R2.
Proof.
  intros w base a va R1 R2 [F1 H1] [F2 H2].
  specialize (H1 (max F1 F2) (Nat.le_max_l _ _)). specialize (H2 (max F1 F2) (Nat.le_max_r _ _)).
  rewrite H1 in H2. inversion H2. reflexivity.
Qed.

Lemma vprepend_done : forall ev R, vprepend ev (Done R) = Done (pre3 ev R).
Proof. intros ev [[e o] s]. reflexivity. Qed.

(* ---------------------------------------------------------------- steps *)
Ltac step_tac :=
  let R := fresh "R" in let F := fresh "F" in let HF := fresh "HF" in
  let F' := fresh "F'" in let Hle := fresh "Hle" in
  intros R [F HF]; exists (S F); intros F' Hle;
  destruct F' as [|F']; [lia|]; cbn [exec];
  try rewrite (HF F' ltac:(lia)).

Lemma step_label : forall w base l k vs, Reach w base (ILabel l :: k) vs k vs [].
Proof. intros. step_tac. rewrite pre3_nil. reflexivity. Qed.

Lemma step_mark : forall w base n k vs, Reach w base (IMark n :: k) vs k vs [EvMark n].
Proof. intros. step_tac. apply vprepend_done. Qed.

Lemma step_open : forall w base n k vs, Reach w base (IOpen n :: k) vs k vs [EvOpen n].
Proof. intros. step_tac. apply vprepend_done. Qed.

Lemma step_bad : forall w base k vs, Reach w base (IBad :: k) vs k vs [EvRaise EMissing].
Proof. intros. step_tac. apply vprepend_done. Qed.

Lemma step_push : forall w base v k vs, (forall id, v <> VBad id) ->
  Reach w base (IClPush v :: k) vs k (set_stack vs (v :: stack vs)) [].
Proof.
  intros w base v k vs Hv. step_tac. rewrite pre3_nil.
  destruct v as [| |i h|i]; try (first [reflexivity | apply HF; lia]).
  exfalso. eapply Hv. reflexivity.
Qed.

Lemma step_jump : forall w base l k r vs, after_label l w = Some r -> Reach w base (IJump l :: k) vs r vs [].
Proof. intros w base l k r vs H. step_tac. rewrite H, pre3_nil. first [reflexivity | apply HF; lia]. Qed.

Lemma step_jumpif_taken : forall w base l nt sense k r vs d vs1,
  vnext vs = (d, vs1) -> Bool.eqb d sense = true -> after_label l w = Some r ->
  Reach w base (IJumpIf l nt sense :: k) vs r vs1 [].
Proof. intros w base l nt sense k r vs d vs1 H1 H2 H3. step_tac. rewrite H1, H2, H3, pre3_nil. first [reflexivity | apply HF; lia]. Qed.

Lemma step_jumpif_not : forall w base l nt sense k vs d vs1,
  vnext vs = (d, vs1) -> Bool.eqb d sense = false ->
  Reach w base (IJumpIf l nt sense :: k) vs k vs1 [].
Proof. intros w base l nt sense k vs d vs1 H1 H2. step_tac. rewrite H1, H2, pre3_nil. first [reflexivity | apply HF; lia]. Qed.

Lemma step_trunc_ok : forall w base h k vs ev stk,
  cleanup (stack vs) (base + h) None = (ev, stk, None) ->
  Reach w base (IClTrunc h :: k) vs k (set_stack vs stk) ev.
Proof. intros w base h k vs ev stk H. step_tac. rewrite H. rewrite (HF F' ltac:(lia)). apply vprepend_done. Qed.

Lemma term_trunc_err : forall w base h k vs ev stk x,
  cleanup (stack vs) (base + h) None = (ev, stk, Some x) ->
  Term w base (IClTrunc h :: k) vs (ev, VError x, set_stack vs stk).
Proof.
  intros w base h k vs ev stk x H. exists 1. intros F' Hle. destruct F'; [lia|]. cbn [exec]. rewrite H. reflexivity.
Qed.

Lemma term_ret : forall w base k vs ev stk e,
  cleanup (stack vs) base None = (ev, stk, e) ->
  Term w base (IRet :: k) vs (ev, match e with Some x => VError x | None => VReturn end, set_stack vs stk).
Proof.
  intros w base k vs ev stk e H. exists 1. intros F' Hle. destruct F'; [lia|]. cbn [exec]. rewrite H.
  destruct e; reflexivity.
Qed.

Lemma term_raise : forall w base e k vs, Term w base (IRaise e :: k) vs ([EvRaise (EUser e)], VError (EUser e), vs).
Proof. intros. exists 1. intros F' Hle. destruct F'; [lia|]. reflexivity. Qed.

Lemma term_push_bad : forall w base id k vs, Term w base (IClPush (VBad id) :: k) vs ([], VError EMissing, vs).
Proof. intros. exists 1. intros F' Hle. destruct F'; [lia|]. reflexivity. Qed.

(* the instructions after the first two are irrelevant for these shapes *)
Lemma Reach_ret_any : forall w base k vs, Reach w base (IRet :: k) vs [IRet] vs [].
Proof.
  intros w base k vs R [F HF]. rewrite pre3_nil. exists (S F). intros F' Hle.
  destruct F'; [lia|]. specialize (HF (S F') ltac:(lia)). cbn [exec] in *. exact HF.
Qed.

Lemma Reach_jump_any : forall w base l k vs, Reach w base (IJump l :: k) vs [IJump l] vs [].
Proof.
  intros w base l k vs R [F HF]. rewrite pre3_nil. exists (S F). intros F' Hle.
  destruct F'; [lia|]. specialize (HF (S F') ltac:(lia)). cbn [exec] in *. exact HF.
Qed.

(* ---------------------------------------------------------------- cleanup algebra *)
Lemma cleanup_nothing : forall stk h e, length stk <= h -> cleanup stk h e = ([], stk, e).
Proof.
  intros [|v r] h e H; [reflexivity|]. cbn [cleanup].
  destruct (Nat.ltb_spec h (length (v :: r))); [lia|reflexivity].
Qed.

Lemma cleanup_cons : forall v r h e, h < length (v :: r) ->
  cleanup (v :: r) h e =
  let (ev1, e1) := call_close v e in let '(ev2, stk2, e2) := cleanup r h e1 in (ev1 ++ ev2, stk2, e2).
Proof.
  intros v r h e H. cbn [cleanup]. destruct (Nat.ltb_spec h (length (v :: r))); [reflexivity|lia].
Qed.

Lemma call_close_some : forall v e, exists ev x, call_close v (Some e) = (ev, Some x).
Proof. intros [| |id [h|]|id] e; cbn; eauto. Qed.

Lemma cleanup_some : forall stk h e, exists x, snd (cleanup stk h (Some e)) = Some x.
Proof.
  induction stk as [|v r IH]; intros h e; cbn [cleanup]; [cbn; eauto|].
  destruct (Nat.ltb h (length (v :: r))); [|cbn; eauto].
  destruct (call_close_some v e) as (ev & x & E). rewrite E.
  destruct (IH h x) as [y Hy]. destruct (cleanup r h (Some x)) as [[ev2 stk2] e2]. cbn in *. eauto.
Qed.

(* cleaning to T and then to B <= T is cleaning to B *)
Lemma cleanup_split : forall stk T B e, B <= T ->
  cleanup stk B e =
  let '(c1, s1, e1) := cleanup stk T e in let '(c2, s2, e2) := cleanup s1 B e1 in (c1 ++ c2, s2, e2).
Proof.
  induction stk as [|v r IH]; intros T B e H.
  - reflexivity.
  - destruct (Nat.lt_ge_cases T (length (v :: r))) as [Hlt|Hge].
    + rewrite (cleanup_cons v r T e Hlt). rewrite (cleanup_cons v r B e ltac:(lia)).
      destruct (call_close v e) as [ev1 e1]. rewrite (IH T B e1 H).
      destruct (cleanup r T e1) as [[c1 s1] e1']. destruct (cleanup s1 B e1') as [[c2 s2] e2].
      rewrite app_assoc. reflexivity.
    + rewrite (cleanup_nothing (v :: r) T e Hge). destruct (cleanup (v :: r) B e) as [[c2 s2] e2]. reflexivity.
Qed.

Lemma cleanup_length : forall stk h e, length stk >= h -> length (snd (fst (cleanup stk h e))) = h.
Proof.
  induction stk as [|v r IH]; intros h e H.
  - cbn in *. lia.
  - destruct (Nat.lt_ge_cases h (length (v :: r))) as [Hlt|Hge].
    + rewrite (cleanup_cons v r h e Hlt). destruct (call_close v e) as [ev1 e1].
      specialize (IH h e1 ltac:(cbn in Hlt; lia)). destruct (cleanup r h e1) as [[c s] e2]. exact IH.
    + rewrite (cleanup_nothing _ _ _ Hge). cbn in *. lia.
Qed.

(* H2: calling __close on the top entry = the reference semantics' closing of
   the innermost enclosing variable *)
Lemma call_close_close_var : forall v o,
  call_close v (err_of o) = (fst (close_var v o), err_of (snd (close_var v o))).
Proof. intros [| |id [h|]|id] o; try reflexivity. destruct o; reflexivity. Qed.

Definition nonraising (v : tbcv) : bool := match v with VObj _ (Some _) => false | _ => true end.

Lemma call_close_nonraising : forall v e, nonraising v = true -> snd (call_close v e) = e.
Proof. intros [| |id [h|]|id] e H; try reflexivity. discriminate. Qed.

Lemma close_var_nonraising : forall v o, nonraising v = true -> snd (close_var v o) = o.
Proof. intros [| |id [h|]|id] o H; try reflexivity. discriminate. Qed.

(* ---------------------------------------------------------------- leaving through one variable *)
(* An exit (cltrunc t; ...) or (ret) executed with v on top of stk0, when the
   target is at or below stk0, first closes v and then behaves as from stk0. *)
Lemma exit_trunc_through : forall w base t k vs v stk0,
  stack vs = v :: stk0 -> base + t <= length stk0 -> nonraising v = true ->
  Reach w base (IClTrunc t :: k) vs (IClTrunc t :: k) (set_stack vs stk0) (fst (call_close v None)).
Proof.
  intros w base t k vs v stk0 Hs Ht Hv R [F HF]. exists F. intros F' Hle. specialize (HF F' Hle).
  destruct F' as [|F']; [discriminate|]. cbn [exec] in *. rewrite Hs.
  rewrite (cleanup_cons v stk0 (base + t) None ltac:(cbn; lia)).
  pose proof (call_close_nonraising v None Hv) as Hn.
  destruct (call_close v None) as [ev1 e1]. cbn in Hn. subst e1. cbn [stack set_stack fst] in *.
  destruct (cleanup stk0 (base + t) None) as [[ev2 stk2] e2]. destruct e2 as [x|].
  - inversion HF; subst. reflexivity.
  - cbn [set_stack vds vyc vlast] in *.
    destruct (exec F' w k base _) as [[[e o] s]|]; [|discriminate].
    cbn in HF. inversion HF; subst. cbn. rewrite app_assoc. reflexivity.
Qed.

Lemma exit_ret_through : forall w base k vs v stk0,
  stack vs = v :: stk0 -> base <= length stk0 -> nonraising v = true ->
  Reach w base (IRet :: k) vs (IRet :: k) (set_stack vs stk0) (fst (call_close v None)).
Proof.
  intros w base k vs v stk0 Hs Ht Hv R [F HF]. exists F. intros F' Hle. specialize (HF F' Hle).
  destruct F' as [|F']; [discriminate|]. cbn [exec] in *. rewrite Hs.
  rewrite (cleanup_cons v stk0 base None ltac:(cbn; lia)).
  pose proof (call_close_nonraising v None Hv) as Hn.
  destruct (call_close v None) as [ev1 e1]. cbn in Hn. subst e1. cbn [stack set_stack fst] in *.
  destruct (cleanup stk0 base None) as [[ev2 stk2] e2]. destruct e2 as [x|]; inversion HF; subst; reflexivity.
Qed.

(* with a raising handler on top the exit ends in an error after cleaning to its target *)
Lemma exit_trunc_raising : forall w base t k vs id h stk0,
  stack vs = VObj id (Some h) :: stk0 -> base + t <= length stk0 ->
  exists ev2 stk2 x,
    cleanup stk0 (base + t) (Some (EUser h)) = (ev2, stk2, Some x) /\
    Term w base (IClTrunc t :: k) vs ([EvClose id None; EvRaise (EUser h)] ++ ev2, VError x, set_stack vs stk2).
Proof.
  intros w base t k vs id h stk0 Hs Ht.
  destruct (cleanup_some stk0 (base + t) (EUser h)) as [x Hx].
  destruct (cleanup stk0 (base + t) (Some (EUser h))) as [[ev2 stk2] e2] eqn:E. cbn in Hx. subst e2.
  exists ev2, stk2, x. split; [reflexivity|].
  apply term_trunc_err. rewrite Hs. rewrite (cleanup_cons _ stk0 (base + t) None ltac:(cbn; lia)).
  cbn [call_close]. rewrite E. reflexivity.
Qed.

Lemma exit_ret_raising : forall w base k vs id h stk0,
  stack vs = VObj id (Some h) :: stk0 -> base <= length stk0 ->
  exists ev2 stk2 x,
    cleanup stk0 base (Some (EUser h)) = (ev2, stk2, Some x) /\
    Term w base (IRet :: k) vs ([EvClose id None; EvRaise (EUser h)] ++ ev2, VError x, set_stack vs stk2).
Proof.
  intros w base k vs id h stk0 Hs Ht.
  destruct (cleanup_some stk0 base (EUser h)) as [x Hx].
  destruct (cleanup stk0 base (Some (EUser h))) as [[ev2 stk2] e2] eqn:E. cbn in Hx. subst e2.
  exists ev2, stk2, x. split; [reflexivity|].
  pose proof (term_ret w base k vs) as T. rewrite Hs in T.
  rewrite (cleanup_cons _ stk0 base None ltac:(cbn; lia)) in T. cbn [call_close] in T. rewrite E in T.
  apply (T _ _ _ eq_refl).
Qed.

(* ---------------------------------------------------------------- calls *)
Lemma step_call_ret : forall w base c k vs ev s1,
  Term c (length (stack vs)) c vs (ev, VReturn, s1) ->
  Reach w base (ICall c :: k) vs k s1 ev.
Proof.
  intros w base c k vs ev s1 [F1 H1] R [F2 H2]. exists (S (max F1 F2)). intros F' Hle.
  destruct F' as [|F']; [lia|]. cbn [exec].
  rewrite (H1 F' ltac:(lia)). cbn [vbind]. rewrite (H2 F' ltac:(lia)). apply vprepend_done.
Qed.

Lemma term_call_abort : forall w base c k vs ev o s1,
  Term c (length (stack vs)) c vs (ev, o, s1) -> o <> VReturn ->
  Term w base (ICall c :: k) vs (ev, o, s1).
Proof.
  intros w base c k vs ev o s1 [F1 H1] Ho. exists (S F1). intros F' Hle.
  destruct F' as [|F']; [lia|]. cbn [exec]. rewrite (H1 F' ltac:(lia)). cbn [vbind].
  destruct o; try reflexivity. contradiction.
Qed.

Lemma term_tailcall : forall w base c k vs R,
  length (stack vs) <= base ->
  Term c (length (stack vs)) c vs R ->
  Term w base (ITailCall c :: k) vs R.
Proof.
  intros w base c k vs R Hl [F1 H1]. exists (S F1). intros F' Hle.
  destruct F' as [|F']; [lia|]. cbn [exec]. rewrite (cleanup_nothing _ _ _ Hl).
  assert (E : set_stack vs (stack vs) = vs) by (destruct vs; reflexivity). rewrite E.
  rewrite (H1 F' ltac:(lia)). destruct R as [[e o] s]. reflexivity.
Qed.

Lemma step_pcall : forall w base c k vs ev o s1 ev2 stk e,
  Term c (length (stack vs)) c vs (ev, o, s1) ->
  (o = VReturn \/ exists x, o = VError x) ->
  cleanup (stack s1) (length (stack vs)) (match o with VError x => Some x | _ => None end) = (ev2, stk, e) ->
  Reach w base (IPcall c :: k) vs k (set_stack s1 stk) (ev ++ ev2 ++ [EvPcall e]).
Proof.
  intros w base c k vs ev o s1 ev2 stk e [F1 H1] Ho Hc R [F2 H2]. exists (S (max F1 F2)). intros F' Hle.
  destruct F' as [|F']; [lia|]. cbn [exec].
  rewrite (H1 F' ltac:(lia)). cbn [vbind].
  destruct Ho as [-> | [x ->]]; rewrite Hc; rewrite (H2 F' ltac:(lia)); apply vprepend_done.
Qed.

Lemma term_pcall_closed : forall w base c k vs ev s1,
  Term c (length (stack vs)) c vs (ev, VClosed, s1) ->
  Term w base (IPcall c :: k) vs (ev, VClosed, s1).
Proof.
  intros w base c k vs ev s1 [F1 H1]. exists (S F1). intros F' Hle.
  destruct F' as [|F']; [lia|]. cbn [exec]. rewrite (H1 F' ltac:(lia)). reflexivity.
Qed.

Lemma step_coro : forall w base c j k vs ev o s1 ev2 stk e,
  Term c 0 c (mkV [] (vds vs) j (vlast vs)) (ev, o, s1) -> o <> VPanic ->
  cleanup (stack s1) 0 (match o with VError x => Some x | _ => None end) = (ev2, stk, e) ->
  Reach w base (ICoro c j :: k) vs k (mkV (stack vs) (vds s1) (vyc vs) (vlast s1)) (ev ++ ev2 ++ [EvCo e]).
Proof.
  intros w base c j k vs ev o s1 ev2 stk e [F1 H1] Ho Hc R [F2 H2]. exists (S (max F1 F2)). intros F' Hle.
  destruct F' as [|F']; [lia|]. cbn [exec].
  rewrite (H1 F' ltac:(lia)). cbn [vbind].
  destruct o; try contradiction; rewrite Hc; rewrite (H2 F' ltac:(lia)); apply vprepend_done.
Qed.

Lemma step_yield_go : forall w base k vs j, vyc vs = Some (S j) ->
  Reach w base (IYield :: k) vs k (mkV (stack vs) (vds vs) (Some j) (vlast vs)) [].
Proof. intros w base k vs j H. step_tac. rewrite H, pre3_nil. first [reflexivity | apply HF; lia]. Qed.

Lemma step_yield_none : forall w base k vs, vyc vs = None -> Reach w base (IYield :: k) vs k vs [].
Proof. intros w base k vs H. step_tac. rewrite H, pre3_nil. first [reflexivity | apply HF; lia]. Qed.

Lemma term_yield_closed : forall w base k vs, vyc vs = Some 0 -> Term w base (IYield :: k) vs ([], VClosed, vs).
Proof. intros w base k vs H. exists 1. intros F' Hle. destruct F'; [lia|]. cbn [exec]. rewrite H. reflexivity. Qed.

(* ---------------------------------------------------------------- labels *)
Definition lab_lt (c : code) (n : nat) : Prop := forall l, In (ILabel l) c -> l < n.
Definition lab_ge (c : code) (n : nat) : Prop := forall l, In (ILabel l) c -> n <= l.

Lemma after_label_skip : forall l a b, ~ In (ILabel l) a -> after_label l (a ++ b) = after_label l b.
Proof.
  induction a as [|i a IH]; intros b H; [reflexivity|].
  cbn [app after_label].
  assert (H' : ~ In (ILabel l) a) by (intro; apply H; right; assumption).
  destruct i; try (apply IH; assumption).
  destruct (Nat.eqb_spec l l0); [subst; exfalso; apply H; left; reflexivity|apply IH; assumption].
Qed.

Lemma after_label_here : forall l b, after_label l (ILabel l :: b) = Some b.
Proof. intros. cbn. rewrite Nat.eqb_refl. reflexivity. Qed.

Lemma lab_lt_app : forall a b n, lab_lt a n -> lab_lt b n -> lab_lt (a ++ b) n.
Proof. intros a b n Ha Hb l H. apply in_app_or in H as [H|H]; auto. Qed.
Lemma lab_ge_app : forall a b n, lab_ge a n -> lab_ge b n -> lab_ge (a ++ b) n.
Proof. intros a b n Ha Hb l H. apply in_app_or in H as [H|H]; auto. Qed.
Lemma lab_lt_mono : forall a n m, lab_lt a n -> n <= m -> lab_lt a m.
Proof. intros a n m H Hle l Hl. specialize (H l Hl). lia. Qed.
Lemma lab_ge_mono : forall a n m, lab_ge a n -> m <= n -> lab_ge a m.
Proof. intros a n m H Hle l Hl. specialize (H l Hl). lia. Qed.
