(* Close/FragA.v — what the compiler slice does on ARBITRARY skeleton programs
   (no fragment): getLabels / getBackLabels on shape lists, the block prologue,
   label numbers, where a label statement sits in the emitted code. *)
From Coq Require Import List Arith Bool Lia.
From GV Require Import Close.Skel Close.Compile Close.VMclose Close.VMLemmas Close.FragL.
Import ListNotations.

(* labels of a shape list that getLabels declares: those before the first local *)
Fixpoint flab (sh : list shape) : list nat :=
  match sh with
  | ShLabel l :: r => l :: flab r
  | ShLocal :: _ => []
  | ShOther :: r => flab r
  | [] => []
  end.

(* injectivity of label numbers: distinct visible names have distinct numbers *)
Definition ctx_inj (cx : ctx) : Prop :=
  forall a b x, get_label cx a = Some x -> get_label cx b = Some x -> a = b.

Lemma ctx_inj_push : forall cx, ctx_inj cx -> ctx_inj (push_ctx cx).
Proof. intros cx H a b x Ha Hb. cbn in Ha, Hb. eapply H; eassumption. Qed.

Lemma ctx_inj_add_height : forall cx, ctx_inj cx -> ctx_inj (add_height cx).
Proof. intros [|s r] H; [exact H|]. intros a b x Ha Hb. cbn in Ha, Hb. eapply H; cbn; eassumption. Qed.

Lemma ctx_inj_local : forall cx v, ctx_inj cx -> ctx_inj (local_ctx (push_ctx cx) v).
Proof. intros cx v H. destruct v; cbn [local_ctx]; try apply ctx_inj_add_height; apply ctx_inj_push; exact H. Qed.

Lemma ctx_inj_add_label : forall cx nm x n, cx <> [] -> ctx_inj cx -> ctx_lt cx n -> n <= x -> ctx_inj (add_label cx nm x).
Proof.
  intros cx nm x n Hne H Hlt Hx a b y Ha Hb.
  rewrite get_label_add in Ha, Hb by exact Hne.
  destruct (lname_eqb a nm) eqn:Ea, (lname_eqb b nm) eqn:Eb.
  - apply lname_eqb_eq in Ea, Eb. congruence.
  - inversion Ha; subst. pose proof (get_label_lt _ _ _ _ Hlt Hb). lia.
  - inversion Hb; subst. pose proof (get_label_lt _ _ _ _ Hlt Ha). lia.
  - eapply H; eassumption.
Qed.

Lemma ctx_inj_root : ctx_inj root_ctx.
Proof. intros a b x Ha. cbn in Ha. discriminate. Qed.

(* ---------------------------------------------------------------- getLabels on shape lists *)
Lemma glA_basic : forall sh cx n cx1 n1 bo, cx <> [] -> get_labels cx n sh = Some (cx1, n1, bo) ->
  n <= n1 /\ tl cx1 = tl cx /\ top_height cx1 = top_height cx /\ cx1 <> [].
Proof.
  induction sh as [|x sh IH]; intros cx n cx1 n1 bo Hne H; cbn [get_labels] in H.
  - inversion H; subst. auto.
  - destruct x.
    + unfold declare_unique in H. destruct (get_label cx (NUser l)); [discriminate|].
      destruct (IH _ _ _ _ _ (add_label_ne _ _ _ Hne) H) as (A & B & C & D).
      destruct cx as [|s r]; [contradiction|]. cbn in *. repeat split; try assumption. lia.
    + inversion H; subst. auto.
    + eapply IH; eassumption.
Qed.

Lemma glA_vis : forall l sh cx n cx1 n1 bo, cx <> [] ->
  get_label cx (NUser l) <> None -> get_labels cx n sh = Some (cx1, n1, bo) -> ~ In l (flab sh).
Proof.
  intros l. induction sh as [|x sh IH]; intros cx n cx1 n1 bo Hne Hv H; cbn [get_labels flab] in *; [intros []|].
  destruct x.
  - unfold declare_unique in H. destruct (get_label cx (NUser l0)) eqn:Eg; [discriminate|].
    intros [->|Hin]; [apply Hv; exact Eg|].
    revert Hin. eapply IH; [apply add_label_ne; exact Hne| |exact H].
    rewrite get_label_add by exact Hne. destruct (lname_eqb (NUser l) (NUser l0)); [discriminate|exact Hv].
  - intros [].
  - eapply IH; eassumption.
Qed.

Lemma glA_old : forall sh cx n cx1 n1 bo name, cx <> [] -> get_labels cx n sh = Some (cx1, n1, bo) ->
  (forall l, name = NUser l -> ~ In l (flab sh)) ->
  scope_label name (top_labels cx1) = scope_label name (top_labels cx).
Proof.
  induction sh as [|x sh IH]; intros cx n cx1 n1 bo name Hne H Hn; cbn [get_labels flab] in *.
  - inversion H; subst. reflexivity.
  - destruct x.
    + unfold declare_unique in H. destruct (get_label cx (NUser l)); [discriminate|].
      rewrite (IH _ _ _ _ _ name (add_label_ne _ _ _ Hne) H) by (intros l0 E Hin; apply (Hn l0 E); right; exact Hin).
      rewrite add_label_top by exact Hne. cbn [scope_label].
      destruct (lname_eqb name (NUser l)) eqn:E; [|reflexivity].
      apply lname_eqb_eq in E. exfalso. apply (Hn l E). left. reflexivity.
    + inversion H; subst. reflexivity.
    + eapply IH; eassumption.
Qed.

Lemma glA_new : forall sh cx n cx1 n1 bo l, cx <> [] -> get_labels cx n sh = Some (cx1, n1, bo) ->
  In l (flab sh) -> exists x, scope_label (NUser l) (top_labels cx1) = Some x /\ n <= x < n1.
Proof.
  induction sh as [|x sh IH]; intros cx n cx1 n1 bo l Hne H Hin; cbn [get_labels flab] in *; [destruct Hin|].
  destruct x.
  - unfold declare_unique in H. destruct (get_label cx (NUser l0)) eqn:Eg; [discriminate|].
    pose proof (add_label_ne cx (NUser l0) n Hne) as Hne'.
    destruct (glA_basic _ _ _ _ _ _ Hne' H) as (Hle & _).
    destruct Hin as [<-|Hin].
    + exists n. split; [|lia].
      rewrite (glA_old _ _ _ _ _ _ (NUser l0) Hne' H).
      * rewrite add_label_top by exact Hne. cbn. rewrite Nat.eqb_refl. reflexivity.
      * intros l1 E. inversion E; subst l1.
        eapply glA_vis; [exact Hne'| |exact H].
        rewrite get_label_add by exact Hne. rewrite lname_eqb_refl. discriminate.
    + destruct (IH _ _ _ _ _ l Hne' H Hin) as (y & Hy & Hr). exists y. split; [exact Hy|lia].
  - destruct Hin.
  - eapply IH; eassumption.
Qed.

(* visible names keep their resolution *)
Lemma glA_stable : forall sh cx n cx1 n1 bo name x, cx <> [] -> get_labels cx n sh = Some (cx1, n1, bo) ->
  get_label cx name = Some x -> get_label cx1 name = Some x.
Proof.
  induction sh as [|y sh IH]; intros cx n cx1 n1 bo name x Hne H Hg; cbn [get_labels] in H.
  - inversion H; subst. exact Hg.
  - destruct y.
    + unfold declare_unique in H. destruct (get_label cx (NUser l)) eqn:Eg; [discriminate|].
      eapply IH; [apply add_label_ne; exact Hne|exact H|].
      rewrite get_label_add by exact Hne. destruct (lname_eqb name (NUser l)) eqn:E; [|exact Hg].
      apply lname_eqb_eq in E. subst. congruence.
    + inversion H; subst. exact Hg.
    + eapply IH; eassumption.
Qed.

Lemma glA_ctx_lt : forall sh cx n cx1 n1 bo, cx <> [] -> ctx_lt cx n ->
  get_labels cx n sh = Some (cx1, n1, bo) -> ctx_lt cx1 n1.
Proof.
  induction sh as [|y sh IH]; intros cx n cx1 n1 bo Hne Hc H; cbn [get_labels] in H.
  - inversion H; subst. exact Hc.
  - destruct y.
    + unfold declare_unique in H. destruct (get_label cx (NUser l)); [discriminate|].
      eapply IH; [apply add_label_ne; exact Hne| |exact H].
      apply ctx_lt_add_label; [eapply ctx_lt_mono; [exact Hc|lia]|lia].
    + inversion H; subst. exact Hc.
    + eapply IH; eassumption.
Qed.

Lemma glA_ctx_inj : forall sh cx n cx1 n1 bo, cx <> [] -> ctx_lt cx n -> ctx_inj cx ->
  get_labels cx n sh = Some (cx1, n1, bo) -> ctx_inj cx1.
Proof.
  induction sh as [|y sh IH]; intros cx n cx1 n1 bo Hne Hc Hi H; cbn [get_labels] in H.
  - inversion H; subst. exact Hi.
  - destruct y.
    + unfold declare_unique in H. destruct (get_label cx (NUser l)); [discriminate|].
      eapply IH; [apply add_label_ne; exact Hne| | |exact H].
      * apply ctx_lt_add_label; [eapply ctx_lt_mono; [exact Hc|lia]|lia].
      * eapply ctx_inj_add_label; [exact Hne|exact Hi|exact Hc|lia].
    + inversion H; subst. exact Hi.
    + eapply IH; eassumption.
Qed.

(* a name that is not visible before and not declared stays invisible in the top scope; used through glA_old *)

(* ---------------------------------------------------------------- getBackLabels = getLabels on the leading labels *)
Fixpoint lead (sh : list shape) : list shape :=
  match sh with ShLabel l :: r => ShLabel l :: lead r | _ => [] end.

Lemma gb_as_gl : forall rsh cx n c,
  get_back_labels cx n rsh c =
  match get_labels cx n (lead rsh) with
  | Some (cx2, n2, _) => Some (cx2, n2, c + length (lead rsh))
  | None => None
  end.
Proof.
  induction rsh as [|x r IH]; intros cx n c; cbn [get_back_labels lead get_labels].
  - rewrite Nat.add_0_r. reflexivity.
  - destruct x; try (cbn [length]; rewrite Nat.add_0_r; reflexivity).
    simpl get_labels.
    destruct (declare_unique cx n l) as [[cx' n']|]; [|reflexivity].
    rewrite IH. destruct (get_labels cx' n' (lead r)) as [[[? ?] ?]|]; [|reflexivity].
    cbn [length]. f_equal. f_equal. lia.
Qed.

Lemma flab_lead : forall sh, flab (lead sh) = match sh with _ => flab (lead sh) end.
Proof. reflexivity. Qed.

Lemma lead_all_labels : forall sh x, In x (lead sh) -> exists l, x = ShLabel l.
Proof.
  induction sh as [|y r IH]; intros x H; [destruct H|]. destruct y; try destruct H.
  - subst. eauto.
  - apply IH. exact H.
Qed.

(* ---------------------------------------------------------------- the block prologue *)
(* back: the back labels are declared; tl = truncLen *)
Inductive prologue_spec (cx : ctx) (n : nat) (b : block) (complete fb : bool) (cx2 : ctx) (n2 tl : nat) : Prop :=
| PS_plain : forall bo, get_labels cx n (shapes b) = Some (cx2, n2, bo) -> tl = length (shapes b) ->
    prologue_spec cx n b complete fb cx2 n2 tl
| PS_back : forall cx1 n1 bo, get_labels cx n (shapes b) = Some (cx1, n1, false) ->
    get_labels cx1 n1 (lead (rev (shapes b))) = Some (cx2, n2, bo) ->
    tl = length (shapes b) - length (lead (rev (shapes b))) ->
    complete = true -> fb = false -> has_ret b = false ->
    prologue_spec cx n b complete fb cx2 n2 tl.

Lemma prologue_inv : forall cx n b complete fb cx2 n2 tl,
  block_prologue cx n b complete fb = Some (cx2, n2, tl) -> prologue_spec cx n b complete fb cx2 n2 tl.
Proof.
  intros cx n b complete fb cx2 n2 tl H. unfold block_prologue in H.
  destruct (get_labels cx n (shapes b)) as [[[cx1 n1] bo]|] eqn:E; [|discriminate].
  destruct (complete && negb bo && negb (has_ret b || fb)) eqn:Ec.
  - rewrite gb_as_gl in H.
    destruct (get_labels cx1 n1 (lead (rev (shapes b)))) as [[[c' n'] bo']|] eqn:E2; [|discriminate].
    inversion H; subst. clear H.
    apply andb_true_iff in Ec as [Ec Ec3]. apply andb_true_iff in Ec as [Ec1 Ec2].
    destruct bo; [discriminate|]. apply negb_true_iff in Ec3. apply orb_false_iff in Ec3 as [A B].
    eapply PS_back; eauto.
  - inversion H; subst. eapply PS_plain; eauto.
Qed.

(* ---------------------------------------------------------------- equations *)
Definition bin (cx : ctx) (n : nat) (b : block) (complete fb : bool) (ec : code) : option (code * nat) :=
  match block_prologue cx n b complete fb with
  | Some (cx', n', tl) => compile_stats cx' n' tl fb ec b
  | None => None
  end.

Lemma compile_funA : forall b, compile_fun b = obind (bin root_ctx 0 b true true []) (fun '(c, _) => Some c).
Proof. intros. unfold compile_fun, bin. destruct (block_prologue _ _ _ _ _) as [[[? ?] ?]|]; reflexivity. Qed.

Lemma compile_doA : forall cx n b,
  compile_stmt cx n (SDo b) =
  obind (bin (push_ctx cx) n b true false []) (fun '(c, n') => Some (c ++ pop_code (push_ctx cx), n')).
Proof. intros. cbn [compile_stmt]. unfold bin. destruct (block_prologue _ _ _ _ _) as [[[? ?] ?]|]; reflexivity. Qed.

Lemma compile_whileA : forall cx n b,
  compile_stmt cx n (SLoop LWhile b) =
  let cx2 := add_label (push_ctx cx) NBreak n in
  obind (bin (push_ctx cx2) (n + 2) b true false []) (fun '(c, n') =>
    Some ([ILabel (n + 1); IJumpIf n true false] ++ (c ++ pop_code (push_ctx cx2))
          ++ [IJump (n + 1); ILabel n] ++ pop_code cx2, n')).
Proof.
  intros. cbn [compile_stmt]. unfold bin. destruct (block_prologue _ _ _ _ _) as [[[? ?] ?]|]; [|reflexivity].
  cbn [obind]. destruct (compile_stats _ _ _ _ _ b) as [[? ?]|]; reflexivity.
Qed.

Lemma compile_repeatA : forall cx n b,
  compile_stmt cx n (SLoop LRepeat b) =
  let cx2 := add_label (push_ctx cx) NBreak n in
  obind (bin cx2 (n + 2) b false false [ICond]) (fun '(c, n') =>
    Some ([ILabel (n + 1)] ++ c ++ [IJumpLast (n + 1) false; ILabel n] ++ pop_code cx2, n')).
Proof.
  intros. cbn [compile_stmt]. unfold bin. destruct (block_prologue _ _ _ _ _) as [[[? ?] ?]|]; [|reflexivity].
  cbn [obind]. destruct (compile_stats _ _ _ _ _ b) as [[? ?]|]; reflexivity.
Qed.

Lemma compile_forinA : forall cx n v b,
  compile_stmt cx n (SLoop (LForIn v) b) =
  let cx3 := add_label (add_height (push_ctx cx)) NBreak (n + 1) in
  obind (bin cx3 (n + 2) b true false []) (fun '(c, n') =>
    Some (open_code v ++ [IClPush (forin_val v); ILabel n; IJumpIf (n + 1) false false] ++ c
          ++ [IJump n; ILabel (n + 1)] ++ pop_code cx3, n')).
Proof.
  intros. cbn [compile_stmt]. unfold bin. destruct (block_prologue _ _ _ _ _) as [[[? ?] ?]|]; [|reflexivity].
  cbn [obind]. destruct (compile_stats _ _ _ _ _ b) as [[? ?]|]; reflexivity.
Qed.

Lemma compile_ifA : forall cx n b,
  compile_stmt cx n (SIf b) =
  obind (bin (push_ctx cx) (n + 2) b true false []) (fun '(c, n') =>
    Some ([IJumpIf (n + 1) true false] ++ (c ++ pop_code (push_ctx cx)) ++ [ILabel (n + 1); ILabel n], n')).
Proof.
  intros. cbn [compile_stmt]. unfold bin. destruct (block_prologue _ _ _ _ _) as [[[? ?] ?]|]; [|reflexivity].
  cbn [obind]. destruct (compile_stats _ _ _ _ _ b) as [[? ?]|]; reflexivity.
Qed.

(* the local statement, unfolded *)
Lemma compile_localA : forall cx n tl fb ec v rest,
  compile_stats cx n tl fb ec (BCons (SLocal v) rest) =
  obind (get_labels (push_ctx cx) n (firstn (pred tl) (shapes rest))) (fun '(cx2, n2, _) =>
    obind (compile_stats (local_ctx cx2 v) n2 (pred tl) fb ec rest) (fun '(c, n3) =>
      Some (local_code v ++ c ++ pop_code (local_ctx cx2 v), n3))).
Proof. reflexivity. Qed.

Lemma compile_nonlocalA : forall cx n tl fb ec t rest, is_local t = false ->
  compile_stats cx n tl fb ec (BCons t rest) =
  obind (compile_stmt cx n t) (fun '(c1, n1) =>
    obind (compile_stats cx n1 (pred tl) fb ec rest) (fun '(c2, n2) => Some (c1 ++ c2, n2))).
Proof. intros. destruct t; try reflexivity. discriminate. Qed.

(* ---------------------------------------------------------------- shapes of a prefix decomposition *)
Lemma shapes_bapp : forall a b, shapes (bapp a b) = map shape_of a ++ shapes b.
Proof. induction a; intros; cbn; [reflexivity|rewrite IHa; reflexivity]. Qed.

Lemma flab_app_nolocal : forall a sh, nolocal a -> flab (map shape_of a ++ sh) = flab (map shape_of a) ++ flab sh.
Proof.
  induction a as [|t a IH]; intros sh Hn; [reflexivity|].
  assert (Ht : is_local t = false) by (apply Hn; left; reflexivity).
  assert (Hn' : nolocal a) by (intros x Hx; apply Hn; right; exact Hx).
  cbn [map app]. destruct t; try discriminate; cbn [shape_of flab]; rewrite IH by exact Hn'; reflexivity.
Qed.

Lemma flab_firstn_here : forall a l b' k, nolocal a -> length a < k ->
  In l (flab (firstn k (shapes (bapp a (BCons (SLabel l) b'))))).
Proof.
  induction a as [|t a IH]; intros l b' k Hn Hk.
  - destruct k; [lia|]. cbn. left. reflexivity.
  - assert (Ht : is_local t = false) by (apply Hn; left; reflexivity).
    assert (Hn' : nolocal a) by (intros x Hx; apply Hn; right; exact Hx).
    destruct k; [cbn in Hk; lia|]. cbn [bapp shapes firstn].
    cbn in Hk. specialize (IH l b' k Hn' ltac:(lia)).
    destruct t; try discriminate; cbn [shape_of flab]; try exact IH. right. exact IH.
Qed.

(* ---------------------------------------------------------------- a visible name is not a label of a nested scope *)
Lemma deeper_not_visible : forall a' l b' cx n tl fb ec c n', cx <> [] ->
  compile_stats cx n tl fb ec (bapp a' (BCons (SLabel l) b')) = Some (c, n') ->
  ~ nolocal a' -> length a' < tl -> get_label cx (NUser l) <> None -> False.
Proof.
  induction a' as [|t a IH]; intros l b' cx n tl fb ec c n' Hne H Hnl Hlen Hv.
  - apply Hnl. intros x [].
  - cbn [bapp] in H. cbn [length] in Hlen.
    destruct (is_local t) eqn:Et.
    + destruct t; try discriminate. rewrite compile_localA in H.
      destruct (get_labels (push_ctx cx) n (firstn (pred tl) (shapes (bapp a (BCons (SLabel l) b'))))) as [[[cx2 n2] bo]|] eqn:E;
        [|discriminate]. cbn [obind] in H.
      destruct (compile_stats (local_ctx cx2 v) n2 (pred tl) fb ec _) as [[c0 n0]|] eqn:E2; [|discriminate].
      assert (Hv1 : get_label (push_ctx cx) (NUser l) <> None) by exact Hv.
      assert (DEC : {nolocal a} + {~ nolocal a}).
      { clear. induction a as [|x a IHa]; [left; intros y []|].
        destruct (is_local x) eqn:Ex.
        - right. intro Hq. specialize (Hq x (or_introl eq_refl)). congruence.
        - destruct IHa as [Hy|Hn]; [left|right].
          + intros y [<-|Hy']; [exact Ex|apply Hy; exact Hy'].
          + intro Hq. apply Hn. intros y Hy. apply Hq. right. exact Hy. }
      destruct DEC as [Hna|Hna].
      * (* l would be declared by this getLabels although visible *)
        eapply (glA_vis l); [apply push_ctx_ne|exact Hv1|exact E|].
        apply flab_firstn_here; [exact Hna|lia].
      * destruct (get_label (push_ctx cx) (NUser l)) as [x|] eqn:Eg; [|contradiction].
        pose proof (glA_stable _ _ _ _ _ _ _ _ (push_ctx_ne cx) E Eg) as Hs.
        destruct (glA_basic _ _ _ _ _ _ (push_ctx_ne cx) E) as (_ & _ & _ & Hne2).
        eapply (IH l b' (local_ctx cx2 v) n2 (pred tl)); [|exact E2|exact Hna|lia|].
        -- destruct v, cx2; try contradiction; discriminate.
        -- destruct v; cbn [local_ctx]; try (rewrite Hs; discriminate);
             destruct cx2 as [|s r]; try contradiction; cbn in *; rewrite Hs; discriminate.
    + rewrite (compile_nonlocalA _ _ _ _ _ _ _ Et) in H.
      destruct (compile_stmt cx n t) as [[c1 n1]|]; [|discriminate]. cbn [obind] in H.
      destruct (compile_stats cx n1 (pred tl) fb ec _) as [[c2 n2]|] eqn:E2; [|discriminate].
      eapply (IH l b' cx n1 (pred tl)); [exact Hne|exact E2| |lia|exact Hv].
      intro Hq. apply Hnl. intros x [<-|Hx]; [exact Et|apply Hq; exact Hx].
Qed.

Lemma nolocal_dec : forall a, {nolocal a} + {~ nolocal a}.
Proof.
  induction a as [|x a IHa]; [left; intros y []|].
  destruct (is_local x) eqn:Ex.
  - right. intro Hq. specialize (Hq x (or_introl eq_refl)). congruence.
  - destruct IHa as [Hy|Hn]; [left|right].
    + intros y [<-|Hy']; [exact Ex|apply Hy; exact Hy'].
    + intro Hq. apply Hn. intros y Hy. apply Hq. right. exact Hy.
Qed.

(* ---------------------------------------------------------------- the back-label zone *)
Lemma lead_rev_split : forall sh, sh = firstn (length sh - length (lead (rev sh))) sh ++ rev (lead (rev sh)).
Proof.
  induction sh as [|x s IH] using rev_ind; [reflexivity|].
  rewrite rev_app_distr. cbn [rev app]. rewrite app_length. cbn [length].
  destruct x; cbn [lead]; try (cbn [length rev app]; rewrite Nat.sub_0_r, app_nil_r;
                                rewrite <- (app_length s [_]) || idtac).
  - cbn [length rev]. replace (length s + 1 - S (length (lead (rev s)))) with (length s - length (lead (rev s))) by lia.
    rewrite firstn_app. replace (length s - length (lead (rev s)) - length s) with 0 by lia.
    cbn [firstn]. rewrite app_nil_r. rewrite app_assoc. rewrite <- IH. reflexivity.
  - replace (length s + 1) with (length (s ++ [ShLocal])) by (rewrite app_length; reflexivity).
    rewrite firstn_all. reflexivity.
  - replace (length s + 1) with (length (s ++ [ShOther])) by (rewrite app_length; reflexivity).
    rewrite firstn_all. reflexivity.
Qed.

Lemma app_split_ge : forall (A : Type) (P A0 B R : list A) (y : A),
  A0 ++ y :: B = P ++ R -> length P <= length A0 -> exists R1, R = R1 ++ y :: B.
Proof.
  intros A P. induction P as [|p P IH]; intros A0 B R y H Hl.
  - cbn in H. exists A0. symmetry. exact H.
  - destruct A0 as [|a A0]; [cbn in Hl; lia|]. cbn in H. inversion H; subst.
    eapply IH; [eassumption|cbn in Hl; lia].
Qed.

Fixpoint lblnil (b : block) : Prop :=
  match b with BNil => True | BCons (SLabel _) r => lblnil r | _ => False end.

Lemma has_ret_bapp : forall a b, has_ret (bapp a b) = has_ret b.
Proof. induction a; intros; cbn; [reflexivity|apply IHa]. Qed.

Lemma lblnil_of_shapes : forall b, (forall x, In x (shapes b) -> exists l, x = ShLabel l) -> has_ret b = false -> lblnil b.
Proof.
  induction b as [|r|t b IH] using block_ind; intros H Hr; [exact I|discriminate|].
  cbn [shapes] in H. destruct (H (shape_of t) (or_introl eq_refl)) as [l El].
  destruct t; try discriminate. cbn. apply IH; [intros x Hx; apply H; right; exact Hx|exact Hr].
Qed.

(* VZ tl b backs: the statements of b from position tl on are labels, all in backs, and b then ends *)
Definition VZ (tl : nat) (b : block) (backs : list nat) : Prop :=
  forall a' t b', b = bapp a' (BCons t b') -> tl <= length a' -> (exists l, t = SLabel l /\ In l backs) /\ lblnil b'.

Lemma VZ_full : forall b backs, VZ (length (shapes b)) b backs.
Proof.
  intros b backs a' t b' E Hl. exfalso. rewrite E in Hl. rewrite shapes_bapp, app_length, map_length in Hl. cbn in Hl. lia.
Qed.

Lemma flab_all_labels : forall sh l, (forall x, In x sh -> exists l0, x = ShLabel l0) -> In (ShLabel l) sh -> In l (flab sh).
Proof.
  induction sh as [|y r IH]; intros l H Hin; [destruct Hin|].
  destruct (H y (or_introl eq_refl)) as [l0 ->]. cbn [flab].
  destruct Hin as [Hq|Hin]; [inversion Hq; left; reflexivity|right; apply IH; [intros x Hx; apply H; right; exact Hx|exact Hin]].
Qed.

Lemma VZ_back : forall b, has_ret b = false ->
  VZ (length (shapes b) - length (lead (rev (shapes b)))) b (flab (lead (rev (shapes b)))).
Proof.
  intros b Hr a' t b' E Hl.
  pose proof (lead_rev_split (shapes b)) as S.
  assert (Es : shapes b = map shape_of a' ++ shape_of t :: shapes b') by (rewrite E, shapes_bapp; reflexivity).
  rewrite Es in S at 1.
  assert (Hlen : length (firstn (length (shapes b) - length (lead (rev (shapes b)))) (shapes b)) <= length (map shape_of a')).
  { rewrite firstn_length, map_length. lia. }
  destruct (app_split_ge _ _ _ _ _ _ S Hlen) as [R1 HR].
  assert (ALL : forall x, In x (rev (lead (rev (shapes b)))) -> exists l, x = ShLabel l).
  { intros x Hx. apply in_rev in Hx. eapply lead_all_labels. exact Hx. }
  assert (Ht : In (shape_of t) (rev (lead (rev (shapes b))))) by (rewrite HR; apply in_or_app; right; left; reflexivity).
  destruct (ALL _ Ht) as [l El]. split.
  - exists l. split; [destruct t; try discriminate; inversion El; reflexivity|].
    apply flab_all_labels; [intros x Hx; eapply lead_all_labels; exact Hx|].
    apply in_rev. rewrite <- El. exact Ht.
  - apply lblnil_of_shapes.
    + intros x Hx. apply ALL. rewrite HR. apply in_or_app. right. right. exact Hx.
    + rewrite E, has_ret_bapp in Hr. exact Hr.
Qed.

Lemma VZ_tail_nonlocal : forall tl t rest backs, VZ tl (BCons t rest) backs -> VZ (pred tl) rest backs.
Proof.
  intros tl t rest backs H a' t' b' E Hl. apply (H (t :: a') t' b'); [cbn; rewrite E; reflexivity|cbn; lia].
Qed.

Lemma VZ_suffix : forall a tl W cur backs, W = bapp a cur -> VZ tl W backs -> VZ (tl - length a) cur backs.
Proof.
  intros a tl W cur backs E H a' t b' E' Hl. apply (H (a ++ a') t b').
  - rewrite E, E', bapp_app. reflexivity.
  - rewrite app_length. lia.
Qed.

(* ---------------------------------------------------------------- label numbers *)
Fixpoint stmts (b : block) : list stmt := match b with BCons t r => t :: stmts r | _ => [] end.

Lemma stmts_split : forall b t, In t (stmts b) -> exists a' b', b = bapp a' (BCons t b').
Proof.
  induction b as [|r|t0 b IH] using block_ind; intros t H; try destruct H.
  - subst. exists [], b. reflexivity.
  - destruct (IH t H) as (a' & b' & ->). exists (t0 :: a'), b'. reflexivity.
Qed.

Definition labs_okA (cx : ctx) (b : block) (c : code) (n n' : nat) : Prop :=
  n <= n' /\ forall x, In (ILabel x) c ->
     n <= x < n' \/ exists l, In (SLabel l) (stmts b) /\ get_label cx (NUser l) = Some x.

Lemma local_ctx_get_label : forall cx2 v name, get_label (local_ctx cx2 v) name = get_label cx2 name.
Proof. intros [|s r] v name; destruct v; reflexivity. Qed.

Lemma local_ctx_ne2 : forall cx2 v, cx2 <> [] -> local_ctx cx2 v <> [].
Proof. intros [|s r] v H; [contradiction|]. destruct v; discriminate. Qed.

Lemma local_ctx_top_height : forall cx2 v, cx2 <> [] ->
  top_height (local_ctx cx2 v) = match v with VPlain => top_height cx2 | _ => S (top_height cx2) end.
Proof. intros [|s r] v H; [contradiction|]. destruct v; reflexivity. Qed.

Lemma local_ctx_tl : forall cx2 v, tl (local_ctx cx2 v) = tl cx2.
Proof. intros [|s r] v; destruct v; reflexivity. Qed.

Lemma flab_here : forall a l b', nolocal a -> In l (flab (shapes (bapp a (BCons (SLabel l) b')))).
Proof.
  intros a l b' Hn.
  pose proof (flab_firstn_here a l b' (length (shapes (bapp a (BCons (SLabel l) b')))) Hn) as H.
  rewrite firstn_all in H. apply H. rewrite shapes_bapp, app_length, map_length. cbn. lia.
Qed.

(* a label statement of a block that is visible after the prologue was declared by the prologue *)
Lemma prologue_labels : forall b cx n complete fb cx2 n2 tl fb' ec c0 n0 l x,
  cx <> [] -> prologue_spec cx n b complete fb cx2 n2 tl ->
  compile_stats cx2 n2 tl fb' ec b = Some (c0, n0) ->
  In (SLabel l) (stmts b) -> get_label cx2 (NUser l) = Some x ->
  cx2 <> [] /\ n <= n2 /\ n <= x < n2.
Proof.
  intros b cx n complete fb cx2 n2 tl fb' ec c0 n0 l x Hne Ep H Hin Hg.
  destruct (stmts_split b _ Hin) as (a' & b' & Eb).
  assert (Hlen : length a' < length (shapes b)).
  { rewrite Eb, shapes_bapp, app_length, map_length. cbn. lia. }
  destruct Ep as [bo E ->|cx1 n1 bo E1 E2 -> _ _ Hr].
  - destruct (glA_basic _ _ _ _ _ _ Hne E) as (Hle & _ & _ & Hne2).
    split; [exact Hne2|]. split; [exact Hle|].
    destruct (nolocal_dec a') as [Hn|Hn].
    + assert (Hf : In l (flab (shapes b))) by (rewrite Eb; apply flab_here; exact Hn).
      destruct (glA_new _ _ _ _ _ _ l Hne E Hf) as (x' & Hx' & Hr).
      rewrite (get_label_top _ _ _ Hne2 Hx') in Hg. inversion Hg; subst. exact Hr.
    + exfalso. revert H Hlen. rewrite Eb. intros H Hlen.
      eapply deeper_not_visible; [exact Hne2|exact H|exact Hn|exact Hlen|]. rewrite Hg. discriminate.
  - destruct (glA_basic _ _ _ _ _ _ Hne E1) as (Hle1 & _ & _ & Hne1).
    destruct (glA_basic _ _ _ _ _ _ Hne1 E2) as (Hle2 & _ & _ & Hne2).
    split; [exact Hne2|]. split; [lia|].
    destruct (Nat.lt_ge_cases (length a') (length (shapes b) - length (lead (rev (shapes b))))) as [Hlt|Hge].
    + destruct (nolocal_dec a') as [Hn|Hn].
      * assert (Hf : In l (flab (shapes b))) by (rewrite Eb; apply flab_here; exact Hn).
        destruct (glA_new _ _ _ _ _ _ l Hne E1 Hf) as (x' & Hx' & Hr').
        pose proof (glA_stable _ _ _ _ _ _ _ _ Hne1 E2 (get_label_top _ _ _ Hne1 Hx')) as Hs.
        rewrite Hs in Hg. inversion Hg; subst. lia.
      * exfalso. revert H Hlt. rewrite Eb. intros H Hlt.
        eapply deeper_not_visible; [exact Hne2|exact H|exact Hn|exact Hlt|]. rewrite Hg. discriminate.
    + destruct (VZ_back b Hr a' (SLabel l) b' Eb Hge) as ((l0 & El & Hb) & _). inversion El; subst l0.
      destruct (glA_new _ _ _ _ _ _ l Hne1 E2 Hb) as (x' & Hx' & Hr').
      rewrite (get_label_top _ _ _ Hne2 Hx') in Hg. inversion Hg; subst. lia.
Qed.

(* a block compiled through its prologue: every label of its code is allocated inside *)
Lemma bin_rng : forall b cx n complete fb ec c0 n0,
  (forall cx n tl fb ec c n', cx <> [] -> (forall l, ~ In (ILabel l) ec) ->
     compile_stats cx n tl fb ec b = Some (c, n') -> labs_okA cx b c n n') ->
  cx <> [] -> (forall l, ~ In (ILabel l) ec) ->
  bin cx n b complete fb ec = Some (c0, n0) -> rng c0 n n0.
Proof.
  intros b cx n complete fb ec c0 n0 IH Hne Hec H. unfold bin in H.
  destruct (block_prologue cx n b complete fb) as [[[cx2 n2] tl]|] eqn:Ep; [|discriminate].
  apply prologue_inv in Ep.
  assert (Hne2 : cx2 <> [] /\ n <= n2).
  { destruct Ep as [bo E ->|cx1 n1 bo E1 E2 -> _ _ Hr].
    - destruct (glA_basic _ _ _ _ _ _ Hne E) as (Hle & _ & _ & Hn2). auto.
    - destruct (glA_basic _ _ _ _ _ _ Hne E1) as (Hle1 & _ & _ & Hne1).
      destruct (glA_basic _ _ _ _ _ _ Hne1 E2) as (Hle2 & _ & _ & Hn2). split; [exact Hn2|lia]. }
  destruct Hne2 as [Hne2 Hle].
  destruct (IH _ _ _ _ _ _ _ Hne2 Hec H) as (Hle2 & Hl).
  split; [lia|]. split; intros x Hx; destruct (Hl x Hx) as [Hr|(l & Hin & Hg)]; try lia;
    destruct (prologue_labels _ _ _ _ _ _ _ _ _ _ _ _ _ _ Hne Ep H Hin Hg) as (_ & _ & Hr); lia.
Qed.

Lemma labs_okA_rng : forall cx b c n n', rng c n n' -> labs_okA cx b c n n'.
Proof. intros cx b c n n' (H1 & H2 & H3). split; [exact H1|]. intros x Hx. left. split; [apply H2|apply H3]; exact Hx. Qed.

Lemma compile_labsA :
  (forall t, forall cx n c n', cx <> [] -> (forall l, t <> SLabel l) ->
     compile_stmt cx n t = Some (c, n') -> rng c n n') /\
  (forall b, forall cx n tl fb ec c n', cx <> [] -> (forall l, ~ In (ILabel l) ec) ->
     compile_stats cx n tl fb ec b = Some (c, n') -> labs_okA cx b c n n') /\
  (forall r : ret, True).
Proof.
  assert (NOEC : forall l, ~ In (ILabel l) (@nil instr)) by (intros l []).
  assert (NOCOND : forall l, ~ In (ILabel l) [ICond]) by (intros l [H|[]]; discriminate).
  apply skel_mutind; try (intros; exact I).
  - intros v cx n c n' _ _ H. discriminate.
  - (* SDo *) intros b IH cx n c n' Hne _ H. rewrite compile_doA in H.
    destruct (bin (push_ctx cx) n b true false []) as [[c0 n0]|] eqn:E; [|discriminate]. cbn [obind] in H.
    rewrite pop_code_push, app_nil_r in H. inversion H; subst.
    exact (bin_rng b _ _ _ _ _ _ _ IH (push_ctx_ne cx) NOEC E).
  - (* SLoop *) intros k b IH cx n c n' Hne _ H. destruct k as [| |v].
    + rewrite compile_whileA in H. cbv zeta in H.
      destruct (bin _ (n + 2) b true false []) as [[c0 n0]|] eqn:E; [|discriminate]. cbn [obind] in H.
      rewrite pop_code_push, app_nil_r in H. inversion H; subst.
      destruct (bin_rng b _ _ _ _ _ _ _ IH (push_ctx_ne _) NOEC E) as (H1 & H2 & H3).
      split; [lia|]. split.
      * intros l Hl. cbn in Hl. destruct Hl as [Hl|[Hl|Hl]]; [inversion Hl; lia|discriminate|].
        apply in_app_or in Hl as [Hl|Hl]; [specialize (H2 l Hl); lia|].
        cbn in Hl. destruct Hl as [Hl|[Hl|Hl]]; [discriminate|inversion Hl; lia|].
        exfalso. first [eapply pop_code_nolab; exact Hl | eapply emit_truncate_nolab; exact Hl].
      * intros l Hl. cbn in Hl. destruct Hl as [Hl|[Hl|Hl]]; [inversion Hl; lia|discriminate|].
        apply in_app_or in Hl as [Hl|Hl]; [apply (H3 l Hl)|].
        cbn in Hl. destruct Hl as [Hl|[Hl|Hl]]; [discriminate|inversion Hl; lia|].
        exfalso. first [eapply pop_code_nolab; exact Hl | eapply emit_truncate_nolab; exact Hl].
    + rewrite compile_repeatA in H. cbv zeta in H.
      destruct (bin _ (n + 2) b false false [ICond]) as [[c0 n0]|] eqn:E; [|discriminate]. cbn [obind] in H.
      inversion H; subst.
      destruct (bin_rng b _ _ _ _ _ _ _ IH (add_label_ne _ _ _ (push_ctx_ne _)) NOCOND E) as (H1 & H2 & H3).
      split; [lia|]. split.
      * intros l Hl. cbn in Hl. destruct Hl as [Hl|Hl]; [inversion Hl; lia|].
        apply in_app_or in Hl as [Hl|Hl]; [specialize (H2 l Hl); lia|].
        cbn in Hl. destruct Hl as [Hl|[Hl|Hl]]; [discriminate|inversion Hl; lia|].
        exfalso. first [eapply pop_code_nolab; exact Hl | eapply emit_truncate_nolab; exact Hl].
      * intros l Hl. cbn in Hl. destruct Hl as [Hl|Hl]; [inversion Hl; lia|].
        apply in_app_or in Hl as [Hl|Hl]; [apply (H3 l Hl)|].
        cbn in Hl. destruct Hl as [Hl|[Hl|Hl]]; [discriminate|inversion Hl; lia|].
        exfalso. first [eapply pop_code_nolab; exact Hl | eapply emit_truncate_nolab; exact Hl].
    + rewrite compile_forinA in H. cbv zeta in H.
      destruct (bin _ (n + 2) b true false []) as [[c0 n0]|] eqn:E; [|discriminate]. cbn [obind] in H.
      inversion H; subst.
      destruct (bin_rng b _ _ _ _ _ _ _ IH (add_label_ne (add_height (push_ctx cx)) NBreak (n + 1) ltac:(discriminate)) NOEC E) as (H1 & H2 & H3).
      split; [lia|]. split.
      * intros l Hl. apply in_app_or in Hl as [Hl|Hl].
        { exfalso. destruct v; cbn in Hl; repeat (destruct Hl as [Hl|Hl]; [discriminate|]); destruct Hl. }
        cbn in Hl. destruct Hl as [Hl|[Hl|[Hl|Hl]]]; [discriminate|inversion Hl; lia|discriminate|].
        apply in_app_or in Hl as [Hl|Hl]; [specialize (H2 l Hl); lia|].
        cbn in Hl. destruct Hl as [Hl|[Hl|Hl]]; [discriminate|inversion Hl; lia|].
        exfalso. first [eapply pop_code_nolab; exact Hl | eapply emit_truncate_nolab; exact Hl].
      * intros l Hl. apply in_app_or in Hl as [Hl|Hl].
        { exfalso. destruct v; cbn in Hl; repeat (destruct Hl as [Hl|Hl]; [discriminate|]); destruct Hl. }
        cbn in Hl. destruct Hl as [Hl|[Hl|[Hl|Hl]]]; [discriminate|inversion Hl; lia|discriminate|].
        apply in_app_or in Hl as [Hl|Hl]; [apply (H3 l Hl)|].
        cbn in Hl. destruct Hl as [Hl|[Hl|Hl]]; [discriminate|inversion Hl; lia|].
        exfalso. first [eapply pop_code_nolab; exact Hl | eapply emit_truncate_nolab; exact Hl].
  - (* SIf *) intros b IH cx n c n' Hne _ H. rewrite compile_ifA in H.
    destruct (bin (push_ctx cx) (n + 2) b true false []) as [[c0 n0]|] eqn:E; [|discriminate]. cbn [obind] in H.
    rewrite pop_code_push, app_nil_r in H. inversion H; subst.
    destruct (bin_rng b _ _ _ _ _ _ _ IH (push_ctx_ne _) NOEC E) as (H1 & H2 & H3).
    split; [lia|]. split.
    + intros l Hl. cbn in Hl. destruct Hl as [Hl|Hl]; [discriminate|].
      apply in_app_or in Hl as [Hl|Hl]; [specialize (H2 l Hl); lia|].
      cbn in Hl. destruct Hl as [Hl|[Hl|Hl]]; [inversion Hl; lia|inversion Hl; lia|destruct Hl].
    + intros l Hl. cbn in Hl. destruct Hl as [Hl|Hl]; [discriminate|].
      apply in_app_or in Hl as [Hl|Hl]; [apply (H3 l Hl)|].
      cbn in Hl. destruct Hl as [Hl|[Hl|Hl]]; [inversion Hl; lia|inversion Hl; lia|destruct Hl].
  - (* SBreak *) intros cx n c n' _ _ H. cbn [compile_stmt] in H. unfold emit_jump in H.
    rewrite emit_jump_from_target in H. destruct (jump_target cx NBreak) as [[l h]|]; [|discriminate].
    cbn in H. inversion H; subst. apply rng_nolab. intros l0 Hl. apply in_app_or in Hl as [Hl|Hl].
    + eapply emit_truncate_nolab. exact Hl.
    + destruct Hl as [Hl|[]]. discriminate.
  - (* SGoto *) intros g cx n c n' _ _ H. cbn [compile_stmt] in H. unfold emit_jump in H.
    rewrite emit_jump_from_target in H. destruct (jump_target cx (NUser g)) as [[l h]|]; [|discriminate].
    cbn in H. inversion H; subst. apply rng_nolab. intros l0 Hl. apply in_app_or in Hl as [Hl|Hl].
    + eapply emit_truncate_nolab. exact Hl.
    + destruct Hl as [Hl|[]]. discriminate.
  - (* SLabel *) intros l cx n c n' _ Hn H. exfalso. eapply Hn. reflexivity.
  - intros m cx n c n' _ _ H. inversion H; subst. apply rng_nolab. nolab.
  - intros b IH cx n c n' _ _ H. rewrite compile_call_eq in H.
    destruct (compile_fun b); [|discriminate]. inversion H; subst. apply rng_nolab. nolab.
  - intros b IH cx n c n' _ _ H. rewrite compile_pcall_eq in H.
    destruct (compile_fun b); [|discriminate]. inversion H; subst. apply rng_nolab. nolab.
  - intros b IH k cx n c n' _ _ H. rewrite compile_coro_eq in H.
    destruct (compile_fun b); [|discriminate]. inversion H; subst. apply rng_nolab. nolab.
  - intros cx n c n' _ _ H. inversion H; subst. apply rng_nolab. nolab.
  - intros e cx n c n' _ _ H. inversion H; subst. apply rng_nolab. nolab.
  - (* BNil *) intros cx n tl fb ec c n' _ Hec H. cbn in H. inversion H; subst. apply labs_okA_rng. apply rng_nolab.
    destruct fb; [nolab|exact Hec].
  - (* BRet *) intros r _ cx n tl fb ec c n' _ Hec H. apply labs_okA_rng. destruct r as [|body].
    + inversion H; subst. apply rng_nolab. nolab.
    + rewrite compile_retcall_eq in H. destruct (compile_fun body); [|discriminate]. cbn in H.
      destruct (top_height cx =? 0); inversion H; subst; apply rng_nolab; nolab.
  - (* BCons *) intros t IHt rest IHr cx n tl fb ec c n' Hne Hec H.
    destruct (is_local t) eqn:Eloc.
    + destruct t; try discriminate. rewrite compile_localA in H.
      destruct (get_labels (push_ctx cx) n (firstn (pred tl) (shapes rest))) as [[[cx2 n2] bo]|] eqn:E; [|discriminate].
      cbn [obind] in H.
      destruct (compile_stats (local_ctx cx2 v) n2 (pred tl) fb ec rest) as [[c0 n0]|] eqn:E2; [|discriminate].
      cbn [obind] in H. inversion H; subst. clear H.
      destruct (glA_basic _ _ _ _ _ _ (push_ctx_ne cx) E) as (Hle & Htl & Hth & Hne2).
      destruct (IHr _ _ _ _ _ _ _ (local_ctx_ne2 cx2 v Hne2) Hec E2) as (Hle2 & Hl).
      split; [lia|]. intros x Hx.
      apply in_app_or in Hx as [Hx|Hx]; [exfalso; eapply local_code_nolab; exact Hx|].
      apply in_app_or in Hx as [Hx|Hx]; [|exfalso; eapply pop_code_nolab; exact Hx].
      destruct (Hl x Hx) as [Hr|(l & Hin & Hg)]; [left; lia|].
      rewrite local_ctx_get_label in Hg.
      (* l is resolved either in the labels just declared (fresh numbers) or as before *)
      destruct cx2 as [|s2 r2]; [contradiction|]. cbn in Htl. subst r2. cbn [get_label] in Hg.
      destruct (scope_label (NUser l) (labels s2)) as [y|] eqn:Es.
      * inversion Hg; subst y.
        destruct (in_dec Nat.eq_dec l (flab (firstn (pred tl) (shapes rest)))) as [Hf|Hf].
        -- destruct (glA_new _ _ _ _ _ _ l (push_ctx_ne cx) E Hf) as (x' & Hx' & Hr). cbn in Hx'. rewrite Es in Hx'.
           inversion Hx'; subst. left. lia.
        -- pose proof (glA_old _ _ _ _ _ _ (NUser l) (push_ctx_ne cx) E ltac:(intros l0 Hq; inversion Hq; subst; exact Hf)) as Ho.
           cbn in Ho. rewrite Es in Ho. discriminate.
      * right. exists l. split; [right; exact Hin|exact Hg].
    + rewrite (compile_nonlocalA _ _ _ _ _ _ _ Eloc) in H.
      destruct (compile_stmt cx n t) as [[c1 n1]|] eqn:E1; [|discriminate]. cbn [obind] in H.
      destruct (compile_stats cx n1 (pred tl) fb ec rest) as [[c2 n2]|] eqn:E2; [|discriminate].
      cbn [obind] in H. inversion H; subst. clear H.
      destruct (IHr _ _ _ _ _ _ _ Hne Hec E2) as (Hle2 & Hl2).
      destruct t; try discriminate Eloc;
        try (destruct (IHt cx n c1 n1 Hne ltac:(intros; discriminate) E1) as (Hle1 & Hge1 & Hlt1);
             split; [lia|]; intros x Hx; apply in_app_or in Hx as [Hx|Hx];
             [left; split; [apply Hge1|specialize (Hlt1 _ Hx); lia]; exact Hx|];
             destruct (Hl2 x Hx) as [Hr|(l0 & Hin & Hg)]; [left; lia|right; exists l0; split; [right; exact Hin|exact Hg]]).
      match goal with E : compile_stmt cx n (SLabel ?lb) = Some _ |- _ => rename lb into ll end.
      cbn [compile_stmt] in E1. destruct (get_label cx (NUser ll)) as [x0|] eqn:Eg; [|discriminate].
      cbn [obind] in E1. inversion E1; subst. split; [lia|]. intros x Hx.
      destruct Hx as [Hx|Hx].
      * inversion Hx; subst. right. exists ll. split; [left; reflexivity|exact Eg].
      * destruct (Hl2 x Hx) as [Hr|(l2 & Hin & Hg)]; [left; exact Hr|right; exists l2; split; [right; exact Hin|exact Hg]].
Qed.

Lemma seq_labsA : forall a cx n ca nb, cx <> [] -> nolocal a ->
  compile_seq cx n a = Some (ca, nb) ->
  n <= nb /\ forall x, In (ILabel x) ca ->
     n <= x < nb \/ exists l2, In (SLabel l2) a /\ get_label cx (NUser l2) = Some x.
Proof.
  induction a as [|t a IH]; intros cx n ca nb Hne Hn H.
  - cbn in H. inversion H; subst. split; [lia|intros x []].
  - cbn [compile_seq] in H.
    destruct (compile_stmt cx n t) as [[c1 n1]|] eqn:E1; [|discriminate]. cbn [obind] in H.
    destruct (compile_seq cx n1 a) as [[c2 n2]|] eqn:E2; [|discriminate]. cbn [obind] in H. inversion H; subst. clear H.
    destruct (IH _ _ _ _ Hne (fun x Hx => Hn x (or_intror Hx)) E2) as (Hle2 & Hl2).
    destruct t; try (exfalso; specialize (Hn _ (or_introl eq_refl)); discriminate);
      try (match type of E1 with compile_stmt _ _ ?tt = _ =>
             destruct (proj1 compile_labsA tt cx n c1 n1 Hne ltac:(intros; discriminate) E1) as (Hle1 & Hge1 & Hlt1) end;
           split; [lia|]; intros x Hx; apply in_app_or in Hx as [Hx|Hx];
           [left; split; [apply Hge1; exact Hx|specialize (Hlt1 _ Hx); lia]|];
           destruct (Hl2 x Hx) as [Hr|(l2 & Hin & Hg)]; [left; lia|right; exists l2; split; [right; exact Hin|exact Hg]]).
    cbn [compile_stmt] in E1. destruct (get_label cx (NUser l)) as [x0|] eqn:Eg; [|discriminate].
    cbn [obind] in E1. inversion E1; subst. split; [lia|]. intros x [Hx|Hx].
    + inversion Hx; subst. right. exists l. split; [left; reflexivity|exact Eg].
    + destruct (Hl2 x Hx) as [Hr|(l2 & Hin & Hg)]; [left; exact Hr|right; exists l2; split; [right; exact Hin|exact Hg]].
Qed.

(* ---------------------------------------------------------------- the code after a back label *)
Definition noop (H : nat) (z : code) : Prop :=
  forall i, In i z -> (exists l, i = ILabel l) \/ (exists t, i = IClTrunc t /\ H <= t).

Lemma noop_app : forall H a b, noop H a -> noop H b -> noop H (a ++ b).
Proof. intros H a b Ha Hb i Hi. apply in_app_or in Hi as [Hi|Hi]; auto. Qed.
Lemma noop_mono : forall H H' z, noop H z -> H' <= H -> noop H' z.
Proof. intros H H' z Hz Hle i Hi. destruct (Hz i Hi) as [A|(t & -> & B)]; [left; exact A|right; exists t; split; [reflexivity|lia]]. Qed.

Lemma lblnil_code : forall b cx n tl c n', lblnil b -> compile_stats cx n tl false [] b = Some (c, n') ->
  forall i, In i c -> exists l, i = ILabel l.
Proof.
  induction b as [|r|t b IH] using block_ind; intros cx n tl c n' Hl H i Hi.
  - cbn in H. inversion H; subst. destruct Hi.
  - destruct Hl.
  - cbn [lblnil] in Hl. destruct t; try contradiction.
    rewrite (compile_nonlocalA cx n tl false [] (SLabel l) b eq_refl) in H. cbn [compile_stmt] in H.
    destruct (get_label cx (NUser l)) as [x|]; [|discriminate]. cbn [obind] in H.
    destruct (compile_stats cx n (pred tl) false [] b) as [[c2 n2]|] eqn:E; [|discriminate]. cbn [obind] in H.
    inversion H; subst. destruct Hi as [<-|Hi]; [eauto|]. eapply IH; eassumption.
Qed.

Lemma ctx_inj_local_ctx : forall cx2 v, ctx_inj cx2 -> ctx_inj (local_ctx cx2 v).
Proof. intros cx2 v H a b x Ha Hb. rewrite local_ctx_get_label in Ha, Hb. eapply H; eassumption. Qed.

Lemma ctx_lt_local_ctx : forall cx2 v n, ctx_lt cx2 n -> ctx_lt (local_ctx cx2 v) n.
Proof. intros cx2 v n H. destruct v; cbn [local_ctx]; try apply ctx_lt_add_height; exact H. Qed.

Lemma pop_code_local_ctx : forall cx cx2 v, cx2 <> [] -> tl cx2 = cx -> top_height cx2 = top_height cx ->
  noop (top_height cx) (pop_code (local_ctx cx2 v)).
Proof.
  intros cx [|s2 r2] v Hne Htl Hth; [contradiction|]. cbn in Htl, Hth. subst r2.
  intros i Hi. destruct v; cbn in Hi; unfold emit_truncate in Hi;
    match type of Hi with In _ (if ?c then _ else _) => destruct c end;
    try destruct Hi as [<-|[]]; try destruct Hi; right; eexists; split; try reflexivity; lia.
Qed.

Lemma void_code : forall a' l b' cx n tl c n' L, cx <> [] ->
  compile_stats cx n tl false [] (bapp a' (BCons (SLabel l) b')) = Some (c, n') ->
  ~ In (SLabel l) a' -> tl <= length a' -> lblnil b' ->
  get_label cx (NUser l) = Some L -> ctx_inj cx -> ctx_lt cx n ->
  exists c1 z, c = c1 ++ ILabel L :: z /\ ~ In (ILabel L) c1 /\ noop (top_height cx) z.
Proof.
  induction a' as [|t a IH]; intros l b' cx n tl c n' L Hne H Hnot Htl Hlb Hg Hinj Hlt.
  - cbn [bapp] in H. rewrite (compile_nonlocalA cx n tl false [] (SLabel l) b' eq_refl) in H. cbn [compile_stmt] in H.
    rewrite Hg in H. cbn [obind] in H.
    destruct (compile_stats cx n (pred tl) false [] b') as [[c2 n2]|] eqn:E; [|discriminate]. cbn [obind app] in H.
    inversion H; subst. exists [], c2. split; [reflexivity|]. split; [intros []|].
    intros i Hi. left. eapply lblnil_code; eassumption.
  - cbn [bapp] in H. cbn [length] in Htl.
    assert (Hnot' : ~ In (SLabel l) a) by (intro Hq; apply Hnot; right; exact Hq).
    destruct (is_local t) eqn:Et.
    + destruct t; try discriminate. rewrite compile_localA in H.
      destruct (get_labels (push_ctx cx) n (firstn (pred tl) (shapes (bapp a (BCons (SLabel l) b'))))) as [[[cx2 n2] bo]|] eqn:E;
        [|discriminate]. cbn [obind] in H.
      destruct (compile_stats (local_ctx cx2 v) n2 (pred tl) false [] _) as [[c0 n0]|] eqn:E2; [|discriminate].
      cbn [obind] in H. inversion H; subst. clear H.
      destruct (glA_basic _ _ _ _ _ _ (push_ctx_ne cx) E) as (Hle & Htl2 & Hth & Hne2).
      assert (Hg3 : get_label (local_ctx cx2 v) (NUser l) = Some L).
      { rewrite local_ctx_get_label. eapply glA_stable; [apply push_ctx_ne|exact E|exact Hg]. }
      assert (Hinj3 : ctx_inj (local_ctx cx2 v)).
      { apply ctx_inj_local_ctx. eapply glA_ctx_inj; [apply push_ctx_ne|apply ctx_lt_push; exact Hlt|apply ctx_inj_push; exact Hinj|exact E]. }
      assert (Hlt3 : ctx_lt (local_ctx cx2 v) n2).
      { apply ctx_lt_local_ctx. eapply glA_ctx_lt; [apply push_ctx_ne|apply ctx_lt_push; exact Hlt|exact E]. }
      destruct (IH l b' (local_ctx cx2 v) n2 (pred tl) c0 n' L (local_ctx_ne2 _ _ Hne2) E2 Hnot' ltac:(lia) Hlb Hg3 Hinj3 Hlt3)
        as (c1 & z & -> & Hc1 & Hz).
      exists (local_code v ++ c1), (z ++ pop_code (local_ctx cx2 v)).
      split; [rewrite <- !app_assoc; reflexivity|]. split.
      * intro Hq. apply in_app_or in Hq as [Hq|Hq]; [eapply local_code_nolab; exact Hq|exact (Hc1 Hq)].
      * apply noop_app.
        -- eapply noop_mono; [exact Hz|]. rewrite (local_ctx_top_height _ _ Hne2). cbn in Hth. destruct v; lia.
        -- apply pop_code_local_ctx; [exact Hne2|exact Htl2|exact Hth].
    + rewrite (compile_nonlocalA _ _ _ _ _ _ _ Et) in H.
      destruct (compile_stmt cx n t) as [[c1 n1]|] eqn:E1; [|discriminate]. cbn [obind] in H.
      destruct (compile_stats cx n1 (pred tl) false [] _) as [[c2 n2]|] eqn:E2; [|discriminate].
      cbn [obind] in H. inversion H; subst. clear H.
      assert (RN : n <= n1 /\ ~ In (ILabel L) c1).
      { destruct (match t with SLabel _ => true | _ => false end) eqn:Elab.
        - destruct t; try discriminate. cbn [compile_stmt] in E1.
          destruct (get_label cx (NUser l0)) as [x|] eqn:Eg; [|discriminate]. cbn [obind] in E1. inversion E1; subst.
          split; [lia|]. intros [Hq|[]]. inversion Hq; subst x.
          pose proof (Hinj _ _ _ Eg Hg) as Hq2. inversion Hq2; subst l0. apply Hnot. left. reflexivity.
        - destruct (proj1 compile_labsA t cx n c1 n1 Hne ltac:(intros l0 ->; discriminate) E1) as (A & B & _).
          split; [exact A|]. intro Hq. specialize (B _ Hq). pose proof (get_label_lt _ _ _ _ Hlt Hg). lia. }
      destruct RN as [Hn1 Hc1].
      destruct (IH l b' cx n1 (pred tl) c2 n' L Hne E2 Hnot' ltac:(lia) Hlb Hg Hinj (ctx_lt_mono _ _ _ Hlt Hn1))
        as (c1' & z & -> & Hc1' & Hz).
      exists (c1 ++ c1'), z. split; [rewrite <- app_assoc; reflexivity|]. split; [|exact Hz].
      intro Hq. apply in_app_or in Hq as [Hq|Hq]; [exact (Hc1 Hq)|exact (Hc1' Hq)].
Qed.

(* the reference semantics on a void tail *)
Lemma void_run_block : forall b f s ev o s', lblnil b -> run_block f false b s = Done (ev, o, s') ->
  ev = [] /\ o = ONormal /\ s' = s.
Proof.
  induction b as [|r|t b IH] using block_ind; intros f s ev o s' Hl H.
  - destruct f; [discriminate|]. cbn in H. inversion H; auto.
  - destruct Hl.
  - cbn [lblnil] in Hl. destruct t; try contradiction.
    destruct f; [discriminate|]. cbn [run_block] in H.
    destruct f; [discriminate|]. cbn [run_stmt bind prepend] in H.
    destruct (run_block (S f) false b s) as [[[e2 o2] s2]|] eqn:E; [|discriminate].
    cbn in H. inversion H; subst. eapply IH; eassumption.
Qed.

Lemma void_run_scope : forall b W f s ev o s', lblnil b -> run_scope f false W b s = Done (ev, o, s') ->
  ev = [] /\ o = ONormal /\ s' = s.
Proof.
  intros b W f s ev o s' Hl H. destruct f; [discriminate|]. cbn [run_scope] in H.
  destruct (run_block f false b s) as [[[e2 o2] s2]|] eqn:E; [|discriminate]. cbn [bind] in H.
  destruct (void_run_block _ _ _ _ _ _ Hl E) as (-> & -> & ->). inversion H; auto.
Qed.

(* ---------------------------------------------------------------- small facts for the block level *)
Lemma glA_top_mono : forall sh cx n cx1 n1 bo name y, cx <> [] -> get_labels cx n sh = Some (cx1, n1, bo) ->
  scope_label name (top_labels cx) = Some y -> scope_label name (top_labels cx1) <> None.
Proof.
  induction sh as [|x sh IH]; intros cx n cx1 n1 bo name y Hne H Hs; cbn [get_labels] in H.
  - inversion H; subst. rewrite Hs. discriminate.
  - destruct x.
    + unfold declare_unique in H. destruct (get_label cx (NUser l)); [discriminate|].
      destruct (lname_eqb name (NUser l)) eqn:E.
      * eapply (IH _ _ _ _ _ name n (add_label_ne _ _ _ Hne) H).
        rewrite add_label_top by exact Hne. cbn. rewrite E. reflexivity.
      * eapply (IH _ _ _ _ _ name y (add_label_ne _ _ _ Hne) H).
        rewrite add_label_top by exact Hne. cbn. rewrite E. exact Hs.
    + inversion H; subst. rewrite Hs. discriminate.
    + eapply IH; eassumption.
Qed.

Lemma jump_target_skip : forall cx name, scope_label name (top_labels cx) = None ->
  jump_target cx name = jump_target (tl cx) name.
Proof. intros [|s r] name H; [reflexivity|]. cbn in *. rewrite H. reflexivity. Qed.

Lemma flab_in_shapes : forall sh l, In l (flab sh) -> In (ShLabel l) sh.
Proof.
  induction sh as [|x r IH]; intros l H; [destruct H|]. destruct x; cbn in H.
  - destruct H as [->|H]; [left; reflexivity|right; apply IH; exact H].
  - destruct H.
  - right. apply IH. exact H.
Qed.

Lemma shape_label_stmt : forall b l, In (ShLabel l) (shapes b) -> In (SLabel l) (stmts b).
Proof.
  induction b as [|r|t b IH] using block_ind; intros l H; try destruct H.
  - left. destruct t; try discriminate. inversion H. reflexivity.
  - right. apply IH. exact H.
Qed.

Lemma flab_firstn_incl : forall k sh l, In l (flab (firstn k sh)) -> In l (flab sh).
Proof.
  induction k; intros [|x r] l H; try (cbn in H; destruct H; fail); try exact H.
  cbn [firstn flab] in *. destruct x; cbn in *; try exact H; try (apply IHk; exact H).
  destruct H as [->|H]; [left; reflexivity|right; apply IHk; exact H].
Qed.

Lemma lead_incl : forall sh x, In x (lead sh) -> In x sh.
Proof.
  induction sh as [|y r IH]; intros x H; [destruct H|]. destruct y; try destruct H.
  - left. exact H.
  - right. apply IH. exact H.
Qed.

Lemma find_label_of_in : forall l b, In (SLabel l) (stmts b) -> find_label l b <> None.
Proof.
  intros l. induction b as [|r|t b IH] using block_ind; intros H; try destruct H.
  - subst t. cbn. rewrite Nat.eqb_refl. discriminate.
  - cbn [find_label]. destruct t; try (apply IH; exact H).
    destruct (Nat.eqb l l0); [discriminate|apply IH; exact H].
Qed.

Lemma find_label_none_stmts : forall l b, find_label l b = None -> ~ In (SLabel l) (stmts b).
Proof. intros l b H Hin. exact (find_label_of_in l b Hin H). Qed.
