(* Close/FragA.v — what the compiler slice does on ARBITRARY skeleton programs
   (no fragment): getLabels / getBackLabels on shape lists, the block prologue,
   label numbers, where a label statement sits in the emitted code. *)
From Coq Require Import List Arith Bool Lia.
From GV Require Import Close.Skel Close.Compile Close.VMclose Close.VMLemmas Close.FragL.
Import ListNotations.

(* labels of a shape list that getLabels declares: those before the first local *)
Fixpoint flab (sh : list shape) : list nat :=
  match sh with
  | ShLabel l :: r => l :: flab r
  | ShLocal :: _ => []
  | ShOther :: r => flab r
  | [] => []
  end.

(* injectivity of label numbers: distinct visible names have distinct numbers *)
Definition ctx_inj (cx : ctx) : Prop :=
  forall a b x, get_label cx a = Some x -> get_label cx b = Some x -> a = b.

Lemma ctx_inj_push : forall cx, ctx_inj cx -> ctx_inj (push_ctx cx).
Proof. intros cx H a b x Ha Hb. cbn in Ha, Hb. eapply H; eassumption. Qed.

Lemma ctx_inj_add_height : forall cx, ctx_inj cx -> ctx_inj (add_height cx).
Proof. intros [|s r] H; [exact H|]. intros a b x Ha Hb. cbn in Ha, Hb. eapply H; cbn; eassumption. Qed.

Lemma ctx_inj_local : forall cx v, ctx_inj cx -> ctx_inj (local_ctx (push_ctx cx) v).
Proof. intros cx v H. destruct v; cbn [local_ctx]; try apply ctx_inj_add_height; apply ctx_inj_push; exact H. Qed.

Lemma ctx_inj_add_label : forall cx nm x n, cx <> [] -> ctx_inj cx -> ctx_lt cx n -> n <= x -> ctx_inj (add_label cx nm x).
Proof.
  intros cx nm x n Hne H Hlt Hx a b y Ha Hb.
  rewrite get_label_add in Ha, Hb by exact Hne.
  destruct (lname_eqb a nm) eqn:Ea, (lname_eqb b nm) eqn:Eb.
  - apply lname_eqb_eq in Ea, Eb. congruence.
  - inversion Ha; subst. pose proof (get_label_lt _ _ _ _ Hlt Hb). lia.
  - inversion Hb; subst. pose proof (get_label_lt _ _ _ _ Hlt Ha). lia.
  - eapply H; eassumption.
Qed.

Lemma ctx_inj_root : ctx_inj root_ctx.
Proof. intros a b x Ha. cbn in Ha. discriminate. Qed.

(* ---------------------------------------------------------------- getLabels on shape lists *)
Lemma glA_basic : forall sh cx n cx1 n1 bo, cx <> [] -> get_labels cx n sh = Some (cx1, n1, bo) ->
  n <= n1 /\ tl cx1 = tl cx /\ top_height cx1 = top_height cx /\ cx1 <> [].
Proof.
  induction sh as [|x sh IH]; intros cx n cx1 n1 bo Hne H; cbn [get_labels] in H.
  - inversion H; subst. auto.
  - destruct x.
    + unfold declare_unique in H. destruct (get_label cx (NUser l)); [discriminate|].
      destruct (IH _ _ _ _ _ (add_label_ne _ _ _ Hne) H) as (A & B & C & D).
      destruct cx as [|s r]; [contradiction|]. cbn in *. repeat split; try assumption. lia.
    + inversion H; subst. auto.
    + eapply IH; eassumption.
Qed.

Lemma glA_vis : forall l sh cx n cx1 n1 bo, cx <> [] ->
  get_label cx (NUser l) <> None -> get_labels cx n sh = Some (cx1, n1, bo) -> ~ In l (flab sh).
Proof.
  intros l. induction sh as [|x sh IH]; intros cx n cx1 n1 bo Hne Hv H; cbn [get_labels flab] in *; [intros []|].
  destruct x.
  - unfold declare_unique in H. destruct (get_label cx (NUser l0)) eqn:Eg; [discriminate|].
    intros [->|Hin]; [apply Hv; exact Eg|].
    revert Hin. eapply IH; [apply add_label_ne; exact Hne| |exact H].
    rewrite get_label_add by exact Hne. destruct (lname_eqb (NUser l) (NUser l0)); [discriminate|exact Hv].
  - intros [].
  - eapply IH; eassumption.
Qed.

Lemma glA_old : forall sh cx n cx1 n1 bo name, cx <> [] -> get_labels cx n sh = Some (cx1, n1, bo) ->
  (forall l, name = NUser l -> ~ In l (flab sh)) ->
  scope_label name (top_labels cx1) = scope_label name (top_labels cx).
Proof.
  induction sh as [|x sh IH]; intros cx n cx1 n1 bo name Hne H Hn; cbn [get_labels flab] in *.
  - inversion H; subst. reflexivity.
  - destruct x.
    + unfold declare_unique in H. destruct (get_label cx (NUser l)); [discriminate|].
      rewrite (IH _ _ _ _ _ name (add_label_ne _ _ _ Hne) H) by (intros l0 E Hin; apply (Hn l0 E); right; exact Hin).
      rewrite add_label_top by exact Hne. cbn [scope_label].
      destruct (lname_eqb name (NUser l)) eqn:E; [|reflexivity].
      apply lname_eqb_eq in E. exfalso. apply (Hn l E). left. reflexivity.
    + inversion H; subst. reflexivity.
    + eapply IH; eassumption.
Qed.

Lemma glA_new : forall sh cx n cx1 n1 bo l, cx <> [] -> get_labels cx n sh = Some (cx1, n1, bo) ->
  In l (flab sh) -> exists x, scope_label (NUser l) (top_labels cx1) = Some x /\ n <= x < n1.
Proof.
  induction sh as [|x sh IH]; intros cx n cx1 n1 bo l Hne H Hin; cbn [get_labels flab] in *; [destruct Hin|].
  destruct x.
  - unfold declare_unique in H. destruct (get_label cx (NUser l0)) eqn:Eg; [discriminate|].
    pose proof (add_label_ne cx (NUser l0) n Hne) as Hne'.
    destruct (glA_basic _ _ _ _ _ _ Hne' H) as (Hle & _).
    destruct Hin as [<-|Hin].
    + exists n. split; [|lia].
      rewrite (glA_old _ _ _ _ _ _ (NUser l0) Hne' H).
      * rewrite add_label_top by exact Hne. cbn. rewrite Nat.eqb_refl. reflexivity.
      * intros l1 E. inversion E; subst l1.
        eapply glA_vis; [exact Hne'| |exact H].
        rewrite get_label_add by exact Hne. rewrite lname_eqb_refl. discriminate.
    + destruct (IH _ _ _ _ _ l Hne' H Hin) as (y & Hy & Hr). exists y. split; [exact Hy|lia].
  - destruct Hin.
  - eapply IH; eassumption.
Qed.

(* visible names keep their resolution *)
Lemma glA_stable : forall sh cx n cx1 n1 bo name x, cx <> [] -> get_labels cx n sh = Some (cx1, n1, bo) ->
  get_label cx name = Some x -> get_label cx1 name = Some x.
Proof.
  induction sh as [|y sh IH]; intros cx n cx1 n1 bo name x Hne H Hg; cbn [get_labels] in H.
  - inversion H; subst. exact Hg.
  - destruct y.
    + unfold declare_unique in H. destruct (get_label cx (NUser l)) eqn:Eg; [discriminate|].
      eapply IH; [apply add_label_ne; exact Hne|exact H|].
      rewrite get_label_add by exact Hne. destruct (lname_eqb name (NUser l)) eqn:E; [|exact Hg].
      apply lname_eqb_eq in E. subst. congruence.
    + inversion H; subst. exact Hg.
    + eapply IH; eassumption.
Qed.

Lemma glA_ctx_lt : forall sh cx n cx1 n1 bo, cx <> [] -> ctx_lt cx n ->
  get_labels cx n sh = Some (cx1, n1, bo) -> ctx_lt cx1 n1.
Proof.
  induction sh as [|y sh IH]; intros cx n cx1 n1 bo Hne Hc H; cbn [get_labels] in H.
  - inversion H; subst. exact Hc.
  - destruct y.
    + unfold declare_unique in H. destruct (get_label cx (NUser l)); [discriminate|].
      eapply IH; [apply add_label_ne; exact Hne| |exact H].
      apply ctx_lt_add_label; [eapply ctx_lt_mono; [exact Hc|lia]|lia].
    + inversion H; subst. exact Hc.
    + eapply IH; eassumption.
Qed.

Lemma glA_ctx_inj : forall sh cx n cx1 n1 bo, cx <> [] -> ctx_lt cx n -> ctx_inj cx ->
  get_labels cx n sh = Some (cx1, n1, bo) -> ctx_inj cx1.
Proof.
  induction sh as [|y sh IH]; intros cx n cx1 n1 bo Hne Hc Hi H; cbn [get_labels] in H.
  - inversion H; subst. exact Hi.
  - destruct y.
    + unfold declare_unique in H. destruct (get_label cx (NUser l)); [discriminate|].
      eapply IH; [apply add_label_ne; exact Hne| | |exact H].
      * apply ctx_lt_add_label; [eapply ctx_lt_mono; [exact Hc|lia]|lia].
      * eapply ctx_inj_add_label; [exact Hne|exact Hi|exact Hc|lia].
    + inversion H; subst. exact Hi.
    + eapply IH; eassumption.
Qed.

(* a name that is not visible before and not declared stays invisible in the top scope; used through glA_old *)

(* ---------------------------------------------------------------- getBackLabels = getLabels on the leading labels *)
Fixpoint lead (sh : list shape) : list shape :=
  match sh with ShLabel l :: r => ShLabel l :: lead r | _ => [] end.

Lemma gb_as_gl : forall rsh cx n c,
  get_back_labels cx n rsh c =
  match get_labels cx n (lead rsh) with
  | Some (cx2, n2, _) => Some (cx2, n2, c + length (lead rsh))
  | None => None
  end.
Proof.
  induction rsh as [|x r IH]; intros cx n c; cbn [get_back_labels lead get_labels].
  - rewrite Nat.add_0_r. reflexivity.
  - destruct x; try (cbn [length]; rewrite Nat.add_0_r; reflexivity).
    simpl get_labels.
    destruct (declare_unique cx n l) as [[cx' n']|]; [|reflexivity].
    rewrite IH. destruct (get_labels cx' n' (lead r)) as [[[? ?] ?]|]; [|reflexivity].
    cbn [length]. f_equal. f_equal. lia.
Qed.

Lemma flab_lead : forall sh, flab (lead sh) = match sh with _ => flab (lead sh) end.
Proof. reflexivity. Qed.

Lemma lead_all_labels : forall sh x, In x (lead sh) -> exists l, x = ShLabel l.
Proof.
  induction sh as [|y r IH]; intros x H; [destruct H|]. destruct y; try destruct H.
  - subst. eauto.
  - apply IH. exact H.
Qed.

(* ---------------------------------------------------------------- the block prologue *)
(* back: the back labels are declared; tl = truncLen *)
Inductive prologue_spec (cx : ctx) (n : nat) (b : block) (complete fb : bool) (cx2 : ctx) (n2 tl : nat) : Prop :=
| PS_plain : forall bo, get_labels cx n (shapes b) = Some (cx2, n2, bo) -> tl = length (shapes b) ->
    prologue_spec cx n b complete fb cx2 n2 tl
| PS_back : forall cx1 n1 bo, get_labels cx n (shapes b) = Some (cx1, n1, false) ->
    get_labels cx1 n1 (lead (rev (shapes b))) = Some (cx2, n2, bo) ->
    tl = length (shapes b) - length (lead (rev (shapes b))) ->
    complete = true -> fb = false -> has_ret b = false ->
    prologue_spec cx n b complete fb cx2 n2 tl.

Lemma prologue_inv : forall cx n b complete fb cx2 n2 tl,
  block_prologue cx n b complete fb = Some (cx2, n2, tl) -> prologue_spec cx n b complete fb cx2 n2 tl.
Proof.
  intros cx n b complete fb cx2 n2 tl H. unfold block_prologue in H.
  destruct (get_labels cx n (shapes b)) as [[[cx1 n1] bo]|] eqn:E; [|discriminate].
  destruct (complete && negb bo && negb (has_ret b || fb)) eqn:Ec.
  - rewrite gb_as_gl in H.
    destruct (get_labels cx1 n1 (lead (rev (shapes b)))) as [[[c' n'] bo']|] eqn:E2; [|discriminate].
    inversion H; subst. clear H.
    apply andb_true_iff in Ec as [Ec Ec3]. apply andb_true_iff in Ec as [Ec1 Ec2].
    destruct bo; [discriminate|]. apply negb_true_iff in Ec3. apply orb_false_iff in Ec3 as [A B].
    eapply PS_back; eauto.
  - inversion H; subst. eapply PS_plain; eauto.
Qed.
