(* Close/Skel.v — the scope-skeleton language of property C10 and its
   STRUCTURAL REFERENCE SEMANTICS (S side).  Executable definitions only; the
   theorems about them are in Close/RefProofs.v.

   A skeleton program keeps exactly what matters for to-be-closed variables:
   the nesting of scopes, where `local x <close>` declarations sit, and how
   control leaves scopes (fall off the end, break, goto, return, error,
   coroutine.close of a suspended coroutine).  Everything data dependent is
   abstracted by a *decision stream* ([ds : list bool]): every `if`, every
   loop test consumes one decision (an exhausted stream answers false).

   Reference semantics = the Lua 5.4 manual §3.3.8/§3.5 read structurally: a
   `local x <close>` statement scopes over the REST of its block; whatever way
   control leaves that rest, x is then closed with the error in flight (or
   nil); if the handler raises, its error replaces the one in flight.  There is
   no close stack and there are no heights on this side. *)
From Coq Require Import List Arith Bool.
Import ListNotations.

Inductive err := EUser (n : nat) | EMissing.   (* EMissing: "... missing a __close metamethod" *)

(* The value a local statement binds. *)
Inductive tbcv :=
| VPlain                              (* local x = 0            : not to-be-closed *)
| VNil                                (* local x <close> = nil  : nothing to close *)
| VObj (id : nat) (h : option nat)    (* local x <close> = mk(id,h): handler records (id, err) and, if h = Some e, raises e *)
| VBad (id : nat).                    (* local x <close> = {}   : no __close -> the declaration raises *)

Inductive lkind := LWhile | LRepeat | LForIn (v : tbcv).

Inductive stmt :=
| SLocal (v : tbcv)
| SDo (b : block)
| SLoop (k : lkind) (b : block)
| SIf (b : block)
| SBreak
| SGoto (l : nat)
| SLabel (l : nat)
| SMark (n : nat)                     (* emit("m", n): code that "receives control" *)
| SCall (b : block)                   (* (function() b end)() *)
| SPcall (b : block)                  (* emit("pcall", pcall(function() b end)) *)
| SCoro (b : block) (k : option nat)  (* run b as a coroutine; k = Some j: coroutine.close it at its j-th yield *)
| SYield
| SRaise (e : nat)
with block :=
| BNil
| BRet (r : ret)
| BCons (s : stmt) (b : block)
with ret :=
| RPlain                              (* return *)
| RCall (b : block).                  (* return (function() b end)()  — a tail call candidate *)

Inductive event :=
| EvOpen (id : nat)                   (* the closable value id was created (and is about to be bound) *)
| EvClose (id : nat) (e : option err) (* __close of id called with error argument e *)
| EvRaise (e : err)                   (* an error is raised (by `error`, by a handler, by a bad declaration) *)
| EvMark (n : nat)
| EvPcall (e : option err)            (* pcall returned: None = true, Some e = false, e *)
| EvCo (e : option err).              (* coroutine finished / was closed: error it reported *)

Inductive outcome :=
| ONormal
| OBreak
| OGoto (l : nat)
| OReturn
| OError (e : err)
| OClosed (e : option err).           (* unwinding because the suspended coroutine is being closed *)

Record st := mkSt { ds : list bool; yc : option nat; lastc : bool }.
(* lastc: the value of the last `until` condition evaluated (repeat loops evaluate their
   condition inside the scope of the body, before the body's variables are closed) *)

Inductive res (A : Type) := Done (a : A) | OutOfFuel.
Arguments Done {A} a.
Arguments OutOfFuel {A}.

Definition rtriple := (list event * outcome * st)%type.

Definition err_of (o : outcome) : option err :=
  match o with
  | OError e => Some e
  | OClosed e => e
  | _ => None
  end.

(* An error raised while leaving with outcome o. *)
Definition raise_in (o : outcome) (e : err) : outcome :=
  match o with
  | OClosed _ => OClosed (Some e)
  | _ => OError e
  end.

Definition close_var (v : tbcv) (o : outcome) : list event * outcome :=
  match v with
  | VObj id None => ([EvClose id (err_of o)], o)
  | VObj id (Some h) => ([EvClose id (err_of o); EvRaise (EUser h)], raise_in o (EUser h))
  | _ => ([], o)
  end.

Definition open_var (v : tbcv) : list event :=
  match v with VObj id _ => [EvOpen id] | _ => [] end.

Definition next_decision (s : st) : bool * st :=
  match ds s with
  | [] => (false, s)
  | d :: r => (d, mkSt r (yc s) (lastc s))
  end.

(* the tail of block b after the label l, when l labels one of b's own statements *)
Fixpoint find_label (l : nat) (b : block) : option block :=
  match b with
  | BCons (SLabel l') r => if Nat.eqb l l' then Some r else find_label l r
  | BCons _ r => find_label l r
  | _ => None
  end.

(* what a function call makes of the outcome of the function's body *)
Definition fun_outcome (o : outcome) : outcome :=
  match o with
  | OError e => OError e
  | OClosed e => OClosed e
  | _ => ONormal
  end.

Definition bind (r : res rtriple) (k : list event -> outcome -> st -> res rtriple) : res rtriple :=
  match r with
  | OutOfFuel => OutOfFuel
  | Done (ev, o, s) => k ev o s
  end.

Definition prepend (ev : list event) (r : res rtriple) : res rtriple :=
  match r with
  | OutOfFuel => OutOfFuel
  | Done (ev', o, s) => Done (ev ++ ev', o, s)
  end.

(* run_scope: a block entered as a scope: [whole] is the block, [cur] the tail of it
              that is executed now (gotos to whole's own labels are resolved here)
   run_block: the statements of a block in sequence
   run_stmt : one statement
   run_loop : iterations of a loop
   endc = true: this block is the body of a repeat loop; when control reaches its
   end the `until` condition is evaluated there (one decision, stored in lastc).
   All four decrease the same fuel. *)
Definition eval_cond (endc : bool) (s : st) : st :=
  if endc then let (d, s1) := next_decision s in mkSt (ds s1) (yc s1) d else s.

Fixpoint run_scope (fuel : nat) (endc : bool) (whole cur : block) (s : st) {struct fuel} : res rtriple :=
  match fuel with
  | 0 => OutOfFuel
  | S f =>
    bind (run_block f endc cur s) (fun ev o s' =>
      match o with
      | OGoto l =>
        match find_label l whole with
        | Some b' => prepend ev (run_scope f endc whole b' s')
        | None => Done (ev, o, s')
        end
      | _ => Done (ev, o, s')
      end)
  end
with run_block (fuel : nat) (endc : bool) (b : block) (s : st) {struct fuel} : res rtriple :=
  match fuel with
  | 0 => OutOfFuel
  | S f =>
    match b with
    | BNil => Done ([], ONormal, eval_cond endc s)
    | BRet RPlain => Done ([], OReturn, s)
    | BRet (RCall body) =>
      bind (run_scope f false body body s) (fun ev o s' =>
        Done (ev, match fun_outcome o with ONormal => OReturn | o' => o' end, s'))
    | BCons (SLocal (VBad id)) _ => Done ([EvRaise EMissing], OError EMissing, s)
    | BCons (SLocal v) rest =>
      bind (run_scope f endc rest rest s) (fun ev o s' =>
        let (cev, o') := close_var v o in Done (open_var v ++ ev ++ cev, o', s'))
    | BCons st rest =>
      bind (run_stmt f st s) (fun ev o s' =>
        match o with
        | ONormal => prepend ev (run_block f endc rest s')
        | _ => Done (ev, o, s')
        end)
    end
  end
with run_stmt (fuel : nat) (t : stmt) (s : st) {struct fuel} : res rtriple :=
  match fuel with
  | 0 => OutOfFuel
  | S f =>
    match t with
    | SLocal _ => Done ([], ONormal, s)        (* handled by run_block; unreachable *)
    | SDo b => run_scope f false b b s
    | SLoop LWhile b => run_loop f false b s
    | SLoop LRepeat b => run_loop f true b s
    | SLoop (LForIn (VBad id)) b => Done ([EvRaise EMissing], OError EMissing, s)
    | SLoop (LForIn v) b =>
      bind (run_loop f false b s) (fun ev o s' =>
        let (cev, o') := close_var v o in Done (open_var v ++ ev ++ cev, o', s'))
    | SIf b =>
      let (d, s1) := next_decision s in
      if d then run_scope f false b b s1 else Done ([], ONormal, s1)
    | SBreak => Done ([], OBreak, s)
    | SGoto l => Done ([], OGoto l, s)
    | SLabel _ => Done ([], ONormal, s)
    | SMark n => Done ([EvMark n], ONormal, s)
    | SCall b =>
      bind (run_scope f false b b s) (fun ev o s' => Done (ev, fun_outcome o, s'))
    | SPcall b =>
      bind (run_scope f false b b s) (fun ev o s' =>
        match fun_outcome o with
        | OError e => Done (ev ++ [EvPcall (Some e)], ONormal, s')
        | OClosed e => Done (ev, OClosed e, s')
        | _ => Done (ev ++ [EvPcall None], ONormal, s')
        end)
    | SCoro b k =>
      bind (run_scope f false b b (mkSt (ds s) k (lastc s))) (fun ev o s' =>
        Done (ev ++ [EvCo (err_of (fun_outcome o))], ONormal, mkSt (ds s') (yc s) (lastc s')))
    | SYield =>
      match yc s with
      | Some 0 => Done ([], OClosed None, s)
      | Some (S j) => Done ([], ONormal, mkSt (ds s) (Some j) (lastc s))
      | None => Done ([], ONormal, s)
      end
    | SRaise e => Done ([EvRaise (EUser e)], OError (EUser e), s)
    end
  end
with run_loop (fuel : nat) (rep : bool) (b : block) (s : st) {struct fuel} : res rtriple :=
  match fuel with
  | 0 => OutOfFuel
  | S f =>
    let (d, s1) := if rep then (true, s) else next_decision s in
    if d then
      bind (run_scope f rep b b s1) (fun ev o s' =>
        match o with
        | ONormal =>
          if rep && negb (lastc s') then Done (ev, ONormal, s')
          else prepend ev (run_loop f rep b s')
        | OBreak => Done (ev, ONormal, s')
        | _ => Done (ev, o, s')
        end)
    else Done ([], ONormal, s1)
  end.

(* A whole program is a function body run under pcall on the main thread
   (the harness renders it as emit("pcall", pcall(function() b end))). *)
Definition run_ref (fuel : nat) (b : block) (d : list bool) : res (list event * outcome) :=
  match run_stmt fuel (SPcall b) (mkSt d None false) with
  | Done (ev, o, _) => Done (ev, o)
  | OutOfFuel => OutOfFuel
  end.

(* ------------------------------------------------------------------ *)
(* Trace predicates (independent of the semantics above; the Python check
   evaluates the same predicates on the traces the Go runtime produces).   *)

(* well-bracketed: every close matches the most recent open that is still
   pending; returns the pending ids (innermost first) *)
Fixpoint brackets (pend : list nat) (evs : list event) : option (list nat) :=
  match evs with
  | [] => Some pend
  | EvOpen id :: r => brackets (id :: pend) r
  | EvClose id _ :: r =>
    match pend with
    | top :: pend' => if Nat.eqb top id then brackets pend' r else None
    | [] => None
    end
  | _ :: r => brackets pend r
  end.

Definition err_eqb (a b : err) : bool :=
  match a, b with
  | EUser x, EUser y => Nat.eqb x y
  | EMissing, EMissing => true
  | _, _ => false
  end.

Definition oerr_eqb (a b : option err) : bool :=
  match a, b with
  | None, None => true
  | Some x, Some y => err_eqb x y
  | _, _ => false
  end.

(* error flow: every handler gets the error in flight, marks (ordinary code)
   only run when no error is in flight, pcall reports and ends the error in
   flight; returns the error in flight at the end *)
Fixpoint errflow (cur : option err) (evs : list event) : option (option err) :=
  match evs with
  | [] => Some cur
  | EvRaise e :: r => errflow (Some e) r
  | EvClose _ a :: r => if oerr_eqb a cur then errflow cur r else None
  | EvMark _ :: r => match cur with None => errflow None r | Some _ => None end
  | EvOpen _ :: r => match cur with None => errflow None r | Some _ => None end
  | EvPcall a :: r => if oerr_eqb a cur then errflow None r else None
  | EvCo a :: r => if oerr_eqb a cur then errflow None r else None
  end.

Fixpoint count_open (id : nat) (evs : list event) : nat :=
  match evs with
  | [] => 0
  | EvOpen i :: r => (if Nat.eqb i id then 1 else 0) + count_open id r
  | _ :: r => count_open id r
  end.

Fixpoint count_close (id : nat) (evs : list event) : nat :=
  match evs with
  | [] => 0
  | EvClose i _ :: r => (if Nat.eqb i id then 1 else 0) + count_close id r
  | _ :: r => count_close id r
  end.
