(* Close/SimProofs.v — compiler correctness for the close-stack slice:
   run_vm (compile p) = run_ref p.

   STAGE REACHED (_partial): function bodies made of local statements (plain,
   <close> with nil, closable with or without a raising handler, non-closable),
   marks, raise and return, in any order and any number — i.e. arbitrarily deep
   nestings of the scopes that compileBlockNoPop opens, left by falling off
   the end, by return and by error (in-flight error, handler errors replacing
   it), run under pcall.  Invariants H1/H2 of DESIGN Appendix D.4 appear as
   "length stk = top height" and "cleanup of the stack = the reference
   semantics' closing of the enclosing variables" (call_close_close_var).
   NOT yet proved (checked by evaluation on every generated program instead,
   see lib/props/C10.py "vm" comparison): nested do-blocks, loops/break,
   goto/labels, calls, nested pcall, coroutines. *)
From Coq Require Import List Arith Bool Lia.
From GV Require Import Close.Skel Close.Compile Close.VMclose.
Import ListNotations.

Fixpoint straight (b : block) : bool :=
  match b with
  | BNil => true
  | BRet RPlain => true
  | BRet (RCall _) => false
  | BCons (SLocal _) r => straight r
  | BCons (SMark _) r => straight r
  | BCons (SRaise _) r => straight r
  | BCons _ _ => false
  end.

Definition nolabel (sh : list shape) : bool :=
  forallb (fun x => match x with ShLabel _ => false | _ => true end) sh.

Lemma get_labels_nolabel : forall sh cx n, nolabel sh = true -> exists bo, get_labels cx n sh = Some (cx, n, bo).
Proof.
  induction sh as [|x sh IH]; intros cx n H; cbn [get_labels]; [eauto|].
  cbn in H. destruct x; try discriminate; [eauto|apply IH; assumption].
Qed.

Lemma nolabel_firstn : forall k sh, nolabel sh = true -> nolabel (firstn k sh) = true.
Proof.
  induction k; intros [|x sh] H; cbn; try reflexivity.
  cbn in H. apply andb_true_iff in H as [H1 H2]. rewrite H1. cbn. apply IHk. assumption.
Qed.

Lemma straight_nolabel : forall b, straight b = true -> nolabel (shapes b) = true.
Proof.
  induction b as [|r|t b IH] using block_ind; try reflexivity.
  cbn [straight shapes]. destruct t; try discriminate; intro H; cbn; apply IH; assumption.
Qed.

(* the code of a straight function-body tail when the top scope has height h *)
Fixpoint scode (h : nat) (b : block) : code :=
  match b with
  | BNil => [IRet]
  | BRet _ => [IRet]
  | BCons (SLocal v) r =>
    let h' := match v with VPlain => h | _ => S h end in
    local_code v ++ scode h' r ++ emit_truncate h h'
  | BCons (SMark n) r => IMark n :: scode h r
  | BCons (SRaise e) r => IRaise e :: scode h r
  | BCons _ _ => []
  end.

Lemma compile_straight : forall b, straight b = true ->
  forall s cx n tl, compile_stats (s :: cx) n tl true [] b = Some (scode (height s) b, n).
Proof.
  induction b as [|r|t b IH] using block_ind; intros H s cx n tl.
  - reflexivity.
  - destruct r; [reflexivity|discriminate].
  - cbn [straight] in H. destruct t; try discriminate.
    + (* local *)
      cbn [compile_stats scode].
      destruct (get_labels_nolabel (firstn (pred tl) (shapes b)) (push_ctx (s :: cx)) n
                  (nolabel_firstn _ _ (straight_nolabel b H))) as [bo E].
      rewrite E. cbn [obind].
      destruct v; unfold local_ctx, push_ctx, add_height; cbn [top_height height labels];
        rewrite (IH H); cbn [obind pop_code top_height height labels]; reflexivity.
    + cbn [compile_stats compile_stmt obind scode]. rewrite (IH H). reflexivity.
    + cbn [compile_stats compile_stmt obind scode]. rewrite (IH H). reflexivity.
Qed.

Definition verr (o : vout) : option err := match o with VError e => Some e | _ => None end.

Lemma cleanup_zero_stack : forall stk e, snd (fst (cleanup stk 0 e)) = [].
Proof.
  induction stk as [|v r IH]; intro e; cbn [cleanup]; [reflexivity|].
  cbn [length Nat.ltb Nat.leb]. destruct (call_close v e) as [ev1 e1].
  specialize (IH e1). destruct (cleanup r 0 e1) as [[ev2 stk2] e2]. exact IH.
Qed.

(* H2: running __close on the top of the run-time stack is the reference
   semantics' closing of the innermost enclosing variable *)
Lemma call_close_close_var : forall v o,
  call_close v (err_of o) = (fst (close_var v o), err_of (snd (close_var v o))).
Proof. intros [| |id [h|]|id] o; try reflexivity. destruct o; reflexivity. Qed.

(* completion of a VM result by the enclosing protected call: the events of
   the cleanup of what is left on the stack, and the final error *)
Definition completion (ev : list event) (o : vout) (stk : list tbcv) : list event * option err :=
  let '(c, _, e) := cleanup stk 0 (verr o) in (ev ++ c, e).

Definition ref_completion (ev : list event) (o : outcome) (stk : list tbcv) : list event * option err :=
  let '(c, _, e) := cleanup stk 0 (err_of o) in (ev ++ c, e).

Lemma ref_completion_push : forall v stk ev o,
  (forall id, v <> VBad id) ->
  ref_completion ev o (v :: stk) =
  ref_completion (ev ++ fst (close_var v o)) (snd (close_var v o)) stk.
Proof.
  intros v stk ev o _. unfold ref_completion. cbn [cleanup length Nat.ltb Nat.leb].
  rewrite call_close_close_var. destruct (close_var v o) as [cev o']. cbn [fst snd].
  destruct (cleanup stk 0 (err_of o')) as [[c s] e]. rewrite app_assoc. reflexivity.
Qed.

Lemma completion_prepend : forall a ev o stk,
  completion (a ++ ev) o stk = (a ++ fst (completion ev o stk), snd (completion ev o stk)).
Proof.
  intros. unfold completion. destruct (cleanup stk 0 (verr o)) as [[c s] e]. cbn. rewrite app_assoc. reflexivity.
Qed.

Lemma ref_completion_prepend : forall a ev o stk,
  ref_completion (a ++ ev) o stk = (a ++ fst (ref_completion ev o stk), snd (ref_completion ev o stk)).
Proof.
  intros. unfold ref_completion. destruct (cleanup stk 0 (err_of o)) as [[c s] e]. cbn. rewrite app_assoc. reflexivity.
Qed.

(* The simulation: a straight tail started with the run-time stack stk. *)
Lemma straight_sim : forall b, straight b = true ->
  forall f s ev o s', run_block f false b s = Done (ev, o, s') ->
  forall whole k h (vs : vst),
  exists f' evV oV sV,
    exec f' whole (scode h b ++ k) 0 vs = Done (evV, oV, sV) /\
    completion evV oV (stack sV) = ref_completion ev o (stack vs) /\
    (oV = VReturn \/ exists e, oV = VError e) /\
    (oV = VReturn -> stack sV = []) /\
    match o with ONormal | OReturn | OError _ => True | _ => False end.
Proof.
  induction b as [|r|t b IH] using block_ind; intros Hs f s ev o s' Hr whole k h vs.
  - (* BNil *)
    destruct f; [discriminate|]. cbn in Hr. inversion Hr; subst.
    exists 1. cbn [scode app exec].
    pose proof (cleanup_zero_stack (stack vs) None) as Hz.
    unfold completion, ref_completion. cbn [err_of].
    destruct (cleanup (stack vs) 0 None) as [[c st'] e] eqn:E. cbn in Hz. subst st'.
    destruct e as [x|]; eexists _, _, _; (split; [reflexivity|]); cbn [stack set_stack cleanup verr];
      rewrite app_nil_r; repeat split; eauto; discriminate.
  - destruct r; [|discriminate].
    destruct f; [discriminate|]. cbn in Hr. inversion Hr; subst.
    exists 1. cbn [scode app exec].
    pose proof (cleanup_zero_stack (stack vs) None) as Hz.
    unfold completion, ref_completion. cbn [err_of].
    destruct (cleanup (stack vs) 0 None) as [[c st'] e] eqn:E. cbn in Hz. subst st'.
    destruct e as [x|]; eexists _, _, _; (split; [reflexivity|]); cbn [stack set_stack cleanup verr];
      rewrite app_nil_r; repeat split; eauto; discriminate.
  - cbn [straight] in Hs. destruct t; try discriminate.
    + (* local *)
      destruct f; [discriminate|]. cbn [run_block] in Hr.
      destruct v as [| |id hh|id].
      * (* plain *)
        destruct f; [discriminate|]. cbn [run_scope bind] in Hr.
        destruct (run_block f false b s) as [[[ev1 o1] s1]|] eqn:E1; [|discriminate].
        destruct (IH Hs _ _ _ _ _ E1 whole (emit_truncate h h ++ k) h vs) as (f' & evV & oV & sV & He & Hc & Ho & Hst & Hcl).
        assert (Hng : match o1 with OGoto _ => False | _ => True end) by (destruct o1; tauto).
        assert (Hr' : Done (ev1 ++ [], o1, s1) = Done (ev, o, s')).
        { destruct o1; try exact Hr; contradiction. }
        rewrite app_nil_r in Hr'. inversion Hr'; subst. clear Hr'.
        exists f', evV, oV, sV. cbn [scode local_code open_code app]. rewrite <- app_assoc.
        repeat split; try assumption.
      * (* nil *)
        destruct f; [discriminate|]. cbn [run_scope bind] in Hr.
        destruct (run_block f false b s) as [[[ev1 o1] s1]|] eqn:E1; [|discriminate].
        destruct (IH Hs _ _ _ _ _ E1 whole (emit_truncate h (S h) ++ k) (S h) (set_stack vs (VNil :: stack vs)))
          as (f' & evV & oV & sV & He & Hc & Ho & Hst & Hcl).
        assert (Hr' : Done (ev1 ++ [], o1, s1) = Done (ev, o, s')).
        { destruct o1; try exact Hr; contradiction. }
        rewrite app_nil_r in Hr'. inversion Hr'; subst. clear Hr'.
        exists (S f'), evV, oV, sV. cbn [scode local_code open_code app]. rewrite <- app_assoc.
        cbn [exec]. repeat split; try assumption.
        -- rewrite Hc. cbn [stack set_stack]. rewrite ref_completion_push by discriminate.
           cbn [close_var fst snd]. rewrite !app_nil_r. reflexivity.
      * (* closable *)
        destruct f; [discriminate|]. cbn [run_scope bind] in Hr.
        destruct (run_block f false b s) as [[[ev1 o1] s1]|] eqn:E1; [|discriminate].
        destruct (IH Hs _ _ _ _ _ E1 whole (emit_truncate h (S h) ++ k) (S h) (set_stack vs (VObj id hh :: stack vs)))
          as (f' & evV & oV & sV & He & Hc & Ho & Hst & Hcl).
        assert (Hr' : (let (cev, o') := close_var (VObj id hh) o1 in
                       Done (open_var (VObj id hh) ++ ev1 ++ cev, o', s1)) = Done (ev, o, s')).
        { destruct o1; try exact Hr; contradiction. }
        clear Hr.
        exists (S (S f')), ([EvOpen id] ++ evV), oV, sV.
        cbn [scode local_code open_code app]. rewrite <- app_assoc.
        cbn [exec app]. rewrite He. cbn [vprepend app].
        split; [reflexivity|].
        destruct (close_var (VObj id hh) o1) as [cev o'] eqn:Ecv.
        inversion Hr'; subst. clear Hr'.
        split.
        -- change (EvOpen id :: evV) with ([EvOpen id] ++ evV).
           rewrite completion_prepend. rewrite Hc. cbn [stack set_stack].
           rewrite ref_completion_push by discriminate. rewrite Ecv. cbn [fst snd open_var].
           match goal with |- _ = ref_completion ?e _ _ => change e with ([EvOpen id] ++ (ev1 ++ cev)) end.
           rewrite (ref_completion_prepend [EvOpen id]). reflexivity.
        -- repeat split; try assumption.
           destruct hh as [x|]; cbn in Ecv; inversion Ecv; subst; clear Ecv.
           { destruct o1; cbn in *; tauto. }
           { assumption. }
      * (* not closable *)
        inversion Hr; subst.
        exists 2. cbn [scode local_code open_code app exec vprepend].
        eexists _, _, _. split; [reflexivity|].
        cbn [stack]. unfold completion, ref_completion. cbn [verr err_of].
        destruct (cleanup (stack vs) 0 (Some EMissing)) as [[c st'] e].
        repeat split; eauto. discriminate.
    + (* mark *)
      destruct f; [discriminate|]. cbn [run_block] in Hr.
      destruct f; [discriminate|]. cbn [run_stmt bind prepend] in Hr.
      destruct (run_block (S f) false b s) as [[[ev1 o1] s1]|] eqn:E1; [|discriminate].
      cbn in Hr. inversion Hr; subst. clear Hr.
      destruct (IH Hs _ _ _ _ _ E1 whole k h vs) as (f' & evV & oV & sV & He & Hc & Ho & Hst & Hcl).
      exists (S f'), ([EvMark n] ++ evV), oV, sV. cbn [scode app exec]. rewrite He. cbn [vprepend app].
      split; [reflexivity|]. split.
      * change (EvMark n :: evV) with ([EvMark n] ++ evV).
        change (EvMark n :: ev1) with ([EvMark n] ++ ev1).
        rewrite completion_prepend, Hc. rewrite (ref_completion_prepend [EvMark n]). reflexivity.
      * repeat split; assumption.
    + (* raise *)
      destruct f; [discriminate|]. cbn [run_block] in Hr.
      destruct f; [discriminate|]. cbn [run_stmt bind] in Hr. inversion Hr; subst. clear Hr.
      exists 1. cbn [scode app exec]. eexists _, _, _. split; [reflexivity|].
      unfold completion, ref_completion. cbn [verr err_of].
      destruct (cleanup (stack vs) 0 (Some (EUser e))) as [[c st'] e'].
      repeat split; eauto. discriminate.
Qed.

Lemma compile_fun_straight : forall b, straight b = true -> compile_fun b = Some (scode 0 b).
Proof.
  intros b H. unfold compile_fun, block_prologue.
  destruct (get_labels_nolabel (shapes b) root_ctx 0 (straight_nolabel b H)) as [bo E]. rewrite E.
  rewrite orb_true_r. cbn [negb andb]. rewrite andb_false_r.
  unfold root_ctx. rewrite (compile_straight b H). reflexivity.
Qed.

(* compile_correct, stage 1: for every straight function body, every decision
   stream and every fuel on which the reference semantics terminates, the
   program compiles and the close-stack VM run on the compiled code produces
   the same events and the same final outcome. *)
Theorem compile_correct_partial : forall b, straight b = true ->
  forall fuel d ev o, run_ref fuel b d = Done (ev, o) ->
  exists c fuel', compile b = Some c /\ run_vm fuel' c d = Done (ev, vout_of o).
Proof.
  intros b Hs fuel d ev o Hr.
  unfold compile. rewrite (compile_fun_straight b Hs). cbn [obind].
  exists [IPcall (scode 0 b)].
  unfold run_ref in Hr.
  destruct fuel; [discriminate|]. cbn [run_stmt] in Hr.
  destruct fuel; [discriminate|]. cbn [run_scope bind] in Hr.
  destruct (run_block fuel false b (mkSt d None false)) as [[[ev1 o1] s1]|] eqn:E1; [|discriminate].
  destruct (straight_sim b Hs _ _ _ _ _ E1 (scode 0 b) [] 0 (mkV [] d None false))
    as (f' & evV & oV & sV & He & Hc & Ho & Hst & Hcl).
  rewrite app_nil_r in He.
  assert (Hev : ev = ev1 ++ [EvPcall (err_of o1)] /\ o = ONormal).
  { destruct o1; try contradiction; cbn in Hr; inversion Hr; subst; split; reflexivity. }
  destruct Hev as [-> ->]. clear Hr.
  destruct f' as [|f'']; [discriminate|].
  remember (S f'') as F eqn:EF.
  exists (S F). split; [reflexivity|].
  unfold run_vm. cbn [app]. cbn [exec]. cbn [stack length]. rewrite He. cbn [vbind].
  unfold completion, ref_completion in Hc. cbn [stack cleanup] in Hc.
  destruct Ho as [-> | [e ->]].
  - rewrite (Hst eq_refl) in *. cbn [cleanup verr] in Hc. inversion Hc as [[H1 H2]].
    rewrite !app_nil_r in H1. subst evV.
    subst F. cbn [cleanup vprepend exec set_stack stack app]. rewrite !app_nil_r. reflexivity.
  - cbn [verr] in Hc.
    pose proof (cleanup_zero_stack (stack sV) (Some e)) as Hz.
    destruct (cleanup (stack sV) 0 (Some e)) as [[c st'] e'] eqn:Ec. cbn in Hz. subst st'.
    inversion Hc as [[H1 H2]]. rewrite app_nil_r in H1.
    subst F. cbn [vprepend exec set_stack stack cleanup app]. rewrite !app_nil_r.
    rewrite app_assoc, H1. reflexivity.
Qed.

(* the hypotheses are satisfiable, and the theorem's conclusion can be replayed by evaluation *)
Example compile_correct_example :
  let b := BCons (SLocal (VObj 1 None)) (BCons (SLocal (VObj 2 (Some 7))) (BCons (SMark 4) (BCons (SRaise 3) BNil))) in
  straight b = true /\
  exists c, compile b = Some c /\ run_vm 30 c [] = Done (fst (match run_ref 30 b [] with Done x => x | OutOfFuel => ([], ONormal) end), VReturn).
Proof. split; [reflexivity|]. eexists. split; [reflexivity|]. vm_compute. reflexivity. Qed.

(* ------------------------------------------------------------------ *)
(* Former refutation witness (coroutine.close of a coroutine suspended inside
   pcall).  Before the repair of Thread.CallContext (which truncated the close
   stack on the threadClose panic) the faithful VM model skipped the handler
   pending inside the pcall; the repaired code leaves the entries for
   Thread.end, and the VM model now agrees with the reference semantics. *)
Definition coclose_witness : block :=
  BCons (SCoro (BCons (SPcall (BCons (SLocal (VObj 1 None)) (BCons SYield BNil))) BNil) (Some 0)) BNil.

Theorem coroutine_close_through_pcall_closes :
  exists c, compile coclose_witness = Some c /\
    run_ref 50 coclose_witness [] = Done ([EvOpen 1; EvClose 1 None; EvCo None; EvPcall None], ONormal) /\
    run_vm 50 c [] = Done ([EvOpen 1; EvClose 1 None; EvCo None; EvPcall None], VReturn).
Proof. eexists. split; [reflexivity|]. split; vm_compute; reflexivity. Qed.
