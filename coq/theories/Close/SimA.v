(* Close/SimA.v — compiler correctness for the close-stack slice on the
   WHOLE skeleton language, no restriction (labels anywhere, back labels): run_vm (compile p) = run_ref p.

   Invariants of DESIGN Appendix D.4:
     H1  length (stack vs) = base + top_height cx       at every program point
     H2  the entries above a scope's height are the variables the reference
         semantics still has to close when control leaves that scope — used in the
         form "cleanup of the run-time stack = the reference semantics' lazy
         closing" (creln, creln_pop, exit_*_through / exit_*_raising).
   Every abrupt exit of the reference semantics (break, return, error, coroutine
   closed) is matched with a VIRTUAL exit of the VM started from the stack at
   the entry of the current construct: [cltrunc h; jump L], [ret], or — for
   errors — the completion by the enclosing protected call. *)
From Coq Require Import List Arith Bool Lia.
From GV Require Import Close.Skel Close.Compile Close.VMclose Close.VMLemmas Close.FragL Close.FragA Close.NoClosed.
Import ListNotations.

Definition sm (s : st) (vs : vst) : Prop := vds vs = ds s /\ vyc vs = yc s /\ vlast vs = lastc s.
Definition withst (vs : vst) (s : st) : vst := mkV (stack vs) (ds s) (yc s) (lastc s).

Lemma withst_sm : forall s vs, sm s vs -> withst vs s = vs.
Proof. intros s [k d y l] (H1 & H2 & H3). cbn in *. subst. reflexivity. Qed.
Lemma sm_withst : forall s vs, sm s (withst vs s).
Proof. intros. repeat split. Qed.
Lemma stack_withst : forall vs s, stack (withst vs s) = stack vs.
Proof. reflexivity. Qed.
Lemma withst_withst : forall vs s s', withst (withst vs s) s' = withst vs s'.
Proof. reflexivity. Qed.
Lemma withst_set_stack : forall vs stk s, withst (set_stack vs stk) s = set_stack (withst vs s) stk.
Proof. reflexivity. Qed.
Lemma set_stack_same : forall vs, set_stack vs (stack vs) = vs.
Proof. intros [k d y l]. reflexivity. Qed.

Definition verr (o : vout) : option err := match o with VError e => Some e | _ => None end.

Definition kind (o : outcome) (v : vout) : Prop :=
  match o, v with
  | OError _, VError _ => True
  | OClosed _, VClosed => True
  | _, _ => False
  end.

(* completion relation: what the enclosing protected call will still run *)
Definition creln (base : nat) (evV : list event) (oV : vout) (stkV : list tbcv)
                 (ev : list event) (o : outcome) (stk : list tbcv) : Prop :=
  let '(c1, r1, e1) := cleanup stkV base (verr oV) in
  let '(c2, r2, e2) := cleanup stk base (err_of o) in
  evV ++ c1 = ev ++ c2 /\ r1 = r2 /\ e1 = e2.

Lemma creln_refl : forall base ev oV o stk, verr oV = err_of o -> creln base ev oV stk ev o stk.
Proof. intros base ev oV o stk H. unfold creln. rewrite H. destruct (cleanup stk base (err_of o)) as [[c r] e]. auto. Qed.

Lemma creln_prepend : forall base p evV oV stkV ev o stk,
  creln base evV oV stkV ev o stk -> creln base (p ++ evV) oV stkV (p ++ ev) o stk.
Proof.
  intros base p evV oV stkV ev o stk. unfold creln.
  destruct (cleanup stkV base (verr oV)) as [[c1 r1] e1]. destruct (cleanup stk base (err_of o)) as [[c2 r2] e2].
  intros (H1 & H2 & H3). rewrite <- !app_assoc, H1. auto.
Qed.

Lemma creln_lower : forall B T evV oV stkV ev o stk, B <= T ->
  creln T evV oV stkV ev o stk -> creln B evV oV stkV ev o stk.
Proof.
  intros B T evV oV stkV ev o stk H. unfold creln.
  rewrite (cleanup_split stkV T B _ H), (cleanup_split stk T B _ H).
  destruct (cleanup stkV T (verr oV)) as [[c1 r1] e1]. destruct (cleanup stk T (err_of o)) as [[c2 r2] e2].
  intros (H1 & -> & ->). destruct (cleanup r2 B e2) as [[c3 r3] e3].
  rewrite !app_assoc, H1. auto.
Qed.

Lemma creln_pop : forall base evV oV stkV ev o v stk0, base <= length stk0 ->
  creln base evV oV stkV ev o (v :: stk0) ->
  creln base evV oV stkV (ev ++ fst (close_var v o)) (snd (close_var v o)) stk0.
Proof.
  intros base evV oV stkV ev o v stk0 H. unfold creln.
  rewrite (cleanup_cons v stk0 base (err_of o) ltac:(cbn; lia)). rewrite call_close_close_var.
  destruct (close_var v o) as [cev o']. cbn [fst snd].
  destruct (cleanup stkV base (verr oV)) as [[c1 r1] e1]. destruct (cleanup stk0 base (err_of o')) as [[c2 r2] e2].
  rewrite <- app_assoc. auto.
Qed.

Lemma creln_after_exit : forall base T E stk0 e0 ev2 stk2 x, base <= T ->
  cleanup stk0 T (Some e0) = (ev2, stk2, Some x) ->
  creln base (E ++ ev2) (VError x) stk2 E (OError e0) stk0.
Proof.
  intros base T E stk0 e0 ev2 stk2 x H Hc. unfold creln. cbn [verr err_of].
  rewrite (cleanup_split stk0 T base _ H), Hc.
  destruct (cleanup stk2 base (Some x)) as [[c r] e]. rewrite app_assoc. auto.
Qed.

Lemma kind_close_var : forall v o oV, kind o oV -> kind (snd (close_var v o)) oV.
Proof. intros [| |id [h|]|id] o oV H; cbn; try exact H. destruct o; cbn in *; try contradiction; exact H. Qed.

(* errclaimG / claimG: the run starts in state va; vb is the state whose
   stack is the stack at the entry of the construct the claim is about *)
Definition errclaimG (w : code) (base : nat) (a : code) (va : vst) (stkb : list tbcv)
                     (ev : list event) (o : outcome) (s' : st) : Prop :=
  exists evV oV sV, Term w base a va (evV, oV, sV) /\ kind o oV /\ sm s' sV /\
                    creln base evV oV (stack sV) ev o stkb.

Definition claimG (w : code) (base : nat) (cx : ctx) (fb : bool) (a : code) (va : vst) (post : code) (vb : vst)
                  (ev : list event) (o : outcome) (s' : st) : Prop :=
  match o with
  | ONormal => Reach w base a va (if fb then [IRet] else post) (withst vb s') ev
  | OReturn => Reach w base a va [IRet] (withst vb s') ev
  | OBreak => exists L h, jump_target cx NBreak = Some (L, h) /\ base + h <= length (stack vb) /\
                          Reach w base a va [IClTrunc h; IJump L] (withst vb s') ev
  | OGoto l => exists L h, jump_target cx (NUser l) = Some (L, h) /\ base + h <= length (stack vb) /\
                          Reach w base a va [IClTrunc h; IJump L] (withst vb s') ev
  | _ => errclaimG w base a va (stack vb) ev o s'
  end.

Definition errclaim w base a vs ev o s' := errclaimG w base a vs (stack vs) ev o s'.
Definition claim w base cx fb a post vs ev o s' := claimG w base cx fb a vs post vs ev o s'.

Lemma errclaimG_prepend : forall w base a va a' va' stkb ev1 ev2 o s2,
  Reach w base a va a' va' ev1 ->
  errclaimG w base a' va' stkb ev2 o s2 -> errclaimG w base a va stkb (ev1 ++ ev2) o s2.
Proof.
  intros w base a va a' va' stkb ev1 ev2 o s2 HR (evV & oV & sV & HT & Hk & Hsm & Hc).
  exists (ev1 ++ evV), oV, sV. split; [apply (HR _ HT)|]. split; [assumption|]. split; [assumption|].
  apply creln_prepend. exact Hc.
Qed.

Lemma claimG_prepend : forall w base cx fb a va a' va' post vb ev1 ev2 o s2,
  Reach w base a va a' va' ev1 ->
  claimG w base cx fb a' va' post vb ev2 o s2 -> claimG w base cx fb a va post vb (ev1 ++ ev2) o s2.
Proof.
  intros w base cx fb a va a' va' post vb ev1 ev2 o s2 HR H.
  destruct o; cbn [claimG] in *; try (eapply Reach_trans; eassumption);
    try (eapply errclaimG_prepend; eassumption);
    destruct H as (L & h & H1 & H2 & H3); exists L, h;
    (split; [assumption|]); (split; [assumption|]); eapply Reach_trans; eassumption.
Qed.

Lemma claimG_vb : forall w base cx fb a va post vb vb' ev o s',
  stack vb = stack vb' -> claimG w base cx fb a va post vb ev o s' -> claimG w base cx fb a va post vb' ev o s'.
Proof.
  intros w base cx fb a va post vb vb' ev o s' Hs H.
  assert (Ew : withst vb s' = withst vb' s') by (unfold withst; rewrite Hs; reflexivity).
  destruct o; cbn [claimG] in *; rewrite <- ?Ew, <- ?Hs; exact H.
Qed.

(* change of context: only the jump targets of the outcome matter *)
Definition ctx_agree (cx cx' : ctx) (o : outcome) : Prop :=
  match o with
  | OBreak => jump_target cx NBreak = jump_target cx' NBreak
  | OGoto l => jump_target cx (NUser l) = jump_target cx' (NUser l)
  | _ => True
  end.

Lemma claimG_ctx : forall w base cx cx' fb a va post vb ev o s',
  ctx_agree cx cx' o -> claimG w base cx fb a va post vb ev o s' -> claimG w base cx' fb a va post vb ev o s'.
Proof.
  intros w base cx cx' fb a va post vb ev o s' Hj H.
  destruct o; cbn [claimG ctx_agree] in *; try assumption; rewrite <- Hj; exact H.
Qed.

(* change of post / fb for the outcomes that do not depend on them *)
Lemma claimG_abrupt : forall w base cx cx' fb fb' a va post post' vb ev o s',
  (forall name, jump_target cx name = jump_target cx' name) ->
  o <> ONormal ->
  claimG w base cx fb a va post vb ev o s' -> claimG w base cx' fb' a va post' vb ev o s'.
Proof.
  intros w base cx cx' fb fb' a va post post' vb ev o s' Hj Hn H.
  destruct o; cbn [claimG] in *; try assumption; try contradiction; rewrite <- Hj; exact H.
Qed.

Lemma vnext_sm : forall s vs, sm s vs ->
  vnext vs = (fst (next_decision s), withst vs (snd (next_decision s))).
Proof.
  intros s [k d y l] (H1 & H2 & H3). cbn in *. subst. unfold vnext, next_decision, withst. cbn.
  destruct (ds s) eqn:E; cbn; rewrite ?E; reflexivity.
Qed.

Lemma exec_jump_any : forall F w l k base s, exec F w (IJump l :: k) base s = exec F w [IJump l] base s.
Proof. intros [|F]; reflexivity. Qed.

Lemma Reach_trunc_jump_any : forall w base h l k vs, Reach w base (IClTrunc h :: IJump l :: k) vs [IClTrunc h; IJump l] vs [].
Proof.
  intros w base h l k vs R [F HF]. rewrite pre3_nil. exists F. intros F' Hle. specialize (HF F' Hle).
  destruct F' as [|F']; [discriminate|]. cbn [exec] in *.
  destruct (cleanup (stack vs) (base + h) None) as [[ev stk] e]. destruct e; [exact HF|].
  rewrite exec_jump_any. exact HF.
Qed.

Lemma Reach_jump_virtual : forall w base h l k vs, length (stack vs) <= base + h ->
  Reach w base (IJump l :: k) vs [IClTrunc h; IJump l] vs [].
Proof.
  intros w base h l k vs Hl R [F HF]. rewrite pre3_nil. exists F. intros F' Hle.
  specialize (HF (S F') ltac:(lia)). cbn [exec] in HF. rewrite (cleanup_nothing _ _ _ Hl) in HF.
  rewrite set_stack_same in HF. rewrite exec_jump_any.
  destruct (exec F' w [IJump l] base vs) as [[[e o] s]|]; [|discriminate]. exact HF.
Qed.

Lemma Reach_of_Term_ret : forall w base a va ev vb, length (stack vb) <= base ->
  Term w base a va (ev, VReturn, vb) -> Reach w base a va [IRet] vb ev.
Proof.
  intros w base a va ev vb Hl HT R HR.
  pose proof (term_ret w base [] vb _ _ _ (cleanup_nothing _ _ None Hl)) as T. cbn in T. rewrite set_stack_same in T.
  rewrite (Term_det _ _ _ _ _ _ HR T). cbn. rewrite app_nil_r. exact HT.
Qed.

(* ---------------------------------------------------------------- the statements proved by induction on fuel *)
(* hide: keeps the equation describing the whole code out of reach of [subst] *)
Definition hide (P : Prop) : Prop := P.
(* endc (reference side) / ec (compiler side): the `until` condition of a repeat loop *)
Definition erel (endc : bool) (ec : code) (fb : bool) : Prop :=
  (endc = false /\ ec = []) \/ (endc = true /\ ec = [ICond] /\ fb = false).

Lemma erel_nolab : forall endc ec fb, erel endc ec fb -> forall l, ~ In (ILabel l) ec.
Proof. intros endc ec fb [[_ ->]|[_ [-> _]]] l H; [destruct H|destruct H as [H|[]]; discriminate]. Qed.

Lemma step_cond : forall w base k vs,
  Reach w base (ICond :: k) vs k (let (d, s1) := vnext vs in mkV (stack s1) (vds s1) (vyc s1) d) [].
Proof.
  intros w base k vs R [F HF]. rewrite pre3_nil. exists (S F). intros F' Hle.
  destruct F' as [|F']; [lia|]. cbn [exec]. destruct (vnext vs) as [d s1]. apply HF. lia.
Qed.

Lemma step_jumplast_taken : forall w base l nt k r vs, vlast vs = true -> after_label l w = Some r ->
  Reach w base (IJumpLast l nt :: k) vs r vs [].
Proof.
  intros w base l nt k r vs H1 H2 R [F HF]. rewrite pre3_nil. exists (S F). intros F' Hle.
  destruct F' as [|F']; [lia|]. cbn [exec]. rewrite H1, H2. apply HF. lia.
Qed.

Lemma step_jumplast_not : forall w base l nt k vs, vlast vs = false ->
  Reach w base (IJumpLast l nt :: k) vs k vs [].
Proof.
  intros w base l nt k vs H1 R [F HF]. rewrite pre3_nil. exists (S F). intros F' Hle.
  destruct F' as [|F']; [lia|]. cbn [exec]. rewrite H1. apply HF. lia.
Qed.

(* ---------------------------------------------------------------- back labels in flight *)
(* sclaim: either the ordinary claim, or — the reference semantics completed
   normally by running the void tail behind a BACK label l (a label of the
   back-label zone of the enclosing block, declared in that block's base scope)
   while the VM still has to perform the jump: it truncates eagerly down to the
   base scope's height, the reference semantics closes lazily, scope by scope. *)
Definition sclaim (backs : list nat) (w : code) (base : nat) (cx : ctx) (fb : bool) (a : code) (va : vst)
                  (post : code) (vb : vst) (ev : list event) (o : outcome) (s' : st) : Prop :=
  claimG w base cx fb a va post vb ev o s' \/
  (o = ONormal /\ exists l L h, In l backs /\ jump_target cx (NUser l) = Some (L, h) /\
      base + h <= length (stack vb) /\ Reach w base a va [IClTrunc h; IJump L] (withst vb s') ev).

Lemma sclaim_prepend : forall backs w base cx fb a va a' va' post vb ev1 ev2 o s2,
  Reach w base a va a' va' ev1 ->
  sclaim backs w base cx fb a' va' post vb ev2 o s2 -> sclaim backs w base cx fb a va post vb (ev1 ++ ev2) o s2.
Proof.
  intros backs w base cx fb a va a' va' post vb ev1 ev2 o s2 HR [H|(Ho & l & L & h & A & B & C & D)].
  - left. eapply claimG_prepend; eassumption.
  - right. split; [exact Ho|]. exists l, L, h. repeat split; try assumption. eapply Reach_trans; eassumption.
Qed.

Lemma sclaim_vb : forall backs w base cx fb a va post vb vb' ev o s',
  stack vb = stack vb' -> sclaim backs w base cx fb a va post vb ev o s' -> sclaim backs w base cx fb a va post vb' ev o s'.
Proof.
  intros backs w base cx fb a va post vb vb' ev o s' Hs [H|(Ho & l & L & h & A & B & C & D)].
  - left. eapply claimG_vb; eassumption.
  - right. split; [exact Ho|]. exists l, L, h.
    assert (Ew : withst vb s' = withst vb' s') by (unfold withst; rewrite Hs; reflexivity).
    rewrite <- Ew, <- Hs. auto.
Qed.

Lemma noop_reach : forall w base H z post vs, noop H z -> length (stack vs) <= base + H ->
  Reach w base (z ++ post) vs post vs [].
Proof.
  induction z as [|i z IH]; intros post vs Hz Hl; [apply Reach_refl|].
  assert (Hz' : noop H z) by (intros j Hj; apply Hz; right; exact Hj).
  cbn [app].
  destruct (Hz i (or_introl eq_refl)) as [[l ->]|(t & -> & Ht)].
  - exact (Reach_trans w base _ vs _ vs _ vs [] [] (step_label w base l (z ++ post) vs) (IH post vs Hz' Hl)).
  - assert (Hl2 : length (stack vs) <= base + t) by lia.
    pose proof (step_trunc_ok w base t (z ++ post) vs [] (stack vs) (cleanup_nothing _ _ None Hl2)) as T.
    rewrite set_stack_same in T.
    exact (Reach_trans w base _ vs _ vs _ vs [] [] T (IH post vs Hz' Hl)).
Qed.

Lemma close_var_goto_normal : forall v l,
  fst (close_var v (OGoto l)) = fst (close_var v ONormal) /\
  (snd (close_var v (OGoto l)) = OGoto l -> snd (close_var v ONormal) = ONormal) /\
  (forall e, snd (close_var v (OGoto l)) = OError e -> snd (close_var v ONormal) = OError e).
Proof. intros [| |id [h|]|id] l; cbn; repeat split; try reflexivity; try discriminate; intros e H; exact H. Qed.

Definition P_stmt (f : nat) : Prop :=
  forall t cx n c n' w pre post s ev o s' vs base,
    cx <> [] -> ctx_lt cx n -> ctx_inj cx ->
    compile_stmt cx n t = Some (c, n') -> hide (w = pre ++ c ++ post) ->
    lab_lt pre n -> hle cx ->
    run_stmt f t s = Done (ev, o, s') -> sm s vs -> length (stack vs) = base + top_height cx ->
    claim w base cx false (c ++ post) post vs ev o s'.

Definition P_stats (f : nat) : Prop :=
  forall b backs cx n tl fb endc ec c n' w pre post s ev o s' vs base,
    erel endc ec fb -> cx <> [] -> ctx_lt cx n -> ctx_inj cx ->
    VZ tl b backs -> (endc = true \/ fb = true -> length (shapes b) <= tl) ->
    (forall l, In l backs -> get_label cx (NUser l) <> None) ->
    compile_stats cx n tl fb ec b = Some (c, n') -> hide (w = pre ++ c ++ post) ->
    lab_lt pre n -> hle cx ->
    run_block f endc b s = Done (ev, o, s') -> sm s vs -> length (stack vs) = base + top_height cx ->
    sclaim backs w base cx fb (c ++ post) vs post vs ev o s'.

(* bl: this scope is the base scope of its block (the back labels are declared in its top scope) *)
Definition P_scope (f : nat) : Prop :=
  forall W a cur backs (bl : bool) cxo cx n0 n tl fb endc ec c n' w pre post s ev o s' vs base,
    W = bapp a cur -> nolocal a -> erel endc ec fb -> cx <> [] -> ctx_lt cx n -> ctx_inj cx ->
    VZ tl W backs -> (endc = true \/ fb = true -> length (shapes W) <= tl) ->
    (forall l, In l backs -> get_label cx (NUser l) <> None) ->
    (forall l, In l (flab (firstn tl (shapes W))) ->
        exists x, scope_label (NUser l) (top_labels cx) = Some x /\ n0 <= x < n) ->
    (forall name, (forall l, name = NUser l -> ~ In (SLabel l) (stmts W)) -> jump_target cx name = jump_target cxo name) ->
    (forall name, scope_label name (top_labels cx) = None -> jump_target cx name = jump_target cxo name) ->
    (bl = true -> forall l, In l backs ->
        exists L, scope_label (NUser l) (top_labels cx) = Some L /\ fb = false /\
        exists z, after_label L w = Some (z ++ post) /\ noop (top_height cx) z) ->
    (bl = false -> forall l, In l backs -> scope_label (NUser l) (top_labels cx) = None) ->
    compile_stats cx n tl fb ec W = Some (c, n') -> hide (w = pre ++ c ++ post) ->
    lab_lt pre n0 -> n0 <= n -> hle cx ->
    run_scope f endc W cur s = Done (ev, o, s') -> sm s vs -> length (stack vs) = base + top_height cx ->
    forall ca nb cc, compile_seq cx n a = Some (ca, nb) ->
      compile_stats cx nb (tl - length a) fb ec cur = Some (cc, n') -> c = ca ++ cc ->
      if bl then claimG w base cxo fb (cc ++ post) vs post vs ev o s'
      else sclaim backs w base cxo fb (cc ++ post) vs post vs ev o s'.

Definition P_loop (f : nat) : Prop :=
  forall b cxb nb cb n' w pre tailc Ll Lb nt s ev o s' vs base cxo,
    cxb <> [] -> ctx_lt cxb nb -> ctx_inj cxb ->
    bin cxb nb b true false [] = Some (cb, n') ->
    hide (w = pre ++ cb ++ ([IJump Ll; ILabel Lb] ++ tailc)) ->
    after_label Ll w = Some (IJumpIf Lb nt false :: cb ++ [IJump Ll; ILabel Lb] ++ tailc) ->
    after_label Lb w = Some tailc ->
    lab_lt pre nb -> hle cxb -> jump_target cxb NBreak = Some (Lb, top_height cxb) ->
    run_loop f false b s = Done (ev, o, s') -> sm s vs -> length (stack vs) = base + top_height cxb ->
    (forall l, o = OGoto l -> jump_target cxb (NUser l) = jump_target cxo (NUser l)) ->
    claimG w base cxo false (IJumpIf Lb nt false :: cb ++ [IJump Ll; ILabel Lb] ++ tailc) vs tailc vs ev o s'.

Definition P_loopR (f : nat) : Prop :=
  forall b cx2 nb cb n' w pre post Ll Lb s ev o s' vs base cxo,
    cx2 <> [] -> ctx_lt cx2 nb -> ctx_inj cx2 ->
    bin cx2 nb b false false [ICond] = Some (cb, n') ->
    hide (w = pre ++ cb ++ ([IJumpLast Ll false; ILabel Lb] ++ post)) ->
    after_label Ll w = Some (cb ++ [IJumpLast Ll false; ILabel Lb] ++ post) ->
    after_label Lb w = Some post ->
    lab_lt pre nb -> hle cx2 -> jump_target cx2 NBreak = Some (Lb, top_height cx2) ->
    run_loop f true b s = Done (ev, o, s') -> sm s vs -> length (stack vs) = base + top_height cx2 ->
    (forall l, o = OGoto l -> jump_target cx2 (NUser l) = jump_target cxo (NUser l)) ->
    claimG w base cxo false (cb ++ [IJumpLast Ll false; ILabel Lb] ++ post) vs post vs ev o s'.

(* a block compiled through its prologue (front labels and back labels pre-declared), entered at its start *)
Lemma block_sim : forall f, P_scope f ->
  forall b cx0 n complete fb endc ec c n' w pre post s ev o s' vs base,
    erel endc ec fb -> (endc = true -> complete = false) -> cx0 <> [] -> ctx_lt cx0 n -> ctx_inj cx0 ->
    bin cx0 n b complete fb ec = Some (c, n') -> hide (w = pre ++ c ++ post) ->
    lab_lt pre n -> hle cx0 ->
    run_scope f endc b b s = Done (ev, o, s') -> sm s vs -> length (stack vs) = base + top_height cx0 ->
    claimG w base cx0 fb (c ++ post) vs post vs ev o s'.
Proof.
  intros f HP b cx0 n complete fb endc ec c n' w pre post s ev o s' vs base He Hcomp Hne Hlt Hinj Hc Hw Hl Hh Hr Hsm H1.
  unfold bin in Hc.
  destruct (block_prologue cx0 n b complete fb) as [[[cx2 n2] tl]|] eqn:Ep; [|discriminate].
  apply prologue_inv in Ep.
  assert (NL : nolocal []) by (unfold nolocal; intros t Hin; destruct Hin).
  assert (Hc' : compile_stats cx2 n2 (tl - length (@nil stmt)) fb ec b = Some (c, n')).
  { cbn [length]. rewrite Nat.sub_0_r. exact Hc. }
  destruct Ep as [bo E Etl|cx1 n1 bo E1 E2 Etl Ecomp Efb Hret].
  - (* no back labels *)
    destruct (glA_basic _ _ _ _ _ _ Hne E) as (Hle & Htl & Hth & Hne2).
    subst tl.
    refine (HP b [] b [] true cx0 cx2 n n2 (length (shapes b)) fb endc ec c n' w pre post s ev o s' vs base eq_refl
              NL He Hne2 (glA_ctx_lt _ _ _ _ _ _ Hne Hlt E) (glA_ctx_inj _ _ _ _ _ _ Hne Hlt Hinj E)
              (VZ_full b []) (fun _ => le_n _) (fun l Hin => match Hin with end)
              _ _ _ (fun _ l Hin => match Hin with end) (fun Hq => ltac:(discriminate Hq))
              Hc Hw Hl Hle (hle_same cx0 cx2 Hne Hne2 Htl Hth Hh) Hr Hsm _ [] n2 c eq_refl Hc' eq_refl).
    + intros l Hin. rewrite firstn_all in Hin. exact (glA_new _ _ _ _ _ _ l Hne E Hin).
    + intros name Hn. apply jump_target_same; try assumption.
      apply (glA_old _ _ _ _ _ _ name Hne E). intros l Hq Hin. apply (Hn l Hq).
      apply shape_label_stmt, flab_in_shapes. exact Hin.
    + intros name Hn. rewrite (jump_target_skip _ _ Hn), Htl.
      destruct (scope_label name (top_labels cx0)) as [y|] eqn:Es.
      * exfalso. exact (glA_top_mono _ _ _ _ _ _ name y Hne E Es Hn).
      * symmetry. apply jump_target_skip. exact Es.
    + rewrite Hth. exact H1.
  - (* back labels declared in the base scope *)
    destruct (glA_basic _ _ _ _ _ _ Hne E1) as (Hle1 & Htl1 & Hth1 & Hne1).
    destruct (glA_basic _ _ _ _ _ _ Hne1 E2) as (Hle2 & Htl2 & Hth2 & Hne2).
    assert (Hlt1 : ctx_lt cx1 n1) by exact (glA_ctx_lt _ _ _ _ _ _ Hne Hlt E1).
    assert (Hinj1 : ctx_inj cx1) by exact (glA_ctx_inj _ _ _ _ _ _ Hne Hlt Hinj E1).
    assert (Hlt2 : ctx_lt cx2 n2) by exact (glA_ctx_lt _ _ _ _ _ _ Hne1 Hlt1 E2).
    assert (Hinj2 : ctx_inj cx2) by exact (glA_ctx_inj _ _ _ _ _ _ Hne1 Hlt1 Hinj1 E2).
    assert (Hendc : endc = false) by (destruct endc; [specialize (Hcomp eq_refl); congruence|reflexivity]).
    assert (Hec : ec = []) by (destruct He as [[_ ->]|[Hq _]]; [reflexivity|congruence]).
    subst fb endc ec tl.
    set (backs := flab (lead (rev (shapes b)))) in *.
    assert (BTOP : forall l, In l backs -> exists L, scope_label (NUser l) (top_labels cx2) = Some L /\ n1 <= L < n2).
    { intros l Hin. exact (glA_new _ _ _ _ _ _ l Hne1 E2 Hin). }
    assert (FRONT : forall l, In l (flab (shapes b)) ->
              exists x, scope_label (NUser l) (top_labels cx2) = Some x /\ n <= x < n2).
    { intros l Hin. destruct (glA_new _ _ _ _ _ _ l Hne E1 Hin) as (x & Hx & Hr0).
      exists x. split; [|lia].
      rewrite (glA_old _ _ _ _ _ _ (NUser l) Hne1 E2); [exact Hx|].
      intros l0 Hq. inversion Hq; subst l0.
      eapply glA_vis; [exact Hne1| |exact E2]. rewrite (get_label_top _ _ _ Hne1 Hx). discriminate. }
    refine (HP b [] b backs true cx0 cx2 n n2 _ false false [] c n' w pre post s ev o s' vs base eq_refl
              NL He Hne2 Hlt2 Hinj2 (VZ_back b Hret) (fun Hq => ltac:(destruct Hq; discriminate)) _
              _ _ _ _ (fun Hq => ltac:(discriminate Hq))
              Hc Hw Hl ltac:(lia) (hle_same cx0 cx2 Hne Hne2 ltac:(congruence) ltac:(congruence) Hh) Hr Hsm _ [] n2 c eq_refl Hc' eq_refl).
    + intros l Hin. destruct (BTOP l Hin) as (L & HL & _). rewrite (get_label_top _ _ _ Hne2 HL). discriminate.
    + intros l Hin. apply FRONT. eapply flab_firstn_incl. exact Hin.
    + intros name Hn. apply jump_target_same; try assumption; try congruence.
      rewrite (glA_old _ _ _ _ _ _ name Hne1 E2).
      * apply (glA_old _ _ _ _ _ _ name Hne E1). intros l Hq Hin. apply (Hn l Hq).
        apply shape_label_stmt, flab_in_shapes. exact Hin.
      * intros l Hq Hin. apply (Hn l Hq). apply shape_label_stmt.
        apply in_rev. apply lead_incl. apply flab_in_shapes. exact Hin.
    + intros name Hn. rewrite (jump_target_skip _ _ Hn). replace (tl cx2) with (tl cx0) by congruence.
      destruct (scope_label name (top_labels cx0)) as [y|] eqn:Es.
      * exfalso. destruct (scope_label name (top_labels cx1)) as [y1|] eqn:Es1.
        -- exact (glA_top_mono _ _ _ _ _ _ name y1 Hne1 E2 Es1 Hn).
        -- exact (glA_top_mono _ _ _ _ _ _ name y Hne E1 Es Es1).
      * symmetry. apply jump_target_skip. exact Es.
    + (* the code behind each back label *)
      intros _ l Hin. destruct (BTOP l Hin) as (L & HL & HLr). exists L. split; [exact HL|]. split; [reflexivity|].
      assert (Hst : In (SLabel l) (stmts b)).
      { apply shape_label_stmt. apply in_rev. apply lead_incl. apply flab_in_shapes. exact Hin. }
      destruct (find_label l b) as [b'|] eqn:Ef; [|exfalso; exact (find_label_of_in l b Hst Ef)].
      destruct (find_label_split l b b' Ef) as (a' & Eb & Hnot).
      assert (Hge : length (shapes b) - length (lead (rev (shapes b))) <= length a').
      { destruct (Nat.lt_ge_cases (length a') (length (shapes b) - length (lead (rev (shapes b))))) as [Hlt0|Hge]; [|exact Hge].
        exfalso. destruct (nolocal_dec a') as [Hn|Hn].
        - assert (Hf : In l (flab (shapes b))) by (rewrite Eb; apply flab_here; exact Hn).
          destruct (glA_new _ _ _ _ _ _ l Hne E1 Hf) as (x & Hx & _).
          eapply (glA_vis l); [exact Hne1| |exact E2|exact Hin]. rewrite (get_label_top _ _ _ Hne1 Hx). discriminate.
        - revert Hc Hlt0. rewrite Eb. intros Hc Hlt0.
          eapply deeper_not_visible; [exact Hne2|exact Hc|exact Hn|exact Hlt0|].
          rewrite (get_label_top _ _ _ Hne2 HL). discriminate. }
      destruct (VZ_back b Hret a' (SLabel l) b' Eb Hge) as (_ & Hlb).
      pose proof Hc as Hc0. rewrite Eb in Hc0.
      destruct (void_code a' l b' cx2 n2 _ c n' L Hne2 Hc0 Hnot ltac:(rewrite <- Eb; exact Hge) Hlb (get_label_top _ _ _ Hne2 HL) Hinj2 Hlt2)
        as (c1 & z & Ec & Hc1 & Hz).
      exists z. split; [|exact Hz].
      pose proof Hw as Hw0. unfold hide in Hw0. rewrite Hw0, Ec.
      replace (pre ++ (c1 ++ ILabel L :: z) ++ post) with ((pre ++ c1) ++ ILabel L :: (z ++ post))
        by (rewrite <- !app_assoc; reflexivity).
      rewrite after_label_skip; [apply after_label_here|].
      intro Hq. apply in_app_or in Hq as [Hq|Hq]; [specialize (Hl _ Hq); lia|exact (Hc1 Hq)].
    + replace (top_height cx2) with (top_height cx0) by congruence. exact H1.
Qed.
