(* Close/SimA.v — compiler correctness for the close-stack slice on the
   WHOLE skeleton language, no restriction (labels anywhere, back labels): run_vm (compile p) = run_ref p.

   Invariants of DESIGN Appendix D.4:
     H1  length (stack vs) = base + top_height cx       at every program point
     H2  the entries above a scope's height are the variables the reference
         semantics still has to close when control leaves that scope — used in the
         form "cleanup of the run-time stack = the reference semantics' lazy
         closing" (creln, creln_pop, exit_*_through / exit_*_raising).
   Every abrupt exit of the reference semantics (break, return, error, coroutine
   closed) is matched with a VIRTUAL exit of the VM started from the stack at
   the entry of the current construct: [cltrunc h; jump L], [ret], or — for
   errors — the completion by the enclosing protected call. *)
From Coq Require Import List Arith Bool Lia.
From GV Require Import Close.Skel Close.Compile Close.VMclose Close.VMLemmas Close.FragL Close.FragA Close.NoClosed.
Import ListNotations.

Definition sm (s : st) (vs : vst) : Prop := vds vs = ds s /\ vyc vs = yc s /\ vlast vs = lastc s.
Definition withst (vs : vst) (s : st) : vst := mkV (stack vs) (ds s) (yc s) (lastc s).

Lemma withst_sm : forall s vs, sm s vs -> withst vs s = vs.
Proof. intros s [k d y l] (H1 & H2 & H3). cbn in *. subst. reflexivity. Qed.
Lemma sm_withst : forall s vs, sm s (withst vs s).
Proof. intros. repeat split. Qed.
Lemma stack_withst : forall vs s, stack (withst vs s) = stack vs.
Proof. reflexivity. Qed.
Lemma withst_withst : forall vs s s', withst (withst vs s) s' = withst vs s'.
Proof. reflexivity. Qed.
Lemma withst_set_stack : forall vs stk s, withst (set_stack vs stk) s = set_stack (withst vs s) stk.
Proof. reflexivity. Qed.
Lemma set_stack_same : forall vs, set_stack vs (stack vs) = vs.
Proof. intros [k d y l]. reflexivity. Qed.

Definition verr (o : vout) : option err := match o with VError e => Some e | _ => None end.

Definition kind (o : outcome) (v : vout) : Prop :=
  match o, v with
  | OError _, VError _ => True
  | OClosed _, VClosed => True
  | _, _ => False
  end.

(* completion relation: what the enclosing protected call will still run *)
Definition creln (base : nat) (evV : list event) (oV : vout) (stkV : list tbcv)
                 (ev : list event) (o : outcome) (stk : list tbcv) : Prop :=
  let '(c1, r1, e1) := cleanup stkV base (verr oV) in
  let '(c2, r2, e2) := cleanup stk base (err_of o) in
  evV ++ c1 = ev ++ c2 /\ r1 = r2 /\ e1 = e2.

Lemma creln_refl : forall base ev oV o stk, verr oV = err_of o -> creln base ev oV stk ev o stk.
Proof. intros base ev oV o stk H. unfold creln. rewrite H. destruct (cleanup stk base (err_of o)) as [[c r] e]. auto. Qed.

Lemma creln_prepend : forall base p evV oV stkV ev o stk,
  creln base evV oV stkV ev o stk -> creln base (p ++ evV) oV stkV (p ++ ev) o stk.
Proof.
  intros base p evV oV stkV ev o stk. unfold creln.
  destruct (cleanup stkV base (verr oV)) as [[c1 r1] e1]. destruct (cleanup stk base (err_of o)) as [[c2 r2] e2].
  intros (H1 & H2 & H3). rewrite <- !app_assoc, H1. auto.
Qed.

Lemma creln_lower : forall B T evV oV stkV ev o stk, B <= T ->
  creln T evV oV stkV ev o stk -> creln B evV oV stkV ev o stk.
Proof.
  intros B T evV oV stkV ev o stk H. unfold creln.
  rewrite (cleanup_split stkV T B _ H), (cleanup_split stk T B _ H).
  destruct (cleanup stkV T (verr oV)) as [[c1 r1] e1]. destruct (cleanup stk T (err_of o)) as [[c2 r2] e2].
  intros (H1 & -> & ->). destruct (cleanup r2 B e2) as [[c3 r3] e3].
  rewrite !app_assoc, H1. auto.
Qed.

Lemma creln_pop : forall base evV oV stkV ev o v stk0, base <= length stk0 ->
  creln base evV oV stkV ev o (v :: stk0) ->
  creln base evV oV stkV (ev ++ fst (close_var v o)) (snd (close_var v o)) stk0.
Proof.
  intros base evV oV stkV ev o v stk0 H. unfold creln.
  rewrite (cleanup_cons v stk0 base (err_of o) ltac:(cbn; lia)). rewrite call_close_close_var.
  destruct (close_var v o) as [cev o']. cbn [fst snd].
  destruct (cleanup stkV base (verr oV)) as [[c1 r1] e1]. destruct (cleanup stk0 base (err_of o')) as [[c2 r2] e2].
  rewrite <- app_assoc. auto.
Qed.

Lemma creln_after_exit : forall base T E stk0 e0 ev2 stk2 x, base <= T ->
  cleanup stk0 T (Some e0) = (ev2, stk2, Some x) ->
  creln base (E ++ ev2) (VError x) stk2 E (OError e0) stk0.
Proof.
  intros base T E stk0 e0 ev2 stk2 x H Hc. unfold creln. cbn [verr err_of].
  rewrite (cleanup_split stk0 T base _ H), Hc.
  destruct (cleanup stk2 base (Some x)) as [[c r] e]. rewrite app_assoc. auto.
Qed.

Lemma kind_close_var : forall v o oV, kind o oV -> kind (snd (close_var v o)) oV.
Proof. intros [| |id [h|]|id] o oV H; cbn; try exact H. destruct o; cbn in *; try contradiction; exact H. Qed.

(* errclaimG / claimG: the run starts in state va; vb is the state whose
   stack is the stack at the entry of the construct the claim is about *)
Definition errclaimG (w : code) (base : nat) (a : code) (va : vst) (stkb : list tbcv)
                     (ev : list event) (o : outcome) (s' : st) : Prop :=
  exists evV oV sV, Term w base a va (evV, oV, sV) /\ kind o oV /\ sm s' sV /\
                    creln base evV oV (stack sV) ev o stkb.

Definition claimG (w : code) (base : nat) (cx : ctx) (fb : bool) (a : code) (va : vst) (post : code) (vb : vst)
                  (ev : list event) (o : outcome) (s' : st) : Prop :=
  match o with
  | ONormal => Reach w base a va (if fb then [IRet] else post) (withst vb s') ev
  | OReturn => Reach w base a va [IRet] (withst vb s') ev
  | OBreak => exists L h, jump_target cx NBreak = Some (L, h) /\ base + h <= length (stack vb) /\
                          Reach w base a va [IClTrunc h; IJump L] (withst vb s') ev
  | OGoto l => exists L h, jump_target cx (NUser l) = Some (L, h) /\ base + h <= length (stack vb) /\
                          Reach w base a va [IClTrunc h; IJump L] (withst vb s') ev
  | _ => errclaimG w base a va (stack vb) ev o s'
  end.

Definition errclaim w base a vs ev o s' := errclaimG w base a vs (stack vs) ev o s'.
Definition claim w base cx fb a post vs ev o s' := claimG w base cx fb a vs post vs ev o s'.

Lemma errclaimG_prepend : forall w base a va a' va' stkb ev1 ev2 o s2,
  Reach w base a va a' va' ev1 ->
  errclaimG w base a' va' stkb ev2 o s2 -> errclaimG w base a va stkb (ev1 ++ ev2) o s2.
Proof.
  intros w base a va a' va' stkb ev1 ev2 o s2 HR (evV & oV & sV & HT & Hk & Hsm & Hc).
  exists (ev1 ++ evV), oV, sV. split; [apply (HR _ HT)|]. split; [assumption|]. split; [assumption|].
  apply creln_prepend. exact Hc.
Qed.

Lemma claimG_prepend : forall w base cx fb a va a' va' post vb ev1 ev2 o s2,
  Reach w base a va a' va' ev1 ->
  claimG w base cx fb a' va' post vb ev2 o s2 -> claimG w base cx fb a va post vb (ev1 ++ ev2) o s2.
Proof.
  intros w base cx fb a va a' va' post vb ev1 ev2 o s2 HR H.
  destruct o; cbn [claimG] in *; try (eapply Reach_trans; eassumption);
    try (eapply errclaimG_prepend; eassumption);
    destruct H as (L & h & H1 & H2 & H3); exists L, h;
    (split; [assumption|]); (split; [assumption|]); eapply Reach_trans; eassumption.
Qed.

Lemma claimG_vb : forall w base cx fb a va post vb vb' ev o s',
  stack vb = stack vb' -> claimG w base cx fb a va post vb ev o s' -> claimG w base cx fb a va post vb' ev o s'.
Proof.
  intros w base cx fb a va post vb vb' ev o s' Hs H.
  assert (Ew : withst vb s' = withst vb' s') by (unfold withst; rewrite Hs; reflexivity).
  destruct o; cbn [claimG] in *; rewrite <- ?Ew, <- ?Hs; exact H.
Qed.

(* change of context: only the jump targets of the outcome matter *)
Definition ctx_agree (cx cx' : ctx) (o : outcome) : Prop :=
  match o with
  | OBreak => jump_target cx NBreak = jump_target cx' NBreak
  | OGoto l => jump_target cx (NUser l) = jump_target cx' (NUser l)
  | _ => True
  end.

Lemma claimG_ctx : forall w base cx cx' fb a va post vb ev o s',
  ctx_agree cx cx' o -> claimG w base cx fb a va post vb ev o s' -> claimG w base cx' fb a va post vb ev o s'.
Proof.
  intros w base cx cx' fb a va post vb ev o s' Hj H.
  destruct o; cbn [claimG ctx_agree] in *; try assumption; rewrite <- Hj; exact H.
Qed.

(* change of post / fb for the outcomes that do not depend on them *)
Lemma claimG_abrupt : forall w base cx cx' fb fb' a va post post' vb ev o s',
  (forall name, jump_target cx name = jump_target cx' name) ->
  o <> ONormal ->
  claimG w base cx fb a va post vb ev o s' -> claimG w base cx' fb' a va post' vb ev o s'.
Proof.
  intros w base cx cx' fb fb' a va post post' vb ev o s' Hj Hn H.
  destruct o; cbn [claimG] in *; try assumption; try contradiction; rewrite <- Hj; exact H.
Qed.

Lemma vnext_sm : forall s vs, sm s vs ->
  vnext vs = (fst (next_decision s), withst vs (snd (next_decision s))).
Proof.
  intros s [k d y l] (H1 & H2 & H3). cbn in *. subst. unfold vnext, next_decision, withst. cbn.
  destruct (ds s) eqn:E; cbn; rewrite ?E; reflexivity.
Qed.

Lemma exec_jump_any : forall F w l k base s, exec F w (IJump l :: k) base s = exec F w [IJump l] base s.
Proof. intros [|F]; reflexivity. Qed.

Lemma Reach_trunc_jump_any : forall w base h l k vs, Reach w base (IClTrunc h :: IJump l :: k) vs [IClTrunc h; IJump l] vs [].
Proof.
  intros w base h l k vs R [F HF]. rewrite pre3_nil. exists F. intros F' Hle. specialize (HF F' Hle).
  destruct F' as [|F']; [discriminate|]. cbn [exec] in *.
  destruct (cleanup (stack vs) (base + h) None) as [[ev stk] e]. destruct e; [exact HF|].
  rewrite exec_jump_any. exact HF.
Qed.

Lemma Reach_jump_virtual : forall w base h l k vs, length (stack vs) <= base + h ->
  Reach w base (IJump l :: k) vs [IClTrunc h; IJump l] vs [].
Proof.
  intros w base h l k vs Hl R [F HF]. rewrite pre3_nil. exists F. intros F' Hle.
  specialize (HF (S F') ltac:(lia)). cbn [exec] in HF. rewrite (cleanup_nothing _ _ _ Hl) in HF.
  rewrite set_stack_same in HF. rewrite exec_jump_any.
  destruct (exec F' w [IJump l] base vs) as [[[e o] s]|]; [|discriminate]. exact HF.
Qed.

Lemma Reach_of_Term_ret : forall w base a va ev vb, length (stack vb) <= base ->
  Term w base a va (ev, VReturn, vb) -> Reach w base a va [IRet] vb ev.
Proof.
  intros w base a va ev vb Hl HT R HR.
  pose proof (term_ret w base [] vb _ _ _ (cleanup_nothing _ _ None Hl)) as T. cbn in T. rewrite set_stack_same in T.
  rewrite (Term_det _ _ _ _ _ _ HR T). cbn. rewrite app_nil_r. exact HT.
Qed.

(* ---------------------------------------------------------------- the statements proved by induction on fuel *)
(* hide: keeps the equation describing the whole code out of reach of [subst] *)
Definition hide (P : Prop) : Prop := P.
(* endc (reference side) / ec (compiler side): the `until` condition of a repeat loop *)
Definition erel (endc : bool) (ec : code) (fb : bool) : Prop :=
  (endc = false /\ ec = []) \/ (endc = true /\ ec = [ICond] /\ fb = false).

Lemma erel_nolab : forall endc ec fb, erel endc ec fb -> forall l, ~ In (ILabel l) ec.
Proof. intros endc ec fb [[_ ->]|[_ [-> _]]] l H; [destruct H|destruct H as [H|[]]; discriminate]. Qed.

Lemma step_cond : forall w base k vs,
  Reach w base (ICond :: k) vs k (let (d, s1) := vnext vs in mkV (stack s1) (vds s1) (vyc s1) d) [].
Proof.
  intros w base k vs R [F HF]. rewrite pre3_nil. exists (S F). intros F' Hle.
  destruct F' as [|F']; [lia|]. cbn [exec]. destruct (vnext vs) as [d s1]. apply HF. lia.
Qed.

Lemma step_jumplast_taken : forall w base l nt k r vs, vlast vs = true -> after_label l w = Some r ->
  Reach w base (IJumpLast l nt :: k) vs r vs [].
Proof.
  intros w base l nt k r vs H1 H2 R [F HF]. rewrite pre3_nil. exists (S F). intros F' Hle.
  destruct F' as [|F']; [lia|]. cbn [exec]. rewrite H1, H2. apply HF. lia.
Qed.

Lemma step_jumplast_not : forall w base l nt k vs, vlast vs = false ->
  Reach w base (IJumpLast l nt :: k) vs k vs [].
Proof.
  intros w base l nt k vs H1 R [F HF]. rewrite pre3_nil. exists (S F). intros F' Hle.
  destruct F' as [|F']; [lia|]. cbn [exec]. rewrite H1. apply HF. lia.
Qed.

(* ---------------------------------------------------------------- back labels in flight *)
(* sclaim: either the ordinary claim, or — the reference semantics completed
   normally by running the void tail behind a BACK label l (a label of the
   back-label zone of the enclosing block, declared in that block's base scope)
   while the VM still has to perform the jump: it truncates eagerly down to the
   base scope's height, the reference semantics closes lazily, scope by scope. *)
Definition sclaim (backs : list nat) (w : code) (base : nat) (cx : ctx) (fb : bool) (a : code) (va : vst)
                  (post : code) (vb : vst) (ev : list event) (o : outcome) (s' : st) : Prop :=
  claimG w base cx fb a va post vb ev o s' \/
  (o = ONormal /\ exists l L h, In l backs /\ jump_target cx (NUser l) = Some (L, h) /\
      base + h <= length (stack vb) /\ Reach w base a va [IClTrunc h; IJump L] (withst vb s') ev).

Lemma sclaim_prepend : forall backs w base cx fb a va a' va' post vb ev1 ev2 o s2,
  Reach w base a va a' va' ev1 ->
  sclaim backs w base cx fb a' va' post vb ev2 o s2 -> sclaim backs w base cx fb a va post vb (ev1 ++ ev2) o s2.
Proof.
  intros backs w base cx fb a va a' va' post vb ev1 ev2 o s2 HR [H|(Ho & l & L & h & A & B & C & D)].
  - left. eapply claimG_prepend; eassumption.
  - right. split; [exact Ho|]. exists l, L, h. repeat split; try assumption. eapply Reach_trans; eassumption.
Qed.

Lemma sclaim_vb : forall backs w base cx fb a va post vb vb' ev o s',
  stack vb = stack vb' -> sclaim backs w base cx fb a va post vb ev o s' -> sclaim backs w base cx fb a va post vb' ev o s'.
Proof.
  intros backs w base cx fb a va post vb vb' ev o s' Hs [H|(Ho & l & L & h & A & B & C & D)].
  - left. eapply claimG_vb; eassumption.
  - right. split; [exact Ho|]. exists l, L, h.
    assert (Ew : withst vb s' = withst vb' s') by (unfold withst; rewrite Hs; reflexivity).
    rewrite <- Ew, <- Hs. auto.
Qed.

Lemma noop_reach : forall w base H z post vs, noop H z -> length (stack vs) <= base + H ->
  Reach w base (z ++ post) vs post vs [].
Proof.
  induction z as [|i z IH]; intros post vs Hz Hl; [apply Reach_refl|].
  assert (Hz' : noop H z) by (intros j Hj; apply Hz; right; exact Hj).
  cbn [app].
  destruct (Hz i (or_introl eq_refl)) as [[l ->]|(t & -> & Ht)].
  - exact (Reach_trans w base _ vs _ vs _ vs [] [] (step_label w base l (z ++ post) vs) (IH post vs Hz' Hl)).
  - assert (Hl2 : length (stack vs) <= base + t) by lia.
    pose proof (step_trunc_ok w base t (z ++ post) vs [] (stack vs) (cleanup_nothing _ _ None Hl2)) as T.
    rewrite set_stack_same in T.
    exact (Reach_trans w base _ vs _ vs _ vs [] [] T (IH post vs Hz' Hl)).
Qed.

Lemma close_var_goto_normal : forall v l,
  fst (close_var v (OGoto l)) = fst (close_var v ONormal) /\
  (snd (close_var v (OGoto l)) = OGoto l -> snd (close_var v ONormal) = ONormal) /\
  (forall e, snd (close_var v (OGoto l)) = OError e -> snd (close_var v ONormal) = OError e).
Proof. intros [| |id [h|]|id] l; cbn; repeat split; try reflexivity; try discriminate; intros e H; exact H. Qed.

Definition P_stmt (f : nat) : Prop :=
  forall t cx n c n' w pre post s ev o s' vs base,
    cx <> [] -> ctx_lt cx n -> ctx_inj cx ->
    compile_stmt cx n t = Some (c, n') -> hide (w = pre ++ c ++ post) ->
    lab_lt pre n -> hle cx ->
    run_stmt f t s = Done (ev, o, s') -> sm s vs -> length (stack vs) = base + top_height cx ->
    claim w base cx false (c ++ post) post vs ev o s'.

Definition P_stats (f : nat) : Prop :=
  forall b backs cx n tl fb endc ec c n' w pre post s ev o s' vs base,
    erel endc ec fb -> cx <> [] -> ctx_lt cx n -> ctx_inj cx ->
    VZ tl b backs -> (endc = true \/ fb = true -> length (shapes b) <= tl) ->
    (forall l, In l backs -> get_label cx (NUser l) <> None) ->
    compile_stats cx n tl fb ec b = Some (c, n') -> hide (w = pre ++ c ++ post) ->
    lab_lt pre n -> hle cx ->
    run_block f endc b s = Done (ev, o, s') -> sm s vs -> length (stack vs) = base + top_height cx ->
    sclaim backs w base cx fb (c ++ post) vs post vs ev o s'.

(* bl: this scope is the base scope of its block (the back labels are declared in its top scope) *)
Definition P_scope (f : nat) : Prop :=
  forall W a cur backs (bl : bool) cxo cx n0 n tl fb endc ec c n' w pre post s ev o s' vs base,
    W = bapp a cur -> nolocal a -> erel endc ec fb -> cx <> [] -> ctx_lt cx n -> ctx_inj cx ->
    VZ tl W backs -> (endc = true \/ fb = true -> length (shapes W) <= tl) ->
    (forall l, In l backs -> get_label cx (NUser l) <> None) ->
    (forall l, In l (flab (firstn tl (shapes W))) ->
        exists x, scope_label (NUser l) (top_labels cx) = Some x /\ n0 <= x < n) ->
    (forall name, (forall l, name = NUser l -> ~ In (SLabel l) (stmts W)) -> jump_target cx name = jump_target cxo name) ->
    (forall name, scope_label name (top_labels cx) = None -> jump_target cx name = jump_target cxo name) ->
    (bl = true -> forall l, In l backs ->
        exists L, scope_label (NUser l) (top_labels cx) = Some L /\ fb = false /\
        exists z, after_label L w = Some (z ++ post) /\ noop (top_height cx) z) ->
    (bl = false -> forall l, In l backs -> scope_label (NUser l) (top_labels cx) = None) ->
    compile_stats cx n tl fb ec W = Some (c, n') -> hide (w = pre ++ c ++ post) ->
    lab_lt pre n0 -> n0 <= n -> hle cx ->
    run_scope f endc W cur s = Done (ev, o, s') -> sm s vs -> length (stack vs) = base + top_height cx ->
    forall ca nb cc, compile_seq cx n a = Some (ca, nb) ->
      compile_stats cx nb (tl - length a) fb ec cur = Some (cc, n') -> c = ca ++ cc ->
      if bl then claimG w base cxo fb (cc ++ post) vs post vs ev o s'
      else sclaim backs w base cxo fb (cc ++ post) vs post vs ev o s'.

Definition P_loop (f : nat) : Prop :=
  forall b cxb nb cb n' w pre tailc Ll Lb nt s ev o s' vs base cxo,
    cxb <> [] -> ctx_lt cxb nb -> ctx_inj cxb ->
    bin cxb nb b true false [] = Some (cb, n') ->
    hide (w = pre ++ cb ++ ([IJump Ll; ILabel Lb] ++ tailc)) ->
    after_label Ll w = Some (IJumpIf Lb nt false :: cb ++ [IJump Ll; ILabel Lb] ++ tailc) ->
    after_label Lb w = Some tailc ->
    lab_lt pre nb -> hle cxb -> jump_target cxb NBreak = Some (Lb, top_height cxb) ->
    run_loop f false b s = Done (ev, o, s') -> sm s vs -> length (stack vs) = base + top_height cxb ->
    (forall l, o = OGoto l -> jump_target cxb (NUser l) = jump_target cxo (NUser l)) ->
    claimG w base cxo false (IJumpIf Lb nt false :: cb ++ [IJump Ll; ILabel Lb] ++ tailc) vs tailc vs ev o s'.

Definition P_loopR (f : nat) : Prop :=
  forall b cx2 nb cb n' w pre post Ll Lb s ev o s' vs base cxo,
    cx2 <> [] -> ctx_lt cx2 nb -> ctx_inj cx2 ->
    bin cx2 nb b false false [ICond] = Some (cb, n') ->
    hide (w = pre ++ cb ++ ([IJumpLast Ll false; ILabel Lb] ++ post)) ->
    after_label Ll w = Some (cb ++ [IJumpLast Ll false; ILabel Lb] ++ post) ->
    after_label Lb w = Some post ->
    lab_lt pre nb -> hle cx2 -> jump_target cx2 NBreak = Some (Lb, top_height cx2) ->
    run_loop f true b s = Done (ev, o, s') -> sm s vs -> length (stack vs) = base + top_height cx2 ->
    (forall l, o = OGoto l -> jump_target cx2 (NUser l) = jump_target cxo (NUser l)) ->
    claimG w base cxo false (cb ++ [IJumpLast Ll false; ILabel Lb] ++ post) vs post vs ev o s'.

(* a block compiled through its prologue (front labels and back labels pre-declared), entered at its start *)
Lemma block_sim : forall f, P_scope f ->
  forall b cx0 n complete fb endc ec c n' w pre post s ev o s' vs base,
    erel endc ec fb -> (endc = true -> complete = false) -> cx0 <> [] -> ctx_lt cx0 n -> ctx_inj cx0 ->
    bin cx0 n b complete fb ec = Some (c, n') -> hide (w = pre ++ c ++ post) ->
    lab_lt pre n -> hle cx0 ->
    run_scope f endc b b s = Done (ev, o, s') -> sm s vs -> length (stack vs) = base + top_height cx0 ->
    claimG w base cx0 fb (c ++ post) vs post vs ev o s'.
Proof.
  intros f HP b cx0 n complete fb endc ec c n' w pre post s ev o s' vs base He Hcomp Hne Hlt Hinj Hc Hw Hl Hh Hr Hsm H1.
  unfold bin in Hc.
  destruct (block_prologue cx0 n b complete fb) as [[[cx2 n2] tl]|] eqn:Ep; [|discriminate].
  apply prologue_inv in Ep.
  assert (NL : nolocal []) by (unfold nolocal; intros t Hin; destruct Hin).
  assert (Hc' : compile_stats cx2 n2 (tl - length (@nil stmt)) fb ec b = Some (c, n')).
  { cbn [length]. rewrite Nat.sub_0_r. exact Hc. }
  destruct Ep as [bo E Etl|cx1 n1 bo E1 E2 Etl Ecomp Efb Hret].
  - (* no back labels *)
    destruct (glA_basic _ _ _ _ _ _ Hne E) as (Hle & Htl & Hth & Hne2).
    subst tl.
    refine (HP b [] b [] true cx0 cx2 n n2 (length (shapes b)) fb endc ec c n' w pre post s ev o s' vs base eq_refl
              NL He Hne2 (glA_ctx_lt _ _ _ _ _ _ Hne Hlt E) (glA_ctx_inj _ _ _ _ _ _ Hne Hlt Hinj E)
              (VZ_full b []) (fun _ => le_n _) (fun l Hin => match Hin with end)
              _ _ _ (fun _ l Hin => match Hin with end) (fun Hq => ltac:(discriminate Hq))
              Hc Hw Hl Hle (hle_same cx0 cx2 Hne Hne2 Htl Hth Hh) Hr Hsm _ [] n2 c eq_refl Hc' eq_refl).
    + intros l Hin. rewrite firstn_all in Hin. exact (glA_new _ _ _ _ _ _ l Hne E Hin).
    + intros name Hn. apply jump_target_same; try assumption.
      apply (glA_old _ _ _ _ _ _ name Hne E). intros l Hq Hin. apply (Hn l Hq).
      apply shape_label_stmt, flab_in_shapes. exact Hin.
    + intros name Hn. rewrite (jump_target_skip _ _ Hn), Htl.
      destruct (scope_label name (top_labels cx0)) as [y|] eqn:Es.
      * exfalso. exact (glA_top_mono _ _ _ _ _ _ name y Hne E Es Hn).
      * symmetry. apply jump_target_skip. exact Es.
    + rewrite Hth. exact H1.
  - (* back labels declared in the base scope *)
    destruct (glA_basic _ _ _ _ _ _ Hne E1) as (Hle1 & Htl1 & Hth1 & Hne1).
    destruct (glA_basic _ _ _ _ _ _ Hne1 E2) as (Hle2 & Htl2 & Hth2 & Hne2).
    assert (Hlt1 : ctx_lt cx1 n1) by exact (glA_ctx_lt _ _ _ _ _ _ Hne Hlt E1).
    assert (Hinj1 : ctx_inj cx1) by exact (glA_ctx_inj _ _ _ _ _ _ Hne Hlt Hinj E1).
    assert (Hlt2 : ctx_lt cx2 n2) by exact (glA_ctx_lt _ _ _ _ _ _ Hne1 Hlt1 E2).
    assert (Hinj2 : ctx_inj cx2) by exact (glA_ctx_inj _ _ _ _ _ _ Hne1 Hlt1 Hinj1 E2).
    assert (Hendc : endc = false) by (destruct endc; [specialize (Hcomp eq_refl); congruence|reflexivity]).
    assert (Hec : ec = []) by (destruct He as [[_ ->]|[Hq _]]; [reflexivity|congruence]).
    subst fb endc ec tl.
    set (backs := flab (lead (rev (shapes b)))) in *.
    assert (BTOP : forall l, In l backs -> exists L, scope_label (NUser l) (top_labels cx2) = Some L /\ n1 <= L < n2).
    { intros l Hin. exact (glA_new _ _ _ _ _ _ l Hne1 E2 Hin). }
    assert (FRONT : forall l, In l (flab (shapes b)) ->
              exists x, scope_label (NUser l) (top_labels cx2) = Some x /\ n <= x < n2).
    { intros l Hin. destruct (glA_new _ _ _ _ _ _ l Hne E1 Hin) as (x & Hx & Hr0).
      exists x. split; [|lia].
      rewrite (glA_old _ _ _ _ _ _ (NUser l) Hne1 E2); [exact Hx|].
      intros l0 Hq. inversion Hq; subst l0.
      eapply glA_vis; [exact Hne1| |exact E2]. rewrite (get_label_top _ _ _ Hne1 Hx). discriminate. }
    refine (HP b [] b backs true cx0 cx2 n n2 _ false false [] c n' w pre post s ev o s' vs base eq_refl
              NL He Hne2 Hlt2 Hinj2 (VZ_back b Hret) (fun Hq => ltac:(destruct Hq; discriminate)) _
              _ _ _ _ (fun Hq => ltac:(discriminate Hq))
              Hc Hw Hl ltac:(lia) (hle_same cx0 cx2 Hne Hne2 ltac:(congruence) ltac:(congruence) Hh) Hr Hsm _ [] n2 c eq_refl Hc' eq_refl).
    + intros l Hin. destruct (BTOP l Hin) as (L & HL & _). rewrite (get_label_top _ _ _ Hne2 HL). discriminate.
    + intros l Hin. apply FRONT. eapply flab_firstn_incl. exact Hin.
    + intros name Hn. apply jump_target_same; try assumption; try congruence.
      rewrite (glA_old _ _ _ _ _ _ name Hne1 E2).
      * apply (glA_old _ _ _ _ _ _ name Hne E1). intros l Hq Hin. apply (Hn l Hq).
        apply shape_label_stmt, flab_in_shapes. exact Hin.
      * intros l Hq Hin. apply (Hn l Hq). apply shape_label_stmt.
        apply in_rev. apply lead_incl. apply flab_in_shapes. exact Hin.
    + intros name Hn. rewrite (jump_target_skip _ _ Hn). replace (tl cx2) with (tl cx0) by congruence.
      destruct (scope_label name (top_labels cx0)) as [y|] eqn:Es.
      * exfalso. destruct (scope_label name (top_labels cx1)) as [y1|] eqn:Es1.
        -- exact (glA_top_mono _ _ _ _ _ _ name y1 Hne1 E2 Es1 Hn).
        -- exact (glA_top_mono _ _ _ _ _ _ name y Hne E1 Es Es1).
      * symmetry. apply jump_target_skip. exact Es.
    + (* the code behind each back label *)
      intros _ l Hin. destruct (BTOP l Hin) as (L & HL & HLr). exists L. split; [exact HL|]. split; [reflexivity|].
      assert (Hst : In (SLabel l) (stmts b)).
      { apply shape_label_stmt. apply in_rev. apply lead_incl. apply flab_in_shapes. exact Hin. }
      destruct (find_label l b) as [b'|] eqn:Ef; [|exfalso; exact (find_label_of_in l b Hst Ef)].
      destruct (find_label_split l b b' Ef) as (a' & Eb & Hnot).
      assert (Hge : length (shapes b) - length (lead (rev (shapes b))) <= length a').
      { destruct (Nat.lt_ge_cases (length a') (length (shapes b) - length (lead (rev (shapes b))))) as [Hlt0|Hge]; [|exact Hge].
        exfalso. destruct (nolocal_dec a') as [Hn|Hn].
        - assert (Hf : In l (flab (shapes b))) by (rewrite Eb; apply flab_here; exact Hn).
          destruct (glA_new _ _ _ _ _ _ l Hne E1 Hf) as (x & Hx & _).
          eapply (glA_vis l); [exact Hne1| |exact E2|exact Hin]. rewrite (get_label_top _ _ _ Hne1 Hx). discriminate.
        - revert Hc Hlt0. rewrite Eb. intros Hc Hlt0.
          eapply deeper_not_visible; [exact Hne2|exact Hc|exact Hn|exact Hlt0|].
          rewrite (get_label_top _ _ _ Hne2 HL). discriminate. }
      destruct (VZ_back b Hret a' (SLabel l) b' Eb Hge) as (_ & Hlb).
      pose proof Hc as Hc0. rewrite Eb in Hc0.
      destruct (void_code a' l b' cx2 n2 _ c n' L Hne2 Hc0 Hnot ltac:(rewrite <- Eb; exact Hge) Hlb (get_label_top _ _ _ Hne2 HL) Hinj2 Hlt2)
        as (c1 & z & Ec & Hc1 & Hz).
      exists z. split; [|exact Hz].
      pose proof Hw as Hw0. unfold hide in Hw0. rewrite Hw0, Ec.
      replace (pre ++ (c1 ++ ILabel L :: z) ++ post) with ((pre ++ c1) ++ ILabel L :: (z ++ post))
        by (rewrite <- !app_assoc; reflexivity).
      rewrite after_label_skip; [apply after_label_here|].
      intro Hq. apply in_app_or in Hq as [Hq|Hq]; [specialize (Hl _ Hq); lia|exact (Hc1 Hq)].
    + replace (top_height cx2) with (top_height cx0) by congruence. exact H1.
Qed.
Definition fun_result (c' : code) (vs : vst) (ev : list event) (o : outcome) (s' : st) : Prop :=
  match o with
  | ONormal | OReturn => Term c' (length (stack vs)) c' vs (ev, VReturn, withst vs s')
  | OBreak | OGoto _ => False
  | _ => errclaim c' (length (stack vs)) c' vs ev o s'
  end.

Lemma fun_sim : forall f, P_scope f ->
  forall b c' s ev o s' vs, compile_fun b = Some c' ->
    run_scope f false b b s = Done (ev, o, s') -> sm s vs -> fun_result c' vs ev o s'.
Proof.
  intros f HP b c' s ev o s' vs Hc Hr Hsm.
  rewrite compile_funA in Hc.
  destruct (bin root_ctx 0 b true true []) as [[c0 n0]|] eqn:E; [|discriminate].
  cbn in Hc. inversion Hc; subst c0. clear Hc.
  assert (Hw : hide (c' = [] ++ c' ++ [])) by (unfold hide; rewrite app_nil_r; reflexivity).
  pose proof (block_sim f HP b root_ctx 0 true true false [] c' n0 c' [] [] s ev o s' vs (length (stack vs))
                (or_introl (conj eq_refl eq_refl)) ltac:(discriminate) ltac:(discriminate) (ctx_lt_root 0) ctx_inj_root E Hw
                 ltac:(intros l []) hle_root Hr Hsm ltac:(cbn; lia)) as H.
  rewrite app_nil_r in H.
  assert (Hret : Reach c' (length (stack vs)) c' vs [IRet] (withst vs s') ev ->
                 Term c' (length (stack vs)) c' vs (ev, VReturn, withst vs s')).
  { intro HR.
    pose proof (term_ret c' (length (stack vs)) [] (withst vs s') _ _ _
                  (cleanup_nothing (stack (withst vs s')) (length (stack vs)) None ltac:(cbn; lia))) as T.
    cbn [app] in T. apply HR in T. cbn [pre3] in T. rewrite app_nil_r in T. rewrite set_stack_same in T. exact T. }
  destruct o; cbn [claimG fun_result] in *; try (apply Hret; exact H); try exact H;
    destruct H as (L & h & Hj & _); discriminate.
Qed.

Lemma fun_result_abort : forall c' vs ev o s' w base (a : code),
  (forall evV oV sV, Term c' (length (stack vs)) c' vs (evV, oV, sV) -> oV <> VReturn -> Term w base a vs (evV, oV, sV)) ->
  base <= length (stack vs) ->
  match o with OError _ | OClosed _ => True | _ => False end ->
  fun_result c' vs ev o s' -> errclaim w base a vs ev o s'.
Proof.
  intros c' vs ev o s' w base a HT Hb Ho H.
  destruct o; try contradiction; cbn [fun_result] in H;
    destruct H as (evV & oV & sV & HT' & Hk & Hsm & Hc);
    exists evV, oV, sV; (split; [apply HT; [exact HT'|destruct oV; try discriminate; contradiction]|]);
    (split; [assumption|]); (split; [assumption|]); eapply creln_lower; eassumption.
Qed.

(* ---------------------------------------------------------------- leaving the scope of a local *)
Section Local.
  Variables (w : code) (base : nat).

  (* a virtual exit X (ret, or cltrunc t; jump) with target T = base + t' *)
  Lemma through_ret : forall vin v stk0 ev_r s_r A vs0,
    stack vin = v :: stk0 -> base <= length stk0 ->
    Reach w base A vs0 [IRet] (withst vin s_r) ev_r ->
    forall o_r, err_of o_r = None -> (o_r = ONormal \/ o_r = OReturn \/ o_r = OBreak \/ exists l, o_r = OGoto l) ->
    let cev := fst (close_var v o_r) in let o' := snd (close_var v o_r) in
    (nonraising v = true /\ o' = o_r /\ Reach w base A vs0 [IRet] (set_stack (withst vin s_r) stk0) (ev_r ++ cev)) \/
    (exists evV oV sV, o' = raise_in o_r (match v with VObj _ (Some h) => EUser h | _ => EMissing end) /\
        Term w base A vs0 (evV, oV, sV) /\ kind o' oV /\ sm s_r sV /\
        creln base evV oV (stack sV) (ev_r ++ cev) o' stk0).
  Proof.
    intros vin v stk0 ev_r s_r A vs0 Hs Hb HR o_r He Ho.
    destruct (nonraising v) eqn:Hn.
    - left. split; [reflexivity|]. split; [apply close_var_nonraising; assumption|].
      eapply Reach_trans; [exact HR|].
      pose proof (exit_ret_through w base [] (withst vin s_r) v stk0 Hs Hb Hn) as H.
      pose proof (call_close_close_var v o_r) as Hcc. rewrite He in Hcc. rewrite Hcc in H. exact H.
    - right. destruct v as [| |id [h|]|id]; try discriminate.
      destruct (exit_ret_raising w base [] (withst vin s_r) id h stk0 Hs Hb) as (ev2 & stk2 & x & Hc & HT).
      exists (ev_r ++ ([EvClose id None; EvRaise (EUser h)] ++ ev2)), (VError x), (set_stack (withst vin s_r) stk2).
      split; [reflexivity|]. split; [apply (HR _ HT)|].
      assert (Hcv : close_var (VObj id (Some h)) o_r = ([EvClose id None; EvRaise (EUser h)], OError (EUser h))).
      { cbn. rewrite He. destruct Ho as [->|[->|[->|[l0 ->]]]]; reflexivity. }
      rewrite Hcv. cbn [fst snd]. split; [exact I|]. split; [repeat split|].
      cbn [stack set_stack]. rewrite app_assoc. eapply creln_after_exit; [|exact Hc]. lia.
  Qed.

  Lemma through_trunc : forall vin v stk0 ev_r s_r A vs0 t k,
    stack vin = v :: stk0 -> base + t <= length stk0 ->
    Reach w base A vs0 (IClTrunc t :: k) (withst vin s_r) ev_r ->
    forall o_r, err_of o_r = None -> (o_r = ONormal \/ o_r = OReturn \/ o_r = OBreak \/ exists l, o_r = OGoto l) ->
    let cev := fst (close_var v o_r) in let o' := snd (close_var v o_r) in
    (nonraising v = true /\ o' = o_r /\ Reach w base A vs0 (IClTrunc t :: k) (set_stack (withst vin s_r) stk0) (ev_r ++ cev)) \/
    (exists evV oV sV, o' = raise_in o_r (match v with VObj _ (Some h) => EUser h | _ => EMissing end) /\
        Term w base A vs0 (evV, oV, sV) /\ kind o' oV /\ sm s_r sV /\
        creln base evV oV (stack sV) (ev_r ++ cev) o' stk0).
  Proof.
    intros vin v stk0 ev_r s_r A vs0 t k Hs Hb HR o_r He Ho.
    destruct (nonraising v) eqn:Hn.
    - left. split; [reflexivity|]. split; [apply close_var_nonraising; assumption|].
      eapply Reach_trans; [exact HR|].
      pose proof (exit_trunc_through w base t k (withst vin s_r) v stk0 Hs Hb Hn) as H.
      pose proof (call_close_close_var v o_r) as Hcc. rewrite He in Hcc. rewrite Hcc in H. exact H.
    - right. destruct v as [| |id [h|]|id]; try discriminate.
      destruct (exit_trunc_raising w base t k (withst vin s_r) id h stk0 Hs Hb) as (ev2 & stk2 & x & Hc & HT).
      exists (ev_r ++ ([EvClose id None; EvRaise (EUser h)] ++ ev2)), (VError x), (set_stack (withst vin s_r) stk2).
      split; [reflexivity|]. split; [apply (HR _ HT)|].
      assert (Hcv : close_var (VObj id (Some h)) o_r = ([EvClose id None; EvRaise (EUser h)], OError (EUser h))).
      { cbn. rewrite He. destruct Ho as [->|[->|[->|[l0 ->]]]]; reflexivity. }
      rewrite Hcv. cbn [fst snd]. split; [exact I|]. split; [repeat split|].
      cbn [stack set_stack]. rewrite app_assoc. eapply creln_after_exit; [|exact Hc]. lia.
  Qed.
End Local.

(* ---------------------------------------------------------------- local statements *)
Definition vs_in (vs : vst) (v : tbcv) : vst :=
  match v with VPlain => vs | _ => set_stack vs (v :: stack vs) end.

Lemma local_prefix : forall w base v A vs, (forall id, v <> VBad id) ->
  Reach w base (local_code v ++ A) vs A (vs_in vs v) (open_var v).
Proof.
  intros w base v A vs Hv. destruct v as [| |id h|id]; cbn [local_code open_code open_var app vs_in].
  - apply Reach_refl.
  - apply step_push. discriminate.
  - change [EvOpen id] with ([EvOpen id] ++ []). eapply Reach_trans; [apply step_open|apply step_push; discriminate].
  - exfalso. eapply Hv. reflexivity.
Qed.

Lemma errkind_close_var : forall v o,
  match o with OError _ | OClosed _ => True | _ => False end ->
  match snd (close_var v o) with OError _ | OClosed _ => True | _ => False end.
Proof. intros [| |id [h|]|id] o H; cbn; try exact H. destruct o; cbn in *; try contradiction; exact I. Qed.

Lemma claimG_err_intro : forall w base cx fb a va post vb ev o s',
  match o with OError _ | OClosed _ => True | _ => False end ->
  errclaimG w base a va (stack vb) ev o s' -> claimG w base cx fb a va post vb ev o s'.
Proof. intros w base cx fb a va post vb ev o s' Ho H. destruct o; try contradiction; exact H. Qed.

Lemma leave_pushed : forall w base cx cx3 fb v A post vs vin ev_r o_r s_r,
  vin = set_stack vs (v :: stack vs) -> hle cx -> length (stack vs) = base + top_height cx ->
  (forall name, jump_target cx3 name = jump_target cx name) ->
  claimG w base cx3 fb A vin (IClTrunc (top_height cx) :: post) vin ev_r o_r s_r ->
  claimG w base cx fb A vin post vs (ev_r ++ fst (close_var v o_r)) (snd (close_var v o_r)) s_r.
Proof.
  intros w base cx cx3 fb v A post vs vin ev_r o_r s_r Hvin Hh H1 Hj C.
  assert (Hs : stack vin = v :: stack vs) by (subst vin; reflexivity).
  assert (Hst : forall s, set_stack (withst vin s) (stack vs) = withst vs s) by (intro; subst vin; reflexivity).
  assert (Hb0 : base <= length (stack vs)) by lia.
  (* the three non-error exits *)
  assert (RET : forall o_r, err_of o_r = None -> (o_r = ONormal \/ o_r = OReturn \/ o_r = OBreak \/ exists l, o_r = OGoto l) ->
            Reach w base A vin [IRet] (withst vin s_r) ev_r ->
            (snd (close_var v o_r) = o_r /\ Reach w base A vin [IRet] (withst vs s_r) (ev_r ++ fst (close_var v o_r))) \/
            (exists e, snd (close_var v o_r) = OError e /\
               errclaimG w base A vin (stack vs) (ev_r ++ fst (close_var v o_r)) (OError e) s_r)).
  { intros o He Ho HR.
    destruct (through_ret w base vin v (stack vs) ev_r s_r A vin Hs Hb0 HR o He Ho)
      as [(Hn & Ho' & HR') | (evV & oV & sV & Ho' & HT & Hk & Hsm & Hc)].
    - left. split; [exact Ho'|]. rewrite Hst in HR'. exact HR'.
    - right. assert (Ek : exists e, snd (close_var v o) = OError e).
      { rewrite Ho'. destruct Ho as [->|[->|[->|[l0 ->]]]]; cbn; eauto. }
      destruct Ek as [e Ee]. exists e. split; [exact Ee|]. rewrite Ee in *.
      exists evV, oV, sV. auto. }
  assert (TRUNC : forall o_r t k, err_of o_r = None -> (o_r = ONormal \/ o_r = OReturn \/ o_r = OBreak \/ exists l, o_r = OGoto l) ->
            base + t <= length (stack vs) ->
            Reach w base A vin (IClTrunc t :: k) (withst vin s_r) ev_r ->
            (snd (close_var v o_r) = o_r /\ Reach w base A vin (IClTrunc t :: k) (withst vs s_r) (ev_r ++ fst (close_var v o_r))) \/
            (exists e, snd (close_var v o_r) = OError e /\
               errclaimG w base A vin (stack vs) (ev_r ++ fst (close_var v o_r)) (OError e) s_r)).
  { intros o t k He Ho Ht HR.
    destruct (through_trunc w base vin v (stack vs) ev_r s_r A vin t k Hs Ht HR o He Ho)
      as [(Hn & Ho' & HR') | (evV & oV & sV & Ho' & HT & Hk & Hsm & Hc)].
    - left. split; [exact Ho'|]. rewrite Hst in HR'. exact HR'.
    - right. assert (Ek : exists e, snd (close_var v o) = OError e).
      { rewrite Ho'. destruct Ho as [->|[->|[->|[l0 ->]]]]; cbn; eauto. }
      destruct Ek as [e Ee]. exists e. split; [exact Ee|]. rewrite Ee in *.
      exists evV, oV, sV. auto. }
  destruct o_r; cbn [claimG] in C.
  - (* normal *)
    destruct fb.
    + destruct (RET ONormal eq_refl (or_introl eq_refl) C) as [[E HR]|(e & E & HE)]; rewrite E; cbn [claimG]; assumption.
    + destruct (TRUNC ONormal (top_height cx) post eq_refl (or_introl eq_refl) ltac:(lia) C) as [[E HR]|(e & E & HE)];
        rewrite E; cbn [claimG]; [|assumption].
      rewrite <- (app_nil_r (ev_r ++ _)). eapply Reach_trans; [exact HR|].
      assert (Hl0 : length (stack (withst vs s_r)) <= base + top_height cx) by (rewrite stack_withst; lia).
      pose proof (step_trunc_ok w base (top_height cx) post (withst vs s_r) [] (stack vs)
                    (cleanup_nothing _ _ None Hl0)) as T.
      exact T.
  - (* break *)
    destruct C as (L & h & Hjt & Hb & HR). rewrite Hj in Hjt.
    pose proof (jump_target_le _ _ _ _ Hh Hjt) as Hle.
    destruct (TRUNC OBreak h [IJump L] eq_refl (or_intror (or_intror (or_introl eq_refl))) ltac:(lia) HR) as [[E HR']|(e & E & HE)];
      rewrite E; cbn [claimG]; [|assumption].
    exists L, h. split; [assumption|]. split; [lia|assumption].
  - (* goto *)
    destruct C as (L & h & Hjt & Hb & HR). rewrite Hj in Hjt.
    pose proof (jump_target_le _ _ _ _ Hh Hjt) as Hle.
    destruct (TRUNC (OGoto l) h [IJump L] eq_refl (or_intror (or_intror (or_intror (ex_intro _ l eq_refl)))) ltac:(lia) HR) as [[E HR']|(e & E & HE)];
      rewrite E; cbn [claimG]; [|assumption].
    exists L, h. split; [assumption|]. split; [lia|assumption].
  - (* return *)
    destruct (RET OReturn eq_refl (or_intror (or_introl eq_refl)) C) as [[E HR]|(e & E & HE)]; rewrite E; cbn [claimG]; assumption.
  - (* error *)
    apply claimG_err_intro; [apply errkind_close_var; exact I|].
    destruct C as (evV & oV & sV & HT & Hk & Hsm & Hc). exists evV, oV, sV.
    split; [assumption|]. split; [apply kind_close_var; assumption|]. split; [assumption|].
    apply creln_pop; [assumption|]. rewrite <- Hs. exact Hc.
  - (* closed *)
    apply claimG_err_intro; [apply errkind_close_var; exact I|].
    destruct C as (evV & oV & sV & HT & Hk & Hsm & Hc). exists evV, oV, sV.
    split; [assumption|]. split; [apply kind_close_var; assumption|]. split; [assumption|].
    apply creln_pop; [assumption|]. rewrite <- Hs. exact Hc.
Qed.

Lemma leave_local : forall w base cx fb v A post vs ev_r o_r s_r,
  (forall id, v <> VBad id) -> hle cx -> length (stack vs) = base + top_height cx ->
  claim w base (local_ctx (push_ctx cx) v) fb A (pop_code (local_ctx (push_ctx cx) v) ++ post) (vs_in vs v) ev_r o_r s_r ->
  claimG w base cx fb A (vs_in vs v) post vs (ev_r ++ fst (close_var v o_r)) (snd (close_var v o_r)) s_r.
Proof.
  intros w base cx fb v A post vs ev_r o_r s_r Hv Hh H1 C. unfold claim in C.
  rewrite pop_code_local in C.
  destruct v as [| |id hh|id].
  - (* plain *) cbn [vs_in close_var fst snd app] in *. rewrite app_nil_r.
    destruct o_r; cbn [claimG] in *; exact C.
  - eapply leave_pushed; [reflexivity|assumption|assumption|intro name; apply jump_target_local|exact C].
  - eapply leave_pushed; [reflexivity|assumption|assumption|intro name; apply jump_target_local|exact C].
  - exfalso. eapply Hv. reflexivity.
Qed.


(* ---------------------------------------------------------------- leaving a scope with a back label in flight *)
Lemma leave_local_s : forall backs w base cx fb v A post vs ev_r o_r s_r,
  (forall id, v <> VBad id) -> hle cx -> length (stack vs) = base + top_height cx ->
  sclaim backs w base (local_ctx (push_ctx cx) v) fb A (vs_in vs v) (pop_code (local_ctx (push_ctx cx) v) ++ post) (vs_in vs v) ev_r o_r s_r ->
  sclaim backs w base cx fb A (vs_in vs v) post vs (ev_r ++ fst (close_var v o_r)) (snd (close_var v o_r)) s_r.
Proof.
  intros backs w base cx fb v A post vs ev_r o_r s_r Hv Hh H1 [C|(Ho & l & L & h & Hb & Hj & Hbd & HR)].
  - left. apply leave_local; assumption.
  - subst o_r. rewrite jump_target_local in Hj.
    pose proof (jump_target_le _ _ _ _ Hh Hj) as Hle.
    destruct v as [| |id hh|id].
    + (* plain *) right. cbn [vs_in close_var fst snd] in *. rewrite app_nil_r.
      split; [reflexivity|]. exists l, L, h. auto.
    + (* nil *) right. cbn [close_var fst snd]. rewrite app_nil_r. split; [reflexivity|]. exists l, L, h.
      split; [exact Hb|]. split; [exact Hj|]. split; [lia|].
      pose proof (through_trunc w base (vs_in vs VNil) VNil (stack vs) ev_r s_r A (vs_in vs VNil) h [IJump L]
                    eq_refl ltac:(lia) HR (OGoto l) eq_refl (or_intror (or_intror (or_intror (ex_intro _ l eq_refl)))))
        as [(_ & _ & HR')|(evV & oV & sV & Ho' & _)]; [|cbn in Ho'; discriminate].
      cbn [close_var fst] in HR'. rewrite app_nil_r in HR'. exact HR'.
    + (* closable *)
      pose proof (through_trunc w base (vs_in vs (VObj id hh)) (VObj id hh) (stack vs) ev_r s_r A (vs_in vs (VObj id hh)) h [IJump L]
                    eq_refl ltac:(lia) HR (OGoto l) eq_refl (or_intror (or_intror (or_intror (ex_intro _ l eq_refl)))))
        as [(Hn & Ho' & HR')|(evV & oV & sV & Ho' & HT & Hk & Hsm & Hc)].
      * right. destruct hh; [discriminate|]. cbn [close_var fst snd err_of] in *.
        split; [reflexivity|]. exists l, L, h. split; [exact Hb|]. split; [exact Hj|]. split; [lia|exact HR'].
      * left. destruct hh as [e|]; cbn [close_var fst snd err_of raise_in] in *; [|discriminate Ho'].
        exists evV, oV, sV. auto.
    + exfalso. eapply Hv. reflexivity.
Qed.
Lemma close_var_forin : forall v o, close_var (forin_val v) o = close_var v o.
Proof. intros [| |id h|id] o; reflexivity. Qed.

Lemma eval_cond_true : forall s vs, sm s vs ->
  (let (d, s1) := vnext vs in mkV (stack s1) (vds s1) (vyc s1) d) = withst vs (eval_cond true s).
Proof.
  intros s vs Hsm. rewrite (vnext_sm s vs Hsm). unfold eval_cond. destruct (next_decision s) as [d s1]. reflexivity.
Qed.

Lemma noec_nil : forall l, ~ In (ILabel l) (@nil instr).
Proof. intros l []. Qed.
Lemma noec_cond : forall l, ~ In (ILabel l) [ICond].
Proof. intros l [H|[]]. discriminate. Qed.
Lemma ctx_lt_loop : forall cx n, ctx_lt cx n -> ctx_lt (add_label (push_ctx cx) NBreak n) (n + 2).
Proof.
  intros cx n H. apply ctx_lt_add_label; [|lia]. eapply ctx_lt_mono; [apply ctx_lt_push; exact H|lia].
Qed.


(* ---------------------------------------------------------------- blocks *)
Lemma stats_seq : forall f, P_stmt f -> P_stats f ->
  forall t rest backs cx n tl fb endc ec c n' w pre post s ev o s' vs base,
    is_local t = false -> erel endc ec fb -> cx <> [] -> ctx_lt cx n -> ctx_inj cx ->
    VZ tl (BCons t rest) backs -> (endc = true \/ fb = true -> length (shapes (BCons t rest)) <= tl) ->
    (forall l, In l backs -> get_label cx (NUser l) <> None) ->
    compile_stats cx n tl fb ec (BCons t rest) = Some (c, n') -> hide (w = pre ++ c ++ post) ->
    lab_lt pre n -> hle cx ->
    run_block (S f) endc (BCons t rest) s = Done (ev, o, s') -> sm s vs ->
    length (stack vs) = base + top_height cx ->
    sclaim backs w base cx fb (c ++ post) vs post vs ev o s'.
Proof.
  intros f IHstmt IHstats t rest backs cx n tl fb endc ec c n' w pre post s ev o s' vs base
         Hnl He Hne Hclt Hinj HVZ Hfull HBV Hc Hw Hl Hh Hr Hsm H1.
  rewrite (compile_nonlocalA _ _ _ _ _ _ _ Hnl) in Hc.
  assert (Er : run_block (S f) endc (BCons t rest) s =
               bind (run_stmt f t s) (fun ev o s' =>
                 match o with ONormal => prepend ev (run_block f endc rest s') | _ => Done (ev, o, s') end)).
  { destruct t; try reflexivity. discriminate. }
  rewrite Er in Hr. clear Er.
  destruct (compile_stmt cx n t) as [[c1 n1]|] eqn:E1; [|discriminate]. cbn [obind] in Hc.
  destruct (compile_stats cx n1 (pred tl) fb ec rest) as [[c2 n2]|] eqn:E2; [|discriminate].
  cbn [obind] in Hc. inversion Hc; subst c n'. clear Hc.
  destruct (run_stmt f t s) as [[[ev1 o1] s1]|] eqn:R1; [|discriminate]. cbn [bind] in Hr.
  assert (Hw1 : hide (w = pre ++ c1 ++ (c2 ++ post))) by (unfold hide in *; rewrite Hw, <- !app_assoc; reflexivity).
  pose proof (IHstmt t cx n c1 n1 w pre (c2 ++ post) s ev1 o1 s1 vs base Hne Hclt Hinj E1 Hw1 Hl Hh R1 Hsm H1) as C1.
  rewrite <- app_assoc. unfold claim in *.
  destruct o1; try (inversion Hr; subst; left; eapply claimG_abrupt; [intro; reflexivity|discriminate|exact C1]).
  destruct (run_block f endc rest s1) as [[[ev2 o2] s2]|] eqn:R2; [|discriminate].
  cbn [prepend] in Hr. inversion Hr; subst. clear Hr.
  assert (RN : n <= n1 /\ lab_lt c1 n1).
  { destruct (match t with SLabel _ => true | _ => false end) eqn:Elab.
    - destruct t; try discriminate. cbn [compile_stmt] in E1.
      destruct (get_label cx (NUser l)) as [x|] eqn:Eg; [|discriminate]. cbn [obind] in E1. inversion E1; subst.
      split; [lia|]. intros y [Hy|[]]. inversion Hy; subst. eapply get_label_lt; eassumption.
    - destruct (proj1 compile_labsA t cx n c1 n1 Hne ltac:(intros l ->; discriminate) E1) as (A & _ & B).
      split; assumption. }
  destruct RN as [Hn1 Hlt1].
  assert (Hw2 : hide (w = (pre ++ c1) ++ c2 ++ post)) by (unfold hide in *; rewrite Hw1, <- app_assoc; reflexivity).
  pose proof (IHstats rest backs cx n1 (pred tl) fb endc ec c2 n2 w (pre ++ c1) post s1 ev2 o s' (withst vs s1) base He Hne
                (ctx_lt_mono _ _ _ Hclt Hn1) Hinj (VZ_tail_nonlocal _ _ _ _ HVZ)
                ltac:(intro Hq; specialize (Hfull Hq); cbn [shapes length] in Hfull; lia) HBV E2 Hw2
                (lab_lt_app _ _ _ (lab_lt_mono _ _ _ Hl Hn1) Hlt1) Hh R2 (sm_withst _ _) H1) as C2.
  cbn [claimG] in C1. eapply sclaim_prepend; [exact C1|].
  eapply sclaim_vb; [|exact C2]. reflexivity.
Qed.

Lemma local_ctx_top_labels : forall cx2 v, top_labels (local_ctx cx2 v) = top_labels cx2.
Proof. intros [|s r] v; destruct v; reflexivity. Qed.

Lemma pop_code_local_eq : forall cx cx2 v, cx2 <> [] -> tl cx2 = cx -> top_height cx2 = top_height cx ->
  pop_code (local_ctx cx2 v) = pop_code (local_ctx (push_ctx cx) v).
Proof. intros cx [|s2 r2] v Hne Ht Hh; [contradiction|]. cbn in Ht, Hh. subst r2. destruct v; cbn; rewrite ?Hh; reflexivity. Qed.

Lemma hle_local_ctx : forall cx2 v, hle cx2 -> hle (local_ctx cx2 v).
Proof. intros cx2 v H. destruct v; cbn [local_ctx]; try apply hle_add_height; exact H. Qed.

Lemma stats_local : forall f, P_scope f ->
  forall v rest backs cx n tl fb endc ec c n' w pre post s ev o s' vs base,
    erel endc ec fb -> cx <> [] -> ctx_lt cx n -> ctx_inj cx ->
    VZ tl (BCons (SLocal v) rest) backs -> (endc = true \/ fb = true -> length (shapes (BCons (SLocal v) rest)) <= tl) ->
    (forall l, In l backs -> get_label cx (NUser l) <> None) ->
    compile_stats cx n tl fb ec (BCons (SLocal v) rest) = Some (c, n') -> hide (w = pre ++ c ++ post) ->
    lab_lt pre n -> hle cx ->
    run_block (S f) endc (BCons (SLocal v) rest) s = Done (ev, o, s') -> sm s vs ->
    length (stack vs) = base + top_height cx ->
    sclaim backs w base cx fb (c ++ post) vs post vs ev o s'.
Proof.
  intros f IHscope v rest backs cx n tl fb endc ec c n' w pre post s ev o s' vs base
         He Hne Hclt Hinj HVZ Hfull HBV Hc Hw Hl Hh Hr Hsm H1.
  rewrite compile_localA in Hc.
  destruct (get_labels (push_ctx cx) n (firstn (pred tl) (shapes rest))) as [[[cx2 n2] bo]|] eqn:EG; [|discriminate].
  cbn [obind] in Hc.
  destruct (compile_stats (local_ctx cx2 v) n2 (pred tl) fb ec rest) as [[cr nr]|] eqn:E; [|discriminate].
  cbn [obind] in Hc. inversion Hc; subst c n'. clear Hc.
  destruct (glA_basic _ _ _ _ _ _ (push_ctx_ne cx) EG) as (Hle & Htl & Hth & Hne2).
  assert (Hpop : pop_code (local_ctx cx2 v) = pop_code (local_ctx (push_ctx cx) v)).
  { apply pop_code_local_eq; [exact Hne2|exact Htl|exact Hth]. }
  rewrite Hpop in *.
  destruct (match v with VBad id => true | _ => false end) eqn:Hbad.
  - destruct v as [| |id h|id]; try discriminate. cbn in Hr. inversion Hr; subst. clear Hr.
    left. cbn [claimG]. exists [EvRaise EMissing], (VError EMissing), vs.
    split.
    { cbn [local_code open_code app].
      pose proof (step_bad w base (IClPush (VBad id) :: (cr ++ pop_code (local_ctx (push_ctx cx) (VBad id))) ++ post) vs) as HB.
      pose proof (HB _ (term_push_bad w base id _ vs)) as HT. cbn [pre3 app] in HT. exact HT. }
    split; [exact I|]. split; [assumption|]. apply creln_refl. reflexivity.
  - assert (Hv : forall id, v <> VBad id) by (intros id ->; discriminate).
    assert (Er : run_block (S f) endc (BCons (SLocal v) rest) s =
                 bind (run_scope f endc rest rest s) (fun ev o s' =>
                   let (cev, o') := close_var v o in Done (open_var v ++ ev ++ cev, o', s'))).
    { destruct v; try reflexivity. discriminate. }
    rewrite Er in Hr. clear Er.
    destruct (run_scope f endc rest rest s) as [[[ev_r o_r] s_r]|] eqn:Rr; [|discriminate]. cbn [bind] in Hr.
    set (cx3 := local_ctx cx2 v) in *.
    set (cxo := local_ctx (push_ctx cx) v) in *.
    assert (Hne3 : cx3 <> []) by (apply local_ctx_ne2; exact Hne2).
    assert (Hw' : hide (w = (pre ++ local_code v) ++ cr ++ (pop_code cxo ++ post))).
    { unfold hide in *. rewrite Hw. cbn [app]. rewrite <- ?app_assoc. cbn [app]. rewrite <- ?app_assoc. reflexivity. }
    assert (Hl' : lab_lt (pre ++ local_code v) n).
    { apply lab_lt_app; [assumption|]. intros l Hin. exfalso. eapply local_code_nolab. exact Hin. }
    assert (Hsm' : sm s (vs_in vs v)) by (destruct v; exact Hsm).
    assert (Hth3 : top_height cx3 = top_height cxo).
    { unfold cx3, cxo. rewrite (local_ctx_top_height _ _ Hne2), (local_ctx_top_height _ _ (push_ctx_ne cx)), Hth. reflexivity. }
    assert (H1' : length (stack (vs_in vs v)) = base + top_height cx3).
    { rewrite Hth3. unfold cxo. rewrite top_height_local. destruct v; cbn [vs_in stack set_stack length]; lia. }
    assert (NL : nolocal []) by (unfold nolocal; intros t Hin; destruct Hin).
    assert (E' : compile_stats cx3 n2 (pred tl - length (@nil stmt)) fb ec rest = Some (cr, nr)).
    { cbn [length]. rewrite Nat.sub_0_r. exact E. }
    assert (Hclt2 : ctx_lt cx2 n2) by exact (glA_ctx_lt _ _ _ _ _ _ (push_ctx_ne cx) (ctx_lt_push _ _ Hclt) EG).
    assert (Hinj2 : ctx_inj cx2) by exact (glA_ctx_inj _ _ _ _ _ _ (push_ctx_ne cx) (ctx_lt_push _ _ Hclt) (ctx_inj_push _ Hinj) EG).
    assert (BV3 : forall l, In l backs -> get_label cx3 (NUser l) <> None).
    { intros l Hb. unfold cx3. rewrite local_ctx_get_label.
      destruct (get_label cx (NUser l)) as [x|] eqn:Eg; [|exfalso; exact (HBV l Hb Eg)].
      rewrite (glA_stable _ _ _ _ _ _ _ x (push_ctx_ne cx) EG Eg). discriminate. }
    assert (NEW3 : forall l, In l (flab (firstn (pred tl) (shapes rest))) ->
              exists x, scope_label (NUser l) (top_labels cx3) = Some x /\ n <= x < n2).
    { intros l Hin. unfold cx3. rewrite local_ctx_top_labels. exact (glA_new _ _ _ _ _ _ l (push_ctx_ne cx) EG Hin). }
    assert (TOPOLD : forall name, (forall l, name = NUser l -> ~ In l (flab (firstn (pred tl) (shapes rest)))) ->
              scope_label name (top_labels cx3) = None).
    { intros name Hn. unfold cx3. rewrite local_ctx_top_labels.
      rewrite (glA_old _ _ _ _ _ _ name (push_ctx_ne cx) EG Hn). reflexivity. }
    assert (SKIP : forall name, scope_label name (top_labels cx3) = None -> jump_target cx3 name = jump_target cxo name).
    { intros name Hn. rewrite (jump_target_skip _ _ Hn). unfold cx3, cxo. rewrite local_ctx_tl, Htl.
      rewrite jump_target_local. reflexivity. }
    assert (OLD3 : forall name, (forall l, name = NUser l -> ~ In (SLabel l) (stmts rest)) -> jump_target cx3 name = jump_target cxo name).
    { intros name Hn. apply SKIP. apply TOPOLD. intros l Hq Hin. apply (Hn l Hq).
      apply shape_label_stmt. apply flab_in_shapes. eapply flab_firstn_incl. exact Hin. }
    assert (NB3 : false = false -> forall l, In l backs -> scope_label (NUser l) (top_labels cx3) = None).
    { intros _ l Hb. apply TOPOLD. intros l0 Hq. inversion Hq; subst l0.
      eapply glA_vis; [apply push_ctx_ne| |exact EG]. exact (HBV l Hb). }
    pose proof (IHscope rest [] rest backs false cxo cx3 n n2 (pred tl) fb endc ec cr nr w (pre ++ local_code v) (pop_code cxo ++ post)
                  s ev_r o_r s_r (vs_in vs v) base eq_refl NL He Hne3 (ctx_lt_local_ctx _ _ _ Hclt2) (ctx_inj_local_ctx _ _ Hinj2)
                  (VZ_tail_nonlocal _ _ _ _ HVZ)
                  ltac:(intro Hq; specialize (Hfull Hq); cbn [shapes length] in Hfull; lia)
                  BV3 NEW3 OLD3 SKIP (fun Hq => ltac:(discriminate Hq)) NB3
                  E Hw' Hl' Hle (hle_local_ctx _ _ (hle_same (push_ctx cx) cx2 (push_ctx_ne cx) Hne2 Htl Hth (hle_push _ Hh)))
                  Rr Hsm' H1' [] n2 cr eq_refl E' eq_refl) as C.
    cbn beta iota in C.
    pose proof (leave_local_s backs w base cx fb v (cr ++ pop_code cxo ++ post) post vs ev_r o_r s_r Hv Hh H1 C) as D.
    destruct (close_var v o_r) as [cev o'] eqn:Ecv. cbn [fst snd] in D. injection Hr as <- <- <-.
    rewrite <- !app_assoc.
    eapply sclaim_prepend; [apply local_prefix; exact Hv|exact D].
Qed.

Lemma ctx_inj_loop : forall cx n, cx <> [] -> ctx_lt cx n -> ctx_inj cx -> ctx_inj (add_label (push_ctx cx) NBreak n).
Proof.
  intros cx n _ Hlt Hinj. eapply (ctx_inj_add_label _ NBreak n n); [apply push_ctx_ne| | |lia].
  - apply ctx_inj_push. exact Hinj.
  - apply ctx_lt_push. exact Hlt.
Qed.

(* ---------------------------------------------------------------- the induction *)
Theorem sim_all : forall f, P_stmt f /\ P_stats f /\ P_scope f /\ P_loop f /\ P_loopR f.
Proof.
  induction f as [|f (IHstmt & IHstats & IHscope & IHloop & IHloopR)].
  { repeat split; red; intros;
      match goal with H : _ = Done _ |- _ => cbn in H; discriminate H end. }
  pose proof (fun_sim f IHscope) as Hfun.
  pose proof (block_sim f IHscope) as BS.
  assert (PSCOPE : P_scope (S f)).
  { intros W a cur backs bl cxo cx n0 n tl fb endc ec c n' w pre post s ev o s' vs base
           HW Hnl He Hne Hclt Hinj HVZ Hfull HBV NEW OLD OLD2 BASE NB Hc Hw Hl Hn0 Hh Hr Hsm H1 ca nb cc Hseq Hcur Hcc.
    cbn [run_scope] in Hr.
    destruct (run_block f endc cur s) as [[[ev_b o_b] s_b]|] eqn:E; [|discriminate]. cbn [bind] in Hr.
    destruct (seq_labsA a cx n ca nb Hne Hnl Hseq) as (Hle_a & Hla).
    assert (LL : lab_lt (pre ++ ca) nb).
    { apply lab_lt_app; [eapply lab_lt_mono; [exact Hl|lia]|].
      intros x Hx. destruct (Hla x Hx) as [Hr0|(l2 & _ & Hg)]; [lia|].
      pose proof (get_label_lt _ _ _ _ Hclt Hg). lia. }
    assert (Hw' : hide (w = (pre ++ ca) ++ cc ++ post)).
    { unfold hide in *. rewrite Hw, Hcc, <- !app_assoc. reflexivity. }
    assert (Hshape : length (shapes W) = length a + length (shapes cur)).
    { rewrite HW, shapes_bapp, app_length, map_length. reflexivity. }
    pose proof (IHstats cur backs cx nb (tl - length a) fb endc ec cc n' w (pre ++ ca) post s ev_b o_b s_b vs base
                  He Hne (ctx_lt_mono _ _ _ Hclt Hle_a) Hinj (VZ_suffix a tl W cur backs HW HVZ)
                  ltac:(intro Hq; specialize (Hfull Hq); lia) HBV Hcur Hw' LL Hh E Hsm H1) as Cb.
    (* result constructors *)
    assert (LIFT : forall ev1 o1 s1 vb, claimG w base cxo fb (cc ++ post) vs post vb ev1 o1 s1 ->
              if bl then claimG w base cxo fb (cc ++ post) vs post vb ev1 o1 s1
              else sclaim backs w base cxo fb (cc ++ post) vs post vb ev1 o1 s1).
    { intros. destruct bl; [assumption|left; assumption]. }
    assert (PREP : forall a1 va1 e1 e2 o2 s2 vb,
              Reach w base (cc ++ post) vs a1 va1 e1 -> stack vb = stack vs ->
              (if bl then claimG w base cxo fb a1 va1 post vb e2 o2 s2 else sclaim backs w base cxo fb a1 va1 post vb e2 o2 s2) ->
              if bl then claimG w base cxo fb (cc ++ post) vs post vs (e1 ++ e2) o2 s2
              else sclaim backs w base cxo fb (cc ++ post) vs post vs (e1 ++ e2) o2 s2).
    { intros a1 va1 e1 e2 o2 s2 vb HR Hs H. destruct bl.
      - eapply claimG_prepend; [exact HR|]. eapply claimG_vb; [exact Hs|exact H].
      - eapply sclaim_prepend; [exact HR|]. eapply sclaim_vb; [exact Hs|exact H]. }
    (* a back label in flight: converted at the base scope, passed on otherwise *)
    assert (FIN : forall ev2 s2 l L h, In l backs -> jump_target cx (NUser l) = Some (L, h) ->
              Reach w base (cc ++ post) vs [IClTrunc h; IJump L] (withst vs s2) ev2 ->
              if bl then claimG w base cxo fb (cc ++ post) vs post vs ev2 ONormal s2
              else sclaim backs w base cxo fb (cc ++ post) vs post vs ev2 ONormal s2).
    { intros ev2 s2 l L h Hb Hj HR. destruct bl.
      - destruct (BASE eq_refl l Hb) as (L0 & HL0 & Hfb & z & AL & Hz). subst fb.
        rewrite (jump_target_top cx (NUser l) L0 Hne HL0) in Hj. inversion Hj; subst L h. clear Hj.
        cbn [claimG]. rewrite <- (app_nil_r ev2). eapply Reach_trans; [exact HR|].
        assert (Hl0 : length (stack (withst vs s2)) <= base + top_height cx) by (rewrite stack_withst; lia).
        pose proof (step_trunc_ok w base (top_height cx) [IJump L0] (withst vs s2) [] (stack vs) (cleanup_nothing _ _ None Hl0)) as T1.
        change (set_stack (withst vs s2) (stack vs)) with (withst vs s2) in T1.
        pose proof (step_jump w base L0 [] (z ++ post) (withst vs s2) AL) as T2.
        pose proof (noop_reach w base (top_height cx) z post (withst vs s2) Hz Hl0) as T3.
        exact (Reach_trans w base _ _ _ _ _ _ [] [] T1 (Reach_trans w base _ _ _ _ _ _ [] [] T2 T3)).
      - right. split; [reflexivity|]. exists l, L, h. split; [exact Hb|].
        pose proof (NB eq_refl l Hb) as Hn.
        split; [rewrite <- (OLD2 _ Hn); exact Hj|]. split; [|exact HR].
        pose proof (jump_target_le _ _ _ _ Hh Hj). lia. }
    destruct Cb as [Cb|(Ho & l & L & h & Hb & Hj & Hbd & HR)].
    2:{ subst o_b. injection Hr as <- <- <-. eapply FIN; eassumption. }
    assert (NOGOTO : (forall l, o_b <> OGoto l) -> Done (ev_b, o_b, s_b) = Done (ev, o, s') ->
                     if bl then claimG w base cxo fb (cc ++ post) vs post vs ev o s'
                     else sclaim backs w base cxo fb (cc ++ post) vs post vs ev o s').
    { intros Hng Hq. injection Hq as <- <- <-. apply LIFT. eapply claimG_ctx; [|exact Cb].
      destruct o_b; cbn [ctx_agree]; try exact I.
      - apply OLD. intros l Hq. discriminate.
      - exfalso. eapply Hng. reflexivity. }
    destruct o_b; try (apply NOGOTO; [intros l0; discriminate|exact Hr]).
    destruct (find_label l W) as [b'|] eqn:Ef.
    - destruct (find_label_split l W b' Ef) as (a' & HW' & Hnotin).
      cbn [claimG] in Cb. destruct Cb as (L & h & Hj & Hb & HR).
      pose proof (jump_target_get_label _ _ _ _ Hj) as HgL.
      pose proof Hc as Hc0. rewrite HW' in Hc0.
      destruct (run_scope f endc W b' s_b) as [[[ev2 o2] s2]|] eqn:R2; [|discriminate].
      cbn [prepend] in Hr.
      destruct (Nat.lt_ge_cases (length a') tl) as [Hlt|Hge].
      + destruct (nolocal_dec a') as [Hnl'|Hnl'].
        2:{ exfalso. eapply deeper_not_visible; [exact Hne|exact Hc0|exact Hnl'|exact Hlt|]. rewrite HgL. discriminate. }
        (* a label of this scope: restart there *)
        assert (Hin : In l (flab (firstn tl (shapes W)))) by (rewrite HW'; apply flab_firstn_here; assumption).
        destruct (NEW l Hin) as (x & Hx & Hxr).
        rewrite (jump_target_top cx (NUser l) x Hne Hx) in Hj. inversion Hj; subst L h. clear Hj.
        destruct (stats_split a' cx n tl fb ec _ c n' Hnl' Hc0) as (ca' & nb' & cb0 & Hseq' & Hcb0 & Hc').
        rewrite (compile_nonlocalA cx nb' (tl - length a') fb ec (SLabel l) b' eq_refl) in Hcb0.
        cbn [compile_stmt] in Hcb0. rewrite (get_label_top cx (NUser l) x Hne Hx) in Hcb0. cbn [obind] in Hcb0.
        destruct (compile_stats cx nb' (pred (tl - length a')) fb ec b') as [[cb' n2]|] eqn:Eb'; [|discriminate].
        cbn [obind app] in Hcb0. inversion Hcb0; subst cb0 n2. clear Hcb0.
        destruct (seq_labsA a' cx n ca' nb' Hne Hnl' Hseq') as (Hle_a' & Hla').
        assert (AL : after_label x w = Some (cb' ++ post)).
        { pose proof Hw as Hw0. unfold hide in Hw0. rewrite Hw0, Hc'.
          replace (pre ++ (ca' ++ ILabel x :: cb') ++ post) with ((pre ++ ca') ++ ILabel x :: (cb' ++ post))
            by (rewrite <- !app_assoc; reflexivity).
          rewrite after_label_skip; [apply after_label_here|].
          intro Hq. apply in_app_or in Hq as [Hq|Hq].
          - specialize (Hl _ Hq). lia.
          - destruct (Hla' x Hq) as [Hr0|(l2 & Hl2 & Hg)]; [lia|].
            pose proof (Hinj _ _ _ Hg (get_label_top cx (NUser l) x Hne Hx)) as Hq2. inversion Hq2; subst l2.
            exact (Hnotin Hl2). }
        assert (HW2 : W = bapp (a' ++ [SLabel l]) b') by (rewrite bapp_app; exact HW').
        assert (Hnl2 : nolocal (a' ++ [SLabel l])).
        { intros t Ht. apply in_app_or in Ht as [Ht|[<-|[]]]; [apply Hnl'; exact Ht|reflexivity]. }
        assert (Hseq2 : compile_seq cx n (a' ++ [SLabel l]) = Some (ca' ++ [ILabel x], nb')).
        { eapply compile_seq_app; [exact Hseq'|]. cbn [compile_seq compile_stmt].
          rewrite (get_label_top cx (NUser l) x Hne Hx). reflexivity. }
        assert (Hcur2 : compile_stats cx nb' (tl - length (a' ++ [SLabel l])) fb ec b' = Some (cb', n')).
        { rewrite app_length. cbn [length]. replace (tl - (length a' + 1)) with (pred (tl - length a')) by lia. exact Eb'. }
        assert (Hcc2 : c = (ca' ++ [ILabel x]) ++ cb') by (rewrite Hc', <- app_assoc; reflexivity).
        pose proof (IHscope W (a' ++ [SLabel l]) b' backs bl cxo cx n0 n tl fb endc ec c n' w pre post s_b ev2 o2 s2 (withst vs s_b) base
                      HW2 Hnl2 He Hne Hclt Hinj HVZ Hfull HBV NEW OLD OLD2 BASE NB Hc Hw Hl Hn0 Hh R2 (sm_withst _ _) H1
                      (ca' ++ [ILabel x]) nb' cb' Hseq2 Hcur2 Hcc2) as C2.
        injection Hr as <- <- <-.
        assert (Hl0 : length (stack (withst vs s_b)) <= base + top_height cx) by (rewrite stack_withst; lia).
        pose proof (step_trunc_ok w base (top_height cx) [IJump x] (withst vs s_b) [] (stack vs) (cleanup_nothing _ _ None Hl0)) as T1.
        change (set_stack (withst vs s_b) (stack vs)) with (withst vs s_b) in T1.
        pose proof (step_jump w base x [] (cb' ++ post) (withst vs s_b) AL) as T2.
        pose proof (Reach_trans w base _ _ _ _ _ _ ev_b ([] ++ []) HR (Reach_trans w base _ _ _ _ _ _ [] [] T1 T2)) as T.
        cbn [app] in T. rewrite app_nil_r in T.
        eapply PREP; [exact T|apply stack_withst|exact C2].
      + (* a back label of the enclosing block: the void tail, the jump is still to be performed *)
        destruct (HVZ a' (SLabel l) b' HW' Hge) as ((l0 & El & Hbk) & Hlb). inversion El; subst l0.
        assert (Hendc : endc = false).
        { destruct endc; [|reflexivity]. exfalso. specialize (Hfull (or_introl eq_refl)).
          rewrite HW', shapes_bapp, app_length, map_length in Hfull. cbn in Hfull. lia. }
        subst endc.
        destruct (void_run_scope b' W f s_b ev2 o2 s2 Hlb R2) as (-> & -> & ->).
        injection Hr as <- <- <-. rewrite app_nil_r.
        eapply FIN; eassumption.
    - injection Hr as <- <- <-. apply LIFT. eapply claimG_ctx; [|exact Cb]. cbn [ctx_agree].
      apply OLD. intros l0 Hq. inversion Hq; subst l0. apply find_label_none_stmts. exact Ef. }
  assert (PSTATS : P_stats (S f)).
  { intros b backs cx n tl fb endc ec c n' w pre post s ev o s' vs base He Hne Hclt Hinj HVZ Hfull HBV Hc Hw Hl Hh Hr Hsm H1.
    destruct b as [|r|t rest].
    - cbn in Hr. inversion Hr; subst. cbn [compile_stats] in Hc. inversion Hc; subst.
      left. cbn [claimG].
      destruct He as [[-> ->]|[-> [-> ->]]].
      + cbn [eval_cond]. rewrite (withst_sm _ _ Hsm).
        destruct fb; cbn [app]; [apply Reach_ret_any|apply Reach_refl].
      + cbn [app]. rewrite <- (eval_cond_true s vs Hsm). apply step_cond.
    - destruct r as [|body].
      + cbn in Hr. inversion Hr; subst. cbn [compile_stats] in Hc. inversion Hc; subst.
        left. cbn [claimG app]. rewrite (withst_sm _ _ Hsm). apply Reach_ret_any.
      + rewrite compile_retcall_eq in Hc.
        destruct (compile_fun body) as [c'|] eqn:Ef; [|discriminate]. cbn [obind] in Hc.
        cbn [run_block] in Hr.
        destruct (run_scope f false body body s) as [[[ev0 o0] s0]|] eqn:E; [|discriminate]. cbn [bind] in Hr.
        pose proof (Hfun body c' s ev0 o0 s0 vs Ef E Hsm) as Hres.
        left.
        destruct (Nat.eqb_spec (top_height cx) 0) as [Hz|Hz]; inversion Hc; subst c n'; clear Hc.
        * assert (Hlen : length (stack vs) = base) by lia.
          assert (TT : forall R, Term c' (length (stack vs)) c' vs R -> Term w base ([ITailCall c'] ++ post) vs R).
          { intros R HT. apply term_tailcall; [lia|exact HT]. }
          destruct o0; cbn [fun_outcome] in Hr; injection Hr as <- <- <-; cbn [fun_result claimG] in *; try contradiction.
          -- apply Reach_of_Term_ret; [rewrite stack_withst; lia|]. apply TT. exact Hres.
          -- apply Reach_of_Term_ret; [rewrite stack_withst; lia|]. apply TT. exact Hres.
          -- destruct Hres as (evV & oV & sV & HT & Hk & Hs & Hcr). exists evV, oV, sV.
             split; [apply TT; exact HT|]. rewrite Hlen in Hcr. auto.
          -- destruct Hres as (evV & oV & sV & HT & Hk & Hs & Hcr). exists evV, oV, sV.
             split; [apply TT; exact HT|]. rewrite Hlen in Hcr. auto.
        * destruct o0; cbn [fun_outcome] in Hr; injection Hr as <- <- <-; cbn [fun_result claimG] in *; try contradiction.
          -- rewrite <- (app_nil_r ev0). eapply Reach_trans; [apply step_call_ret; exact Hres|apply Reach_ret_any].
          -- rewrite <- (app_nil_r ev0). eapply Reach_trans; [apply step_call_ret; exact Hres|apply Reach_ret_any].
          -- eapply (fun_result_abort c' vs _ _ _ w base); cycle 3.
             { exact Hres. }
             { intros evV oV sV HT Ho. apply term_call_abort; assumption. }
             { lia. }
             { exact I. }
          -- eapply (fun_result_abort c' vs _ _ _ w base); cycle 3.
             { exact Hres. }
             { intros evV oV sV HT Ho. apply term_call_abort; assumption. }
             { lia. }
             { exact I. }
    - destruct (is_local t) eqn:Eloc.
      + destruct t; try discriminate. eapply (stats_local f IHscope); eassumption.
      + eapply (stats_seq f IHstmt IHstats); eassumption. }
  assert (PLOOP : P_loop (S f)).
  { intros b cxb nb cb n' w pre tailc Ll Lb nt s ev o s' vs base cxo Hne Hclt Hinj Hc Hw AL1 AL0 Hl Hh Hj Hr Hsm H1 Hgo.
    cbn [run_loop] in Hr.
    destruct (next_decision s) as [d s1] eqn:Ed.
    pose proof (vnext_sm s vs Hsm) as Hvn. rewrite Ed in Hvn. cbn [fst snd] in Hvn.
    destruct d.
    - destruct (run_scope f false b b s1) as [[[ev_b o_b] s_b]|] eqn:Rb; [|discriminate]. cbn [bind] in Hr.
      pose proof (BS b cxb nb true false false [] cb n' w pre ([IJump Ll; ILabel Lb] ++ tailc)
                    s1 ev_b o_b s_b (withst vs s1) base (or_introl (conj eq_refl eq_refl)) ltac:(discriminate) Hne Hclt Hinj Hc Hw Hl Hh Rb (sm_withst _ _) H1) as C.
      assert (STEP : Reach w base (IJumpIf Lb nt false :: cb ++ [IJump Ll; ILabel Lb] ++ tailc) vs
                       (cb ++ [IJump Ll; ILabel Lb] ++ tailc) (withst vs s1) []).
      { eapply step_jumpif_not; [exact Hvn|reflexivity]. }
      change ev with ([] ++ ev). eapply claimG_prepend; [exact STEP|].
      eapply claimG_vb; [apply (stack_withst vs s1)|].
      destruct o_b; cbn [claimG] in C.
      + destruct (run_loop f false b s_b) as [[[ev2 o2] s2]|] eqn:R2; [|discriminate].
        cbn [prepend] in Hr.
        assert (Hgo2 : forall l, o2 = OGoto l -> jump_target cxb (NUser l) = jump_target cxo (NUser l)).
        { intros l ->. apply Hgo. injection Hr as _ <- _. reflexivity. }
        pose proof (IHloop b cxb nb cb n' w pre tailc Ll Lb nt s_b ev2 o2 s2 (withst vs s_b) base cxo
                      Hne Hclt Hinj Hc Hw AL1 AL0 Hl Hh Hj R2 (sm_withst _ _) H1 Hgo2) as C2.
        injection Hr as <- <- <-.
        eapply claimG_prepend; [exact C|].
        change ev2 with ([] ++ ev2). eapply claimG_prepend; [eapply step_jump; exact AL1|].
        eapply claimG_vb; [|exact C2]. reflexivity.
      + injection Hr as <- <- <-. cbn [claimG].
        destruct C as (L & h & Hj' & Hb & HR). rewrite Hj in Hj'. inversion Hj'; subst L h. clear Hj'.
        rewrite <- (app_nil_r ev_b). eapply Reach_trans; [exact HR|].
        change (@nil event) with (@nil event ++ []).
        eapply Reach_trans.
        * assert (Hl0 : length (stack (withst vs s_b)) <= base + top_height cxb) by (rewrite stack_withst; lia).
          exact (step_trunc_ok w base (top_height cxb) [IJump Lb] (withst vs s_b) [] (stack vs) (cleanup_nothing _ _ None Hl0)).
        * eapply step_jump. exact AL0.
      + injection Hr as <- <- <-. cbn [claimG]. rewrite <- (Hgo l eq_refl). exact C.
      + injection Hr as <- <- <-. cbn [claimG]. exact C.
      + injection Hr as <- <- <-. cbn [claimG]. exact C.
      + injection Hr as <- <- <-. cbn [claimG]. exact C.
    - injection Hr as <- <- <-. cbn [claimG].
      eapply step_jumpif_taken; [exact Hvn|reflexivity|exact AL0]. }
  assert (PLOOPR : P_loopR (S f)).
  { intros b cx2 nb cb n' w pre post Ll Lb s ev o s' vs base cxo Hne Hclt Hinj Hc Hw AL1 AL0 Hl Hh Hj Hr Hsm H1 Hgo.
    cbn [run_loop] in Hr.
    destruct (run_scope f true b b s) as [[[ev_b o_b] s_b]|] eqn:Rb; [|discriminate]. cbn [bind] in Hr.
    pose proof (BS b cx2 nb false false true [ICond] cb n' w pre ([IJumpLast Ll false; ILabel Lb] ++ post)
                  s ev_b o_b s_b vs base (or_intror (conj eq_refl (conj eq_refl eq_refl))) (fun _ => eq_refl) Hne Hclt Hinj Hc Hw Hl Hh Rb Hsm H1) as C.
    destruct o_b; cbn [claimG] in C.
    - cbn [andb] in Hr.
      destruct (negb (lastc s_b)) eqn:Elc.
      + injection Hr as <- <- <-. cbn [claimG].
        rewrite <- (app_nil_r ev_b). eapply Reach_trans; [exact C|].
        change (@nil event) with (@nil event ++ []).
        eapply Reach_trans; [apply step_jumplast_not; cbn; destruct (lastc s_b); [discriminate|reflexivity]|apply step_label].
      + destruct (run_loop f true b s_b) as [[[ev2 o2] s2]|] eqn:R2; [|discriminate].
        cbn [prepend] in Hr.
        assert (Hgo2 : forall l, o2 = OGoto l -> jump_target cx2 (NUser l) = jump_target cxo (NUser l)).
        { intros l ->. apply Hgo. injection Hr as _ <- _. reflexivity. }
        pose proof (IHloopR b cx2 nb cb n' w pre post Ll Lb s_b ev2 o2 s2 (withst vs s_b) base cxo
                      Hne Hclt Hinj Hc Hw AL1 AL0 Hl Hh Hj R2 (sm_withst _ _) H1 Hgo2) as C2.
        injection Hr as <- <- <-.
        eapply claimG_prepend; [exact C|].
        change ev2 with ([] ++ ev2).
        eapply claimG_prepend; [eapply step_jumplast_taken; [cbn; destruct (lastc s_b); [reflexivity|discriminate]|exact AL1]|].
        eapply claimG_vb; [|exact C2]. reflexivity.
    - injection Hr as <- <- <-. cbn [claimG].
      destruct C as (L & h & Hj' & Hb & HR). rewrite Hj in Hj'. inversion Hj'; subst L h. clear Hj'.
      rewrite <- (app_nil_r ev_b). eapply Reach_trans; [exact HR|].
      change (@nil event) with (@nil event ++ []).
      eapply Reach_trans.
      + assert (Hl0 : length (stack (withst vs s_b)) <= base + top_height cx2) by (rewrite stack_withst; lia).
        exact (step_trunc_ok w base (top_height cx2) [IJump Lb] (withst vs s_b) [] (stack vs) (cleanup_nothing _ _ None Hl0)).
      + eapply step_jump. exact AL0.
    - injection Hr as <- <- <-. cbn [claimG]. rewrite <- (Hgo l eq_refl). exact C.
    - injection Hr as <- <- <-. cbn [claimG]. exact C.
    - injection Hr as <- <- <-. cbn [claimG]. exact C.
    - injection Hr as <- <- <-. cbn [claimG]. exact C. }
  assert (PSTMT : P_stmt (S f)).
  { intros t cx n c n' w pre post s ev o s' vs base Hne Hclt Hinj Hc Hw Hl Hh Hr Hsm H1.
    unfold claim.
    assert (JUMP : forall name, compile_stmt cx n t = obind (emit_jump cx name) (fun c => Some (c, n)) ->
              exists L h, jump_target cx name = Some (L, h) /\ base + h <= length (stack vs) /\
                          Reach w base (c ++ post) vs [IClTrunc h; IJump L] vs [] /\ n' = n).
    { intros name Hq. rewrite Hq in Hc. unfold emit_jump in Hc. rewrite emit_jump_from_target in Hc.
      destruct (jump_target cx name) as [[L h]|] eqn:Ej; [|discriminate]. cbn [obind] in Hc. inversion Hc; subst.
      pose proof (jump_target_le _ _ _ _ Hh Ej) as Hle.
      exists L, h. split; [reflexivity|]. split; [lia|]. split; [|reflexivity].
      unfold emit_truncate. destruct (Nat.ltb_spec h (top_height cx)).
      + cbn [app]. apply Reach_trunc_jump_any.
      + cbn [app]. apply Reach_jump_virtual. lia. }
    destruct t.
    - discriminate Hc.
    - (* SDo *)
      rewrite compile_doA in Hc.
      destruct (bin (push_ctx cx) n b true false []) as [[cb nb]|] eqn:E; [|discriminate].
      cbn [obind] in Hc. rewrite pop_code_push, app_nil_r in Hc. inversion Hc; subst. clear Hc.
      cbn [run_stmt] in Hr.
      pose proof (BS b (push_ctx cx) n true false false [] c n' w pre post s ev o s' vs base
                    (or_introl (conj eq_refl eq_refl)) ltac:(discriminate) (push_ctx_ne cx) (ctx_lt_push _ _ Hclt) (ctx_inj_push _ Hinj) E Hw Hl (hle_push _ Hh) Hr Hsm H1) as C.
      eapply claimG_ctx; [|exact C]. destruct o; cbn [ctx_agree]; try exact I; reflexivity.
    - (* SLoop *)
      destruct k as [| |v].
      + (* while *)
        rewrite compile_whileA in Hc. cbv zeta in Hc.
        destruct (bin _ (n + 2) b true false []) as [[cb nb]|] eqn:E; [|discriminate].
        cbn [obind] in Hc. rewrite pop_code_push, app_nil_r in Hc.
        assert (Hp : pop_code (add_label (push_ctx cx) NBreak n) = []).
        { cbn. unfold emit_truncate. rewrite Nat.ltb_irrefl. reflexivity. }
        rewrite Hp, app_nil_r in Hc. inversion Hc; subst c n'. clear Hc.
        cbn [run_stmt] in Hr.
        destruct (bin_rng b _ _ _ _ _ _ _ (proj1 (proj2 compile_labsA) b) (push_ctx_ne _) noec_nil E) as (Hn & Hge & Hlt).
        assert (AL1 : after_label (n + 1) w = Some (IJumpIf n true false :: cb ++ [IJump (n + 1); ILabel n] ++ post)).
        { pose proof Hw as Hw0. unfold hide in Hw0. rewrite Hw0. rewrite after_label_skip; [|intro Hin; specialize (Hl _ Hin); lia].
          cbn [app]. rewrite after_label_here. rewrite <- app_assoc. reflexivity. }
        assert (AL0 : after_label n w = Some post).
        { pose proof Hw as Hw0. unfold hide in Hw0. rewrite Hw0. rewrite after_label_skip; [|intro Hin; specialize (Hl _ Hin); lia].
          cbn [app after_label]. destruct (Nat.eqb_spec n (n + 1)); [lia|].
          rewrite <- app_assoc. rewrite after_label_skip; [|intro Hin; specialize (Hge _ Hin); lia].
          cbn [app after_label]. rewrite Nat.eqb_refl. reflexivity. }
        assert (Hw' : hide (w = (pre ++ [ILabel (n + 1); IJumpIf n true false]) ++ cb ++ ([IJump (n + 1); ILabel n] ++ post))).
        { unfold hide in *. rewrite Hw. cbn [app]. rewrite <- ?app_assoc. cbn [app]. rewrite <- ?app_assoc. reflexivity. }
        assert (Hl' : lab_lt (pre ++ [ILabel (n + 1); IJumpIf n true false]) (n + 2)).
        { apply lab_lt_app; [eapply lab_lt_mono; [exact Hl|lia]|].
          intros l [Hin|[Hin|[]]]; [inversion Hin; lia|discriminate]. }
        pose proof (IHloop b (push_ctx (add_label (push_ctx cx) NBreak n)) (n + 2) cb nb w _ post (n + 1) n true s ev o s' vs base cx
                      (push_ctx_ne _)
                      (ctx_lt_push _ _ (ctx_lt_loop cx n Hclt)) (ctx_inj_push _ (ctx_inj_loop cx n Hne Hclt Hinj))
                      E Hw' AL1 AL0 Hl'
                      (hle_push _ (hle_add_label _ _ _ (hle_push _ Hh))) eq_refl Hr Hsm H1 ltac:(intros; reflexivity)) as C.
        change ev with ([] ++ ev).
        eapply claimG_prepend; [|exact C]. cbn [app]. rewrite <- ?app_assoc. cbn [app]. apply step_label.
      + (* repeat *)
        rewrite compile_repeatA in Hc. cbv zeta in Hc.
        destruct (bin _ (n + 2) b false false [ICond]) as [[cb nb]|] eqn:E; [|discriminate].
        cbn [obind] in Hc.
        assert (Hp : pop_code (add_label (push_ctx cx) NBreak n) = []).
        { cbn. unfold emit_truncate. rewrite Nat.ltb_irrefl. reflexivity. }
        rewrite Hp, app_nil_r in Hc. inversion Hc; subst c n'. clear Hc.
        cbn [run_stmt] in Hr.
        destruct (bin_rng b _ _ _ _ _ _ _ (proj1 (proj2 compile_labsA) b) (add_label_ne _ _ _ (push_ctx_ne _)) noec_cond E) as (Hn & Hge & Hlt).
        assert (AL1 : after_label (n + 1) w = Some (cb ++ [IJumpLast (n + 1) false; ILabel n] ++ post)).
        { pose proof Hw as Hw0. unfold hide in Hw0. rewrite Hw0. rewrite after_label_skip; [|intro Hin; specialize (Hl _ Hin); lia].
          cbn [app]. rewrite after_label_here. rewrite <- app_assoc. reflexivity. }
        assert (AL0 : after_label n w = Some post).
        { pose proof Hw as Hw0. unfold hide in Hw0. rewrite Hw0. rewrite after_label_skip; [|intro Hin; specialize (Hl _ Hin); lia].
          cbn [app after_label]. destruct (Nat.eqb_spec n (n + 1)); [lia|].
          rewrite <- app_assoc. rewrite after_label_skip; [|intro Hin; specialize (Hge _ Hin); lia].
          cbn [app after_label]. rewrite Nat.eqb_refl. reflexivity. }
        assert (Hw' : hide (w = (pre ++ [ILabel (n + 1)]) ++ cb ++ ([IJumpLast (n + 1) false; ILabel n] ++ post))).
        { unfold hide in *. rewrite Hw. cbn [app]. rewrite <- ?app_assoc. cbn [app]. rewrite <- ?app_assoc. reflexivity. }
        assert (Hl' : lab_lt (pre ++ [ILabel (n + 1)]) (n + 2)).
        { apply lab_lt_app; [eapply lab_lt_mono; [exact Hl|lia]|].
          intros l [Hin|[]]. inversion Hin; lia. }
        pose proof (IHloopR b (add_label (push_ctx cx) NBreak n) (n + 2) cb nb w _ post (n + 1) n s ev o s' vs base cx
                      (add_label_ne _ _ _ (push_ctx_ne _))
                      (ctx_lt_loop cx n Hclt) (ctx_inj_loop cx n Hne Hclt Hinj)
                      E Hw' AL1 AL0 Hl'
                      (hle_add_label _ _ _ (hle_push _ Hh)) eq_refl Hr Hsm H1 ltac:(intros; reflexivity)) as C.
        change ev with ([] ++ ev).
        eapply claimG_prepend; [|exact C]. cbn [app]. rewrite <- ?app_assoc. cbn [app]. apply step_label.
      + (* generic for *)
        rewrite compile_forinA in Hc. cbv zeta in Hc.
        destruct (bin _ (n + 2) b true false []) as [[cb nb]|] eqn:E; [|discriminate].
        cbn [obind] in Hc.
        assert (Hp : pop_code (add_label (add_height (push_ctx cx)) NBreak (n + 1)) = [IClTrunc (top_height cx)]).
        { cbn. unfold emit_truncate. destruct (Nat.ltb_spec (top_height cx) (S (top_height cx))); [reflexivity|lia]. }
        rewrite Hp in Hc. inversion Hc; subst c n'. clear Hc.
        destruct (match v with VBad id => true | _ => false end) eqn:Hbad.
        * destruct v as [| |id h|id]; try discriminate. cbn in Hr. inversion Hr; subst. clear Hr.
          cbn [claimG]. exists [EvRaise EMissing], (VError EMissing), vs.
          split.
          { cbn [open_code forin_val app].
            match goal with |- Term _ _ (IBad :: ?k) _ _ =>
              pose proof (step_bad w base k vs _ (term_push_bad w base id _ vs)) as HT end.
            cbn [pre3 app] in HT. exact HT. }
          split; [exact I|]. split; [assumption|]. apply creln_refl. reflexivity.
        * assert (Hv : forall id, forin_val v <> VBad id) by (intros id Hq; destruct v; discriminate).
          assert (Er : run_stmt (S f) (SLoop (LForIn v) b) s =
                       bind (run_loop f false b s) (fun ev o s' =>
                         let (cev, o') := close_var v o in Done (open_var v ++ ev ++ cev, o', s'))).
          { destruct v; try reflexivity. discriminate. }
          rewrite Er in Hr. clear Er.
          destruct (run_loop f false b s) as [[[ev_l o_l] s_l]|] eqn:Rl; [|discriminate]. cbn [bind] in Hr.
          set (vin := set_stack vs (forin_val v :: stack vs)).
          set (h := top_height cx) in *.
          set (cx3 := add_label (add_height (push_ctx cx)) NBreak (n + 1)) in *.
          set (LOOP := IJumpIf (n + 1) false false :: cb ++ [IJump n; ILabel (n + 1)] ++ IClTrunc h :: post).
          assert (Hne3 : cx3 <> []) by discriminate.
          destruct (bin_rng b _ _ _ _ _ _ _ (proj1 (proj2 compile_labsA) b) Hne3 noec_nil E) as (Hn & Hge & Hlt).
          assert (NOL : forall l, ~ In (ILabel l) (open_code v ++ [IClPush (forin_val v)])).
          { intros l Hin. destruct v; cbn in Hin; repeat (destruct Hin as [Hin|Hin]; [discriminate|]); destruct Hin. }
          assert (Ew : w = (pre ++ open_code v ++ [IClPush (forin_val v)]) ++ ILabel n :: LOOP).
          { pose proof Hw as Hw0. unfold hide in Hw0. rewrite Hw0. unfold LOOP.
            cbn [app]. rewrite <- ?app_assoc. cbn [app]. rewrite <- ?app_assoc. cbn [app]. reflexivity. }
          assert (NOP : forall l, In (ILabel l) (pre ++ open_code v ++ [IClPush (forin_val v)]) -> l < n).
          { intros l Hin. apply in_app_or in Hin as [Hin|Hin]; [apply (Hl _ Hin)|exfalso; eapply NOL; exact Hin]. }
          assert (AL1 : after_label n w = Some LOOP).
          { rewrite Ew. rewrite after_label_skip; [|intro Hin; specialize (NOP _ Hin); lia]. apply after_label_here. }
          assert (AL0 : after_label (n + 1) w = Some (IClTrunc h :: post)).
          { rewrite Ew. rewrite after_label_skip; [|intro Hin; specialize (NOP _ Hin); lia].
            unfold LOOP. cbn [after_label]. destruct (Nat.eqb_spec (n + 1) n); [lia|].
            rewrite after_label_skip; [|intro Hin; specialize (Hge _ Hin); lia].
            cbn [app after_label]. rewrite Nat.eqb_refl. reflexivity. }
          assert (Hw' : hide (w = (pre ++ open_code v ++ [IClPush (forin_val v); ILabel n; IJumpIf (n + 1) false false])
                                  ++ cb ++ ([IJump n; ILabel (n + 1)] ++ IClTrunc h :: post))).
          { unfold hide. rewrite Ew. unfold LOOP. cbn [app]. rewrite <- ?app_assoc. cbn [app]. rewrite <- ?app_assoc. cbn [app]. reflexivity. }
          assert (Hl' : lab_lt (pre ++ open_code v ++ [IClPush (forin_val v); ILabel n; IJumpIf (n + 1) false false]) (n + 2)).
          { intros l Hin. apply in_app_or in Hin as [Hin|Hin]; [specialize (Hl _ Hin); lia|].
            apply in_app_or in Hin as [Hin|Hin].
            - exfalso. destruct v; cbn in Hin; repeat (destruct Hin as [Hin|Hin]; [discriminate|]); destruct Hin.
            - cbn in Hin. destruct Hin as [Hin|[Hin|[Hin|[]]]]; [discriminate|inversion Hin; lia|discriminate]. }
          assert (Hsm' : sm s vin) by exact Hsm.
          assert (H1' : length (stack vin) = base + top_height cx3) by (cbn; lia).
          assert (Hclt3 : ctx_lt cx3 (n + 2)).
          { apply ctx_lt_add_label; [|lia]. apply ctx_lt_add_height. eapply ctx_lt_mono; [apply ctx_lt_push; exact Hclt|lia]. }
          assert (Hinj3 : ctx_inj cx3).
          { unfold cx3. eapply (ctx_inj_add_label _ NBreak (n + 1) n); [discriminate| | |lia].
            - apply ctx_inj_add_height, ctx_inj_push. exact Hinj.
            - apply ctx_lt_add_height, ctx_lt_push. exact Hclt. }
          pose proof (IHloop b cx3 (n + 2) cb nb w _ (IClTrunc h :: post) n (n + 1) false s ev_l o_l s_l vin base cx
                        Hne3 Hclt3 Hinj3 E Hw' AL1 AL0 Hl' (hle_add_label _ _ _ (hle_add_height _ (hle_push _ Hh))) eq_refl Rl Hsm' H1'
                        ltac:(intros; reflexivity)) as C.
          pose proof (leave_pushed w base cx cx false (forin_val v) LOOP post vs vin ev_l o_l s_l eq_refl Hh H1
                        ltac:(intro; reflexivity) C) as D.
          rewrite close_var_forin in D.
          destruct (close_var v o_l) as [cev o'] eqn:Ecv. cbn [fst snd] in D. injection Hr as <- <- <-.
          assert (PRE : Reach w base ((open_code v ++ [IClPush (forin_val v); ILabel n] ++ LOOP)) vs LOOP vin (open_var v)).
          { destruct v as [| |id hh|id]; cbn [open_code open_var forin_val app].
            - change (@nil event) with (@nil event ++ []). eapply Reach_trans; [apply step_push; discriminate|apply step_label].
            - change (@nil event) with (@nil event ++ []). eapply Reach_trans; [apply step_push; discriminate|apply step_label].
            - change [EvOpen id] with ([EvOpen id] ++ ([] ++ [])).
              eapply Reach_trans; [apply step_open|]. eapply Reach_trans; [apply step_push; discriminate|apply step_label].
            - discriminate. }
          eapply claimG_prepend; [|exact D].
          unfold LOOP in *. cbn [app] in *. rewrite <- ?app_assoc. cbn [app]. rewrite <- ?app_assoc. cbn [app]. exact PRE.
    - (* SIf *)
      rewrite compile_ifA in Hc.
      destruct (bin (push_ctx cx) (n + 2) b true false []) as [[cb nb]|] eqn:E; [|discriminate].
      cbn [obind] in Hc. rewrite pop_code_push, app_nil_r in Hc. inversion Hc; subst c n'. clear Hc.
      cbn [run_stmt] in Hr.
      destruct (next_decision s) as [d s1] eqn:Ed.
      pose proof (vnext_sm s vs Hsm) as Hvn. rewrite Ed in Hvn. cbn [fst snd] in Hvn.
      destruct (bin_rng b _ _ _ _ _ _ _ (proj1 (proj2 compile_labsA) b) (push_ctx_ne _) noec_nil E) as (Hn & Hge & Hlt).
      assert (AL1 : after_label (n + 1) w = Some ([ILabel n] ++ post)).
      { pose proof Hw as Hw0. unfold hide in Hw0. rewrite Hw0. rewrite after_label_skip; [|intro Hin; specialize (Hl _ Hin); lia].
        cbn [app after_label]. rewrite <- app_assoc.
        rewrite after_label_skip; [|intro Hin; specialize (Hge _ Hin); lia].
        cbn [app after_label]. rewrite Nat.eqb_refl. reflexivity. }
      cbn [app]. rewrite <- app_assoc. cbn [app].
      destruct d.
      + assert (Hw' : hide (w = (pre ++ [IJumpIf (n + 1) true false]) ++ cb ++ ([ILabel (n + 1); ILabel n] ++ post))).
        { unfold hide in *. rewrite Hw. cbn [app]. rewrite <- ?app_assoc. cbn [app]. rewrite <- ?app_assoc. reflexivity. }
        assert (Hl' : lab_lt (pre ++ [IJumpIf (n + 1) true false]) (n + 2)).
        { apply lab_lt_app; [eapply lab_lt_mono; [exact Hl|lia]|]. intros l [Hin|[]]. discriminate. }
        pose proof (BS b (push_ctx cx) (n + 2) true false false [] cb nb w _ ([ILabel (n + 1); ILabel n] ++ post)
                      s1 ev o s' (withst vs s1) base (or_introl (conj eq_refl eq_refl)) ltac:(discriminate) (push_ctx_ne cx)
                      (ctx_lt_mono (push_ctx cx) n (n + 2) (ctx_lt_push _ _ Hclt) (Nat.le_add_r n 2)) (ctx_inj_push _ Hinj) E Hw' Hl' (hle_push _ Hh) Hr (sm_withst _ _) H1) as C.
        change ev with ([] ++ ev). eapply claimG_prepend; [eapply step_jumpif_not; [exact Hvn|reflexivity]|].
        eapply claimG_vb; [apply (stack_withst vs s1)|].
        eapply claimG_ctx; [instantiate (1 := push_ctx cx); destruct o; cbn [ctx_agree]; try exact I; reflexivity|].
        destruct o; cbn [claimG] in *; try exact C.
        rewrite <- (app_nil_r ev). eapply Reach_trans; [exact C|].
        change (@nil event) with (@nil event ++ []). eapply Reach_trans; apply step_label.
      + inversion Hr; subst. clear Hr. cbn [claimG].
        change (@nil event) with (@nil event ++ []).
        eapply Reach_trans; [eapply step_jumpif_taken; [exact Hvn|reflexivity|exact AL1]|apply step_label].
    - (* SBreak *)
      destruct (JUMP NBreak eq_refl) as (L & h & Hj & Hb & HR & ->).
      cbn in Hr. inversion Hr; subst. clear Hr. cbn [claimG]. rewrite (withst_sm _ _ Hsm).
      exists L, h. auto.
    - (* SGoto *)
      destruct (JUMP (NUser l) eq_refl) as (L & h & Hj & Hb & HR & ->).
      cbn in Hr. inversion Hr; subst. clear Hr. cbn [claimG]. rewrite (withst_sm _ _ Hsm).
      exists L, h. auto.
    - (* SLabel *)
      cbn [compile_stmt] in Hc. destruct (get_label cx (NUser l)) as [x|]; [|discriminate]. cbn [obind] in Hc.
      inversion Hc; subst. cbn in Hr. inversion Hr; subst. cbn [claimG app]. rewrite (withst_sm _ _ Hsm). apply step_label.
    - (* SMark *)
      cbn in Hc, Hr. inversion Hc; subst. inversion Hr; subst. cbn [claimG app]. rewrite (withst_sm _ _ Hsm). apply step_mark.
    - (* SCall *)
      rewrite compile_call_eq in Hc.
      destruct (compile_fun b) as [c'|] eqn:Ef; [|discriminate]. cbn [obind] in Hc. inversion Hc; subst. clear Hc.
      cbn [run_stmt] in Hr.
      destruct (run_scope f false b b s) as [[[ev0 o0] s0]|] eqn:E; [|discriminate]. cbn [bind] in Hr.
      pose proof (Hfun b c' s ev0 o0 s0 vs Ef E Hsm) as Hres.
      destruct o0; cbn [fun_outcome] in Hr; injection Hr as <- <- <-; cbn [fun_result claimG app] in *; try contradiction.
      + apply step_call_ret. exact Hres.
      + apply step_call_ret. exact Hres.
      + eapply (fun_result_abort c' vs _ _ _ w base); cycle 3.
        { exact Hres. }
        { intros evV oV sV HT Ho. apply term_call_abort; assumption. }
        { lia. }
        { exact I. }
      + eapply (fun_result_abort c' vs _ _ _ w base); cycle 3.
        { exact Hres. }
        { intros evV oV sV HT Ho. apply term_call_abort; assumption. }
        { lia. }
        { exact I. }
    - (* SPcall *)
      rewrite compile_pcall_eq in Hc.
      destruct (compile_fun b) as [c'|] eqn:Ef; [|discriminate]. cbn [obind] in Hc. inversion Hc; subst. clear Hc.
      cbn [run_stmt] in Hr.
      destruct (run_scope f false b b s) as [[[ev0 o0] s0]|] eqn:E; [|discriminate]. cbn [bind] in Hr.
      pose proof (Hfun b c' s ev0 o0 s0 vs Ef E Hsm) as Hres.
      assert (NORMAL : Term c' (length (stack vs)) c' vs (ev0, VReturn, withst vs s0) ->
                       Reach w base ([IPcall c'] ++ post) vs post (withst vs s0) (ev0 ++ [EvPcall None])).
      { intro HT.
        assert (Hl0 : length (stack (withst vs s0)) <= length (stack vs)) by (rewrite stack_withst; lia).
        exact (step_pcall w base c' post vs ev0 VReturn (withst vs s0) [] (stack vs) None HT (or_introl eq_refl)
                 (cleanup_nothing _ _ None Hl0)). }
      destruct o0; cbn [fun_outcome] in Hr; injection Hr as <- <- <-; cbn [fun_result claimG] in *; try contradiction.
      + apply NORMAL. exact Hres.
      + apply NORMAL. exact Hres.
      + destruct Hres as (evV & oV & sV & HT & Hk & Hs & Hcr).
        destruct oV; cbn in Hk; try contradiction.
        unfold creln in Hcr. cbn [verr err_of] in Hcr.
        rewrite (cleanup_nothing (stack vs) (length (stack vs)) (Some e) ltac:(lia)) in Hcr.
        destruct (cleanup (stack sV) (length (stack vs)) (Some e0)) as [[c1 r1] e1] eqn:Ec.
        destruct Hcr as (H2 & -> & ->). rewrite app_nil_r in H2.
        pose proof (step_pcall w base c' post vs evV (VError e0) sV c1 (stack vs) (Some e) HT
                      (or_intror (ex_intro _ e0 eq_refl)) Ec) as HR.
        rewrite app_assoc, H2 in HR.
        assert (Es : set_stack sV (stack vs) = withst vs s0).
        { destruct Hs as (A & B & C0). destruct sV; cbn in *. subst. reflexivity. }
        rewrite Es in HR. exact HR.
      + eapply (fun_result_abort c' vs _ _ _ w base); cycle 3.
        { exact Hres. }
        { intros evV oV sV HT Ho.
          destruct Hres as (evV' & oV' & sV' & HT' & Hk & _).
          pose proof (Term_det _ _ _ _ _ _ HT HT') as EE. injection EE as -> -> ->.
          destruct oV'; cbn in Hk; try contradiction. apply term_pcall_closed. exact HT. }
        { lia. }
        { exact I. }
    - (* SCoro *)
      rewrite compile_coro_eq in Hc.
      destruct (compile_fun b) as [c'|] eqn:Ef; [|discriminate]. cbn [obind] in Hc. inversion Hc; subst. clear Hc.
      cbn [run_stmt] in Hr.
      destruct (run_scope f false b b (mkSt (ds s) k (lastc s))) as [[[ev0 o0] s0]|] eqn:E; [|discriminate].
      cbn [bind] in Hr. inversion Hr; subst. clear Hr. cbn [claimG app].
      set (vs0 := mkV [] (vds vs) k (vlast vs)).
      assert (Hsm0 : sm (mkSt (ds s) k (lastc s)) vs0).
      { destruct Hsm as (A & B & C0). repeat split; cbn; assumption. }
      pose proof (Hfun b c' _ ev0 o0 s0 vs0 Ef E Hsm0) as Hres.
      assert (Efin : forall sV, sm s0 sV ->
                mkV (stack vs) (vds sV) (vyc vs) (vlast sV) = withst vs (mkSt (ds s0) (yc s) (lastc s0))).
      { intros sV (A & B & C0). destruct Hsm as (A' & B' & C'). unfold withst. cbn. rewrite A, C0, B'. reflexivity. }
      assert (NORMAL : Term c' 0 c' vs0 (ev0, VReturn, withst vs0 s0) ->
                       Reach w base (ICoro c' k :: post) vs post (withst vs (mkSt (ds s0) (yc s) (lastc s0)))
                         (ev0 ++ [EvCo None])).
      { intro HT.
        pose proof (step_coro w base c' k post vs ev0 VReturn (withst vs0 s0) [] [] None HT ltac:(discriminate) eq_refl) as HR.
        rewrite (Efin (withst vs0 s0) (sm_withst _ _)) in HR. exact HR. }
      destruct o0; cbn [fun_outcome err_of fun_result] in *; try contradiction.
      + apply NORMAL. exact Hres.
      + apply NORMAL. exact Hres.
      + destruct Hres as (evV & oV & sV & HT & Hk & Hs & Hcr).
        unfold creln in Hcr. unfold vs0 in Hcr. cbn [stack cleanup err_of length] in Hcr.
        destruct (cleanup (stack sV) 0 (verr oV)) as [[c1 r1] e1] eqn:Ec.
        destruct Hcr as (H2 & -> & ->). rewrite app_nil_r in H2.
        pose proof (step_coro w base c' k post vs evV oV sV c1 [] (Some e) HT
                      ltac:(destruct oV; cbn in Hk; try contradiction; discriminate) Ec) as HR.
        rewrite app_assoc, H2 in HR. rewrite (Efin sV Hs) in HR. exact HR.
      + destruct Hres as (evV & oV & sV & HT & Hk & Hs & Hcr).
        unfold creln in Hcr. unfold vs0 in Hcr. cbn [stack cleanup err_of length] in Hcr.
        destruct (cleanup (stack sV) 0 (verr oV)) as [[c1 r1] e1] eqn:Ec.
        destruct Hcr as (H2 & -> & ->). rewrite app_nil_r in H2.
        pose proof (step_coro w base c' k post vs evV oV sV c1 [] e HT
                      ltac:(destruct oV; cbn in Hk; try contradiction; discriminate) Ec) as HR.
        rewrite app_assoc, H2 in HR. rewrite (Efin sV Hs) in HR. exact HR.
    - (* SYield *)
      cbn in Hc. inversion Hc; subst. clear Hc. cbn [run_stmt] in Hr.
      destruct Hsm as (A & B & C0).
      destruct (yc s) as [[|j]|] eqn:Ey; inversion Hr; subst; clear Hr; cbn [claimG app].
      + exists [], VClosed, vs. split; [apply term_yield_closed; congruence|].
        split; [exact I|]. split; [repeat split; congruence|]. apply creln_refl. reflexivity.
      + assert (Ev : mkV (stack vs) (vds vs) (Some j) (vlast vs) = withst vs (mkSt (ds s) (Some j) (lastc s))).
        { unfold withst. cbn. rewrite A, C0. reflexivity. }
        rewrite <- Ev. apply step_yield_go. congruence.
      + rewrite (withst_sm s' vs ltac:(repeat split; congruence)). apply step_yield_none. congruence.
    - (* SRaise *)
      cbn in Hc, Hr. inversion Hc; subst. inversion Hr; subst. cbn [claimG app].
      exists [EvRaise (EUser e)], (VError (EUser e)), vs. split; [apply term_raise|].
      split; [exact I|]. split; [assumption|]. apply creln_refl. reflexivity. }
  repeat split; assumption.
Qed.


(* ---------------------------------------------------------------- compile_correct *)
(* THE compiler-correctness theorem of the close-stack slice, for the whole
   skeleton language without restriction: blocks, locals of all kinds,
   `local <close>`, while / repeat / generic for (closing value), break, goto and
   labels anywhere (labels declared per scope by getLabels, back labels by
   getBackLabels, restart at a label, the eager truncation of a jump to a back
   label against the reference semantics' lazy closing), if, calls, `return f()`
   with and without pending closes, nested pcall, coroutines closed while
   suspended, yield, raise, return.  For every program, decision stream and fuel
   on which the reference semantics terminates: if the program compiles, the
   close-stack VM run on the compiled code terminates with the same events and
   the same outcome. *)
Theorem compile_correct : forall b fuel d ev o c,
  run_ref fuel b d = Done (ev, o) -> compile b = Some c ->
  exists fuel', run_vm fuel' c d = Done (ev, vout_of o).
Proof.
  intros b fuel d ev o c Hr Hc.
  pose proof (run_ref_normal _ _ _ _ _ Hr) as ->. cbn [vout_of].
  unfold compile in Hc. destruct (compile_fun b) as [c'|] eqn:Ef; [|discriminate]. cbn in Hc. inversion Hc; subst c. clear Hc.
  unfold run_ref in Hr.
  destruct (run_stmt fuel (SPcall b) (mkSt d None false)) as [[[ev0 o0] s0]|] eqn:E; [|discriminate].
  inversion Hr; subst. clear Hr.
  destruct (sim_all fuel) as (PS & _).
  set (vs := mkV [] d None false).
  assert (Hcs : compile_stmt root_ctx 0 (SPcall b) = Some ([IPcall c'], 0)).
  { rewrite compile_pcall_eq, Ef. reflexivity. }
  pose proof (PS (SPcall b) root_ctx 0 [IPcall c'] 0 ([IPcall c'] ++ [IRet]) [] [IRet]
                (mkSt d None false) ev ONormal s0 vs 0 ltac:(discriminate) (ctx_lt_root 0) ctx_inj_root Hcs eq_refl
                ltac:(intros l []) hle_root E ltac:(repeat split) eq_refl) as C.
  unfold claim in C. cbn [claimG] in C.
  pose proof (term_ret ([IPcall c'] ++ [IRet]) 0 [] (withst vs s0) [] [] None eq_refl) as T.
  apply C in T. cbn [pre3] in T. rewrite app_nil_r in T.
  destruct T as [F0 HF]. exists F0. unfold run_vm. fold vs. rewrite (HF F0 (le_n _)). reflexivity.
Qed.

(* non-vacuity: a program with a back label (`goto continue` past a <close> local declared
   directly in the loop body), a label after a local, a backward goto, a repeat and a generic for
   — it compiles and the reference semantics terminates on it *)
Example compile_correct_example :
  let body := BCons (SLocal (VObj 2 (Some 7))) (BCons (SIf (BCons (SGoto 5) BNil)) (BCons (SMark 3) (BCons (SLabel 5) BNil))) in
  let b := BCons (SLabel 1)
            (BCons (SLocal (VObj 1 None))
              (BCons (SLabel 2)
                (BCons (SLoop LWhile body)
                  (BCons (SIf (BCons (SGoto 1) BNil))
                    (BCons (SLoop (LForIn (VObj 9 None)) (BCons (SLoop LRepeat (BCons SBreak BNil)) BNil)) BNil))))) in
  (exists r, run_ref 300 b [true; true; false; false] = Done r) /\ exists c, compile b = Some c.
Proof. split; [eexists; vm_compute; reflexivity|]. eexists. vm_compute. reflexivity. Qed.
