(* Close/Sim.v — compiler correctness for the close-stack slice on the
   goto-free fragment (Frag.fragB): run_vm (compile p) = run_ref p.

   Invariants of DESIGN Appendix D.4:
     H1  length (stack vs) = base + top_height cx       at every program point
     H2  the entries above a scope's height are the variables the reference
         semantics still has to close when control leaves that scope — used in the
         form "cleanup of the run-time stack = the reference semantics' lazy
         closing" (creln, creln_pop, exit_*_through / exit_*_raising).
   Every abrupt exit of the reference semantics (break, return, error, coroutine
   closed) is matched with a VIRTUAL exit of the VM started from the stack at
   the entry of the current construct: [cltrunc h; jump L], [ret], or — for
   errors — the completion by the enclosing protected call. *)
From Coq Require Import List Arith Bool Lia.
From GV Require Import Close.Skel Close.Compile Close.VMclose Close.VMLemmas Close.Frag.
Import ListNotations.

Definition sm (s : st) (vs : vst) : Prop := vds vs = ds s /\ vyc vs = yc s /\ vlast vs = lastc s.
Definition withst (vs : vst) (s : st) : vst := mkV (stack vs) (ds s) (yc s) (lastc s).

Lemma withst_sm : forall s vs, sm s vs -> withst vs s = vs.
Proof. intros s [k d y l] (H1 & H2 & H3). cbn in *. subst. reflexivity. Qed.
Lemma sm_withst : forall s vs, sm s (withst vs s).
Proof. intros. repeat split. Qed.
Lemma stack_withst : forall vs s, stack (withst vs s) = stack vs.
Proof. reflexivity. Qed.
Lemma withst_withst : forall vs s s', withst (withst vs s) s' = withst vs s'.
Proof. reflexivity. Qed.
Lemma withst_set_stack : forall vs stk s, withst (set_stack vs stk) s = set_stack (withst vs s) stk.
Proof. reflexivity. Qed.
Lemma set_stack_same : forall vs, set_stack vs (stack vs) = vs.
Proof. intros [k d y l]. reflexivity. Qed.

Definition verr (o : vout) : option err := match o with VError e => Some e | _ => None end.

Definition kind (o : outcome) (v : vout) : Prop :=
  match o, v with
  | OError _, VError _ => True
  | OClosed _, VClosed => True
  | _, _ => False
  end.

(* completion relation: what the enclosing protected call will still run *)
Definition creln (base : nat) (evV : list event) (oV : vout) (stkV : list tbcv)
                 (ev : list event) (o : outcome) (stk : list tbcv) : Prop :=
  let '(c1, r1, e1) := cleanup stkV base (verr oV) in
  let '(c2, r2, e2) := cleanup stk base (err_of o) in
  evV ++ c1 = ev ++ c2 /\ r1 = r2 /\ e1 = e2.

Lemma creln_refl : forall base ev oV o stk, verr oV = err_of o -> creln base ev oV stk ev o stk.
Proof. intros base ev oV o stk H. unfold creln. rewrite H. destruct (cleanup stk base (err_of o)) as [[c r] e]. auto. Qed.

Lemma creln_prepend : forall base p evV oV stkV ev o stk,
  creln base evV oV stkV ev o stk -> creln base (p ++ evV) oV stkV (p ++ ev) o stk.
Proof.
  intros base p evV oV stkV ev o stk. unfold creln.
  destruct (cleanup stkV base (verr oV)) as [[c1 r1] e1]. destruct (cleanup stk base (err_of o)) as [[c2 r2] e2].
  intros (H1 & H2 & H3). rewrite <- !app_assoc, H1. auto.
Qed.

Lemma creln_lower : forall B T evV oV stkV ev o stk, B <= T ->
  creln T evV oV stkV ev o stk -> creln B evV oV stkV ev o stk.
Proof.
  intros B T evV oV stkV ev o stk H. unfold creln.
  rewrite (cleanup_split stkV T B _ H), (cleanup_split stk T B _ H).
  destruct (cleanup stkV T (verr oV)) as [[c1 r1] e1]. destruct (cleanup stk T (err_of o)) as [[c2 r2] e2].
  intros (H1 & -> & ->). destruct (cleanup r2 B e2) as [[c3 r3] e3].
  rewrite !app_assoc, H1. auto.
Qed.

Lemma creln_pop : forall base evV oV stkV ev o v stk0, base <= length stk0 ->
  creln base evV oV stkV ev o (v :: stk0) ->
  creln base evV oV stkV (ev ++ fst (close_var v o)) (snd (close_var v o)) stk0.
Proof.
  intros base evV oV stkV ev o v stk0 H. unfold creln.
  rewrite (cleanup_cons v stk0 base (err_of o) ltac:(cbn; lia)). rewrite call_close_close_var.
  destruct (close_var v o) as [cev o']. cbn [fst snd].
  destruct (cleanup stkV base (verr oV)) as [[c1 r1] e1]. destruct (cleanup stk0 base (err_of o')) as [[c2 r2] e2].
  rewrite <- app_assoc. auto.
Qed.

Lemma creln_after_exit : forall base T E stk0 e0 ev2 stk2 x, base <= T ->
  cleanup stk0 T (Some e0) = (ev2, stk2, Some x) ->
  creln base (E ++ ev2) (VError x) stk2 E (OError e0) stk0.
Proof.
  intros base T E stk0 e0 ev2 stk2 x H Hc. unfold creln. cbn [verr err_of].
  rewrite (cleanup_split stk0 T base _ H), Hc.
  destruct (cleanup stk2 base (Some x)) as [[c r] e]. rewrite app_assoc. auto.
Qed.

Lemma kind_close_var : forall v o oV, kind o oV -> kind (snd (close_var v o)) oV.
Proof. intros [| |id [h|]|id] o oV H; cbn; try exact H. destruct o; cbn in *; try contradiction; exact H. Qed.

(* errclaimG / claimG: the run starts in state va; vb is the state whose
   stack is the stack at the entry of the construct the claim is about *)
Definition errclaimG (w : code) (base : nat) (a : code) (va : vst) (stkb : list tbcv)
                     (ev : list event) (o : outcome) (s' : st) : Prop :=
  exists evV oV sV, Term w base a va (evV, oV, sV) /\ kind o oV /\ sm s' sV /\
                    creln base evV oV (stack sV) ev o stkb.

Definition claimG (w : code) (base : nat) (cx : ctx) (fb : bool) (a : code) (va : vst) (post : code) (vb : vst)
                  (ev : list event) (o : outcome) (s' : st) : Prop :=
  match o with
  | ONormal => Reach w base a va (if fb then [IRet] else post) (withst vb s') ev
  | OReturn => Reach w base a va [IRet] (withst vb s') ev
  | OBreak => exists L h, jump_target cx NBreak = Some (L, h) /\ base + h <= length (stack vb) /\
                          Reach w base a va [IClTrunc h; IJump L] (withst vb s') ev
  | OGoto _ => False
  | _ => errclaimG w base a va (stack vb) ev o s'
  end.

Definition errclaim w base a vs ev o s' := errclaimG w base a vs (stack vs) ev o s'.
Definition claim w base cx fb a post vs ev o s' := claimG w base cx fb a vs post vs ev o s'.

Lemma errclaimG_prepend : forall w base a va a' va' stkb ev1 ev2 o s2,
  Reach w base a va a' va' ev1 ->
  errclaimG w base a' va' stkb ev2 o s2 -> errclaimG w base a va stkb (ev1 ++ ev2) o s2.
Proof.
  intros w base a va a' va' stkb ev1 ev2 o s2 HR (evV & oV & sV & HT & Hk & Hsm & Hc).
  exists (ev1 ++ evV), oV, sV. split; [apply (HR _ HT)|]. split; [assumption|]. split; [assumption|].
  apply creln_prepend. exact Hc.
Qed.

Lemma claimG_prepend : forall w base cx fb a va a' va' post vb ev1 ev2 o s2,
  Reach w base a va a' va' ev1 ->
  claimG w base cx fb a' va' post vb ev2 o s2 -> claimG w base cx fb a va post vb (ev1 ++ ev2) o s2.
Proof.
  intros w base cx fb a va a' va' post vb ev1 ev2 o s2 HR H.
  destruct o; cbn [claimG] in *; try (eapply Reach_trans; eassumption);
    try (eapply errclaimG_prepend; eassumption); try contradiction.
  destruct H as (L & h & H1 & H2 & H3). exists L, h.
  split; [assumption|]. split; [assumption|]. eapply Reach_trans; eassumption.
Qed.

(* the reference state only matters through its stack *)
Lemma claimG_vb : forall w base cx fb a va post vb vb' ev o s',
  stack vb = stack vb' -> claimG w base cx fb a va post vb ev o s' -> claimG w base cx fb a va post vb' ev o s'.
Proof.
  intros w base cx fb a va post vb vb' ev o s' Hs H.
  assert (Ew : withst vb s' = withst vb' s') by (unfold withst; rewrite Hs; reflexivity).
  destruct o; cbn [claimG] in *; rewrite <- ?Ew, <- ?Hs; exact H.
Qed.

(* change of context / post for the outcomes that do not depend on them *)
Lemma claimG_abrupt : forall w base cx cx' fb fb' a va post post' vb ev o s',
  jump_target cx NBreak = jump_target cx' NBreak ->
  o <> ONormal ->
  claimG w base cx fb a va post vb ev o s' -> claimG w base cx' fb' a va post' vb ev o s'.
Proof.
  intros w base cx cx' fb fb' a va post post' vb ev o s' Hj Hn H.
  destruct o; cbn [claimG] in *; try assumption; try contradiction.
  rewrite <- Hj. exact H.
Qed.

Lemma vnext_sm : forall s vs, sm s vs ->
  vnext vs = (fst (next_decision s), withst vs (snd (next_decision s))).
Proof.
  intros s [k d y l] (H1 & H2 & H3). cbn in *. subst. unfold vnext, next_decision, withst. cbn.
  destruct (ds s) eqn:E; cbn; rewrite ?E; reflexivity.
Qed.

Lemma exec_jump_any : forall F w l k base s, exec F w (IJump l :: k) base s = exec F w [IJump l] base s.
Proof. intros [|F]; reflexivity. Qed.

Lemma Reach_trunc_jump_any : forall w base h l k vs, Reach w base (IClTrunc h :: IJump l :: k) vs [IClTrunc h; IJump l] vs [].
Proof.
  intros w base h l k vs R [F HF]. rewrite pre3_nil. exists F. intros F' Hle. specialize (HF F' Hle).
  destruct F' as [|F']; [discriminate|]. cbn [exec] in *.
  destruct (cleanup (stack vs) (base + h) None) as [[ev stk] e]. destruct e; [exact HF|].
  rewrite exec_jump_any. exact HF.
Qed.

Lemma Reach_jump_virtual : forall w base h l k vs, length (stack vs) <= base + h ->
  Reach w base (IJump l :: k) vs [IClTrunc h; IJump l] vs [].
Proof.
  intros w base h l k vs Hl R [F HF]. rewrite pre3_nil. exists F. intros F' Hle.
  specialize (HF (S F') ltac:(lia)). cbn [exec] in HF. rewrite (cleanup_nothing _ _ _ Hl) in HF.
  rewrite set_stack_same in HF. rewrite exec_jump_any.
  destruct (exec F' w [IJump l] base vs) as [[[e o] s]|]; [|discriminate]. exact HF.
Qed.

Lemma Reach_of_Term_ret : forall w base a va ev vb, length (stack vb) <= base ->
  Term w base a va (ev, VReturn, vb) -> Reach w base a va [IRet] vb ev.
Proof.
  intros w base a va ev vb Hl HT R HR.
  pose proof (term_ret w base [] vb _ _ _ (cleanup_nothing _ _ None Hl)) as T. cbn in T. rewrite set_stack_same in T.
  rewrite (Term_det _ _ _ _ _ _ HR T). cbn. rewrite app_nil_r. exact HT.
Qed.

(* ---------------------------------------------------------------- the statements proved by induction on fuel *)
(* hide: keeps the equation describing the whole code out of reach of [subst] *)
Definition hide (P : Prop) : Prop := P.
Definition P_stmt (f : nat) : Prop :=
  forall t cx n c n' w pre post s ev o s' vs base,
    fragS t = true -> compile_stmt cx n t = Some (c, n') -> hide (w = pre ++ c ++ post) ->
    lab_lt pre n -> hle cx ->
    run_stmt f t s = Done (ev, o, s') -> sm s vs -> length (stack vs) = base + top_height cx ->
    claim w base cx false (c ++ post) post vs ev o s'.

Definition P_stats (f : nat) : Prop :=
  forall b cx n tl fb c n' w pre post s ev o s' vs base,
    fragB b = true -> compile_stats cx n tl fb [] b = Some (c, n') -> hide (w = pre ++ c ++ post) ->
    lab_lt pre n -> hle cx ->
    run_block f false b s = Done (ev, o, s') -> sm s vs -> length (stack vs) = base + top_height cx ->
    claim w base cx fb (c ++ post) post vs ev o s'.

Definition P_scope (f : nat) : Prop :=
  forall b cx n tl fb c n' w pre post s ev o s' vs base,
    fragB b = true -> compile_stats cx n tl fb [] b = Some (c, n') -> hide (w = pre ++ c ++ post) ->
    lab_lt pre n -> hle cx ->
    run_scope f false b b s = Done (ev, o, s') -> sm s vs -> length (stack vs) = base + top_height cx ->
    claim w base cx fb (c ++ post) post vs ev o s'.

(* the loop, entered just after its first label *)
Definition P_loop (f : nat) : Prop :=
  forall b cx n cb n' w pre post s ev o s' vs base,
    fragB b = true ->
    compile_stats (push_ctx (add_label (push_ctx cx) NBreak n)) (n + 2) (length (shapes b)) false [] b = Some (cb, n') ->
    hide (w = pre ++ ([ILabel (n + 1); IJumpIf n true false] ++ cb ++ [IJump (n + 1); ILabel n]) ++ post) ->
    lab_lt pre n -> hle cx ->
    run_loop f false b s = Done (ev, o, s') -> sm s vs -> length (stack vs) = base + top_height cx ->
    claim w base cx false (IJumpIf n true false :: cb ++ [IJump (n + 1); ILabel n] ++ post) post vs ev o s'.

(* what a whole function does, from the scope statement about its body *)
Definition fun_result (c' : code) (vs : vst) (ev : list event) (o : outcome) (s' : st) : Prop :=
  match o with
  | ONormal | OReturn => Term c' (length (stack vs)) c' vs (ev, VReturn, withst vs s')
  | OBreak | OGoto _ => False
  | _ => errclaim c' (length (stack vs)) c' vs ev o s'
  end.

Lemma fun_sim : forall f, P_scope f ->
  forall b c' s ev o s' vs, fragB b = true -> compile_fun b = Some c' ->
    run_scope f false b b s = Done (ev, o, s') -> sm s vs -> fun_result c' vs ev o s'.
Proof.
  intros f HP b c' s ev o s' vs F Hc Hr Hsm.
  rewrite (compile_fun_eq b F) in Hc.
  destruct (compile_stats root_ctx 0 (length (shapes b)) true [] b) as [[c0 n0]|] eqn:E; [|discriminate].
  cbn in Hc. inversion Hc; subst c0. clear Hc.
  assert (Hw : hide (c' = [] ++ c' ++ [])) by (unfold hide; rewrite app_nil_r; reflexivity).
  pose proof (HP b root_ctx 0 _ true c' n0 c' [] [] s ev o s' vs (length (stack vs)) F E Hw
                 ltac:(intros l []) hle_root Hr Hsm ltac:(cbn; lia)) as H.
  rewrite app_nil_r in H.
  assert (Hret : Reach c' (length (stack vs)) c' vs [IRet] (withst vs s') ev ->
                 Term c' (length (stack vs)) c' vs (ev, VReturn, withst vs s')).
  { intro HR.
    pose proof (term_ret c' (length (stack vs)) [] (withst vs s') _ _ _
                  (cleanup_nothing (stack (withst vs s')) (length (stack vs)) None ltac:(cbn; lia))) as T.
    cbn [app] in T. apply HR in T. cbn [pre3] in T. rewrite app_nil_r in T. rewrite set_stack_same in T. exact T. }
  unfold claim in H. destruct o; cbn [claimG fun_result] in *; try (apply Hret; exact H); try exact H.
  destruct H as (L & h & Hj & _). discriminate.
Qed.

Lemma fun_result_abort : forall c' vs ev o s' w base (a : code),
  (forall evV oV sV, Term c' (length (stack vs)) c' vs (evV, oV, sV) -> oV <> VReturn -> Term w base a vs (evV, oV, sV)) ->
  base <= length (stack vs) ->
  match o with OError _ | OClosed _ => True | _ => False end ->
  fun_result c' vs ev o s' -> errclaim w base a vs ev o s'.
Proof.
  intros c' vs ev o s' w base a HT Hb Ho H.
  destruct o; try contradiction; cbn [fun_result] in H;
    destruct H as (evV & oV & sV & HT' & Hk & Hsm & Hc);
    exists evV, oV, sV; (split; [apply HT; [exact HT'|destruct oV; try discriminate; contradiction]|]);
    (split; [assumption|]); (split; [assumption|]); eapply creln_lower; eassumption.
Qed.

(* ---------------------------------------------------------------- leaving the scope of a local *)
Section Local.
  Variables (w : code) (base : nat).

  (* a virtual exit X (ret, or cltrunc t; jump) with target T = base + t' *)
  Lemma through_ret : forall vin v stk0 ev_r s_r A vs0,
    stack vin = v :: stk0 -> base <= length stk0 ->
    Reach w base A vs0 [IRet] (withst vin s_r) ev_r ->
    forall o_r, err_of o_r = None -> (o_r = ONormal \/ o_r = OReturn \/ o_r = OBreak) ->
    let cev := fst (close_var v o_r) in let o' := snd (close_var v o_r) in
    (nonraising v = true /\ o' = o_r /\ Reach w base A vs0 [IRet] (set_stack (withst vin s_r) stk0) (ev_r ++ cev)) \/
    (exists evV oV sV, o' = raise_in o_r (match v with VObj _ (Some h) => EUser h | _ => EMissing end) /\
        Term w base A vs0 (evV, oV, sV) /\ kind o' oV /\ sm s_r sV /\
        creln base evV oV (stack sV) (ev_r ++ cev) o' stk0).
  Proof.
    intros vin v stk0 ev_r s_r A vs0 Hs Hb HR o_r He Ho.
    destruct (nonraising v) eqn:Hn.
    - left. split; [reflexivity|]. split; [apply close_var_nonraising; assumption|].
      eapply Reach_trans; [exact HR|].
      pose proof (exit_ret_through w base [] (withst vin s_r) v stk0 Hs Hb Hn) as H.
      pose proof (call_close_close_var v o_r) as Hcc. rewrite He in Hcc. rewrite Hcc in H. exact H.
    - right. destruct v as [| |id [h|]|id]; try discriminate.
      destruct (exit_ret_raising w base [] (withst vin s_r) id h stk0 Hs Hb) as (ev2 & stk2 & x & Hc & HT).
      exists (ev_r ++ ([EvClose id None; EvRaise (EUser h)] ++ ev2)), (VError x), (set_stack (withst vin s_r) stk2).
      split; [reflexivity|]. split; [apply (HR _ HT)|].
      assert (Hcv : close_var (VObj id (Some h)) o_r = ([EvClose id None; EvRaise (EUser h)], OError (EUser h))).
      { cbn. rewrite He. destruct Ho as [->|[->| ->]]; reflexivity. }
      rewrite Hcv. cbn [fst snd]. split; [exact I|]. split; [repeat split|].
      cbn [stack set_stack]. rewrite app_assoc. eapply creln_after_exit; [|exact Hc]. lia.
  Qed.

  Lemma through_trunc : forall vin v stk0 ev_r s_r A vs0 t k,
    stack vin = v :: stk0 -> base + t <= length stk0 ->
    Reach w base A vs0 (IClTrunc t :: k) (withst vin s_r) ev_r ->
    forall o_r, err_of o_r = None -> (o_r = ONormal \/ o_r = OReturn \/ o_r = OBreak) ->
    let cev := fst (close_var v o_r) in let o' := snd (close_var v o_r) in
    (nonraising v = true /\ o' = o_r /\ Reach w base A vs0 (IClTrunc t :: k) (set_stack (withst vin s_r) stk0) (ev_r ++ cev)) \/
    (exists evV oV sV, o' = raise_in o_r (match v with VObj _ (Some h) => EUser h | _ => EMissing end) /\
        Term w base A vs0 (evV, oV, sV) /\ kind o' oV /\ sm s_r sV /\
        creln base evV oV (stack sV) (ev_r ++ cev) o' stk0).
  Proof.
    intros vin v stk0 ev_r s_r A vs0 t k Hs Hb HR o_r He Ho.
    destruct (nonraising v) eqn:Hn.
    - left. split; [reflexivity|]. split; [apply close_var_nonraising; assumption|].
      eapply Reach_trans; [exact HR|].
      pose proof (exit_trunc_through w base t k (withst vin s_r) v stk0 Hs Hb Hn) as H.
      pose proof (call_close_close_var v o_r) as Hcc. rewrite He in Hcc. rewrite Hcc in H. exact H.
    - right. destruct v as [| |id [h|]|id]; try discriminate.
      destruct (exit_trunc_raising w base t k (withst vin s_r) id h stk0 Hs Hb) as (ev2 & stk2 & x & Hc & HT).
      exists (ev_r ++ ([EvClose id None; EvRaise (EUser h)] ++ ev2)), (VError x), (set_stack (withst vin s_r) stk2).
      split; [reflexivity|]. split; [apply (HR _ HT)|].
      assert (Hcv : close_var (VObj id (Some h)) o_r = ([EvClose id None; EvRaise (EUser h)], OError (EUser h))).
      { cbn. rewrite He. destruct Ho as [->|[->| ->]]; reflexivity. }
      rewrite Hcv. cbn [fst snd]. split; [exact I|]. split; [repeat split|].
      cbn [stack set_stack]. rewrite app_assoc. eapply creln_after_exit; [|exact Hc]. lia.
  Qed.
End Local.

(* ---------------------------------------------------------------- local statements *)
Definition vs_in (vs : vst) (v : tbcv) : vst :=
  match v with VPlain => vs | _ => set_stack vs (v :: stack vs) end.

Lemma local_prefix : forall w base v A vs, (forall id, v <> VBad id) ->
  Reach w base (local_code v ++ A) vs A (vs_in vs v) (open_var v).
Proof.
  intros w base v A vs Hv. destruct v as [| |id h|id]; cbn [local_code open_code open_var app vs_in].
  - apply Reach_refl.
  - apply step_push. discriminate.
  - change [EvOpen id] with ([EvOpen id] ++ []). eapply Reach_trans; [apply step_open|apply step_push; discriminate].
  - exfalso. eapply Hv. reflexivity.
Qed.

Lemma errkind_close_var : forall v o,
  match o with OError _ | OClosed _ => True | _ => False end ->
  match snd (close_var v o) with OError _ | OClosed _ => True | _ => False end.
Proof. intros [| |id [h|]|id] o H; cbn; try exact H. destruct o; cbn in *; try contradiction; exact I. Qed.

Lemma claimG_err_intro : forall w base cx fb a va post vb ev o s',
  match o with OError _ | OClosed _ => True | _ => False end ->
  errclaimG w base a va (stack vb) ev o s' -> claimG w base cx fb a va post vb ev o s'.
Proof. intros w base cx fb a va post vb ev o s' Ho H. destruct o; try contradiction; exact H. Qed.

Lemma leave_pushed : forall w base cx cx3 fb v A post vs vin ev_r o_r s_r,
  vin = set_stack vs (v :: stack vs) -> hle cx -> length (stack vs) = base + top_height cx ->
  jump_target cx3 NBreak = jump_target cx NBreak ->
  claimG w base cx3 fb A vin (IClTrunc (top_height cx) :: post) vin ev_r o_r s_r ->
  claimG w base cx fb A vin post vs (ev_r ++ fst (close_var v o_r)) (snd (close_var v o_r)) s_r.
Proof.
  intros w base cx cx3 fb v A post vs vin ev_r o_r s_r Hvin Hh H1 Hj C.
  assert (Hs : stack vin = v :: stack vs) by (subst vin; reflexivity).
  assert (Hst : forall s, set_stack (withst vin s) (stack vs) = withst vs s) by (intro; subst vin; reflexivity).
  assert (Hb0 : base <= length (stack vs)) by lia.
  (* the three non-error exits *)
  assert (RET : forall o_r, err_of o_r = None -> (o_r = ONormal \/ o_r = OReturn \/ o_r = OBreak) ->
            Reach w base A vin [IRet] (withst vin s_r) ev_r ->
            (snd (close_var v o_r) = o_r /\ Reach w base A vin [IRet] (withst vs s_r) (ev_r ++ fst (close_var v o_r))) \/
            (exists e, snd (close_var v o_r) = OError e /\
               errclaimG w base A vin (stack vs) (ev_r ++ fst (close_var v o_r)) (OError e) s_r)).
  { intros o He Ho HR.
    destruct (through_ret w base vin v (stack vs) ev_r s_r A vin Hs Hb0 HR o He Ho)
      as [(Hn & Ho' & HR') | (evV & oV & sV & Ho' & HT & Hk & Hsm & Hc)].
    - left. split; [exact Ho'|]. rewrite Hst in HR'. exact HR'.
    - right. assert (Ek : exists e, snd (close_var v o) = OError e).
      { rewrite Ho'. destruct Ho as [->|[->| ->]]; cbn; eauto. }
      destruct Ek as [e Ee]. exists e. split; [exact Ee|]. rewrite Ee in *.
      exists evV, oV, sV. auto. }
  assert (TRUNC : forall o_r t k, err_of o_r = None -> (o_r = ONormal \/ o_r = OReturn \/ o_r = OBreak) ->
            base + t <= length (stack vs) ->
            Reach w base A vin (IClTrunc t :: k) (withst vin s_r) ev_r ->
            (snd (close_var v o_r) = o_r /\ Reach w base A vin (IClTrunc t :: k) (withst vs s_r) (ev_r ++ fst (close_var v o_r))) \/
            (exists e, snd (close_var v o_r) = OError e /\
               errclaimG w base A vin (stack vs) (ev_r ++ fst (close_var v o_r)) (OError e) s_r)).
  { intros o t k He Ho Ht HR.
    destruct (through_trunc w base vin v (stack vs) ev_r s_r A vin t k Hs Ht HR o He Ho)
      as [(Hn & Ho' & HR') | (evV & oV & sV & Ho' & HT & Hk & Hsm & Hc)].
    - left. split; [exact Ho'|]. rewrite Hst in HR'. exact HR'.
    - right. assert (Ek : exists e, snd (close_var v o) = OError e).
      { rewrite Ho'. destruct Ho as [->|[->| ->]]; cbn; eauto. }
      destruct Ek as [e Ee]. exists e. split; [exact Ee|]. rewrite Ee in *.
      exists evV, oV, sV. auto. }
  destruct o_r; cbn [claimG] in C.
  - (* normal *)
    destruct fb.
    + destruct (RET ONormal eq_refl (or_introl eq_refl) C) as [[E HR]|(e & E & HE)]; rewrite E; cbn [claimG]; assumption.
    + destruct (TRUNC ONormal (top_height cx) post eq_refl (or_introl eq_refl) ltac:(lia) C) as [[E HR]|(e & E & HE)];
        rewrite E; cbn [claimG]; [|assumption].
      rewrite <- (app_nil_r (ev_r ++ _)). eapply Reach_trans; [exact HR|].
      assert (Hl0 : length (stack (withst vs s_r)) <= base + top_height cx) by (rewrite stack_withst; lia).
      pose proof (step_trunc_ok w base (top_height cx) post (withst vs s_r) [] (stack vs)
                    (cleanup_nothing _ _ None Hl0)) as T.
      exact T.
  - (* break *)
    destruct C as (L & h & Hjt & Hb & HR). rewrite Hj in Hjt.
    pose proof (jump_target_le _ _ _ _ Hh Hjt) as Hle.
    destruct (TRUNC OBreak h [IJump L] eq_refl (or_intror (or_intror eq_refl)) ltac:(lia) HR) as [[E HR']|(e & E & HE)];
      rewrite E; cbn [claimG]; [|assumption].
    exists L, h. split; [assumption|]. split; [lia|assumption].
  - contradiction.
  - (* return *)
    destruct (RET OReturn eq_refl (or_intror (or_introl eq_refl)) C) as [[E HR]|(e & E & HE)]; rewrite E; cbn [claimG]; assumption.
  - (* error *)
    apply claimG_err_intro; [apply errkind_close_var; exact I|].
    destruct C as (evV & oV & sV & HT & Hk & Hsm & Hc). exists evV, oV, sV.
    split; [assumption|]. split; [apply kind_close_var; assumption|]. split; [assumption|].
    apply creln_pop; [assumption|]. rewrite <- Hs. exact Hc.
  - (* closed *)
    apply claimG_err_intro; [apply errkind_close_var; exact I|].
    destruct C as (evV & oV & sV & HT & Hk & Hsm & Hc). exists evV, oV, sV.
    split; [assumption|]. split; [apply kind_close_var; assumption|]. split; [assumption|].
    apply creln_pop; [assumption|]. rewrite <- Hs. exact Hc.
Qed.

Lemma leave_local : forall w base cx fb v A post vs ev_r o_r s_r,
  (forall id, v <> VBad id) -> hle cx -> length (stack vs) = base + top_height cx ->
  claim w base (local_ctx (push_ctx cx) v) fb A (pop_code (local_ctx (push_ctx cx) v) ++ post) (vs_in vs v) ev_r o_r s_r ->
  claimG w base cx fb A (vs_in vs v) post vs (ev_r ++ fst (close_var v o_r)) (snd (close_var v o_r)) s_r.
Proof.
  intros w base cx fb v A post vs ev_r o_r s_r Hv Hh H1 C. unfold claim in C.
  rewrite pop_code_local in C.
  destruct v as [| |id hh|id].
  - (* plain *) cbn [vs_in close_var fst snd app] in *. rewrite app_nil_r.
    destruct o_r; cbn [claimG] in *; exact C.
  - eapply leave_pushed; [reflexivity|assumption|assumption|apply jump_target_local|exact C].
  - eapply leave_pushed; [reflexivity|assumption|assumption|apply jump_target_local|exact C].
  - exfalso. eapply Hv. reflexivity.
Qed.

(* ---------------------------------------------------------------- blocks *)
Lemma stats_seq : forall f, P_stmt f -> P_stats f ->
  forall t rest cx n tl fb c n' w pre post s ev o s' vs base,
    (forall v, t <> SLocal v) -> fragS t = true -> fragB rest = true ->
    compile_stats cx n tl fb [] (BCons t rest) = Some (c, n') -> hide (w = pre ++ c ++ post) ->
    lab_lt pre n -> hle cx ->
    run_block (S f) false (BCons t rest) s = Done (ev, o, s') -> sm s vs ->
    length (stack vs) = base + top_height cx ->
    claim w base cx fb (c ++ post) post vs ev o s'.
Proof.
  intros f IHstmt IHstats t rest cx n tl fb c n' w pre post s ev o s' vs base Hnl Ft Fr Hc Hw Hl Hh Hr Hsm H1.
  assert (Ec : compile_stats cx n tl fb [] (BCons t rest) =
               obind (compile_stmt cx n t) (fun '(c1, n1) =>
                 obind (compile_stats cx n1 (pred tl) fb [] rest) (fun '(c2, n2) => Some (c1 ++ c2, n2)))).
  { destruct t; try reflexivity. exfalso; eapply Hnl; reflexivity. }
  assert (Er : run_block (S f) false (BCons t rest) s =
               bind (run_stmt f t s) (fun ev o s' =>
                 match o with ONormal => prepend ev (run_block f false rest s') | _ => Done (ev, o, s') end)).
  { destruct t; try reflexivity. exfalso; eapply Hnl; reflexivity. }
  rewrite Ec in Hc. rewrite Er in Hr. clear Ec Er.
  destruct (compile_stmt cx n t) as [[c1 n1]|] eqn:E1; [|discriminate]. cbn [obind] in Hc.
  destruct (compile_stats cx n1 (pred tl) fb [] rest) as [[c2 n2]|] eqn:E2; [|discriminate].
  cbn [obind] in Hc. inversion Hc; subst c n'. clear Hc.
  destruct (run_stmt f t s) as [[[ev1 o1] s1]|] eqn:R1; [|discriminate]. cbn [bind] in Hr.
  assert (Hw1 : hide (w = pre ++ c1 ++ (c2 ++ post))) by (unfold hide in *; rewrite Hw, <- !app_assoc; reflexivity).
  pose proof (IHstmt t cx n c1 n1 w pre (c2 ++ post) s ev1 o1 s1 vs base Ft E1 Hw1 Hl Hh R1 Hsm H1) as C1.
  rewrite <- app_assoc. unfold claim in *.
  destruct o1; try (inversion Hr; subst; eapply claimG_abrupt; [reflexivity|discriminate|exact C1]).
  destruct (run_block f false rest s1) as [[[ev2 o2] s2]|] eqn:R2; [|discriminate].
  cbn [prepend] in Hr. inversion Hr; subst. clear Hr.
  destruct (proj1 compile_rng t Ft _ _ _ _ E1) as (Hn1 & _ & Hlt1).
  assert (Hw2 : hide (w = (pre ++ c1) ++ c2 ++ post)) by (unfold hide in *; rewrite Hw1, <- app_assoc; reflexivity).
  pose proof (IHstats rest cx n1 (pred tl) fb c2 n2 w (pre ++ c1) post s1 ev2 o s' (withst vs s1) base Fr E2 Hw2
                (lab_lt_app _ _ _ (lab_lt_mono _ _ _ Hl Hn1) Hlt1) Hh R2 (sm_withst _ _) H1) as C2.
  cbn [claimG] in C1. eapply claimG_prepend; [exact C1|].
  eapply claimG_vb; [|exact C2]. reflexivity.
Qed.

Lemma stats_local : forall f, P_scope f ->
  forall v rest cx n tl fb c n' w pre post s ev o s' vs base,
    fragB rest = true ->
    compile_stats cx n tl fb [] (BCons (SLocal v) rest) = Some (c, n') -> hide (w = pre ++ c ++ post) ->
    lab_lt pre n -> hle cx ->
    run_block (S f) false (BCons (SLocal v) rest) s = Done (ev, o, s') -> sm s vs ->
    length (stack vs) = base + top_height cx ->
    claim w base cx fb (c ++ post) post vs ev o s'.
Proof.
  intros f IHscope v rest cx n tl fb c n' w pre post s ev o s' vs base Fr Hc Hw Hl Hh Hr Hsm H1.
  rewrite (compile_local_eq _ _ _ _ _ _ _ Fr) in Hc.
  destruct (compile_stats (local_ctx (push_ctx cx) v) n (pred tl) fb [] rest) as [[cr nr]|] eqn:E; [|discriminate].
  cbn [obind] in Hc. inversion Hc; subst c n'. clear Hc.
  destruct (match v with VBad id => true | _ => false end) eqn:Hbad.
  - (* not closable *)
    destruct v as [| |id h|id]; try discriminate. cbn in Hr. inversion Hr; subst. clear Hr.
    unfold claim. cbn [claimG]. exists [EvRaise EMissing], (VError EMissing), vs.
    split.
    { cbn [local_code open_code app].
      pose proof (step_bad w base (IClPush (VBad id) :: (cr ++ pop_code (local_ctx (push_ctx cx) (VBad id))) ++ post) vs) as HB.
      pose proof (HB _ (term_push_bad w base id _ vs)) as HT. cbn [pre3 app] in HT. exact HT. }
    split; [exact I|]. split; [assumption|]. apply creln_refl. reflexivity.
  - assert (Hv : forall id, v <> VBad id) by (intros id ->; discriminate).
    assert (Er : run_block (S f) false (BCons (SLocal v) rest) s =
                 bind (run_scope f false rest rest s) (fun ev o s' =>
                   let (cev, o') := close_var v o in Done (open_var v ++ ev ++ cev, o', s'))).
    { destruct v; try reflexivity. discriminate. }
    rewrite Er in Hr. clear Er.
    destruct (run_scope f false rest rest s) as [[[ev_r o_r] s_r]|] eqn:Rr; [|discriminate]. cbn [bind] in Hr.
    set (cx3 := local_ctx (push_ctx cx) v) in *.
    assert (Hw' : hide (w = (pre ++ local_code v) ++ cr ++ (pop_code cx3 ++ post))).
    { unfold hide in *. rewrite Hw. cbn [app]. rewrite <- ?app_assoc. cbn [app]. rewrite <- ?app_assoc. reflexivity. }
    assert (Hl' : lab_lt (pre ++ local_code v) n).
    { apply lab_lt_app; [assumption|]. intros l Hin. exfalso. eapply local_code_nolab. exact Hin. }
    assert (Hsm' : sm s (vs_in vs v)) by (destruct v; exact Hsm).
    assert (H1' : length (stack (vs_in vs v)) = base + top_height cx3).
    { unfold cx3. rewrite top_height_local. destruct v; cbn [vs_in stack set_stack length]; lia. }
    pose proof (IHscope rest cx3 n (pred tl) fb cr nr w (pre ++ local_code v) (pop_code cx3 ++ post)
                  s ev_r o_r s_r (vs_in vs v) base Fr E Hw' Hl' (hle_local cx v Hh) Rr Hsm' H1') as C.
    pose proof (leave_local w base cx fb v (cr ++ pop_code cx3 ++ post) post vs ev_r o_r s_r Hv Hh H1 C) as D.
    destruct (close_var v o_r) as [cev o'] eqn:Ecv. cbn [fst snd] in D. injection Hr as <- <- <-.
    unfold claim. rewrite <- !app_assoc.
    eapply claimG_prepend; [apply local_prefix; exact Hv|exact D].
Qed.

Lemma sm_next : forall s vs, sm s vs -> sm (snd (next_decision s)) (withst vs (snd (next_decision s))).
Proof. intros. apply sm_withst. Qed.

(* ---------------------------------------------------------------- the induction *)
Theorem sim_all : forall f, P_stmt f /\ P_stats f /\ P_scope f /\ P_loop f.
Proof.
  induction f as [|f (IHstmt & IHstats & IHscope & IHloop)].
  { repeat split; red; intros;
      match goal with H : _ = Done _ |- _ => cbn in H; discriminate H end. }
  pose proof (fun_sim f IHscope) as Hfun.
  assert (PSCOPE : P_scope (S f)).
  { intros b cx n tl fb c n' w pre post s ev o s' vs base F Hc Hw Hl Hh Hr Hsm H1.
    cbn [run_scope] in Hr.
    destruct (run_block f false b s) as [[[ev0 o0] s0]|] eqn:E; [|discriminate]. cbn [bind] in Hr.
    pose proof (IHstats b cx n tl fb c n' w pre post s ev0 o0 s0 vs base F Hc Hw Hl Hh E Hsm H1) as Hcl.
    destruct o0; try (inversion Hr; subst; exact Hcl). contradiction. }
  assert (PSTATS : P_stats (S f)).
  { intros b cx n tl fb c n' w pre post s ev o s' vs base F Hc Hw Hl Hh Hr Hsm H1.
    destruct b as [|r|t rest].
    - cbn in Hr. inversion Hr; subst. cbn [compile_stats] in Hc. inversion Hc; subst.
      unfold claim. cbn [claimG]. rewrite (withst_sm _ _ Hsm).
      destruct fb; cbn [app]; [apply Reach_ret_any|apply Reach_refl].
    - destruct r as [|body].
      + cbn in Hr. inversion Hr; subst. cbn [compile_stats] in Hc. inversion Hc; subst.
        unfold claim. cbn [claimG app]. rewrite (withst_sm _ _ Hsm). apply Reach_ret_any.
      + cbn [fragB fragR] in F. rewrite compile_retcall_eq in Hc.
        destruct (compile_fun body) as [c'|] eqn:Ef; [|discriminate]. cbn [obind] in Hc.
        cbn [run_block] in Hr.
        destruct (run_scope f false body body s) as [[[ev0 o0] s0]|] eqn:E; [|discriminate]. cbn [bind] in Hr.
        pose proof (Hfun body c' s ev0 o0 s0 vs F Ef E Hsm) as Hres.
        unfold claim.
        destruct (Nat.eqb_spec (top_height cx) 0) as [Hz|Hz]; inversion Hc; subst c n'; clear Hc.
        * (* tail call *)
          assert (Hlen : length (stack vs) = base) by lia.
          assert (TT : forall R, Term c' (length (stack vs)) c' vs R -> Term w base ([ITailCall c'] ++ post) vs R).
          { intros R HT. apply term_tailcall; [lia|exact HT]. }
          destruct o0; cbn [fun_outcome] in Hr; injection Hr as <- <- <-; cbn [fun_result claimG] in *; try contradiction.
          -- apply Reach_of_Term_ret; [rewrite stack_withst; lia|]. apply TT. exact Hres.
          -- apply Reach_of_Term_ret; [rewrite stack_withst; lia|]. apply TT. exact Hres.
          -- destruct Hres as (evV & oV & sV & HT & Hk & Hs & Hcr). exists evV, oV, sV.
             split; [apply TT; exact HT|]. rewrite Hlen in Hcr. auto.
          -- destruct Hres as (evV & oV & sV & HT & Hk & Hs & Hcr). exists evV, oV, sV.
             split; [apply TT; exact HT|]. rewrite Hlen in Hcr. auto.
        * (* call, then return *)
          destruct o0; cbn [fun_outcome] in Hr; injection Hr as <- <- <-; cbn [fun_result claimG] in *; try contradiction.
          -- rewrite <- (app_nil_r ev0). eapply Reach_trans; [apply step_call_ret; exact Hres|apply Reach_ret_any].
          -- rewrite <- (app_nil_r ev0). eapply Reach_trans; [apply step_call_ret; exact Hres|apply Reach_ret_any].
          -- eapply (fun_result_abort c' vs _ _ _ w base); cycle 3.
             { exact Hres. }
             { intros evV oV sV HT Ho. apply term_call_abort; assumption. }
             { lia. }
             { exact I. }
          -- eapply (fun_result_abort c' vs _ _ _ w base); cycle 3.
             { exact Hres. }
             { intros evV oV sV HT Ho. apply term_call_abort; assumption. }
             { lia. }
             { exact I. }
    - cbn [fragB] in F. apply andb_true_iff in F as [Ft Fr].
      destruct t;
        try (eapply (stats_seq f IHstmt IHstats); try eassumption; intros v0 Hv0; discriminate Hv0).
      eapply (stats_local f IHscope); eassumption. }
  assert (PLOOP : P_loop (S f)).
  { intros b cx n cb n' w pre post s ev o s' vs base F Hc Hw Hl Hh Hr Hsm H1.
    cbn [run_loop] in Hr.
    destruct (next_decision s) as [d s1] eqn:Ed.
    pose proof (vnext_sm s vs Hsm) as Hvn. rewrite Ed in Hvn. cbn [fst snd] in Hvn.
    destruct (proj1 (proj2 compile_rng) b F _ _ _ _ _ _ Hc) as (Hn & Hge & Hlt).
    set (cx2 := add_label (push_ctx cx) NBreak n) in *.
    (* where the two labels are *)
    assert (AL1 : after_label (n + 1) w = Some (IJumpIf n true false :: cb ++ [IJump (n + 1); ILabel n] ++ post)).
    { pose proof Hw as Hw0. unfold hide in Hw0. rewrite Hw0. rewrite after_label_skip; [|intro Hin; specialize (Hl _ Hin); lia].
      cbn [app]. rewrite after_label_here. rewrite <- app_assoc. reflexivity. }
    assert (AL0 : after_label n w = Some post).
    { pose proof Hw as Hw0. unfold hide in Hw0. rewrite Hw0. rewrite after_label_skip; [|intro Hin; specialize (Hl _ Hin); lia].
      cbn [app after_label]. destruct (Nat.eqb_spec n (n + 1)); [lia|].
      rewrite <- app_assoc. rewrite after_label_skip; [|intro Hin; specialize (Hge _ Hin); lia].
      cbn [app after_label]. rewrite Nat.eqb_refl. reflexivity. }
    unfold claim.
    destruct d.
    - (* one more iteration *)
      destruct (run_scope f false b b s1) as [[[ev_b o_b] s_b]|] eqn:Rb; [|discriminate]. cbn [bind] in Hr.
      assert (Hw' : hide (w = (pre ++ [ILabel (n + 1); IJumpIf n true false]) ++ cb ++ ([IJump (n + 1); ILabel n] ++ post))).
      { unfold hide in *. rewrite Hw. cbn [app]. rewrite <- ?app_assoc. cbn [app]. rewrite <- ?app_assoc. reflexivity. }
      assert (Hl' : lab_lt (pre ++ [ILabel (n + 1); IJumpIf n true false]) (n + 2)).
      { apply lab_lt_app; [eapply lab_lt_mono; [exact Hl|lia]|].
        intros l [Hin|[Hin|[]]]; [inversion Hin; lia|discriminate]. }
      pose proof (IHscope b (push_ctx cx2) (n + 2) _ false cb n' w _ ([IJump (n + 1); ILabel n] ++ post)
                    s1 ev_b o_b s_b (withst vs s1) base F Hc Hw' Hl'
                    (hle_push _ (hle_add_label _ _ _ (hle_push _ Hh))) Rb (sm_withst _ _) H1) as C.
      unfold claim in C.
      assert (STEP : Reach w base (IJumpIf n true false :: cb ++ [IJump (n + 1); ILabel n] ++ post) vs
                       (cb ++ [IJump (n + 1); ILabel n] ++ post) (withst vs s1) []).
      { eapply step_jumpif_not; [exact Hvn|reflexivity]. }
      change ev with ([] ++ ev). eapply claimG_prepend; [exact STEP|].
      eapply claimG_vb; [apply (stack_withst vs s1)|].
      destruct o_b; cbn [claimG] in C.
      + (* body completed: jump back *)
        destruct (run_loop f false b s_b) as [[[ev2 o2] s2]|] eqn:R2; [|discriminate].
        cbn [prepend] in Hr. inversion Hr; subst. clear Hr.
        pose proof (IHloop b cx n cb n' w pre post s_b ev2 o s' (withst vs s_b) base F Hc Hw Hl Hh R2 (sm_withst _ _) H1) as C2.
        unfold claim in C2.
        eapply claimG_prepend; [exact C|].
        change ev2 with ([] ++ ev2). eapply claimG_prepend; [eapply step_jump; exact AL1|].
        eapply claimG_vb; [|exact C2]. reflexivity.
      + (* break *)
        inversion Hr; subst. clear Hr. cbn [claimG].
        destruct C as (L & h & Hj & Hb & HR). cbn in Hj. inversion Hj; subst L h. clear Hj.
        rewrite <- (app_nil_r ev). eapply Reach_trans; [exact HR|].
        change (@nil event) with (@nil event ++ []).
        eapply Reach_trans.
        * assert (Hl0 : length (stack (withst vs s')) <= base + top_height cx) by (rewrite stack_withst; lia).
          exact (step_trunc_ok w base (top_height cx) [IJump n] (withst vs s') [] (stack vs) (cleanup_nothing _ _ None Hl0)).
        * eapply step_jump. exact AL0.
      + contradiction.
      + inversion Hr; subst. cbn [claimG]. exact C.
      + inversion Hr; subst. cbn [claimG]. exact C.
      + inversion Hr; subst. cbn [claimG]. exact C.
    - (* the loop ends *)
      inversion Hr; subst. clear Hr. cbn [claimG].
      eapply step_jumpif_taken; [exact Hvn|reflexivity|exact AL0]. }
  assert (PSTMT : P_stmt (S f)).
  { intros t cx n c n' w pre post s ev o s' vs base F Hc Hw Hl Hh Hr Hsm H1.
    unfold claim.
    destruct t; try discriminate F.
    - (* SLocal *) discriminate Hc.
    - (* SDo *)
      cbn [fragS] in F. rewrite (compile_do_eq _ _ _ F) in Hc.
      destruct (compile_stats (push_ctx cx) n (length (shapes b)) false [] b) as [[cb nb]|] eqn:E; [|discriminate].
      cbn [obind] in Hc. rewrite pop_code_push, app_nil_r in Hc. inversion Hc; subst. clear Hc.
      cbn [run_stmt] in Hr.
      pose proof (IHscope b (push_ctx cx) n _ false c n' w pre post s ev o s' vs base F E Hw Hl (hle_push _ Hh) Hr Hsm H1) as C.
      unfold claim in C. destruct o; cbn [claimG] in *; exact C.
    - (* SLoop *)
      destruct k; try discriminate F. cbn [fragS] in F.
      rewrite (compile_while_eq _ _ _ F) in Hc. cbv zeta in Hc.
      destruct (compile_stats _ (n + 2) (length (shapes b)) false [] b) as [[cb nb]|] eqn:E; [|discriminate].
      cbn [obind] in Hc. rewrite pop_code_push, app_nil_r in Hc.
      assert (Hp : pop_code (add_label (push_ctx cx) NBreak n) = []).
      { cbn. unfold emit_truncate. rewrite Nat.ltb_irrefl. reflexivity. }
      rewrite Hp, app_nil_r in Hc. inversion Hc; subst c n'. clear Hc.
      cbn [run_stmt] in Hr.
      pose proof (IHloop b cx n cb nb w pre post s ev o s' vs base F E Hw Hl Hh Hr Hsm H1) as C.
      unfold claim in C. change ev with ([] ++ ev).
      eapply claimG_prepend; [|exact C]. cbn [app]. rewrite <- ?app_assoc. cbn [app]. apply step_label.
    - (* SIf *)
      cbn [fragS] in F. rewrite (compile_if_eq _ _ _ F) in Hc.
      destruct (compile_stats (push_ctx cx) (n + 2) (length (shapes b)) false [] b) as [[cb nb]|] eqn:E; [|discriminate].
      cbn [obind] in Hc. rewrite pop_code_push, app_nil_r in Hc. inversion Hc; subst c n'. clear Hc.
      cbn [run_stmt] in Hr.
      destruct (next_decision s) as [d s1] eqn:Ed.
      pose proof (vnext_sm s vs Hsm) as Hvn. rewrite Ed in Hvn. cbn [fst snd] in Hvn.
      destruct (proj1 (proj2 compile_rng) b F _ _ _ _ _ _ E) as (Hn & Hge & Hlt).
      assert (AL1 : after_label (n + 1) w = Some ([ILabel n] ++ post)).
      { pose proof Hw as Hw0. unfold hide in Hw0. rewrite Hw0. rewrite after_label_skip; [|intro Hin; specialize (Hl _ Hin); lia].
        cbn [app after_label]. rewrite <- app_assoc.
        rewrite after_label_skip; [|intro Hin; specialize (Hge _ Hin); lia].
        cbn [app after_label]. rewrite Nat.eqb_refl. reflexivity. }
      cbn [app]. rewrite <- app_assoc. cbn [app].
      destruct d.
      + assert (Hw' : hide (w = (pre ++ [IJumpIf (n + 1) true false]) ++ cb ++ ([ILabel (n + 1); ILabel n] ++ post))).
        { unfold hide in *. rewrite Hw. cbn [app]. rewrite <- ?app_assoc. cbn [app]. rewrite <- ?app_assoc. reflexivity. }
        assert (Hl' : lab_lt (pre ++ [IJumpIf (n + 1) true false]) (n + 2)).
        { apply lab_lt_app; [eapply lab_lt_mono; [exact Hl|lia]|]. intros l [Hin|[]]. discriminate. }
        pose proof (IHscope b (push_ctx cx) (n + 2) _ false cb nb w _ ([ILabel (n + 1); ILabel n] ++ post)
                      s1 ev o s' (withst vs s1) base F E Hw' Hl' (hle_push _ Hh) Hr (sm_withst _ _) H1) as C.
        unfold claim in C.
        change ev with ([] ++ ev). eapply claimG_prepend; [eapply step_jumpif_not; [exact Hvn|reflexivity]|].
        eapply claimG_vb; [apply (stack_withst vs s1)|].
        destruct o; cbn [claimG] in *; try exact C.
        rewrite <- (app_nil_r ev). eapply Reach_trans; [exact C|].
        change (@nil event) with (@nil event ++ []). eapply Reach_trans; apply step_label.
      + inversion Hr; subst. clear Hr. cbn [claimG].
        change (@nil event) with (@nil event ++ []).
        eapply Reach_trans; [eapply step_jumpif_taken; [exact Hvn|reflexivity|exact AL1]|apply step_label].
    - (* SBreak *)
      cbn [compile_stmt] in Hc. unfold emit_jump in Hc. rewrite emit_jump_from_target in Hc.
      destruct (jump_target cx NBreak) as [[L h]|] eqn:Ej; [|discriminate]. cbn [obind] in Hc. inversion Hc; subst. clear Hc.
      cbn in Hr. inversion Hr; subst. clear Hr. cbn [claimG]. rewrite (withst_sm _ _ Hsm).
      pose proof (jump_target_le _ _ _ _ Hh Ej) as Hle.
      exists L, h. split; [exact Ej|]. split; [lia|].
      unfold emit_truncate. destruct (Nat.ltb_spec h (top_height cx)).
      + cbn [app]. apply Reach_trunc_jump_any.
      + cbn [app]. apply Reach_jump_virtual. lia.
    - (* SMark *)
      cbn in Hc, Hr. inversion Hc; subst. inversion Hr; subst. cbn [claimG app]. rewrite (withst_sm _ _ Hsm). apply step_mark.
    - (* SCall *)
      cbn [fragS] in F. rewrite compile_call_eq in Hc.
      destruct (compile_fun b) as [c'|] eqn:Ef; [|discriminate]. cbn [obind] in Hc. inversion Hc; subst. clear Hc.
      cbn [run_stmt] in Hr.
      destruct (run_scope f false b b s) as [[[ev0 o0] s0]|] eqn:E; [|discriminate]. cbn [bind] in Hr.
      pose proof (Hfun b c' s ev0 o0 s0 vs F Ef E Hsm) as Hres.
      destruct o0; cbn [fun_outcome] in Hr; injection Hr as <- <- <-; cbn [fun_result claimG app] in *; try contradiction.
      + apply step_call_ret. exact Hres.
      + apply step_call_ret. exact Hres.
      + eapply (fun_result_abort c' vs _ _ _ w base); cycle 3.
        { exact Hres. }
        { intros evV oV sV HT Ho. apply term_call_abort; assumption. }
        { lia. }
        { exact I. }
      + eapply (fun_result_abort c' vs _ _ _ w base); cycle 3.
        { exact Hres. }
        { intros evV oV sV HT Ho. apply term_call_abort; assumption. }
        { lia. }
        { exact I. }
    - (* SPcall *)
      cbn [fragS] in F. rewrite compile_pcall_eq in Hc.
      destruct (compile_fun b) as [c'|] eqn:Ef; [|discriminate]. cbn [obind] in Hc. inversion Hc; subst. clear Hc.
      cbn [run_stmt] in Hr.
      destruct (run_scope f false b b s) as [[[ev0 o0] s0]|] eqn:E; [|discriminate]. cbn [bind] in Hr.
      pose proof (Hfun b c' s ev0 o0 s0 vs F Ef E Hsm) as Hres.
      assert (NORMAL : Term c' (length (stack vs)) c' vs (ev0, VReturn, withst vs s0) ->
                       Reach w base ([IPcall c'] ++ post) vs post (withst vs s0) (ev0 ++ [EvPcall None])).
      { intro HT.
        assert (Hl0 : length (stack (withst vs s0)) <= length (stack vs)) by (rewrite stack_withst; lia).
        exact (step_pcall w base c' post vs ev0 VReturn (withst vs s0) [] (stack vs) None HT (or_introl eq_refl)
                 (cleanup_nothing _ _ None Hl0)). }
      destruct o0; cbn [fun_outcome] in Hr; injection Hr as <- <- <-; cbn [fun_result claimG] in *; try contradiction.
      + apply NORMAL. exact Hres.
      + apply NORMAL. exact Hres.
      + (* error caught *)
        destruct Hres as (evV & oV & sV & HT & Hk & Hs & Hcr).
        destruct oV; cbn in Hk; try contradiction.
        unfold creln in Hcr. cbn [verr err_of] in Hcr.
        rewrite (cleanup_nothing (stack vs) (length (stack vs)) (Some e) ltac:(lia)) in Hcr.
        destruct (cleanup (stack sV) (length (stack vs)) (Some e0)) as [[c1 r1] e1] eqn:Ec.
        destruct Hcr as (H2 & -> & ->). rewrite app_nil_r in H2.
        pose proof (step_pcall w base c' post vs evV (VError e0) sV c1 (stack vs) (Some e) HT
                      (or_intror (ex_intro _ e0 eq_refl)) Ec) as HR.
        rewrite app_assoc, H2 in HR.
        assert (Es : set_stack sV (stack vs) = withst vs s0).
        { destruct Hs as (A & B & C0). destruct sV; cbn in *. subst. reflexivity. }
        rewrite Es in HR. exact HR.
      + (* coroutine being closed: not caught *)
        eapply (fun_result_abort c' vs _ _ _ w base); cycle 3.
        { exact Hres. }
        { intros evV oV sV HT Ho.
          destruct Hres as (evV' & oV' & sV' & HT' & Hk & _).
          pose proof (Term_det _ _ _ _ _ _ HT HT') as EE. injection EE as -> -> ->.
          destruct oV'; cbn in Hk; try contradiction. apply term_pcall_closed. exact HT. }
        { lia. }
        { exact I. }
    - (* SCoro *)
      cbn [fragS] in F. rewrite compile_coro_eq in Hc.
      destruct (compile_fun b) as [c'|] eqn:Ef; [|discriminate]. cbn [obind] in Hc. inversion Hc; subst. clear Hc.
      cbn [run_stmt] in Hr.
      destruct (run_scope f false b b (mkSt (ds s) k (lastc s))) as [[[ev0 o0] s0]|] eqn:E; [|discriminate].
      cbn [bind] in Hr. inversion Hr; subst. clear Hr. cbn [claimG app].
      set (vs0 := mkV [] (vds vs) k (vlast vs)).
      assert (Hsm0 : sm (mkSt (ds s) k (lastc s)) vs0).
      { destruct Hsm as (A & B & C0). repeat split; cbn; assumption. }
      pose proof (Hfun b c' _ ev0 o0 s0 vs0 F Ef E Hsm0) as Hres.
      assert (Efin : forall sV, sm s0 sV ->
                mkV (stack vs) (vds sV) (vyc vs) (vlast sV) = withst vs (mkSt (ds s0) (yc s) (lastc s0))).
      { intros sV (A & B & C0). destruct Hsm as (A' & B' & C'). unfold withst. cbn. rewrite A, C0, B'. reflexivity. }
      assert (NORMAL : Term c' 0 c' vs0 (ev0, VReturn, withst vs0 s0) ->
                       Reach w base (ICoro c' k :: post) vs post (withst vs (mkSt (ds s0) (yc s) (lastc s0)))
                         (ev0 ++ [EvCo None])).
      { intro HT.
        pose proof (step_coro w base c' k post vs ev0 VReturn (withst vs0 s0) [] [] None HT ltac:(discriminate) eq_refl) as HR.
        rewrite (Efin (withst vs0 s0) (sm_withst _ _)) in HR. exact HR. }
      destruct o0; cbn [fun_outcome err_of fun_result] in *; try contradiction.
      + apply NORMAL. exact Hres.
      + apply NORMAL. exact Hres.
      + destruct Hres as (evV & oV & sV & HT & Hk & Hs & Hcr).
        unfold creln in Hcr. unfold vs0 in Hcr. cbn [stack cleanup err_of length] in Hcr.
        destruct (cleanup (stack sV) 0 (verr oV)) as [[c1 r1] e1] eqn:Ec.
        destruct Hcr as (H2 & -> & ->). rewrite app_nil_r in H2.
        assert (Ev : (match oV with VError x => Some x | _ => None end) = verr oV) by reflexivity.
        pose proof (step_coro w base c' k post vs evV oV sV c1 [] (Some e) HT
                      ltac:(destruct oV; cbn in Hk; try contradiction; discriminate) Ec) as HR.
        rewrite app_assoc, H2 in HR. rewrite (Efin sV Hs) in HR. exact HR.
      + destruct Hres as (evV & oV & sV & HT & Hk & Hs & Hcr).
        unfold creln in Hcr. unfold vs0 in Hcr. cbn [stack cleanup err_of length] in Hcr.
        destruct (cleanup (stack sV) 0 (verr oV)) as [[c1 r1] e1] eqn:Ec.
        destruct Hcr as (H2 & -> & ->). rewrite app_nil_r in H2.
        pose proof (step_coro w base c' k post vs evV oV sV c1 [] e HT
                      ltac:(destruct oV; cbn in Hk; try contradiction; discriminate) Ec) as HR.
        rewrite app_assoc, H2 in HR. rewrite (Efin sV Hs) in HR. exact HR.
    - (* SYield *)
      cbn in Hc. inversion Hc; subst. clear Hc. cbn [run_stmt] in Hr.
      destruct Hsm as (A & B & C0).
      destruct (yc s) as [[|j]|] eqn:Ey; inversion Hr; subst; clear Hr; cbn [claimG app].
      + exists [], VClosed, vs. split; [apply term_yield_closed; congruence|].
        split; [exact I|]. split; [repeat split; congruence|]. apply creln_refl. reflexivity.
      + assert (Ev : mkV (stack vs) (vds vs) (Some j) (vlast vs) = withst vs (mkSt (ds s) (Some j) (lastc s))).
        { unfold withst. cbn. rewrite A, C0. reflexivity. }
        rewrite <- Ev. apply step_yield_go. congruence.
      + rewrite (withst_sm s' vs ltac:(repeat split; congruence)). apply step_yield_none. congruence.
    - (* SRaise *)
      cbn in Hc, Hr. inversion Hc; subst. inversion Hr; subst. cbn [claimG app].
      exists [EvRaise (EUser e)], (VError (EUser e)), vs. split; [apply term_raise|].
      split; [exact I|]. split; [assumption|]. apply creln_refl. reflexivity. }
  repeat split; assumption.
Qed.

(* ---------------------------------------------------------------- compile_correct on the goto-free fragment *)
(* For every program of the fragment (locals of all kinds, do, while with
   break, if, calls, return f() with and without pending closes, nested pcall,
   coroutines closed while suspended, yield, raise, return — everything except
   goto/labels, repeat and for-in), every decision stream and every fuel on
   which the reference semantics terminates: if the program compiles, the
   close-stack VM run on the compiled code produces the same events and
   returns normally.  (run_ref of a whole program ends in ONormal unless a
   yield outside any coroutine is "closed", which cannot happen from the
   initial state; that invariant is not proved here, hence the premise.) *)
Theorem compile_correct_nogoto_partial : forall b, fragB b = true ->
  forall fuel d ev c, run_ref fuel b d = Done (ev, ONormal) -> compile b = Some c ->
  exists fuel', run_vm fuel' c d = Done (ev, VReturn).
Proof.
  intros b F fuel d ev c Hr Hc.
  unfold compile in Hc. destruct (compile_fun b) as [c'|] eqn:Ef; [|discriminate]. cbn in Hc. inversion Hc; subst c. clear Hc.
  unfold run_ref in Hr.
  destruct (run_stmt fuel (SPcall b) (mkSt d None false)) as [[[ev0 o0] s0]|] eqn:E; [|discriminate].
  inversion Hr; subst. clear Hr.
  destruct (sim_all fuel) as (PS & _).
  set (vs := mkV [] d None false).
  assert (Hcs : compile_stmt root_ctx 0 (SPcall b) = Some ([IPcall c'], 0)).
  { rewrite compile_pcall_eq, Ef. reflexivity. }
  pose proof (PS (SPcall b) root_ctx 0 [IPcall c'] 0 ([IPcall c'] ++ [IRet]) [] [IRet]
                (mkSt d None false) ev ONormal s0 vs 0 F Hcs eq_refl ltac:(intros l []) hle_root E
                ltac:(repeat split) eq_refl) as C.
  unfold claim in C. cbn [claimG] in C.
  pose proof (term_ret ([IPcall c'] ++ [IRet]) 0 [] (withst vs s0) [] [] None eq_refl) as T.
  apply C in T. cbn [pre3] in T. rewrite app_nil_r in T.
  destruct T as [F0 HF]. exists F0. unfold run_vm. fold vs. rewrite (HF F0 (le_n _)). reflexivity.
Qed.

Example compile_correct_nogoto_example :
  let b := BCons (SLocal (VObj 1 None))
            (BCons (SLoop LWhile (BCons (SLocal (VObj 2 (Some 7))) (BCons (SIf (BCons SBreak BNil)) (BCons (SMark 3) BNil))))
              (BCons (SMark 4) BNil)) in
  fragB b = true /\ run_ref 60 b [true; true] = Done ([EvOpen 1; EvOpen 2; EvClose 2 None; EvRaise (EUser 7);
                                                       EvClose 1 (Some (EUser 7)); EvPcall (Some (EUser 7))], ONormal)
  /\ exists c, compile b = Some c.
Proof. split; [reflexivity|]. split; [vm_compute; reflexivity|]. eexists. vm_compute. reflexivity. Qed.
