(* Close/NoClosed.v — outside a coroutine (yc = None) nothing is ever
   "closed": no construct ends with OClosed, and yc stays None.  Hence a whole
   program (run_ref) always ends with ONormal. *)
From Coq Require Import List Arith Bool Lia.
From GV Require Import Close.Skel.
Import ListNotations.

Definition nc (s : st) (r : res rtriple) : Prop :=
  match r with
  | Done (_, o, s') => yc s = None -> (forall e, o <> OClosed e) /\ yc s' = None
  | OutOfFuel => True
  end.

Lemma nc_prepend : forall s ev r, nc s r -> nc s (prepend ev r).
Proof. intros s ev [[[e o] s']|] H; exact H. Qed.

Lemma next_decision_yc : forall s, yc (snd (next_decision s)) = yc s.
Proof. intros s. unfold next_decision. destruct (ds s); reflexivity. Qed.

Lemma close_var_not_closed : forall v o, (forall e, o <> OClosed e) -> forall e, snd (close_var v o) <> OClosed e.
Proof.
  intros [| |id [h|]|id] o H e; cbn; try apply H.
  destruct o; cbn; try discriminate. exfalso. eapply H. reflexivity.
Qed.

Theorem no_closed_all : forall fuel,
  (forall endc w c s, nc s (run_scope fuel endc w c s)) /\
  (forall endc b s, nc s (run_block fuel endc b s)) /\
  (forall t s, nc s (run_stmt fuel t s)) /\
  (forall rep b s, nc s (run_loop fuel rep b s)).
Proof.
  induction fuel as [|f (IHscope & IHblock & IHstmt & IHloop)].
  { repeat split; intros; exact I. }
  assert (LOCAL : forall endc v rest s, (forall id, v <> VBad id) ->
            nc s (bind (run_scope f endc rest rest s) (fun ev o s' =>
                    let (cev, o') := close_var v o in Done (open_var v ++ ev ++ cev, o', s')))).
  { intros endc v rest s Hv. pose proof (IHscope endc rest rest s) as H.
    destruct (run_scope f endc rest rest s) as [[[ev o] s']|]; cbn [bind]; [|exact I].
    pose proof (close_var_not_closed v o) as Hc. destruct (close_var v o) as [cev o']. cbn in *.
    intro Hy. destruct (H Hy) as [H1 H2]. split; [apply Hc; exact H1|exact H2]. }
  repeat split.
  - intros endc w c s. cbn [run_scope]. pose proof (IHblock endc c s) as H.
    destruct (run_block f endc c s) as [[[ev o] s']|]; cbn [bind]; [|exact I].
    destruct o; try exact H. destruct (find_label l w) as [b'|]; [|exact H].
    apply nc_prepend. cbn in H. pose proof (IHscope endc w b' s') as H'.
    destruct (run_scope f endc w b' s') as [[[e2 o2] s2]|]; [|exact I]. cbn in *.
    intro Hy. destruct (H Hy) as [_ Hy']. apply H'. exact Hy'.
  - intros endc b s. cbn [run_block]. destruct b as [|r|t rest].
    + cbn. intro Hy. split; [discriminate|]. unfold eval_cond. destruct endc; [|exact Hy].
      pose proof (next_decision_yc s) as E. destruct (next_decision s). cbn in *. congruence.
    + destruct r as [|body]; [cbn; intro Hy; split; [discriminate|exact Hy]|].
      pose proof (IHscope false body body s) as H.
      destruct (run_scope f false body body s) as [[[ev o] s']|]; cbn [bind]; [|exact I]. cbn in *.
      intro Hy. destruct (H Hy) as [H1 H2]. split; [|exact H2].
      intros e. destruct o; cbn; try discriminate. exfalso. eapply H1. reflexivity.
    + assert (Hseq : nc s (bind (run_stmt f t s) (fun ev o s' =>
                 match o with ONormal => prepend ev (run_block f endc rest s') | _ => Done (ev, o, s') end))).
      { pose proof (IHstmt t s) as H.
        destruct (run_stmt f t s) as [[[ev o] s']|]; cbn [bind]; [|exact I].
        destruct o; try exact H. cbn in H. pose proof (IHblock endc rest s') as H'.
        destruct (run_block f endc rest s') as [[[e2 o2] s2]|]; [|exact I]. cbn in *.
        intro Hy. destruct (H Hy) as [_ Hy']. apply H'. exact Hy'. }
      destruct t; try exact Hseq.
      destruct v as [| |id h|id]; try (apply LOCAL; discriminate).
      cbn. intro Hy. split; [discriminate|exact Hy].
  - intros t s. cbn [run_stmt].
    destruct t; try (cbn; intro Hy; split; [discriminate|exact Hy]).
    + apply IHscope.
    + destruct k as [| |v]; try apply IHloop.
      destruct v as [| |id h|id]; try (cbn; intro Hy; split; [discriminate|exact Hy]);
        (pose proof (IHloop false b s) as H;
         destruct (run_loop f false b s) as [[[ev o] s']|]; cbn [bind]; [|exact I];
         match goal with |- context [close_var ?v o] =>
           pose proof (close_var_not_closed v o) as Hc; destruct (close_var v o) as [cev o'] end;
         cbn in *; intro Hy; destruct (H Hy) as [H1 H2]; split; [apply Hc; exact H1|exact H2]).
    + pose proof (next_decision_yc s) as E. destruct (next_decision s) as [d s1]. cbn in E.
      destruct d; [|cbn; intro Hy; split; [discriminate|congruence]].
      pose proof (IHscope false b b s1) as H.
      destruct (run_scope f false b b s1) as [[[ev o] s']|]; [|exact I]. cbn in *. intro Hy. apply H. congruence.
    + pose proof (IHscope false b b s) as H.
      destruct (run_scope f false b b s) as [[[ev o] s']|]; cbn [bind]; [|exact I]. cbn in *.
      intro Hy. destruct (H Hy) as [H1 H2]. split; [|exact H2].
      intros e. destruct o; cbn; try discriminate. exfalso. eapply H1. reflexivity.
    + pose proof (IHscope false b b s) as H.
      destruct (run_scope f false b b s) as [[[ev o] s']|]; cbn [bind]; [|exact I]. cbn in H.
      destruct o; cbn; intro Hy; destruct (H Hy) as [H1 H2]; try (split; [discriminate|exact H2]).
      exfalso. eapply H1. reflexivity.
    + destruct (run_scope f false b b _) as [[[ev o] s']|]; cbn [bind]; [|exact I]. cbn.
      intro Hy. split; [discriminate|exact Hy].
    + destruct (yc s) as [[|j]|] eqn:Ey; cbn; rewrite ?Ey; intro Hy; try discriminate Hy.
      split; [discriminate|exact Hy].
  - intros rep b s. cbn [run_loop].
    assert (E : yc (snd (if rep then (true, s) else next_decision s)) = yc s).
    { destruct rep; [reflexivity|apply next_decision_yc]. }
    destruct (if rep then (true, s) else next_decision s) as [d s1]. cbn in E.
    destruct d; [|cbn; intro Hy; split; [discriminate|congruence]].
    pose proof (IHscope rep b b s1) as H.
    destruct (run_scope f rep b b s1) as [[[ev o] s']|]; cbn [bind]; [|exact I]. cbn in H.
    destruct o; try (cbn; intro Hy; apply H; congruence).
    + destruct (rep && negb (lastc s')); [cbn; intro Hy; apply H; congruence|].
      apply nc_prepend. pose proof (IHloop rep b s') as H'.
      destruct (run_loop f rep b s') as [[[e2 o2] s2]|]; [|exact I]. cbn in *.
      intro Hy. apply H'. apply H. congruence.
    + cbn. intro Hy. split; [discriminate|]. apply H. congruence.
Qed.

Theorem run_ref_normal : forall fuel b d ev o, run_ref fuel b d = Done (ev, o) -> o = ONormal.
Proof.
  intros fuel b d ev o H. unfold run_ref in H.
  destruct (no_closed_all fuel) as (_ & _ & Ht & _). specialize (Ht (SPcall b) (mkSt d None false)).
  destruct fuel; [discriminate|]. cbn [run_stmt] in *.
  destruct (run_scope fuel false b b (mkSt d None false)) as [[[ev0 o0] s0]|]; [|discriminate]. cbn [bind] in *.
  destruct (fun_outcome o0); inversion H; subst; try reflexivity.
  cbn in Ht. exfalso. eapply (proj1 (Ht eq_refl)). reflexivity.
Qed.
