(* Close/FragL.v — the "labels first" fragment of the skeleton language: the
   whole language, with goto and labels, under the discipline that in every
   block the label statements precede the block's first local statement
   (so no label is declared in the scope of a local of its own block and the
   back-label rule of compileBlockNoPop is never needed).  What the compiler
   slice does on it: label pre-declaration (getLabels) made explicit, equations
   per construct, label numbers of the emitted code. *)
From Coq Require Import List Arith Bool Lia.
From GV Require Import Close.Skel Close.Compile Close.VMclose Close.VMLemmas.
Import ListNotations.

Definition is_local (t : stmt) : bool := match t with SLocal _ => true | _ => false end.

(* sl: a local statement of this block has been seen *)
Fixpoint fragS (t : stmt) {struct t} : bool :=
  match t with
  | SLocal _ | SBreak | SMark _ | SYield | SRaise _ | SGoto _ | SLabel _ => true
  | SDo b | SIf b | SCall b | SPcall b | SCoro b _ => fragBl false b
  | SLoop _ b => fragBl false b
  end
with fragBl (sl : bool) (b : block) {struct b} : bool :=
  match b with
  | BNil => true
  | BRet r => fragR r
  | BCons t r => (match t with SLabel _ => negb sl | _ => true end) && fragS t && fragBl (sl || is_local t) r
  end
with fragR (r : ret) {struct r} : bool :=
  match r with RPlain => true | RCall b => fragBl false b end.

Definition nolabel (sh : list shape) : bool :=
  forallb (fun x => match x with ShLabel _ => false | _ => true end) sh.

(* the labels of a block that getLabels declares: those before the first local *)
Fixpoint dlabels (b : block) : list nat :=
  match b with
  | BCons (SLabel l) r => l :: dlabels r
  | BCons (SLocal _) _ => []
  | BCons _ r => dlabels r
  | _ => []
  end.

Lemma frag_after_local : forall b, fragBl true b = true -> nolabel (shapes b) = true.
Proof.
  induction b as [|r|t b IH] using block_ind; try reflexivity.
  cbn [fragBl shapes]. intro H. apply andb_true_iff in H as [H H2]. apply andb_true_iff in H as [H0 H1].
  unfold nolabel in *. cbn [forallb]. rewrite (IH H2). destruct t; try discriminate; reflexivity.
Qed.

Lemma frag_true_false : forall b, fragBl true b = true -> fragBl false b = true.
Proof.
  induction b as [|r|t b IH] using block_ind; try (intro H; exact H).
  cbn [fragBl]. intro H. apply andb_true_iff in H as [H H2]. apply andb_true_iff in H as [H0 H1].
  rewrite H1. destruct t; try discriminate; cbn in *; rewrite ?H2; try reflexivity; apply IH; assumption.
Qed.

Lemma dlabels_nolabel : forall b, nolabel (shapes b) = true -> dlabels b = [].
Proof.
  induction b as [|r|t b IH] using block_ind; try reflexivity.
  cbn. intro H. apply andb_true_iff in H as [H1 H2]. destruct t; try discriminate; try reflexivity; apply IH; exact H2.
Qed.

Lemma get_labels_nolabel : forall sh cx n, nolabel sh = true -> exists bo, get_labels cx n sh = Some (cx, n, bo).
Proof.
  induction sh as [|x sh IH]; intros cx n H; cbn [get_labels]; [eauto|].
  cbn in H. destruct x; try discriminate; [eauto|apply IH; assumption].
Qed.

Lemma nolabel_firstn : forall k sh, nolabel sh = true -> nolabel (firstn k sh) = true.
Proof.
  induction k; intros [|x sh] H; cbn; try reflexivity.
  cbn in H. apply andb_true_iff in H as [H1 H2]. rewrite H1. cbn. apply IHk. assumption.
Qed.

(* ---------------------------------------------------------------- getLabels *)
Definition top_labels (cx : ctx) : list (lname * nat) := match cx with s :: _ => labels s | [] => [] end.

Lemma scope_label_in : forall name ls x, scope_label name ls = Some x -> In (name, x) ls.
Proof.
  induction ls as [|[nm y] r IH]; intros x H; cbn in H; [discriminate|].
  destruct (lname_eqb name nm) eqn:E.
  - inversion H; subst. left. destruct name, nm; cbn in E; try discriminate; [reflexivity|].
    apply Nat.eqb_eq in E. subst. reflexivity.
  - right. apply IH. exact H.
Qed.

Lemma lname_eqb_refl : forall a, lname_eqb a a = true.
Proof. destruct a; cbn; [reflexivity|apply Nat.eqb_refl]. Qed.

Lemma lname_eqb_eq : forall a b, lname_eqb a b = true -> a = b.
Proof. destruct a, b; cbn; intro H; try discriminate; [reflexivity|apply Nat.eqb_eq in H; subst; reflexivity]. Qed.

Lemma get_label_top_none : forall cx name, get_label cx name = None -> scope_label name (top_labels cx) = None.
Proof. intros [|s r] name H; [reflexivity|]. cbn in *. destruct (scope_label name (labels s)); [discriminate|reflexivity]. Qed.

Lemma add_label_top : forall cx name x, cx <> [] -> top_labels (add_label cx name x) = (name, x) :: top_labels cx.
Proof. intros [|s r] name x H; [contradiction|reflexivity]. Qed.

Lemma add_label_ne : forall cx name x, cx <> [] -> add_label cx name x <> [].
Proof. intros [|s r] name x H; [contradiction|discriminate]. Qed.

Lemma get_label_add : forall cx nm x name, cx <> [] ->
  get_label (add_label cx nm x) name = if lname_eqb name nm then Some x else get_label cx name.
Proof. intros [|s r] nm x name H; [contradiction|]. cbn. destruct (lname_eqb name nm); reflexivity. Qed.

(* a visible name is never declared again *)
Lemma visible_not_declared : forall l b cx n cx1 n1 bo, cx <> [] ->
  get_label cx (NUser l) <> None -> get_labels cx n (shapes b) = Some (cx1, n1, bo) -> ~ In l (dlabels b).
Proof.
  intros l. induction b as [|r|t b IH] using block_ind; intros cx n cx1 n1 bo Hne Hv H; try (intros []).
  cbn [shapes get_labels] in H. destruct t; cbn [shape_of dlabels] in *; try (eapply IH; eassumption).
  - intros [].
  - unfold declare_unique in H. destruct (get_label cx (NUser l0)) eqn:Eg; [discriminate|].
    intros [->|Hin]; [apply Hv; exact Eg|].
    revert Hin. eapply IH; [apply add_label_ne; exact Hne| |exact H].
    rewrite get_label_add by exact Hne. destruct (lname_eqb (NUser l) (NUser l0)); [discriminate|exact Hv].
Qed.

Lemma gl_basic : forall b cx n cx1 n1 bo, cx <> [] -> get_labels cx n (shapes b) = Some (cx1, n1, bo) ->
  n <= n1 /\ tl cx1 = tl cx /\ top_height cx1 = top_height cx /\ cx1 <> [].
Proof.
  induction b as [|r|t b IH] using block_ind; intros cx n cx1 n1 bo Hne H;
    try (cbn in H; inversion H; subst; auto).
  cbn [shapes get_labels] in H. destruct t; cbn [shape_of] in H; try (eapply IH; eassumption).
  - inversion H; subst. auto.
  - unfold declare_unique in H. destruct (get_label cx (NUser l)); [discriminate|].
    destruct (IH _ _ _ _ _ (add_label_ne _ _ _ Hne) H) as (A & B & C & D).
    destruct cx as [|s r]; [contradiction|]. cbn in *. repeat split; try assumption. lia.
Qed.

Lemma gl_old : forall b cx n cx1 n1 bo name, cx <> [] -> get_labels cx n (shapes b) = Some (cx1, n1, bo) ->
  (forall l, name = NUser l -> ~ In l (dlabels b)) ->
  scope_label name (top_labels cx1) = scope_label name (top_labels cx).
Proof.
  induction b as [|r|t b IH] using block_ind; intros cx n cx1 n1 bo name Hne H Hn;
    try (cbn in H; inversion H; subst; reflexivity).
  cbn [shapes get_labels] in H. destruct t; cbn [shape_of dlabels] in *; try (eapply IH; eassumption).
  - inversion H; subst. reflexivity.
  - unfold declare_unique in H. destruct (get_label cx (NUser l)); [discriminate|].
    rewrite (IH _ _ _ _ _ name (add_label_ne _ _ _ Hne) H) by (intros l0 E Hin; apply (Hn l0 E); right; exact Hin).
    rewrite add_label_top by exact Hne. cbn [scope_label].
    destruct (lname_eqb name (NUser l)) eqn:E; [|reflexivity].
    apply lname_eqb_eq in E. exfalso. apply (Hn l E). left. reflexivity.
Qed.

Lemma gl_new : forall b cx n cx1 n1 bo l, cx <> [] -> get_labels cx n (shapes b) = Some (cx1, n1, bo) ->
  In l (dlabels b) -> exists x, scope_label (NUser l) (top_labels cx1) = Some x /\ n <= x < n1.
Proof.
  induction b as [|r|t b IH] using block_ind; intros cx n cx1 n1 bo l Hne H Hin; try (destruct Hin).
  cbn [shapes get_labels] in H. destruct t; cbn [shape_of dlabels] in *; try (eapply IH; eassumption).
  - destruct Hin.
  - unfold declare_unique in H. destruct (get_label cx (NUser l0)) eqn:Eg; [discriminate|].
    pose proof (add_label_ne cx (NUser l0) n Hne) as Hne'.
    destruct (gl_basic _ _ _ _ _ _ Hne' H) as (Hle & _).
    destruct Hin as [<-|Hin].
    + exists n. split; [|lia].
      rewrite (gl_old _ _ _ _ _ _ (NUser l0) Hne' H).
      * rewrite add_label_top by exact Hne. cbn. rewrite Nat.eqb_refl. reflexivity.
      * intros l1 E. inversion E; subst l1.
        eapply visible_not_declared; [exact Hne'| |exact H].
        rewrite get_label_add by exact Hne. rewrite lname_eqb_refl. discriminate.
    + destruct (IH _ _ _ _ _ l Hne' H Hin) as (x & Hx & Hr). exists x. split; [exact Hx|lia].
Qed.

Lemma gl_inj : forall b cx n cx1 n1 bo l l2 x, cx <> [] -> get_labels cx n (shapes b) = Some (cx1, n1, bo) ->
  In l (dlabels b) -> In l2 (dlabels b) ->
  scope_label (NUser l) (top_labels cx1) = Some x -> scope_label (NUser l2) (top_labels cx1) = Some x -> l = l2.
Proof.
  induction b as [|r|t b IH] using block_ind; intros cx n cx1 n1 bo l l2 x Hne H Hin Hin2 Hx Hx2; try (destruct Hin).
  cbn [shapes get_labels] in H. destruct t; cbn [shape_of dlabels] in *; try (eapply IH; eassumption).
  - destruct Hin.
  - unfold declare_unique in H. destruct (get_label cx (NUser l0)) eqn:Eg; [discriminate|].
    pose proof (add_label_ne cx (NUser l0) n Hne) as Hne'.
    assert (Hl0 : scope_label (NUser l0) (top_labels cx1) = Some n).
    { rewrite (gl_old _ _ _ _ _ _ (NUser l0) Hne' H).
      - rewrite add_label_top by exact Hne. cbn. rewrite Nat.eqb_refl. reflexivity.
      - intros l1 E. inversion E; subst l1.
        eapply visible_not_declared; [exact Hne'| |exact H].
        rewrite get_label_add by exact Hne. rewrite lname_eqb_refl. discriminate. }
    destruct Hin as [<-|Hin], Hin2 as [<-|Hin2].
    + reflexivity.
    + destruct (gl_new _ _ _ _ _ _ l2 Hne' H Hin2) as (y & Hy & Hr). rewrite Hl0 in Hx. congruence || (exfalso; rewrite Hx2 in Hy; inversion Hx; inversion Hy; lia).
    + destruct (gl_new _ _ _ _ _ _ l Hne' H Hin) as (y & Hy & Hr). exfalso. rewrite Hl0 in Hx2. rewrite Hx in Hy. inversion Hx2; inversion Hy; lia.
    + eapply IH; eassumption.
Qed.

(* ---------------------------------------------------------------- the block prologue *)
Lemma gl_false_local : forall b cx n cx1 n1, get_labels cx n (shapes b) = Some (cx1, n1, false) -> In ShLocal (shapes b).
Proof.
  induction b as [|r|t b IH] using block_ind; intros cx n cx1 n1 H; try (cbn in H; discriminate).
  cbn [shapes get_labels] in H. destruct t; cbn [shape_of] in H; try (right; eapply IH; eassumption).
  - left. reflexivity.
  - destruct (declare_unique cx n l) as [[c' n']|]; [|discriminate]. right. eapply IH; eassumption.
Qed.

Lemma last_not_label : forall b sl, fragBl sl b = true -> (sl = true \/ In ShLocal (shapes b)) ->
  match rev (shapes b) with ShLabel _ :: _ => False | _ => True end.
Proof.
  induction b as [|r|t b IH] using block_ind; intros sl F H; try exact I.
  cbn [fragBl] in F. apply andb_true_iff in F as [F F2]. apply andb_true_iff in F as [F0 F1].
  cbn [shapes rev]. cbn [shapes] in H.
  destruct (shapes b) as [|x sh] eqn:Es.
  - cbn. destruct t; try exact I. cbn in F0. destruct sl; [discriminate|].
    destruct H as [H|H]; [discriminate|]. cbn in H. destruct H as [H|[]]. discriminate.
  - assert (G : sl || is_local t = true \/ In ShLocal (x :: sh)).
    { destruct H as [->|[H|H]]; [left; reflexivity| |right; exact H].
      left. destruct t; try discriminate. apply orb_true_r. }
    specialize (IH _ F2 G). cbn [rev] in *.
    destruct (rev sh ++ [x]) as [|y ys] eqn:Er; [destruct (rev sh); discriminate|]. cbn. exact IH.
Qed.

Lemma gb_head : forall sh cx n, match sh with ShLabel _ :: _ => False | _ => True end ->
  get_back_labels cx n sh 0 = Some (cx, n, 0).
Proof. intros [|[l| |] r] cx n H; try reflexivity. contradiction. Qed.

Lemma prologue_fragL : forall b cx n complete fb, fragBl false b = true ->
  block_prologue cx n b complete fb =
  match get_labels cx n (shapes b) with
  | Some (cx1, n1, _) => Some (cx1, n1, length (shapes b))
  | None => None
  end.
Proof.
  intros b cx n complete fb F. unfold block_prologue.
  destruct (get_labels cx n (shapes b)) as [[[cx1 n1] bo]|] eqn:E; [|reflexivity].
  destruct (complete && negb bo && negb (has_ret b || fb)) eqn:Ec; [|reflexivity].
  destruct bo; [rewrite andb_false_r in Ec; discriminate|].
  rewrite gb_head; [rewrite Nat.sub_0_r; reflexivity|].
  apply (last_not_label b false F). right. eapply gl_false_local. exact E.
Qed.

(* a block compiled as a scope: labels pre-declared, then the statements *)
Definition block_in (cx : ctx) (n : nat) (b : block) (fb : bool) (ec : code) : option (code * nat) :=
  match get_labels cx n (shapes b) with
  | Some (cx1, n1, _) => compile_stats cx1 n1 (length (shapes b)) fb ec b
  | None => None
  end.

Lemma compile_local_eq : forall cx n tl fb ec v rest, fragBl true rest = true ->
  compile_stats cx n tl fb ec (BCons (SLocal v) rest) =
  obind (compile_stats (local_ctx (push_ctx cx) v) n (pred tl) fb ec rest) (fun '(c, n3) =>
    Some (local_code v ++ c ++ pop_code (local_ctx (push_ctx cx) v), n3)).
Proof.
  intros. cbn [compile_stats].
  destruct (get_labels_nolabel (firstn (pred tl) (shapes rest)) (push_ctx cx) n
              (nolabel_firstn _ _ (frag_after_local rest H))) as [bo E].
  rewrite E. reflexivity.
Qed.

Lemma compile_fun_eq : forall b, fragBl false b = true ->
  compile_fun b = obind (block_in root_ctx 0 b true []) (fun '(c, _) => Some c).
Proof.
  intros b H. unfold compile_fun, block_in. rewrite (prologue_fragL b _ _ _ _ H).
  destruct (get_labels root_ctx 0 (shapes b)) as [[[? ?] ?]|]; reflexivity.
Qed.

Lemma compile_do_eq : forall cx n b, fragBl false b = true ->
  compile_stmt cx n (SDo b) =
  obind (block_in (push_ctx cx) n b false []) (fun '(c, n') => Some (c ++ pop_code (push_ctx cx), n')).
Proof.
  intros. cbn [compile_stmt]. unfold block_in. rewrite (prologue_fragL b _ _ _ _ H).
  destruct (get_labels _ _ (shapes b)) as [[[? ?] ?]|]; reflexivity.
Qed.

Lemma compile_while_eq : forall cx n b, fragBl false b = true ->
  compile_stmt cx n (SLoop LWhile b) =
  let cx2 := add_label (push_ctx cx) NBreak n in
  obind (block_in (push_ctx cx2) (n + 2) b false []) (fun '(c, n') =>
    Some ([ILabel (n + 1); IJumpIf n true false] ++ (c ++ pop_code (push_ctx cx2))
          ++ [IJump (n + 1); ILabel n] ++ pop_code cx2, n')).
Proof.
  intros. cbn [compile_stmt]. unfold block_in. rewrite (prologue_fragL b _ _ _ _ H).
  destruct (get_labels _ _ (shapes b)) as [[[? ?] ?]|]; [|reflexivity]. cbn [obind].
  destruct (compile_stats _ _ _ _ _ b) as [[? ?]|]; reflexivity.
Qed.

Lemma compile_repeat_eq : forall cx n b, fragBl false b = true ->
  compile_stmt cx n (SLoop LRepeat b) =
  let cx2 := add_label (push_ctx cx) NBreak n in
  obind (block_in cx2 (n + 2) b false [ICond]) (fun '(c, n') =>
    Some ([ILabel (n + 1)] ++ c ++ [IJumpLast (n + 1) false; ILabel n] ++ pop_code cx2, n')).
Proof.
  intros. cbn [compile_stmt]. unfold block_in. rewrite (prologue_fragL b _ _ _ _ H).
  destruct (get_labels _ _ (shapes b)) as [[[? ?] ?]|]; [|reflexivity]. cbn [obind].
  destruct (compile_stats _ _ _ _ _ b) as [[? ?]|]; reflexivity.
Qed.

Lemma compile_forin_eq : forall cx n v b, fragBl false b = true ->
  compile_stmt cx n (SLoop (LForIn v) b) =
  let cx3 := add_label (add_height (push_ctx cx)) NBreak (n + 1) in
  obind (block_in cx3 (n + 2) b false []) (fun '(c, n') =>
    Some (open_code v ++ [IClPush (forin_val v); ILabel n; IJumpIf (n + 1) false false] ++ c
          ++ [IJump n; ILabel (n + 1)] ++ pop_code cx3, n')).
Proof.
  intros. cbn [compile_stmt]. unfold block_in. rewrite (prologue_fragL b _ _ _ _ H).
  destruct (get_labels _ _ (shapes b)) as [[[? ?] ?]|]; [|reflexivity]. cbn [obind].
  destruct (compile_stats _ _ _ _ _ b) as [[? ?]|]; reflexivity.
Qed.

Lemma compile_if_eq : forall cx n b, fragBl false b = true ->
  compile_stmt cx n (SIf b) =
  obind (block_in (push_ctx cx) (n + 2) b false []) (fun '(c, n') =>
    Some ([IJumpIf (n + 1) true false] ++ (c ++ pop_code (push_ctx cx)) ++ [ILabel (n + 1); ILabel n], n')).
Proof.
  intros. cbn [compile_stmt]. unfold block_in. rewrite (prologue_fragL b _ _ _ _ H).
  destruct (get_labels _ _ (shapes b)) as [[[? ?] ?]|]; [|reflexivity]. cbn [obind].
  destruct (compile_stats _ _ _ _ _ b) as [[? ?]|]; reflexivity.
Qed.

Lemma compile_call_eq : forall cx n b,
  compile_stmt cx n (SCall b) = obind (compile_fun b) (fun c => Some ([ICall c], n)).
Proof. intros. cbn [compile_stmt]. unfold compile_fun. destruct (block_prologue _ _ _ _ _) as [[[? ?] ?]|]; reflexivity. Qed.
Lemma compile_pcall_eq : forall cx n b,
  compile_stmt cx n (SPcall b) = obind (compile_fun b) (fun c => Some ([IPcall c], n)).
Proof. intros. cbn [compile_stmt]. unfold compile_fun. destruct (block_prologue _ _ _ _ _) as [[[? ?] ?]|]; reflexivity. Qed.
Lemma compile_coro_eq : forall cx n b k,
  compile_stmt cx n (SCoro b k) = obind (compile_fun b) (fun c => Some ([ICoro c k], n)).
Proof. intros. cbn [compile_stmt]. unfold compile_fun. destruct (block_prologue _ _ _ _ _) as [[[? ?] ?]|]; reflexivity. Qed.

Lemma compile_retcall_eq : forall cx n tl fb ec body,
  compile_stats cx n tl fb ec (BRet (RCall body)) =
  obind (compile_fun body) (fun c =>
    if Nat.eqb (top_height cx) 0 then Some ([ITailCall c], n) else Some ([ICall c; IRet], n)).
Proof.
  intros. cbn [compile_stats]. unfold compile_fun.
  destruct (block_prologue _ _ _ _ _) as [[[? ?] ?]|]; [|reflexivity].
  destruct (compile_stats _ _ _ _ _ body) as [[? ?]|]; reflexivity.
Qed.

(* ---------------------------------------------------------------- jump targets *)
Fixpoint jump_target (cx : ctx) (name : lname) : option (nat * nat) :=
  match cx with
  | [] => None
  | s :: r => match scope_label name (labels s) with Some l => Some (l, height s) | None => jump_target r name end
  end.

Lemma emit_jump_from_target : forall cx curh name,
  emit_jump_from curh cx name =
  match jump_target cx name with Some (l, h) => Some (emit_truncate h curh ++ [IJump l]) | None => None end.
Proof.
  induction cx as [|s r IH]; intros; cbn [emit_jump_from jump_target]; [reflexivity|].
  destruct (scope_label name (labels s)); [reflexivity|apply IH].
Qed.

Lemma jump_target_get_label : forall cx name L h, jump_target cx name = Some (L, h) -> get_label cx name = Some L.
Proof.
  induction cx as [|s r IH]; intros name L h H; cbn in *; [discriminate|].
  destruct (scope_label name (labels s)); [inversion H; reflexivity|eapply IH; exact H].
Qed.

Lemma jump_target_same : forall cx cx1 name, cx <> [] -> cx1 <> [] -> tl cx1 = tl cx -> top_height cx1 = top_height cx ->
  scope_label name (top_labels cx1) = scope_label name (top_labels cx) ->
  jump_target cx1 name = jump_target cx name.
Proof.
  intros [|s r] [|s1 r1] name H H1 Ht Hh Hs; try contradiction. cbn in *. subst r1. rewrite Hs, Hh. reflexivity.
Qed.

Lemma jump_target_top : forall cx name x, cx <> [] -> scope_label name (top_labels cx) = Some x ->
  jump_target cx name = Some (x, top_height cx).
Proof. intros [|s r] name x H Hs; [contradiction|]. cbn in *. rewrite Hs. reflexivity. Qed.

Lemma get_label_top : forall cx name x, cx <> [] -> scope_label name (top_labels cx) = Some x -> get_label cx name = Some x.
Proof. intros [|s r] name x H Hs; [contradiction|]. cbn in *. rewrite Hs. reflexivity. Qed.

Definition hle (cx : ctx) : Prop := forall s, In s cx -> height s <= top_height cx.

Lemma hle_push : forall cx, hle cx -> hle (push_ctx cx).
Proof.
  intros cx H s [<-|Hin]; cbn; [lia|]. destruct cx as [|t r]; [destruct Hin|]. apply (H s Hin).
Qed.
Lemma hle_add_label : forall cx name l, hle cx -> hle (add_label cx name l).
Proof.
  intros [|t r] name l H; [exact H|]. intros s [<-|Hin]; cbn; [lia|]. apply (H s). right. exact Hin.
Qed.
Lemma hle_add_height : forall cx, hle cx -> hle (add_height cx).
Proof.
  intros [|t r] H; [exact H|]. intros s [<-|Hin]; cbn; [lia|].
  specialize (H s (or_intror Hin)). cbn in H. lia.
Qed.
Lemma hle_local : forall cx v, hle cx -> hle (local_ctx (push_ctx cx) v).
Proof. intros cx v H. destruct v; cbn [local_ctx]; try apply hle_add_height; apply hle_push; exact H. Qed.
Lemma hle_root : hle root_ctx.
Proof. intros s [<-|[]]. cbn. lia. Qed.
Lemma hle_same : forall cx cx1, cx <> [] -> cx1 <> [] -> tl cx1 = tl cx -> top_height cx1 = top_height cx -> hle cx -> hle cx1.
Proof.
  intros [|s r] [|s1 r1] H H1 Ht Hh Hl; try contradiction. cbn in *. subst r1.
  intros x [<-|Hin]; cbn; [lia|]. rewrite Hh. apply (Hl x). right. exact Hin.
Qed.

Lemma jump_target_le : forall cx name l h, hle cx -> jump_target cx name = Some (l, h) -> h <= top_height cx.
Proof.
  intros cx name l h H. assert (G : forall c, (forall s, In s c -> height s <= top_height cx) ->
    jump_target c name = Some (l, h) -> h <= top_height cx).
  { induction c as [|s r IH]; intros Hc E; cbn in E; [discriminate|].
    destruct (scope_label name (labels s)).
    - inversion E; subst. apply Hc. left. reflexivity.
    - apply IH; [intros; apply Hc; right; assumption|exact E]. }
  apply G. exact H.
Qed.

Lemma jump_target_push : forall cx name, jump_target (push_ctx cx) name = jump_target cx name.
Proof. reflexivity. Qed.
Lemma jump_target_local : forall cx v name, jump_target (local_ctx (push_ctx cx) v) name = jump_target cx name.
Proof. intros cx v name. destruct v; reflexivity. Qed.
Lemma top_height_local : forall cx v,
  top_height (local_ctx (push_ctx cx) v) = match v with VPlain => top_height cx | _ => S (top_height cx) end.
Proof. intros cx v. destruct v; reflexivity. Qed.
Lemma pop_code_push : forall cx, pop_code (push_ctx cx) = [].
Proof. intros cx. cbn. unfold emit_truncate. rewrite Nat.ltb_irrefl. reflexivity. Qed.
Lemma pop_code_local : forall cx v,
  pop_code (local_ctx (push_ctx cx) v) = match v with VPlain => [] | _ => [IClTrunc (top_height cx)] end.
Proof.
  intros cx v. destruct v; cbn; unfold emit_truncate; rewrite ?Nat.ltb_irrefl; try reflexivity;
    destruct (Nat.ltb_spec (top_height cx) (S (top_height cx))); try reflexivity; lia.
Qed.
Lemma local_ctx_ne : forall cx v, local_ctx (push_ctx cx) v <> [].
Proof. intros cx v. destruct v; discriminate. Qed.
Lemma push_ctx_ne : forall cx, push_ctx cx <> [].
Proof. intros cx. discriminate. Qed.
(* ---------------------------------------------------------------- label ranges *)
Definition rng (c : code) (n n' : nat) : Prop := n <= n' /\ lab_ge c n /\ lab_lt c n'.

Ltac nolab := let l := fresh in let H := fresh in
  intros l H; cbn in H; repeat (destruct H as [H|H]; [discriminate|]); try destruct H.

Lemma rng_nolab : forall c n, (forall l, ~ In (ILabel l) c) -> rng c n n.
Proof. intros c n H. split; [lia|]. split; intros l Hl; exfalso; apply (H l Hl). Qed.

Lemma rng_app : forall a b n m k, rng a n m -> rng b m k -> rng (a ++ b) n k.
Proof.
  intros a b n m k (H1 & H2 & H3) (H4 & H5 & H6). split; [lia|]. split.
  - apply lab_ge_app; [assumption|eapply lab_ge_mono; eauto].
  - apply lab_lt_app; [eapply lab_lt_mono; eauto|assumption].
Qed.

Lemma local_code_nolab : forall v l, ~ In (ILabel l) (local_code v).
Proof. intros [| |id h|id] l H; cbn in H; repeat (destruct H as [H|H]; [discriminate|]); destruct H. Qed.

Lemma emit_truncate_nolab : forall h c l, ~ In (ILabel l) (emit_truncate h c).
Proof. intros h c l H. unfold emit_truncate in H. destruct (h <? c); cbn in H; [destruct H as [H|H]; [discriminate|destruct H]|destruct H]. Qed.

Lemma pop_code_nolab : forall cx l, ~ In (ILabel l) (pop_code cx).
Proof. intros [|t r] l H; [destruct H|]. cbn in H. eapply emit_truncate_nolab. exact H. Qed.

Scheme stmt_mutind := Induction for stmt Sort Prop
  with block_mutind := Induction for block Sort Prop
  with ret_mutind := Induction for ret Sort Prop.
Combined Scheme skel_mutind from stmt_mutind, block_mutind, ret_mutind.


Definition ulab (cx : ctx) (ls : list nat) (x : nat) : Prop := exists l, In l ls /\ get_label cx (NUser l) = Some x.

Definition labs_ok (cx : ctx) (ls : list nat) (c : code) (n n' : nat) : Prop :=
  n <= n' /\ forall x, In (ILabel x) c -> n <= x < n' \/ ulab cx ls x.

Lemma labs_ok_rng : forall cx ls c n n', rng c n n' -> labs_ok cx ls c n n'.
Proof. intros cx ls c n n' (H1 & H2 & H3). split; [exact H1|]. intros x Hx. left. split; [apply H2|apply H3]; exact Hx. Qed.

Lemma block_in_rng : forall b cx n fb ec c0 n0,
  (forall sl cx n tl fb ec c n', fragBl sl b = true -> cx <> [] -> (forall l, ~ In (ILabel l) ec) ->
     compile_stats cx n tl fb ec b = Some (c, n') -> labs_ok cx (dlabels b) c n n') ->
  fragBl false b = true -> cx <> [] -> (forall l, ~ In (ILabel l) ec) ->
  block_in cx n b fb ec = Some (c0, n0) -> rng c0 n n0.
Proof.
  intros b cx n fb ec c0 n0 IH F Hne Hec H. unfold block_in in H.
  destruct (get_labels cx n (shapes b)) as [[[cx1 n1] bo]|] eqn:E; [|discriminate].
  destruct (gl_basic _ _ _ _ _ _ Hne E) as (Hle & _ & _ & Hne1).
  destruct (IH _ _ _ _ _ _ _ _ F Hne1 Hec H) as (Hle2 & Hl).
  split; [lia|]. split; intros x Hx; destruct (Hl x Hx) as [Hr|(l & Hin & Hg)]; try lia;
    destruct (gl_new _ _ _ _ _ _ l Hne E Hin) as (x' & Hs & Hr);
    rewrite (get_label_top _ _ _ Hne1 Hs) in Hg; inversion Hg; lia.
Qed.

Lemma compile_labs :
  (forall t, fragS t = true -> forall cx n c n', cx <> [] -> (forall l, t <> SLabel l) ->
     compile_stmt cx n t = Some (c, n') -> rng c n n') /\
  (forall b, forall sl cx n tl fb ec c n', fragBl sl b = true -> cx <> [] -> (forall l, ~ In (ILabel l) ec) ->
     compile_stats cx n tl fb ec b = Some (c, n') -> labs_ok cx (dlabels b) c n n') /\
  (forall r : ret, True).
Proof.
  assert (NOEC : forall l, ~ In (ILabel l) (@nil instr)) by (intros l []).
  assert (NOCOND : forall l, ~ In (ILabel l) [ICond]) by (intros l [H|[]]; discriminate).
  apply skel_mutind; try (intros; exact I).
  - intros v _ cx n c n' _ _ H. discriminate.
  - (* SDo *) intros b IH F cx n c n' Hne _ H. cbn [fragS] in F. rewrite (compile_do_eq _ _ _ F) in H.
    destruct (block_in (push_ctx cx) n b false []) as [[c0 n0]|] eqn:E; [|discriminate]. cbn [obind] in H.
    rewrite pop_code_push, app_nil_r in H. inversion H; subst.
    exact (block_in_rng b _ _ _ _ _ _ IH F (push_ctx_ne cx) NOEC E).
  - (* SLoop *) intros k b IH F cx n c n' Hne _ H. cbn [fragS] in F. destruct k as [| |v].
    + rewrite (compile_while_eq _ _ _ F) in H. cbv zeta in H.
      destruct (block_in _ (n + 2) b false []) as [[c0 n0]|] eqn:E; [|discriminate]. cbn [obind] in H.
      rewrite pop_code_push, app_nil_r in H. inversion H; subst.
      destruct (block_in_rng b _ _ _ _ _ _ IH F (push_ctx_ne _) NOEC E) as (H1 & H2 & H3).
      split; [lia|]. split.
      * intros l Hl. cbn in Hl. destruct Hl as [Hl|[Hl|Hl]]; [inversion Hl; lia|discriminate|].
        apply in_app_or in Hl as [Hl|Hl]; [specialize (H2 l Hl); lia|].
        cbn in Hl. destruct Hl as [Hl|[Hl|Hl]]; [discriminate|inversion Hl; lia|].
        exfalso. first [eapply pop_code_nolab; exact Hl | eapply emit_truncate_nolab; exact Hl].
      * intros l Hl. cbn in Hl. destruct Hl as [Hl|[Hl|Hl]]; [inversion Hl; lia|discriminate|].
        apply in_app_or in Hl as [Hl|Hl]; [apply (H3 l Hl)|].
        cbn in Hl. destruct Hl as [Hl|[Hl|Hl]]; [discriminate|inversion Hl; lia|].
        exfalso. first [eapply pop_code_nolab; exact Hl | eapply emit_truncate_nolab; exact Hl].
    + rewrite (compile_repeat_eq _ _ _ F) in H. cbv zeta in H.
      destruct (block_in _ (n + 2) b false [ICond]) as [[c0 n0]|] eqn:E; [|discriminate]. cbn [obind] in H.
      inversion H; subst.
      destruct (block_in_rng b _ _ _ _ _ _ IH F (add_label_ne _ _ _ (push_ctx_ne _)) NOCOND E) as (H1 & H2 & H3).
      split; [lia|]. split.
      * intros l Hl. cbn in Hl. destruct Hl as [Hl|Hl]; [inversion Hl; lia|].
        apply in_app_or in Hl as [Hl|Hl]; [specialize (H2 l Hl); lia|].
        cbn in Hl. destruct Hl as [Hl|[Hl|Hl]]; [discriminate|inversion Hl; lia|].
        exfalso. first [eapply pop_code_nolab; exact Hl | eapply emit_truncate_nolab; exact Hl].
      * intros l Hl. cbn in Hl. destruct Hl as [Hl|Hl]; [inversion Hl; lia|].
        apply in_app_or in Hl as [Hl|Hl]; [apply (H3 l Hl)|].
        cbn in Hl. destruct Hl as [Hl|[Hl|Hl]]; [discriminate|inversion Hl; lia|].
        exfalso. first [eapply pop_code_nolab; exact Hl | eapply emit_truncate_nolab; exact Hl].
    + rewrite (compile_forin_eq _ _ _ _ F) in H. cbv zeta in H.
      destruct (block_in _ (n + 2) b false []) as [[c0 n0]|] eqn:E; [|discriminate]. cbn [obind] in H.
      inversion H; subst.
      destruct (block_in_rng b _ _ _ _ _ _ IH F (add_label_ne (add_height (push_ctx cx)) NBreak (n + 1) ltac:(discriminate)) NOEC E) as (H1 & H2 & H3).
      split; [lia|]. split.
      * intros l Hl. apply in_app_or in Hl as [Hl|Hl].
        { exfalso. destruct v; cbn in Hl; repeat (destruct Hl as [Hl|Hl]; [discriminate|]); destruct Hl. }
        cbn in Hl. destruct Hl as [Hl|[Hl|[Hl|Hl]]]; [discriminate|inversion Hl; lia|discriminate|].
        apply in_app_or in Hl as [Hl|Hl]; [specialize (H2 l Hl); lia|].
        cbn in Hl. destruct Hl as [Hl|[Hl|Hl]]; [discriminate|inversion Hl; lia|].
        exfalso. first [eapply pop_code_nolab; exact Hl | eapply emit_truncate_nolab; exact Hl].
      * intros l Hl. apply in_app_or in Hl as [Hl|Hl].
        { exfalso. destruct v; cbn in Hl; repeat (destruct Hl as [Hl|Hl]; [discriminate|]); destruct Hl. }
        cbn in Hl. destruct Hl as [Hl|[Hl|[Hl|Hl]]]; [discriminate|inversion Hl; lia|discriminate|].
        apply in_app_or in Hl as [Hl|Hl]; [apply (H3 l Hl)|].
        cbn in Hl. destruct Hl as [Hl|[Hl|Hl]]; [discriminate|inversion Hl; lia|].
        exfalso. first [eapply pop_code_nolab; exact Hl | eapply emit_truncate_nolab; exact Hl].
  - (* SIf *) intros b IH F cx n c n' Hne _ H. cbn [fragS] in F. rewrite (compile_if_eq _ _ _ F) in H.
    destruct (block_in (push_ctx cx) (n + 2) b false []) as [[c0 n0]|] eqn:E; [|discriminate]. cbn [obind] in H.
    rewrite pop_code_push, app_nil_r in H. inversion H; subst.
    destruct (block_in_rng b _ _ _ _ _ _ IH F (push_ctx_ne _) NOEC E) as (H1 & H2 & H3).
    split; [lia|]. split.
    + intros l Hl. cbn in Hl. destruct Hl as [Hl|Hl]; [discriminate|].
      apply in_app_or in Hl as [Hl|Hl]; [specialize (H2 l Hl); lia|].
      cbn in Hl. destruct Hl as [Hl|[Hl|Hl]]; [inversion Hl; lia|inversion Hl; lia|destruct Hl].
    + intros l Hl. cbn in Hl. destruct Hl as [Hl|Hl]; [discriminate|].
      apply in_app_or in Hl as [Hl|Hl]; [apply (H3 l Hl)|].
      cbn in Hl. destruct Hl as [Hl|[Hl|Hl]]; [inversion Hl; lia|inversion Hl; lia|destruct Hl].
  - (* SBreak *) intros _ cx n c n' _ _ H. cbn [compile_stmt] in H. unfold emit_jump in H.
    rewrite emit_jump_from_target in H. destruct (jump_target cx NBreak) as [[l h]|]; [|discriminate].
    cbn in H. inversion H; subst. apply rng_nolab. intros l0 Hl. apply in_app_or in Hl as [Hl|Hl].
    + eapply emit_truncate_nolab. exact Hl.
    + destruct Hl as [Hl|[]]. discriminate.
  - (* SGoto *) intros g _ cx n c n' _ _ H. cbn [compile_stmt] in H. unfold emit_jump in H.
    rewrite emit_jump_from_target in H. destruct (jump_target cx (NUser g)) as [[l h]|]; [|discriminate].
    cbn in H. inversion H; subst. apply rng_nolab. intros l0 Hl. apply in_app_or in Hl as [Hl|Hl].
    + eapply emit_truncate_nolab. exact Hl.
    + destruct Hl as [Hl|[]]. discriminate.
  - (* SLabel *) intros l _ cx n c n' _ Hn H. exfalso. eapply Hn. reflexivity.
  - intros m _ cx n c n' _ _ H. inversion H; subst. apply rng_nolab. nolab.
  - intros b IH F cx n c n' _ _ H. rewrite compile_call_eq in H.
    destruct (compile_fun b); [|discriminate]. inversion H; subst. apply rng_nolab. nolab.
  - intros b IH F cx n c n' _ _ H. rewrite compile_pcall_eq in H.
    destruct (compile_fun b); [|discriminate]. inversion H; subst. apply rng_nolab. nolab.
  - intros b IH k F cx n c n' _ _ H. rewrite compile_coro_eq in H.
    destruct (compile_fun b); [|discriminate]. inversion H; subst. apply rng_nolab. nolab.
  - intros _ cx n c n' _ _ H. inversion H; subst. apply rng_nolab. nolab.
  - intros e _ cx n c n' _ _ H. inversion H; subst. apply rng_nolab. nolab.
  - (* BNil *) intros sl cx n tl fb ec c n' _ _ Hec H. cbn in H. inversion H; subst. apply labs_ok_rng. apply rng_nolab.
    destruct fb; [nolab|exact Hec].
  - (* BRet *) intros r _ sl cx n tl fb ec c n' F _ Hec H. apply labs_ok_rng. destruct r as [|body].
    + inversion H; subst. apply rng_nolab. nolab.
    + rewrite compile_retcall_eq in H. destruct (compile_fun body); [|discriminate]. cbn in H.
      destruct (top_height cx =? 0); inversion H; subst; apply rng_nolab; nolab.
  - (* BCons *) intros t IHt rest IHr sl cx n tl fb ec c n' F Hne Hec H.
    cbn [fragBl] in F. apply andb_true_iff in F as [F Fr]. apply andb_true_iff in F as [F0 Ft].
    destruct (is_local t) eqn:Eloc.
    + (* local *)
      destruct t; try discriminate. rewrite orb_true_r in Fr.
      rewrite (compile_local_eq _ _ _ _ _ _ _ Fr) in H.
      destruct (compile_stats _ _ _ _ _ rest) as [[c0 n0]|] eqn:E; [|discriminate]. cbn [obind] in H. inversion H; subst.
      destruct (IHr _ _ _ _ _ _ _ _ Fr (local_ctx_ne cx v) Hec E) as (Hle & Hl).
      rewrite (dlabels_nolabel rest (frag_after_local rest Fr)) in Hl.
      split; [exact Hle|]. intros x Hx. left.
      apply in_app_or in Hx as [Hx|Hx]; [exfalso; eapply local_code_nolab; exact Hx|].
      apply in_app_or in Hx as [Hx|Hx]; [|exfalso; eapply pop_code_nolab; exact Hx].
      destruct (Hl x Hx) as [Hr|(l & [] & _)]. exact Hr.
    + rewrite orb_false_r in Fr.
      assert (Ec : compile_stats cx n tl fb ec (BCons t rest) =
                   obind (compile_stmt cx n t) (fun '(c1, n1) =>
                     obind (compile_stats cx n1 (pred tl) fb ec rest) (fun '(c2, n2) => Some (c1 ++ c2, n2)))).
      { destruct t; try reflexivity. discriminate. }
      rewrite Ec in H. clear Ec.
      destruct (compile_stmt cx n t) as [[c1 n1]|] eqn:E1; [|discriminate]. cbn [obind] in H.
      destruct (compile_stats cx n1 (pred tl) fb ec rest) as [[c2 n2]|] eqn:E2; [|discriminate].
      cbn [obind] in H. inversion H; subst. clear H.
      destruct (IHr _ _ _ _ _ _ _ _ Fr Hne Hec E2) as (Hle2 & Hl2).
      destruct t; try discriminate Eloc;
        try (destruct (IHt Ft cx n c1 n1 Hne ltac:(intros; discriminate) E1) as (Hle1 & Hge1 & Hlt1);
             split; [lia|]; intros x Hx; apply in_app_or in Hx as [Hx|Hx];
             [left; split; [apply Hge1|specialize (Hlt1 _ Hx); lia]; exact Hx|];
             destruct (Hl2 x Hx) as [Hr|Hu]; [left; lia|right; exact Hu]).
      (* label *)
      cbn [compile_stmt] in E1. destruct (get_label cx (NUser l)) as [x0|] eqn:Eg; [|discriminate].
      cbn [obind] in E1. inversion E1; subst. split; [lia|]. intros x Hx. cbn [dlabels].
      destruct Hx as [Hx|Hx].
      * inversion Hx; subst. right. exists l. split; [left; reflexivity|exact Eg].
      * destruct (Hl2 x Hx) as [Hr|(l2 & Hin & Hg)]; [left; exact Hr|right; exists l2; split; [right; exact Hin|exact Hg]].
Qed.

(* ---------------------------------------------------------------- prefixes of a block, restart at a label *)
Fixpoint bapp (a : list stmt) (b : block) : block :=
  match a with [] => b | t :: r => BCons t (bapp r b) end.

Fixpoint compile_seq (cx : ctx) (n : nat) (a : list stmt) : option (code * nat) :=
  match a with
  | [] => Some ([], n)
  | t :: r => obind (compile_stmt cx n t) (fun '(c1, n1) =>
                obind (compile_seq cx n1 r) (fun '(c2, n2) => Some (c1 ++ c2, n2)))
  end.

Definition nolocal (a : list stmt) : Prop := forall t, In t a -> is_local t = false.

Lemma bapp_app : forall a a' b, bapp (a ++ a') b = bapp a (bapp a' b).
Proof. induction a; intros; cbn; [reflexivity|rewrite IHa; reflexivity]. Qed.

Lemma find_label_split : forall l b b', find_label l b = Some b' ->
  exists a, b = bapp a (BCons (SLabel l) b') /\ ~ In (SLabel l) a.
Proof.
  intros l. induction b as [|r|t b IH] using block_ind; intros b' H; try discriminate.
  cbn [find_label] in H.
  assert (G : (exists l', t = SLabel l' /\ Nat.eqb l l' = true /\ b' = b) \/
              ((forall l', t = SLabel l' -> Nat.eqb l l' = false) /\ find_label l b = Some b')).
  { destruct t; try (right; split; [intros; discriminate|exact H]).
    destruct (Nat.eqb l l0) eqn:E; [left; exists l0; inversion H; auto|right; split; [intros l' Hq; inversion Hq; subst; exact E|exact H]]. }
  destruct G as [(l' & -> & E & ->)|(Hn & Hf)].
  - apply Nat.eqb_eq in E. subst l'. exists []. split; [reflexivity|intros []].
  - destruct (IH _ Hf) as (a & -> & Hna). exists (t :: a). split; [reflexivity|].
    intros [Hq|Hq]; [|exact (Hna Hq)]. specialize (Hn l Hq). rewrite Nat.eqb_refl in Hn. discriminate.
Qed.

Lemma find_label_none : forall l b, find_label l b = None -> ~ In l (dlabels b).
Proof.
  intros l. induction b as [|r|t b IH] using block_ind; intros H; try (intros []).
  cbn [find_label] in H.
  destruct t; cbn [dlabels];
    try (apply IH; exact H);
    try (match goal with |- ~ In _ [] => intros [] end).
  destruct (Nat.eqb_spec l l0); [discriminate|]. intros [Hq|Hq]; [congruence|exact (IH H Hq)].
Qed.

Lemma frag_bapp_label : forall a sl l b', fragBl sl (bapp a (BCons (SLabel l) b')) = true ->
  sl = false /\ nolocal a /\ fragBl false b' = true /\ (forall t, In t a -> fragS t = true).
Proof.
  induction a as [|t a IH]; intros sl l b' F.
  - cbn in F. destruct sl; [discriminate|]. cbn in F. repeat split; try (intros ? []). exact F.
  - cbn [bapp fragBl] in F. apply andb_true_iff in F as [F Fr]. apply andb_true_iff in F as [F0 Ft].
    destruct (IH _ _ _ Fr) as (E & Hnl & Fb & Fa). apply orb_false_iff in E as [-> El].
    repeat split; try assumption.
    + intros x [<-|Hx]; [exact El|apply Hnl; exact Hx].
    + intros x [<-|Hx]; [exact Ft|apply Fa; exact Hx].
Qed.

Lemma dlabels_bapp_here : forall a l b', nolocal a -> In l (dlabels (bapp a (BCons (SLabel l) b'))).
Proof.
  induction a as [|t a IH]; intros l b' Hn; [left; reflexivity|].
  assert (Ht : is_local t = false) by (apply Hn; left; reflexivity).
  assert (Hn' : nolocal a) by (intros x Hx; apply Hn; right; exact Hx).
  cbn [bapp dlabels]. destruct t; try discriminate; try (apply IH; exact Hn'). right. apply IH. exact Hn'.
Qed.

Lemma dlabels_bapp_in : forall a l2 b, nolocal a -> In (SLabel l2) a -> In l2 (dlabels (bapp a b)).
Proof.
  induction a as [|t a IH]; intros l2 b Hn Hin; [destruct Hin|].
  assert (Ht : is_local t = false) by (apply Hn; left; reflexivity).
  assert (Hn' : nolocal a) by (intros x Hx; apply Hn; right; exact Hx).
  destruct Hin as [->|Hin]; [left; reflexivity|].
  cbn [bapp dlabels]. destruct t; try discriminate; try (apply IH; assumption). right. apply IH; assumption.
Qed.

Lemma stats_split : forall a cx n tl fb ec b c n', nolocal a ->
  compile_stats cx n tl fb ec (bapp a b) = Some (c, n') ->
  exists ca nb cb, compile_seq cx n a = Some (ca, nb) /\
                   compile_stats cx nb (tl - length a) fb ec b = Some (cb, n') /\ c = ca ++ cb.
Proof.
  induction a as [|t a IH]; intros cx n tl fb ec b c n' Hn H.
  - cbn in *. rewrite Nat.sub_0_r. exists [], n, c. auto.
  - assert (Ht : is_local t = false) by (apply Hn; left; reflexivity).
    assert (Hn' : nolocal a) by (intros x Hx; apply Hn; right; exact Hx).
    cbn [bapp] in H.
    assert (Ec : compile_stats cx n tl fb ec (BCons t (bapp a b)) =
                 obind (compile_stmt cx n t) (fun '(c1, n1) =>
                   obind (compile_stats cx n1 (pred tl) fb ec (bapp a b)) (fun '(c2, n2) => Some (c1 ++ c2, n2)))).
    { destruct t; try reflexivity. discriminate. }
    rewrite Ec in H. clear Ec. cbn [compile_seq].
    destruct (compile_stmt cx n t) as [[c1 n1]|]; [|discriminate]. cbn [obind] in *.
    destruct (compile_stats cx n1 (pred tl) fb ec (bapp a b)) as [[c2 n2]|] eqn:E2; [|discriminate].
    cbn [obind] in H. inversion H; subst. clear H.
    destruct (IH _ _ _ _ _ _ _ _ Hn' E2) as (ca & nb & cb & E3 & E4 & ->).
    rewrite E3. cbn [obind]. exists (c1 ++ ca), nb, cb. split; [reflexivity|]. split; [|apply app_assoc].
    replace (tl - length (t :: a)) with (pred tl - length a) by (cbn; lia). exact E4.
Qed.

Lemma seq_labs : forall a cx n ca nb, cx <> [] -> nolocal a -> (forall t, In t a -> fragS t = true) ->
  compile_seq cx n a = Some (ca, nb) ->
  n <= nb /\ forall x, In (ILabel x) ca ->
     n <= x < nb \/ exists l2, In (SLabel l2) a /\ get_label cx (NUser l2) = Some x.
Proof.
  induction a as [|t a IH]; intros cx n ca nb Hne Hn Hf H.
  - cbn in H. inversion H; subst. split; [lia|intros x []].
  - cbn [compile_seq] in H.
    destruct (compile_stmt cx n t) as [[c1 n1]|] eqn:E1; [|discriminate]. cbn [obind] in H.
    destruct (compile_seq cx n1 a) as [[c2 n2]|] eqn:E2; [|discriminate]. cbn [obind] in H. inversion H; subst. clear H.
    destruct (IH _ _ _ _ Hne (fun x Hx => Hn x (or_intror Hx)) (fun x Hx => Hf x (or_intror Hx)) E2) as (Hle2 & Hl2).
    assert (Ft : fragS t = true) by (apply Hf; left; reflexivity).
    destruct t; try (exfalso; specialize (Hn _ (or_introl eq_refl)); discriminate);
      try (destruct (proj1 compile_labs _ Ft cx n c1 n1 Hne ltac:(intros; discriminate) E1) as (Hle1 & Hge1 & Hlt1);
           split; [lia|]; intros x Hx; apply in_app_or in Hx as [Hx|Hx];
           [left; split; [apply Hge1; exact Hx|specialize (Hlt1 _ Hx); lia]|];
           destruct (Hl2 x Hx) as [Hr|(l2 & Hin & Hg)]; [left; lia|right; exists l2; split; [right; exact Hin|exact Hg]]).
    cbn [compile_stmt] in E1. destruct (get_label cx (NUser l)) as [x0|] eqn:Eg; [|discriminate].
    cbn [obind] in E1. inversion E1; subst. split; [lia|]. intros x [Hx|Hx].
    + inversion Hx; subst. right. exists l. split; [left; reflexivity|exact Eg].
    + destruct (Hl2 x Hx) as [Hr|(l2 & Hin & Hg)]; [left; exact Hr|right; exists l2; split; [right; exact Hin|exact Hg]].
Qed.

Lemma frag_bapp : forall a sl b, nolocal a -> fragBl sl (bapp a b) = true -> fragBl sl b = true.
Proof.
  induction a as [|t a IH]; intros sl b Hn F; [exact F|].
  cbn [bapp fragBl] in F. apply andb_true_iff in F as [F Fr].
  rewrite (Hn t (or_introl eq_refl)), orb_false_r in Fr.
  apply IH; [intros x Hx; apply Hn; right; exact Hx|exact Fr].
Qed.

Lemma find_label_after_local : forall l b, nolabel (shapes b) = true -> find_label l b = None.
Proof.
  intros l. induction b as [|r|t b IH] using block_ind; intros H; try reflexivity.
  cbn in H. apply andb_true_iff in H as [H1 H2]. cbn [find_label].
  destruct t; try discriminate; apply IH; exact H2.
Qed.

(* ---------------------------------------------------------------- label numbers in the context are below the counter *)
Definition ctx_lt (cx : ctx) (n : nat) : Prop :=
  forall s, In s cx -> forall nm x, In (nm, x) (labels s) -> x < n.

Lemma ctx_lt_mono : forall cx n m, ctx_lt cx n -> n <= m -> ctx_lt cx m.
Proof. intros cx n m H Hle s Hs nm x Hx. specialize (H s Hs nm x Hx). lia. Qed.
Lemma ctx_lt_push : forall cx n, ctx_lt cx n -> ctx_lt (push_ctx cx) n.
Proof. intros cx n H s [<-|Hs] nm x Hx; [destruct Hx|exact (H s Hs nm x Hx)]. Qed.
Lemma ctx_lt_add_label : forall cx nm x n, ctx_lt cx n -> x < n -> ctx_lt (add_label cx nm x) n.
Proof.
  intros [|t r] nm x n H Hx; [exact H|]. intros s [<-|Hs] nm' x' Hin.
  - cbn in Hin. destruct Hin as [Hq|Hin]; [inversion Hq; subst; exact Hx|]. exact (H t (or_introl eq_refl) nm' x' Hin).
  - exact (H s (or_intror Hs) nm' x' Hin).
Qed.
Lemma ctx_lt_add_height : forall cx n, ctx_lt cx n -> ctx_lt (add_height cx) n.
Proof.
  intros [|t r] n H; [exact H|]. intros s [<-|Hs] nm x Hin.
  - exact (H t (or_introl eq_refl) nm x Hin).
  - exact (H s (or_intror Hs) nm x Hin).
Qed.
Lemma ctx_lt_local : forall cx v n, ctx_lt cx n -> ctx_lt (local_ctx (push_ctx cx) v) n.
Proof. intros cx v n H. destruct v; cbn [local_ctx]; try apply ctx_lt_add_height; apply ctx_lt_push; exact H. Qed.
Lemma ctx_lt_root : forall n, ctx_lt root_ctx n.
Proof. intros n s [<-|[]] nm x []. Qed.

Lemma get_label_lt : forall cx n name x, ctx_lt cx n -> get_label cx name = Some x -> x < n.
Proof.
  induction cx as [|s r IH]; intros n name x H Hg; cbn in Hg; [discriminate|].
  destruct (scope_label name (labels s)) eqn:E.
  - inversion Hg; subst. apply scope_label_in in E. exact (H s (or_introl eq_refl) _ _ E).
  - apply (IH n name x); [intros s' Hs'; apply H; right; exact Hs'|exact Hg].
Qed.

Lemma gl_ctx_lt : forall b cx n cx1 n1 bo, cx <> [] -> ctx_lt cx n ->
  get_labels cx n (shapes b) = Some (cx1, n1, bo) -> ctx_lt cx1 n1.
Proof.
  induction b as [|r|t b IH] using block_ind; intros cx n cx1 n1 bo Hne Hc H;
    try (cbn in H; inversion H; subst; exact Hc).
  cbn [shapes get_labels] in H. destruct t; cbn [shape_of] in H; try (eapply IH; eassumption).
  - inversion H; subst. exact Hc.
  - unfold declare_unique in H. destruct (get_label cx (NUser l)); [discriminate|].
    eapply IH; [apply add_label_ne; exact Hne| |exact H].
    apply ctx_lt_add_label; [eapply ctx_lt_mono; [exact Hc|lia]|lia].
Qed.

Lemma compile_seq_app : forall a a' cx n ca nb ca' nb',
  compile_seq cx n a = Some (ca, nb) -> compile_seq cx nb a' = Some (ca', nb') ->
  compile_seq cx n (a ++ a') = Some (ca ++ ca', nb').
Proof.
  induction a as [|t a IH]; intros a' cx n ca nb ca' nb' H H'.
  - cbn in H. inversion H; subst. exact H'.
  - cbn [compile_seq app] in *. destruct (compile_stmt cx n t) as [[c1 n1]|]; [|discriminate]. cbn [obind] in *.
    destruct (compile_seq cx n1 a) as [[c2 n2]|] eqn:E; [|discriminate]. cbn [obind] in H. inversion H; subst.
    rewrite (IH _ _ _ _ _ _ _ E H'). cbn. rewrite app_assoc. reflexivity.
Qed.
