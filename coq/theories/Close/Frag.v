(* Close/Frag.v — the goto-free fragment of the skeleton language and what the
   compiler slice does on it: no label pre-declaration, explicit equations per
   construct, label numbers of the emitted code. *)
From Coq Require Import List Arith Bool Lia.
From GV Require Import Close.Skel Close.Compile Close.VMclose Close.VMLemmas.
Import ListNotations.

(* Everything except goto/labels, repeat and for-in loops. *)
Fixpoint fragS (t : stmt) {struct t} : bool :=
  match t with
  | SLocal _ | SBreak | SMark _ | SYield | SRaise _ => true
  | SGoto _ | SLabel _ => false
  | SDo b | SIf b | SCall b | SPcall b | SCoro b _ => fragB b
  | SLoop LWhile b => fragB b
  | SLoop _ _ => false
  end
with fragB (b : block) {struct b} : bool :=
  match b with
  | BNil => true
  | BRet r => fragR r
  | BCons t r => fragS t && fragB r
  end
with fragR (r : ret) {struct r} : bool :=
  match r with RPlain => true | RCall b => fragB b end.

Definition nolabel (sh : list shape) : bool :=
  forallb (fun x => match x with ShLabel _ => false | _ => true end) sh.

Lemma get_labels_nolabel : forall sh cx n, nolabel sh = true -> exists bo, get_labels cx n sh = Some (cx, n, bo).
Proof.
  induction sh as [|x sh IH]; intros cx n H; cbn [get_labels]; [eauto|].
  cbn in H. destruct x; try discriminate; [eauto|apply IH; assumption].
Qed.

Lemma nolabel_firstn : forall k sh, nolabel sh = true -> nolabel (firstn k sh) = true.
Proof.
  induction k; intros [|x sh] H; cbn; try reflexivity.
  cbn in H. apply andb_true_iff in H as [H1 H2]. rewrite H1. cbn. apply IHk. assumption.
Qed.

Lemma get_back_labels_nolabel : forall sh cx n, nolabel sh = true -> get_back_labels cx n (rev sh) 0 = Some (cx, n, 0).
Proof.
  intros sh cx n H. destruct (rev sh) as [|x r] eqn:E; [reflexivity|].
  assert (Hin : In x sh) by (apply in_rev; rewrite E; left; reflexivity).
  unfold nolabel in H. rewrite forallb_forall in H. specialize (H x Hin).
  destruct x; try discriminate; reflexivity.
Qed.

Lemma frag_nolabel : forall b, fragB b = true -> nolabel (shapes b) = true.
Proof.
  induction b as [|r|t b IH] using block_ind; try reflexivity.
  cbn [fragB]. intro H. apply andb_true_iff in H as [H1 H2].
  unfold nolabel in *. cbn [shapes forallb]. rewrite (IH H2).
  destruct t; try discriminate; reflexivity.
Qed.

Lemma prologue_frag : forall b cx n complete fb, fragB b = true ->
  block_prologue cx n b complete fb = Some (cx, n, length (shapes b)).
Proof.
  intros b cx n complete fb H. unfold block_prologue.
  destruct (get_labels_nolabel (shapes b) cx n (frag_nolabel b H)) as [bo E]. rewrite E.
  destruct (complete && negb bo && negb (has_ret b || fb)); [|reflexivity].
  rewrite (get_back_labels_nolabel _ _ _ (frag_nolabel b H)). rewrite Nat.sub_0_r. reflexivity.
Qed.

(* ---------------------------------------------------------------- equations *)
Lemma compile_local_eq : forall cx n tl fb ec v rest, fragB rest = true ->
  compile_stats cx n tl fb ec (BCons (SLocal v) rest) =
  obind (compile_stats (local_ctx (push_ctx cx) v) n (pred tl) fb ec rest) (fun '(c, n3) =>
    Some (local_code v ++ c ++ pop_code (local_ctx (push_ctx cx) v), n3)).
Proof.
  intros. cbn [compile_stats].
  destruct (get_labels_nolabel (firstn (pred tl) (shapes rest)) (push_ctx cx) n
              (nolabel_firstn _ _ (frag_nolabel rest H))) as [bo E].
  rewrite E. reflexivity.
Qed.

Lemma compile_fun_eq : forall b, fragB b = true ->
  compile_fun b = obind (compile_stats root_ctx 0 (length (shapes b)) true [] b) (fun '(c, _) => Some c).
Proof. intros b H. unfold compile_fun. rewrite (prologue_frag b _ _ _ _ H). reflexivity. Qed.

Lemma compile_do_eq : forall cx n b, fragB b = true ->
  compile_stmt cx n (SDo b) =
  obind (compile_stats (push_ctx cx) n (length (shapes b)) false [] b) (fun '(c, n') =>
    Some (c ++ pop_code (push_ctx cx), n')).
Proof. intros. cbn [compile_stmt]. rewrite (prologue_frag b _ _ _ _ H). reflexivity. Qed.

Lemma compile_while_eq : forall cx n b, fragB b = true ->
  compile_stmt cx n (SLoop LWhile b) =
  let cx2 := add_label (push_ctx cx) NBreak n in
  obind (compile_stats (push_ctx cx2) (n + 2) (length (shapes b)) false [] b) (fun '(c, n') =>
    Some ([ILabel (n + 1); IJumpIf n true false] ++ (c ++ pop_code (push_ctx cx2))
          ++ [IJump (n + 1); ILabel n] ++ pop_code cx2, n')).
Proof.
  intros. cbn [compile_stmt]. rewrite (prologue_frag b _ _ _ _ H). cbn [obind].
  destruct (compile_stats _ _ _ _ _ b) as [[c n']|]; reflexivity.
Qed.

Lemma compile_if_eq : forall cx n b, fragB b = true ->
  compile_stmt cx n (SIf b) =
  obind (compile_stats (push_ctx cx) (n + 2) (length (shapes b)) false [] b) (fun '(c, n') =>
    Some ([IJumpIf (n + 1) true false] ++ (c ++ pop_code (push_ctx cx)) ++ [ILabel (n + 1); ILabel n], n')).
Proof.
  intros. cbn [compile_stmt]. rewrite (prologue_frag b _ _ _ _ H). cbn [obind].
  destruct (compile_stats _ _ _ _ _ b) as [[c n']|]; reflexivity.
Qed.

Lemma compile_call_eq : forall cx n b,
  compile_stmt cx n (SCall b) = obind (compile_fun b) (fun c => Some ([ICall c], n)).
Proof. intros. cbn [compile_stmt]. unfold compile_fun. destruct (block_prologue _ _ _ _ _) as [[[? ?] ?]|]; reflexivity. Qed.
Lemma compile_pcall_eq : forall cx n b,
  compile_stmt cx n (SPcall b) = obind (compile_fun b) (fun c => Some ([IPcall c], n)).
Proof. intros. cbn [compile_stmt]. unfold compile_fun. destruct (block_prologue _ _ _ _ _) as [[[? ?] ?]|]; reflexivity. Qed.
Lemma compile_coro_eq : forall cx n b k,
  compile_stmt cx n (SCoro b k) = obind (compile_fun b) (fun c => Some ([ICoro c k], n)).
Proof. intros. cbn [compile_stmt]. unfold compile_fun. destruct (block_prologue _ _ _ _ _) as [[[? ?] ?]|]; reflexivity. Qed.

Lemma compile_retcall_eq : forall cx n tl fb ec body,
  compile_stats cx n tl fb ec (BRet (RCall body)) =
  obind (compile_fun body) (fun c =>
    if Nat.eqb (top_height cx) 0 then Some ([ITailCall c], n) else Some ([ICall c; IRet], n)).
Proof.
  intros. cbn [compile_stats]. unfold compile_fun.
  destruct (block_prologue _ _ _ _ _) as [[[? ?] ?]|]; [|reflexivity].
  destruct (compile_stats _ _ _ _ _ body) as [[? ?]|]; reflexivity.
Qed.

(* ---------------------------------------------------------------- jump targets *)
Fixpoint jump_target (cx : ctx) (name : lname) : option (nat * nat) :=
  match cx with
  | [] => None
  | s :: r => match scope_label name (labels s) with Some l => Some (l, height s) | None => jump_target r name end
  end.

Lemma emit_jump_from_target : forall cx curh name,
  emit_jump_from curh cx name =
  match jump_target cx name with Some (l, h) => Some (emit_truncate h curh ++ [IJump l]) | None => None end.
Proof.
  induction cx as [|s r IH]; intros; cbn [emit_jump_from jump_target]; [reflexivity|].
  destruct (scope_label name (labels s)); [reflexivity|apply IH].
Qed.

(* heights never exceed the height of the innermost scope *)
Definition hle (cx : ctx) : Prop := forall s, In s cx -> height s <= top_height cx.

Lemma hle_push : forall cx, hle cx -> hle (push_ctx cx).
Proof.
  intros cx H s [<-|Hin]; cbn; [lia|]. destruct cx as [|t r]; [destruct Hin|]. apply (H s Hin).
Qed.
Lemma hle_add_label : forall cx name l, hle cx -> hle (add_label cx name l).
Proof.
  intros [|t r] name l H; [exact H|]. intros s [<-|Hin]; cbn; [lia|]. apply (H s). right. exact Hin.
Qed.
Lemma hle_add_height : forall cx, hle cx -> hle (add_height cx).
Proof.
  intros [|t r] H; [exact H|]. intros s [<-|Hin]; cbn; [lia|].
  specialize (H s (or_intror Hin)). cbn in H. lia.
Qed.
Lemma hle_local : forall cx v, hle cx -> hle (local_ctx (push_ctx cx) v).
Proof. intros cx v H. destruct v; cbn [local_ctx]; try apply hle_add_height; apply hle_push; exact H. Qed.
Lemma hle_root : hle root_ctx.
Proof. intros s [<-|[]]. cbn. lia. Qed.

Lemma jump_target_le : forall cx name l h, hle cx -> jump_target cx name = Some (l, h) -> h <= top_height cx.
Proof.
  intros cx name l h H. assert (G : forall c, (forall s, In s c -> height s <= top_height cx) ->
    jump_target c name = Some (l, h) -> h <= top_height cx).
  { induction c as [|s r IH]; intros Hc E; cbn in E; [discriminate|].
    destruct (scope_label name (labels s)).
    - inversion E; subst. apply Hc. left. reflexivity.
    - apply IH; [intros; apply Hc; right; assumption|exact E]. }
  apply G. exact H.
Qed.

Lemma jump_target_push : forall cx name, jump_target (push_ctx cx) name = jump_target cx name.
Proof. reflexivity. Qed.
Lemma jump_target_local : forall cx v name, jump_target (local_ctx (push_ctx cx) v) name = jump_target cx name.
Proof. intros cx v name. destruct v; reflexivity. Qed.

Lemma top_height_local : forall cx v,
  top_height (local_ctx (push_ctx cx) v) = match v with VPlain => top_height cx | _ => S (top_height cx) end.
Proof. intros cx v. destruct v; reflexivity. Qed.

Lemma pop_code_push : forall cx, pop_code (push_ctx cx) = [].
Proof. intros cx. cbn. unfold emit_truncate. rewrite Nat.ltb_irrefl. reflexivity. Qed.

Lemma pop_code_local : forall cx v,
  pop_code (local_ctx (push_ctx cx) v) = match v with VPlain => [] | _ => [IClTrunc (top_height cx)] end.
Proof.
  intros cx v. destruct v; cbn; unfold emit_truncate; rewrite ?Nat.ltb_irrefl; try reflexivity;
    destruct (Nat.ltb_spec (top_height cx) (S (top_height cx))); try reflexivity; lia.
Qed.

(* ---------------------------------------------------------------- label ranges *)
Definition rng (c : code) (n n' : nat) : Prop := n <= n' /\ lab_ge c n /\ lab_lt c n'.

Ltac nolab := let l := fresh in let H := fresh in
  intros l H; cbn in H; repeat (destruct H as [H|H]; [discriminate|]); try destruct H.

Lemma rng_nolab : forall c n, (forall l, ~ In (ILabel l) c) -> rng c n n.
Proof. intros c n H. split; [lia|]. split; intros l Hl; exfalso; apply (H l Hl). Qed.

Lemma rng_app : forall a b n m k, rng a n m -> rng b m k -> rng (a ++ b) n k.
Proof.
  intros a b n m k (H1 & H2 & H3) (H4 & H5 & H6). split; [lia|]. split.
  - apply lab_ge_app; [assumption|eapply lab_ge_mono; eauto].
  - apply lab_lt_app; [eapply lab_lt_mono; eauto|assumption].
Qed.

Lemma local_code_nolab : forall v l, ~ In (ILabel l) (local_code v).
Proof. intros [| |id h|id] l H; cbn in H; repeat (destruct H as [H|H]; [discriminate|]); destruct H. Qed.

Lemma emit_truncate_nolab : forall h c l, ~ In (ILabel l) (emit_truncate h c).
Proof. intros h c l H. unfold emit_truncate in H. destruct (h <? c); cbn in H; [destruct H as [H|H]; [discriminate|destruct H]|destruct H]. Qed.

Lemma pop_code_nolab : forall cx l, ~ In (ILabel l) (pop_code cx).
Proof. intros [|t r] l H; [destruct H|]. cbn in H. eapply emit_truncate_nolab. exact H. Qed.

Scheme stmt_mutind := Induction for stmt Sort Prop
  with block_mutind := Induction for block Sort Prop
  with ret_mutind := Induction for ret Sort Prop.
Combined Scheme skel_mutind from stmt_mutind, block_mutind, ret_mutind.

Lemma compile_rng :
  (forall t, fragS t = true -> forall cx n c n', compile_stmt cx n t = Some (c, n') -> rng c n n') /\
  (forall b, fragB b = true -> forall cx n tl fb c n', compile_stats cx n tl fb [] b = Some (c, n') -> rng c n n') /\
  (forall r : ret, True).
Proof.
  apply skel_mutind; try (intros; exact I).
  - (* SLocal *) intros v _ cx n c n' H. discriminate.
  - (* SDo *) intros b IH F cx n c n' H. cbn [fragS] in F. rewrite (compile_do_eq _ _ _ F) in H.
    destruct (compile_stats _ _ _ _ _ b) as [[c0 n0]|] eqn:E; [|discriminate]. cbn in H. inversion H; subst.
    rewrite <- (app_nil_r (c0 ++ _)), <- app_assoc. eapply rng_app; [eapply IH; eauto|].
    apply rng_nolab. intros l Hl. rewrite app_nil_r in Hl. first [eapply pop_code_nolab; exact Hl | eapply emit_truncate_nolab; exact Hl].
  - (* SLoop *) intros k b IH F cx n c n' H. destruct k; try discriminate. cbn [fragS] in F.
    rewrite (compile_while_eq _ _ _ F) in H. cbv zeta in H.
    destruct (compile_stats _ _ _ _ _ b) as [[c0 n0]|] eqn:E; [|discriminate]. cbn [obind] in H.
    rewrite pop_code_push, app_nil_r in H. inversion H; subst.
    destruct (IH F _ _ _ _ _ _ E) as (H1 & H2 & H3).
    split; [lia|]. split.
    + intros l Hl. cbn in Hl. destruct Hl as [Hl|[Hl|Hl]]; [inversion Hl; lia|discriminate|].
      apply in_app_or in Hl as [Hl|Hl]; [specialize (H2 l Hl); lia|].
      cbn in Hl. destruct Hl as [Hl|[Hl|Hl]]; [discriminate|inversion Hl; lia|].
      exfalso. first [eapply pop_code_nolab; exact Hl | eapply emit_truncate_nolab; exact Hl].
    + intros l Hl. cbn in Hl. destruct Hl as [Hl|[Hl|Hl]]; [inversion Hl; lia|discriminate|].
      apply in_app_or in Hl as [Hl|Hl]; [apply (H3 l Hl)|].
      cbn in Hl. destruct Hl as [Hl|[Hl|Hl]]; [discriminate|inversion Hl; lia|].
      exfalso. first [eapply pop_code_nolab; exact Hl | eapply emit_truncate_nolab; exact Hl].
  - (* SIf *) intros b IH F cx n c n' H. cbn [fragS] in F. rewrite (compile_if_eq _ _ _ F) in H.
    destruct (compile_stats _ _ _ _ _ b) as [[c0 n0]|] eqn:E; [|discriminate]. cbn [obind] in H.
    rewrite pop_code_push, app_nil_r in H. inversion H; subst.
    destruct (IH F _ _ _ _ _ _ E) as (H1 & H2 & H3).
    split; [lia|]. split.
    + intros l Hl. cbn in Hl. destruct Hl as [Hl|Hl]; [discriminate|].
      apply in_app_or in Hl as [Hl|Hl]; [specialize (H2 l Hl); lia|].
      cbn in Hl. destruct Hl as [Hl|[Hl|Hl]]; [inversion Hl; lia|inversion Hl; lia|destruct Hl].
    + intros l Hl. cbn in Hl. destruct Hl as [Hl|Hl]; [discriminate|].
      apply in_app_or in Hl as [Hl|Hl]; [apply (H3 l Hl)|].
      cbn in Hl. destruct Hl as [Hl|[Hl|Hl]]; [inversion Hl; lia|inversion Hl; lia|destruct Hl].
  - (* SBreak *) intros _ cx n c n' H. cbn [compile_stmt] in H. unfold emit_jump in H.
    rewrite emit_jump_from_target in H. destruct (jump_target cx NBreak) as [[l h]|]; [|discriminate].
    cbn in H. inversion H; subst. apply rng_nolab. intros l0 Hl. apply in_app_or in Hl as [Hl|Hl].
    + eapply emit_truncate_nolab. exact Hl.
    + destruct Hl as [Hl|[]]. discriminate.
  - (* SGoto *) intros l F. discriminate.
  - (* SLabel *) intros l F. discriminate.
  - (* SMark *) intros m _ cx n c n' H. inversion H; subst. apply rng_nolab. nolab.
  - (* SCall *) intros b IH F cx n c n' H. rewrite compile_call_eq in H.
    destruct (compile_fun b); [|discriminate]. inversion H; subst. apply rng_nolab. nolab.
  - (* SPcall *) intros b IH F cx n c n' H. rewrite compile_pcall_eq in H.
    destruct (compile_fun b); [|discriminate]. inversion H; subst. apply rng_nolab. nolab.
  - (* SCoro *) intros b IH k F cx n c n' H. rewrite compile_coro_eq in H.
    destruct (compile_fun b); [|discriminate]. inversion H; subst. apply rng_nolab. nolab.
  - (* SYield *) intros _ cx n c n' H. inversion H; subst. apply rng_nolab. nolab.
  - (* SRaise *) intros e _ cx n c n' H. inversion H; subst. apply rng_nolab. nolab.
  - (* BNil *) intros _ cx n tl fb c n' H. cbn in H. inversion H; subst. apply rng_nolab. destruct fb; nolab.
  - (* BRet *) intros r _ F cx n tl fb c n' H. destruct r as [|body].
    + inversion H; subst. apply rng_nolab. nolab.
    + rewrite compile_retcall_eq in H. destruct (compile_fun body); [|discriminate]. cbn in H.
      destruct (top_height cx =? 0); inversion H; subst; apply rng_nolab; nolab.
  - (* BCons *) intros t IHt rest IHr F cx n tl fb c n' H. cbn [fragB] in F. apply andb_true_iff in F as [Ft Fr].
    destruct t; try discriminate;
      try (cbn [compile_stats] in H;
           match type of H with context [compile_stmt ?a ?b ?t] =>
             destruct (compile_stmt a b t) as [[c1 n1]|] eqn:E1; [|discriminate] end;
           cbn [obind] in H;
           destruct (compile_stats cx n1 (pred tl) fb [] rest) as [[c2 n2]|] eqn:E2; [|discriminate];
           cbn [obind] in H; inversion H; subst;
           eapply rng_app; [eapply IHt; eauto|eapply IHr; eauto]).
    (* local *)
    rewrite (compile_local_eq _ _ _ _ _ _ _ Fr) in H.
    destruct (compile_stats _ _ _ _ _ rest) as [[c0 n0]|] eqn:E; [|discriminate]. cbn in H. inversion H; subst.
    eapply (rng_app _ _ n n); [apply rng_nolab; apply local_code_nolab|].
    rewrite <- (app_nil_r (c0 ++ _)), <- app_assoc.
    eapply rng_app; [eapply IHr; eauto|]. apply rng_nolab. intros l Hl. rewrite app_nil_r in Hl.
    first [eapply pop_code_nolab; exact Hl | eapply emit_truncate_nolab; exact Hl].
Qed.
