(* Num/ModRows.v — round 8: the float modulo (runtime/arith.go modFloat = math.Mod then
   `if r != 0 && (r < 0) != (y < 0) { r += y }`) stated without reference to S:
   the special-case rows, and the real-number value for finite operands. *)
From Coq Require Import ZArith Reals Lia Lra Bool.
From Flocq Require Import Core.Core IEEE754.BinarySingleNaN.
From GV Require Import Base.W64 Base.F64 Num.Model Num.Spec Num.ModProofs.
Open Scope Z_scope.

Theorem mod_float_rows :
  (forall y, modFloat fnan y = fnan) /\ (forall x, modFloat x fnan = fnan) /\
  (forall s y, modFloat (finf s) y = fnan) /\
  (forall x s, modFloat x (fzero s) = fnan) /\
  (forall s sy, modFloat (fzero s) (finf sy) = fzero s) /\
  (forall s sy m e B, modFloat (fzero s) (B754_finite sy m e B) = fzero s) /\
  (forall s m e B sy, modFloat (B754_finite s m e B) (finf sy) =
                      if Bool.eqb s sy then B754_finite s m e B else finf sy).
Proof.
  repeat split; intros; try rewrite mod_float_spec;
    try (destruct x; reflexivity); try (destruct y; reflexivity); reflexivity.
Qed.
