(* Num/ForLoop.v — numeric for loops.
   IM: mirror of the Type7 opcodes of /repo/runtime/luacont.go (prepfor, advfor)
   and of the compiled loop shape (astcomp/compstat.go ProcessForStat):
       prepfor r1,r2,r3 ; if not r1 jump END ; LOOP: r4 <- r1 ; body ; advfor r1,r2,r3 ; if r1 jump LOOP
   S: the manual's definition (§3.3.5): integer loop iff start and step are
   integers, the float limit is clipped; otherwise all three are floats; the
   body sees start, start+step, ... while <= limit (>= for a negative step);
   an integer loop never wraps.
   Definitions only (extracted). *)
From Coq Require Import ZArith Bool List.
From Flocq Require Import Core.Core IEEE754.BinarySingleNaN.
From GV Require Import Base.W64 Base.F64 Num.Model Num.Spec Num.Ops.
Import ListNotations.
Open Scope Z_scope.

(* ------------------------------------------------------------------ IM *)
Inductive prep_res : Type :=
| PErrZero                                   (* "'for' step is zero" *)
| PSkip                                      (* start register set to nil *)
| PStart (start limit step : num).

(* func forLimit(limit Value, step int64) (int64, bool): clip the limit of an integer loop *)
Definition forLimit (limit : num) (step : Z) : Z * bool :=
  match limit with
  | NInt n => (n, false)
  | NFlt f0 =>
      let f := if 0 <? step then ffloor f0 else fceil f0 in
      if fis_nan f then (0, true)
      else if fle f2p63 f then (maxint, step <? 0)
      else if flt f (fneg f2p63) then (minint, 0 <? step)
      else (go_f2i f, false)
  end.

(* operands are numbers here: ToNumberValue has been applied (strings converted, non-numbers rejected).
   After the repair: zero-step test; integer loop iff start and step are integers (limit clipped by
   forLimit, initial test on integers); otherwise the three values become floats and the loop runs
   iff start <= stop (start >= stop when the step is not positive). *)
Definition prepfor (start stop step : num) : prep_res :=
  if isZero step then PErrZero else
  match start, step with
  | NInt a, NInt st =>
      let '(limit, done) := forLimit stop st in
      let done := if done then true else if 0 <? st then limit <? a else a <? limit in
      if done then PSkip else PStart start (NInt limit) step
  | _, _ =>
      let fs := tofloat start in let fl := tofloat stop in let fst := tofloat step in
      let done := if flt fzero0 fst then negb (fle fs fl) else negb (fle fl fs) in
      if done then PSkip else PStart (NFlt fs) (NFlt fl) (NFlt fst)
  end.

(* advfor: integer value: Add, overflow test, exact comparison with the (integer) limit;
   float value: continue iff next <= stop (next >= stop when the step is not positive).
   prepfor guarantees that stop is a float in a float loop (tofloat is the identity there). *)
Definition advfor (start stop step : num) : option num :=
  let next := add start step in
  let done :=
    match next with
    | NInt _ => if isPositive step then num_lt stop next || num_lt next start
                else num_lt next stop || num_lt start next
    | NFlt nf => if isPositive step then negb (fle nf (tofloat stop)) else negb (fle (tofloat stop) nf)
    end in
  if done then None else Some next.

(* the loop: values seen by the body; false = fuel exhausted, still running *)
Fixpoint run_loop (fuel : nat) (start stop step : num) : list num * bool :=
  match fuel with
  | O => ([], false)
  | S k =>
      match advfor start stop step with
      | None => ([start], true)
      | Some n => let '(l, fin) := run_loop k n stop step in (start :: l, fin)
      end
  end.

Inductive for_res : Type :=
| FErrZero
| FRun (vals : list num) (finished : bool).

Definition for_im (fuel : nat) (start stop step : num) : for_res :=
  match prepfor start stop step with
  | PErrZero => FErrZero
  | PSkip => FRun [] true
  | PStart s l st => let '(vs, fin) := run_loop fuel s l st in FRun vs fin
  end.

(* ------------------------------------------------------------------ S *)
(* arithmetic progression s, s+st, ... (k terms) *)
Fixpoint prog (k : nat) (s st : Z) : list Z :=
  match k with O => [] | S k' => s :: prog k' (s + st) st end.

(* clip a limit to an integer for an integer loop; None = the loop does not run *)
Definition s_forlimit (limit : num) (step : Z) : option Z :=
  match limit with
  | NInt l => Some l
  | NFlt f =>
      match f with
      | B754_nan => None
      | B754_infinity s => if s then (if 0 <? step then None else Some minint)
                           else (if step <? 0 then None else Some maxint)
      | _ => match (if 0 <? step then s_floor_z f else s_ceil_z f) with
             | Some z => if in64b z then Some z
                         else if 0 <? z then (if step <? 0 then None else Some maxint)
                         else (if 0 <? step then None else Some minint)
             | None => None
             end
      end
  end.

(* number of iterations of an integer loop with integer limit l *)
Definition s_count (s l st : Z) : Z :=
  if 0 <? st then (if l <? s then 0 else (l - s) / st + 1)
  else (if s <? l then 0 else (s - l) / (- st) + 1).

(* min(fuel, c) as a nat, without ever building the (possibly 2^64-sized) nat for c *)
Definition take_count (fuel : nat) (c : Z) : nat := Z.to_nat (Z.min (Z.of_nat fuel) c).

(* float loop: iterate x, x+st, ... while x <= limit (>= for negative step) *)
Fixpoint s_float_loop (fuel : nat) (x limit st : f64) : list num * bool :=
  match fuel with
  | O => ([], false)
  | S k =>
      let x' := fadd x st in
      let cont := if flt fzero0 st then fle x' limit else fle limit x' in
      if cont then let '(l, fin) := s_float_loop k x' limit st in (NFlt x :: l, fin)
      else ([NFlt x], true)
  end.

Definition for_s (fuel : nat) (start limit step : num) : for_res :=
  match start, step with
  | NInt s, NInt st =>
      if st =? 0 then FErrZero else
      match s_forlimit limit st with
      | None => FRun [] true
      | Some l => let c := s_count s l st in
                  FRun (map NInt (prog (take_count fuel c) s st)) (c <=? Z.of_nat fuel)
      end
  | _, _ =>
      let x := tofloat start in let st := tofloat step in let l := tofloat limit in
      if feq st fzero0 then FErrZero else
      let run := if flt fzero0 st then fle x l else fle l x in
      if run then let '(vs, fin) := s_float_loop fuel x l st in FRun vs fin
      else FRun [] true
  end.

(* ------------------------------------------------------------------ operands that may not be numbers *)
(* The three control values as Lua values: a number, or something ToNumberValue turns into a number
   (a numeric string; the conversion itself is C02's subject and is a parameter here), or not a number. *)
Inductive forval : Type :=
| FVNum (x : num)
| FVConv (x : num)       (* a string that converts to x *)
| FVBad.                 (* nil, boolean, table, non-numeric string, ... *)

Definition fv_num (v : forval) : option num :=
  match v with FVNum x | FVConv x => Some x | FVBad => None end.

Inductive forv_res : Type :=
| FVErrInit | FVErrLimit | FVErrStep     (* "'for' initial value/limit/step: expected number, got ..." *)
| FVRes (r : for_res).

(* prepfor when the start or the step register held a (numeric) string: after the zero-step test the loop is
   a float loop whatever the numeric types (runtime/luacont.go prepfor: `tstart == IsInt && tstep == IsInt &&
   !startIsString && !stepIsString` selects the integer loop) *)
Definition prepfor_float (start stop step : num) : prep_res :=
  if isZero step then PErrZero else
  let fs := tofloat start in let fl := tofloat stop in let fst := tofloat step in
  let done := if flt fzero0 fst then negb (fle fs fl) else negb (fle fl fs) in
  if done then PSkip else PStart (NFlt fs) (NFlt fl) (NFlt fst).

Definition prepfor_v (anystr : bool) : num -> num -> num -> prep_res :=
  if anystr then prepfor_float else prepfor.

Definition for_im_gen (anystr : bool) (fuel : nat) (start stop step : num) : for_res :=
  match prepfor_v anystr start stop step with
  | PErrZero => FErrZero
  | PSkip => FRun [] true
  | PStart s l st => let '(vs, fin) := run_loop fuel s l st in FRun vs fin
  end.

Definition fv_is_str (v : forval) : bool := match v with FVConv _ => true | _ => false end.

(* prepfor on values: ToNumberValue on the three registers, error naming the first non-number in the
   order start, limit, step; then the numeric prepfor, a float loop if start or step was a string *)
Definition for_im_val (fuel : nat) (start stop step : forval) : forv_res :=
  match fv_num start, fv_num stop, fv_num step with
  | None, _, _ => FVErrInit
  | Some _, None, _ => FVErrLimit
  | Some _, Some _, None => FVErrStep
  | Some a, Some b, Some c => FVRes (for_im_gen (fv_is_str start || fv_is_str step) fuel a b c)
  end.

(* S on values: the loop is an integer loop only if the initial value and the step ARE integers; a
   numeric string is not an integer, so it makes a float loop ("otherwise, the three values are converted
   to floats"; PUC-Lua 5.3/5.4 behave so: for i="1",2 yields 1.0, 2.0).  A string limit is just its number. *)
Definition fv_is_int (v : forval) : bool := match v with FVNum (NInt _) => true | _ => false end.

Definition for_s_val (fuel : nat) (start stop step : forval) : forv_res :=
  match fv_num start, fv_num stop, fv_num step with
  | None, _, _ => FVErrInit
  | Some _, None, _ => FVErrLimit
  | Some _, Some _, None => FVErrStep
  | Some a, Some b, Some c =>
      if fv_is_int start && fv_is_int step then FVRes (for_s fuel a b c)
      else FVRes (for_s fuel (NFlt (tofloat a)) b (NFlt (tofloat c)))
  end.

(* the former defect class (finding C16-string-start-step-integer-loop, repaired): a numeric string that
   denotes an integer in the start or step position while both denote integers: golua used to run an integer loop *)
Definition fv_conv_int (v : forval) : bool := match v with FVConv (NInt _) => true | _ => false end.
Definition fv_denotes_int (v : forval) : bool := match fv_num v with Some (NInt _) => true | _ => false end.
Definition string_loop_defect (start step : forval) : bool :=
  (fv_conv_int start || fv_conv_int step) && fv_denotes_int start && fv_denotes_int step.
