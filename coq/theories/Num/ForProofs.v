(* Num/ForProofs.v — C16: the integer numeric for loop of golua (prepfor /
   advfor, Num/ForLoop.v) runs through exactly the arithmetic progression the
   manual defines, never wraps and terminates within the implied count.
   All statements are for ALL int64 start/limit/step (step <> 0); induction is
   on the fuel with the start value generalised — nothing is computed. *)
From Coq Require Import ZArith Lia Bool List Reals Lra.
From Flocq Require Import Core.Core IEEE754.BinarySingleNaN.
From GV Require Import Base.W64 Base.W64Lemmas Base.F64 Base.F64Lemmas Num.Model Num.Spec Num.Ops Num.ForLoop.
Import ListNotations.
Open Scope Z_scope.

Lemma two63' : 2 ^ 63 = 9223372036854775808. Proof. reflexivity. Qed.

(* one advfor step, positive step *)
Lemma advfor_pos s l st : in64 s -> in64 l -> in64 st -> 0 < st -> s <= l ->
  advfor (NInt s) (NInt l) (NInt st) = if s + st <=? l then Some (NInt (s + st)) else None.
Proof.
  intros Hs Hl Hst P Le. unfold advfor. cbn [add isPositive num_lt].
  destruct (Z.ltb_spec 0 st); [|lia].
  unfold add64. unfold in64 in *. rewrite two63' in *.
  destruct (Z.leb_spec (s + st) l) as [A|A].
  - rewrite wrap64_id by (unfold in64; rewrite two63'; lia).
    destruct (Z.ltb_spec l (s + st)), (Z.ltb_spec (s + st) s); try lia. reflexivity.
  - destruct (Z_lt_le_dec (s + st) 9223372036854775808) as [NoOv|Ov].
    + rewrite wrap64_id by (unfold in64; rewrite two63'; lia).
      destruct (Z.ltb_spec l (s + st)); [reflexivity|lia].
    + assert (W : wrap64 (s + st) = s + st - 2 ^ 64).
      { apply wrap64_unique with (k := -1). unfold in64. rewrite two63'. change (2 ^ 64) with 18446744073709551616. lia. ring. }
      rewrite W. change (2 ^ 64) with 18446744073709551616.
      destruct (Z.ltb_spec (s + st - 18446744073709551616) s); [|lia].
      rewrite orb_true_r. reflexivity.
Qed.

(* one advfor step, negative step *)
Lemma advfor_neg s l st : in64 s -> in64 l -> in64 st -> st < 0 -> l <= s ->
  advfor (NInt s) (NInt l) (NInt st) = if l <=? s + st then Some (NInt (s + st)) else None.
Proof.
  intros Hs Hl Hst P Le. unfold advfor. cbn [add isPositive num_lt].
  destruct (Z.ltb_spec 0 st); [lia|].
  unfold add64. unfold in64 in *. rewrite two63' in *.
  destruct (Z.leb_spec l (s + st)) as [A|A].
  - rewrite wrap64_id by (unfold in64; rewrite two63'; lia).
    destruct (Z.ltb_spec (s + st) l), (Z.ltb_spec s (s + st)); try lia. reflexivity.
  - destruct (Z_le_gt_dec (- 9223372036854775808) (s + st)) as [NoOv|Ov].
    + rewrite wrap64_id by (unfold in64; rewrite two63'; lia).
      destruct (Z.ltb_spec (s + st) l); [reflexivity|lia].
    + assert (W : wrap64 (s + st) = s + st + 2 ^ 64).
      { apply wrap64_unique with (k := 1). unfold in64. rewrite two63'. change (2 ^ 64) with 18446744073709551616. lia. ring. }
      rewrite W. change (2 ^ 64) with 18446744073709551616.
      destruct (Z.ltb_spec s (s + st + 18446744073709551616)); [|lia].
      rewrite orb_true_r. reflexivity.
Qed.

Lemma count_pos_step s l st : 0 < st -> s <= l ->
  (s + st <= l -> s_count s l st = s_count (s + st) l st + 1) /\
  (l < s + st -> s_count s l st = 1) /\ 1 <= s_count s l st.
Proof.
  intros P Le. unfold s_count. destruct (Z.ltb_spec 0 st); [|lia].
  destruct (Z.ltb_spec l s); [lia|].
  repeat split.
  - intros A. destruct (Z.ltb_spec l (s + st)); [lia|].
    replace (l - s) with ((l - (s + st)) + 1 * st) by ring. rewrite Z.div_add by lia. ring.
  - intros A. rewrite Z.div_small by lia. reflexivity.
  - pose proof (Z.div_pos (l - s) st ltac:(lia) ltac:(lia)). lia.
Qed.

Lemma count_neg_step s l st : st < 0 -> l <= s ->
  (l <= s + st -> s_count s l st = s_count (s + st) l st + 1) /\
  (s + st < l -> s_count s l st = 1) /\ 1 <= s_count s l st.
Proof.
  intros P Le. unfold s_count. destruct (Z.ltb_spec 0 st); [lia|].
  destruct (Z.ltb_spec s l); [lia|].
  repeat split.
  - intros A. destruct (Z.ltb_spec (s + st) l); [lia|].
    replace (s - l) with ((s + st - l) + 1 * (- st)) by ring. rewrite Z.div_add by lia. ring.
  - intros A. rewrite Z.div_small by lia. reflexivity.
  - pose proof (Z.div_pos (s - l) (- st) ltac:(lia) ltac:(lia)). lia.
Qed.

Lemma min_succ_tonat k c : 1 <= c ->
  Nat.min (S k) (Z.to_nat (c + 1)) = S (Nat.min k (Z.to_nat c)).
Proof. intros. rewrite Z2Nat.inj_add by lia. change (Z.to_nat 1) with 1%nat. rewrite Nat.add_1_r. reflexivity. Qed.

(* the loop proper, once prepfor has let it start *)
Lemma run_loop_int fuel : forall s l st, in64 s -> in64 l -> in64 st ->
  (0 < st /\ s <= l) \/ (st < 0 /\ l <= s) ->
  run_loop fuel (NInt s) (NInt l) (NInt st) =
  (map NInt (prog (Nat.min fuel (Z.to_nat (s_count s l st))) s st), s_count s l st <=? Z.of_nat fuel).
Proof.
  induction fuel as [|k IH]; intros s l st Hs Hl Hst Dir.
  - cbn [run_loop Nat.min prog map]. f_equal. symmetry. apply Z.leb_gt.
    destruct Dir as [[P Le]|[P Le]].
    + pose proof (count_pos_step s l st P Le). cbn. lia.
    + pose proof (count_neg_step s l st P Le). cbn. lia.
  - cbn [run_loop].
    destruct Dir as [[P Le]|[P Le]].
    + rewrite advfor_pos by assumption.
      destruct (count_pos_step s l st P Le) as (C1 & C2 & C3).
      destruct (Z.leb_spec (s + st) l) as [A|A].
      * assert (Hn : in64 (s + st)) by (unfold in64 in *; lia).
        rewrite (IH (s + st) l st Hn Hl Hst) by (left; lia).
        rewrite (C1 A).
        pose proof (count_pos_step (s + st) l st P A) as (_ & _ & C4).
        rewrite min_succ_tonat by exact C4. cbn [prog map]. f_equal.
        rewrite Nat2Z.inj_succ.
        destruct (Z.leb_spec (s_count (s + st) l st) (Z.of_nat k)), (Z.leb_spec (s_count (s + st) l st + 1) (Z.succ (Z.of_nat k))); try lia; reflexivity.
      * rewrite (C2 A). change (Z.to_nat 1) with 1%nat. cbn [Nat.min prog map].
        destruct k; cbn [Nat.min prog map]; f_equal; symmetry; apply Z.leb_le; lia.
    + rewrite advfor_neg by assumption.
      destruct (count_neg_step s l st P Le) as (C1 & C2 & C3).
      destruct (Z.leb_spec l (s + st)) as [A|A].
      * assert (Hn : in64 (s + st)) by (unfold in64 in *; lia).
        rewrite (IH (s + st) l st Hn Hl Hst) by (right; lia).
        rewrite (C1 A).
        pose proof (count_neg_step (s + st) l st P A) as (_ & _ & C4).
        rewrite min_succ_tonat by exact C4. cbn [prog map]. f_equal.
        rewrite Nat2Z.inj_succ.
        destruct (Z.leb_spec (s_count (s + st) l st) (Z.of_nat k)), (Z.leb_spec (s_count (s + st) l st + 1) (Z.succ (Z.of_nat k))); try lia; reflexivity.
      * rewrite (C2 A). change (Z.to_nat 1) with 1%nat. cbn [Nat.min prog map].
        destruct k; cbn [Nat.min prog map]; f_equal; symmetry; apply Z.leb_le; lia.
Qed.

Lemma take_count_min fuel c : take_count fuel c = Nat.min fuel (Z.to_nat c).
Proof. unfold take_count. rewrite Z2Nat.inj_min, Nat2Z.id. reflexivity. Qed.

(* the whole statement: prepfor + loop = the manual's loop, for every fuel *)
Theorem int_loop_sequence fuel s l st : in64 s -> in64 l -> in64 st -> st <> 0 ->
  for_im fuel (NInt s) (NInt l) (NInt st) = for_s fuel (NInt s) (NInt l) (NInt st).
Proof.
  intros Hs Hl Hst NZ. unfold for_im, for_s, prepfor. cbn [isZero isPositive num_lt s_forlimit forLimit]. rewrite take_count_min.
  destruct (Z.eqb_spec st 0); [contradiction|].
  destruct (Z.ltb_spec 0 st) as [P|N].
  - destruct (Z.ltb_spec l s) as [Sk|Run].
    + unfold s_count. destruct (Z.ltb_spec 0 st); [|lia]. destruct (Z.ltb_spec l s); [|lia].
      change (Z.to_nat 0) with 0%nat. rewrite Nat.min_0_r. cbn [prog map]. f_equal. symmetry. apply Z.leb_le. lia.
    + rewrite run_loop_int by (auto; left; lia). reflexivity.
  - destruct (Z.ltb_spec s l) as [Sk|Run].
    + unfold s_count. destruct (Z.ltb_spec 0 st); [lia|]. destruct (Z.ltb_spec s l); [|lia].
      change (Z.to_nat 0) with 0%nat. rewrite Nat.min_0_r. cbn [prog map]. f_equal. symmetry. apply Z.leb_le. lia.
    + rewrite run_loop_int by (auto; right; lia). reflexivity.
Qed.

Theorem int_loop_sequence_explicit fuel s l st : in64 s -> in64 l -> in64 st -> st <> 0 ->
  for_im fuel (NInt s) (NInt l) (NInt st) =
  FRun (map NInt (prog (Nat.min fuel (Z.to_nat (s_count s l st))) s st)) (s_count s l st <=? Z.of_nat fuel).
Proof.
  intros. rewrite int_loop_sequence by assumption. unfold for_s.
  destruct (Z.eqb_spec st 0); [contradiction|]. cbn [s_forlimit]. now rewrite take_count_min.
Qed.

(* the i-th value is start + i*step *)
Lemma prog_nth k : forall s st i, (i < k)%nat -> nth i (prog k s st) 0 = s + Z.of_nat i * st.
Proof.
  induction k; intros s st i Hi; [lia|]. destruct i; cbn [prog nth].
  - cbn. ring.
  - rewrite IHk by lia. rewrite Nat2Z.inj_succ. ring.
Qed.
Lemma prog_length k s st : length (prog k s st) = k.
Proof. revert s. induction k; intros; cbn; auto. Qed.

(* termination within the count the manual implies: with fuel >= count the loop has finished
   and ran exactly count times *)
Theorem int_loop_terminates_within_count fuel s l st : in64 s -> in64 l -> in64 st -> st <> 0 ->
  s_count s l st <= Z.of_nat fuel ->
  exists vs, for_im fuel (NInt s) (NInt l) (NInt st) = FRun vs true /\ Z.of_nat (length vs) = s_count s l st.
Proof.
  intros Hs Hl Hst NZ Le. rewrite int_loop_sequence by assumption.
  unfold for_s. destruct (Z.eqb_spec st 0); [contradiction|]. cbn [s_forlimit].
  eexists. split. f_equal. apply Z.leb_le. exact Le.
  rewrite map_length, prog_length, take_count_min.
  assert (0 <= s_count s l st).
  { unfold s_count. destruct (Z.ltb_spec 0 st).
    - destruct (Z.ltb_spec l s); [lia|].
      pose proof (Z.div_pos (l - s) st ltac:(lia) ltac:(lia)). lia.
    - destruct (Z.ltb_spec s l); [lia|].
      pose proof (Z.div_pos (s - l) (- st) ltac:(lia) ltac:(lia)). lia. }
  lia.
Qed.

(* no wrap-around: every value the body sees is an int64 between start and limit *)
Theorem int_loop_never_wraps s l st i : in64 s -> in64 l -> in64 st -> st <> 0 ->
  0 <= i < s_count s l st ->
  let v := s + i * st in
  in64 v /\ (0 < st -> s <= v <= l) /\ (st < 0 -> l <= v <= s).
Proof.
  intros Hs Hl Hst NZ Hi v. subst v. unfold s_count in Hi.
  destruct (Z.ltb_spec 0 st) as [P|N].
  - destruct (Z.ltb_spec l s); [lia|].
    assert (i <= (l - s) / st) by lia.
    assert (i * st <= l - s).
    { pose proof (Z.mul_div_le (l - s) st P). nia. }
    unfold in64 in *. repeat split; try nia; try lia.
  - assert (N' : st < 0) by lia. destruct (Z.ltb_spec s l); [lia|].
    assert (i <= (s - l) / (- st)) by lia.
    assert (i * (- st) <= s - l).
    { pose proof (Z.mul_div_le (s - l) (- st) ltac:(lia)). nia. }
    unfold in64 in *. repeat split; try nia; try lia.
Qed.

Theorem zero_step_error fuel start limit :
  for_im fuel start limit (NInt 0) = FErrZero /\ for_im fuel start limit (NFlt (fzero false)) = FErrZero /\
  for_im fuel start limit (NFlt (fzero true)) = FErrZero.
Proof.
  unfold for_im, prepfor. repeat split; reflexivity.
Qed.

Example int_loop_hyps_sat : in64 1 /\ in64 10 /\ in64 3 /\ 3 <> 0 /\ s_count 1 10 3 = 4.
Proof. repeat split; unfold in64; try lia. Qed.

(* maxinteger as the limit: the loop ends by the overflow test, not by wrapping *)
Example loop_to_maxint :
  for_im 5 (NInt (maxint - 1)) (NInt maxint) (NInt 1) = FRun [NInt (maxint - 1); NInt maxint] true.
Proof. vm_compute. reflexivity. Qed.

(* --- float loops -------------------------------------------------------------- *)
(* A float loop (start or step is a float) is, by definition on both sides, iterated IEEE addition
   while the value is <= the limit (>= for a non-positive step); stated for every fuel and all operands,
   NaN and infinities included. *)
Lemma run_loop_float fuel : forall x l st,
  run_loop fuel (NFlt x) (NFlt l) (NFlt st) = s_float_loop fuel x l st.
Proof.
  induction fuel as [|k IH]; intros x l st; [reflexivity|].
  cbn [run_loop s_float_loop]. unfold advfor. cbn [add isPositive tofloat].
  destruct (flt fzero0 st).
  - destruct (fle (fadd x st) l); cbn [negb].
    + rewrite IH. destruct (s_float_loop k (fadd x st) l st). reflexivity.
    + reflexivity.
  - destruct (fle l (fadd x st)); cbn [negb].
    + rewrite IH. destruct (s_float_loop k (fadd x st) l st). reflexivity.
    + reflexivity.
Qed.

Definition is_float_loop (start step : num) : bool :=
  match start, step with NInt _, NInt _ => false | _, _ => true end.

(* float64(n) == 0 iff n == 0 *)
Lemma of_int_zero_iff n : in64 n -> feq (of_int n) fzero0 = (n =? 0).
Proof.
  intros Hn. destruct (Z.eqb_spec n 0) as [->|NZ]; [reflexivity|].
  apply feq_finite_false; [now apply of_int_finite|reflexivity|].
  cbn [fzero0 fzero B2R].
  destruct (Z_lt_le_dec n 0).
  - assert (B2R (of_int n) <= IZR (-1))%R.
    { apply of_int_le_bound. now apply in64_abs. apply small_int_format. cbn; lia. apply IZR_le. lia. }
    lra.
  - assert (IZR 1 <= B2R (of_int n))%R.
    { apply of_int_ge_bound. now apply in64_abs. apply small_int_format. cbn; lia. apply IZR_le. lia. }
    lra.
Qed.

Theorem float_loop_definition fuel start limit step : match step with NInt n => in64 n | NFlt _ => True end -> is_float_loop start step = true ->
  for_im fuel start limit step = for_s fuel start limit step.
Proof.
  intros W FL. unfold for_im, for_s, prepfor.
  destruct start as [a|x], step as [n|st]; try discriminate; cbn [isZero tofloat].
  - destruct (feq st fzero0); [reflexivity|].
    destruct (flt fzero0 st).
    + destruct (fle (of_int a) (tofloat limit)); cbn [negb]; [|reflexivity]. now rewrite run_loop_float.
    + destruct (fle (tofloat limit) (of_int a)); cbn [negb]; [|reflexivity]. now rewrite run_loop_float.
  - rewrite (of_int_zero_iff n W). destruct (n =? 0); [reflexivity|].
    destruct (flt fzero0 (of_int n)).
    + destruct (fle x (tofloat limit)); cbn [negb]; [|reflexivity]. now rewrite run_loop_float.
    + destruct (fle (tofloat limit) x); cbn [negb]; [|reflexivity]. now rewrite run_loop_float.
  - destruct (feq st fzero0); [reflexivity|].
    destruct (flt fzero0 st).
    + destruct (fle x (tofloat limit)); cbn [negb]; [|reflexivity]. now rewrite run_loop_float.
    + destruct (fle (tofloat limit) x); cbn [negb]; [|reflexivity]. now rewrite run_loop_float.
Qed.

(* a NaN limit, start or step: no iteration, or (NaN step) at most the first one — the loop stops *)
Theorem nan_limit_float_loop_skips fuel start limit step : match step with NInt n => in64 n | NFlt _ => True end -> is_float_loop start step = true ->
  (limit = NFlt fnan -> for_im fuel start limit step = FRun [] true \/ for_im fuel start limit step = FErrZero).
Proof.
  intros W FL ->. rewrite float_loop_definition by assumption. unfold for_s.
  destruct start as [a|x], step as [n|st]; try discriminate; cbn [tofloat].
  - destruct (feq st fzero0); [now right|left].
    assert (forall y, fle y fnan = false) by (intros y; unfold fle, Bleb, fnan; destruct y; reflexivity).
    assert (forall y, fle fnan y = false) by (intros y; reflexivity).
    destruct (flt fzero0 st); rewrite ?H, ?H0; reflexivity.
  - destruct (feq (of_int n) fzero0); [now right|left].
    assert (forall y, fle y fnan = false) by (intros y; unfold fle, Bleb, fnan; destruct y; reflexivity).
    destruct (flt fzero0 (of_int n)); rewrite ?H; reflexivity.
  - destruct (feq st fzero0); [now right|left].
    assert (forall y, fle y fnan = false) by (intros y; unfold fle, Bleb, fnan; destruct y; reflexivity).
    destruct (flt fzero0 st); rewrite ?H; reflexivity.
Qed.

(* --- operands that are not numbers ------------------------------------------------ *)
Theorem non_number_error fuel start limit step :
  (fv_num start = None -> for_im_val fuel start limit step = FVErrInit) /\
  (fv_num start <> None -> fv_num limit = None -> for_im_val fuel start limit step = FVErrLimit) /\
  (fv_num start <> None -> fv_num limit <> None -> fv_num step = None -> for_im_val fuel start limit step = FVErrStep) /\
  (forall a b c, fv_num start = Some a -> fv_num limit = Some b -> fv_num step = Some c ->
     for_im_val fuel start limit step = FVRes (for_im_gen (fv_is_str start || fv_is_str step) fuel a b c)).
Proof.
  unfold for_im_val. repeat split.
  - intros ->. reflexivity.
  - intros A ->. destruct (fv_num start); [reflexivity|contradiction].
  - intros A B ->. destruct (fv_num start); [|contradiction]. destruct (fv_num limit); [reflexivity|contradiction].
  - intros a b c -> -> ->. reflexivity.
Qed.
