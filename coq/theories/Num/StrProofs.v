(* Num/StrProofs.v — to_number_string_spec: golua's StringToNumber (IM,
   Num/StrModel.v) equals the manual's string -> number conversion (S,
   Num/StrSpec.v s_str2number) for EVERY byte string, under explicit
   hypotheses on Go's strconv functions (correct results on the syntactically
   valid texts the code hands them).  Also literal_spec for ast.NewNumber. *)
From Coq Require Import ZArith Lia Bool List.
From Flocq Require Import Core.Core IEEE754.BinarySingleNaN.
From GV Require Import Base.W64 Base.W64Lemmas Base.F64 Num.Model Num.StrSpec Num.StrModel.
Import ListNotations.
Open Scope Z_scope.

(* ---------------------------------------------------------------- digits / skip *)
Definition isd (dig : Z -> option Z) (c : Z) : bool := match dig c with Some _ => true | None => false end.

Lemma isDec_isd c : isDecDigit c = isd dec_digit c.
Proof. unfold isDecDigit, isd, dec_digit. destruct ((48 <=? c) && (c <=? 57)); reflexivity. Qed.
Lemma isHex_isd c : isHexDigit c = isd hex_digit c.
Proof.
  unfold isHexDigit, isd, hex_digit.
  destruct ((48 <=? c) && (c <=? 57)); [reflexivity|].
  destruct ((97 <=? c) && (c <=? 102)); [reflexivity|].
  destruct ((65 <=? c) && (c <=? 70)); reflexivity.
Qed.

Lemma skip_digits dig p base (Hp : forall c, p c = isd dig c) :
  forall l acc n m,
  skip p l m = (snd (digits dig base l acc n), m + (snd (fst (digits dig base l acc n)) - n)).
Proof.
  induction l as [|c r IH]; intros acc n m; cbn [skip digits].
  - cbn. f_equal. lia.
  - rewrite Hp. unfold isd. destruct (dig c) as [d|].
    + rewrite (IH (acc * base + d) (n + 1) (m + 1)). f_equal. lia.
    + cbn. f_equal. lia.
Qed.

Lemma digits_count_ge dig base : forall l acc n, n <= snd (fst (digits dig base l acc n)).
Proof.
  induction l as [|c r IH]; intros acc n; cbn [digits]; [cbn; lia|].
  destruct (dig c); [specialize (IH (acc * base + z) (n + 1)); lia|cbn; lia].
Qed.

(* value of a run of digits *)
Definition dvalue (dig : Z -> option Z) (base : Z) (l : list Z) (acc : Z) : Z :=
  fold_left (fun a c => a * base + match dig c with Some d => d | None => 0 end) l acc.
Definition alld (dig : Z -> option Z) (l : list Z) : bool := forallb (isd dig) l.

Lemma digits_alld dig base : forall l acc n, alld dig l = true ->
  digits dig base l acc n = (dvalue dig base l acc, n + Z.of_nat (length l), []).
Proof.
  induction l as [|c r IH]; intros acc n H.
  - cbn. rewrite Z.add_0_r. reflexivity.
  - cbn [alld forallb] in H. apply andb_true_iff in H. destruct H as [H1 H2].
    cbn [digits dvalue fold_left length]. unfold isd in H1. destruct (dig c) as [d|]; [|discriminate].
    rewrite IH by exact H2. unfold dvalue. rewrite Nat2Z.inj_succ. replace (n + 1 + Z.of_nat (length r)) with (n + Z.succ (Z.of_nat (length r))) by lia. reflexivity.
Qed.

Lemma digits_nil_alld dig base : forall l acc n a n', digits dig base l acc n = (a, n', []) -> alld dig l = true.
Proof.
  induction l as [|c r IH]; intros acc n a n' H; [reflexivity|].
  cbn [digits] in H. cbn [alld forallb]. unfold isd. destruct (dig c) as [d|]; [|discriminate].
  cbn. eapply IH. exact H.
Qed.

Lemma dvalue_acc dig base : forall l acc, dvalue dig base l acc = acc * base ^ Z.of_nat (length l) + dvalue dig base l 0.
Proof.
  induction l as [|c r IH]; intros acc.
  - cbn. lia.
  - cbn [dvalue fold_left length]. fold (dvalue dig base r (acc * base + match dig c with Some d => d | None => 0 end)).
    fold (dvalue dig base r (0 * base + match dig c with Some d => d | None => 0 end)).
    rewrite IH. rewrite (IH (0 * base + _)). rewrite Nat2Z.inj_succ, Z.pow_succ_r by lia. ring.
Qed.

Lemma dvalue_app dig base l1 l2 acc : dvalue dig base (l1 ++ l2) acc = dvalue dig base l2 (dvalue dig base l1 acc).
Proof. unfold dvalue. apply fold_left_app. Qed.

Lemma dvalue_nonneg dig base (Hd : forall c d, dig c = Some d -> 0 <= d) : 0 <= base ->
  forall l acc, 0 <= acc -> 0 <= dvalue dig base l acc.
Proof.
  intros Hb. induction l as [|c r IH]; intros acc Ha; [exact Ha|].
  cbn [dvalue fold_left]. apply IH. destruct (dig c) as [d|] eqn:E; [specialize (Hd c d E)|]; nia.
Qed.

Lemma dec_digit_range c d : dec_digit c = Some d -> 0 <= d.
Proof. unfold dec_digit. destruct (Z.leb_spec 48 c); cbn [andb]; [|discriminate]. destruct (c <=? 57); [|discriminate]. intros [= <-]. lia. Qed.

(* ---------------------------------------------------------------- small facts *)
Lemma split_skip_sign l : snd (split_sign l) = skip_sign l.
Proof. destruct l as [|c r]; [reflexivity|]. cbn. destruct (is_sign c); reflexivity. Qed.

Lemma lor32_e c : (Z.lor c 32 =? 101) = is_e c.
Proof.
  unfold is_e. destruct (Z.eqb_spec c 101) as [->|N1]; [reflexivity|].
  destruct (Z.eqb_spec c 69) as [->|N2]; [reflexivity|]. cbn [orb].
  apply Z.eqb_neq. intro E.
  destruct (Z_lt_le_dec c 0) as [Neg|NN].
  - assert (Z.lor c 32 < 0) by (apply Z.lor_neg; lia). lia.
  - destruct (Z_lt_le_dec c 128) as [Sm|Big].
    + assert (In c (map Z.of_nat (seq 0 128))).
      { apply in_map_iff. exists (Z.to_nat c). split; [lia|]. apply in_seq. lia. }
      assert (A : forallb (fun c => negb (Z.lor c 32 =? 101) || (c =? 101) || (c =? 69)) (map Z.of_nat (seq 0 128)) = true) by (vm_compute; reflexivity).
      rewrite forallb_forall in A. specialize (A c H). rewrite E in A. cbn in A.
      apply orb_true_iff in A. destruct A as [A|A]; apply Z.eqb_eq in A; lia.
    + assert (7 <= Z.log2 c) by (apply Z.log2_le_pow2; lia).
      assert (T : Z.testbit (Z.lor c 32) (Z.log2 c) = true) by (rewrite Z.lor_spec, Z.bit_log2 by lia; reflexivity).
      rewrite E in T. rewrite Z.bits_above_log2 in T; [discriminate|lia|]. change (Z.log2 101) with 6. lia.
Qed.

Lemma lor32_p c : (Z.lor c 32 =? 112) = is_p c.
Proof.
  unfold is_p. destruct (Z.eqb_spec c 112) as [->|N1]; [reflexivity|].
  destruct (Z.eqb_spec c 80) as [->|N2]; [reflexivity|]. cbn [orb].
  apply Z.eqb_neq. intro E.
  destruct (Z_lt_le_dec c 0) as [Neg|NN].
  - assert (Z.lor c 32 < 0) by (apply Z.lor_neg; lia). lia.
  - destruct (Z_lt_le_dec c 128) as [Sm|Big].
    + assert (In c (map Z.of_nat (seq 0 128))).
      { apply in_map_iff. exists (Z.to_nat c). split; [lia|]. apply in_seq. lia. }
      assert (A : forallb (fun c => negb (Z.lor c 32 =? 112) || (c =? 112) || (c =? 80)) (map Z.of_nat (seq 0 128)) = true) by (vm_compute; reflexivity).
      rewrite forallb_forall in A. specialize (A c H). rewrite E in A. cbn in A.
      apply orb_true_iff in A. destruct A as [A|A]; apply Z.eqb_eq in A; lia.
    + assert (7 <= Z.log2 c) by (apply Z.log2_le_pow2; lia).
      assert (T : Z.testbit (Z.lor c 32) (Z.log2 c) = true) by (rewrite Z.lor_spec, Z.bit_log2 by lia; reflexivity).
      rewrite E in T. rewrite Z.bits_above_log2 in T; [discriminate|lia|]. change (Z.log2 112) with 6. lia.
Qed.

(* ---------------------------------------------------------------- the scanner accepts exactly the grammar *)
Lemma scan_exp_spec r : scan_exp r = match exponent r with Some _ => Some true | None => None end.
Proof.
  unfold scan_exp, exponent.
  destruct (split_sign r) as [neg l'] eqn:SS.
  assert (L : skip_sign r = l') by (rewrite <- split_skip_sign, SS; reflexivity). rewrite L.
  rewrite (skip_digits dec_digit isDecDigit 10 isDec_isd l' 0 0 0).
  pose proof (digits_count_ge dec_digit 10 l' 0 0) as G.
  destruct (digits dec_digit 10 l' 0 0) as [[e ne] rest]. cbn [fst snd] in *.
  replace (0 + (ne - 0)) with ne by lia.
  destruct (Z.eqb_spec ne 0) as [->|NZ].
  - destruct rest; reflexivity.
  - destruct rest; [|reflexivity]. destruct (Z.ltb_spec 0 ne); [reflexivity|lia].
Qed.

Lemma scan_tail_spec dig p base marker ismark
  (Hp : forall c, p c = isd dig c) (Hm : forall c, (Z.lor c 32 =? marker) = ismark c) l :
  scan_tail p marker l =
  match mantissa_exp dig base ismark l with
  | Some _ => Some (match snd (digits dig base l 0 0) with [] => false | _ => true end)
  | None => None
  end.
Proof.
  unfold scan_tail, mantissa_exp.
  rewrite (skip_digits dig p base Hp l 0 0 0).
  pose proof (digits_count_ge dig base l 0 0) as G1.
  destruct (digits dig base l 0 0) as [[a n1] rest1]. cbn [fst snd] in *.
  replace (0 + (n1 - 0)) with n1 by lia.
  destruct rest1 as [|c r'].
  - replace (n1 + 0) with n1 by lia.
    destruct (Z.eqb_spec n1 0) as [->|NZ]; [reflexivity|].
    destruct (Z.ltb_spec 0 n1); [reflexivity|lia].
  - destruct (Z.eqb_spec c 46) as [->|ND].
    + rewrite (skip_digits dig p base Hp r' a 0 n1).
      pose proof (digits_count_ge dig base r' a 0) as G2.
      destruct (digits dig base r' a 0) as [[a2 n2] rest2]. cbn [fst snd] in *.
      replace (n1 + (n2 - 0)) with (n1 + n2) by lia.
      destruct (Z.eqb_spec (n1 + n2) 0) as [Z0|NZ].
      * destruct (Z.ltb_spec 0 (n1 + n2)); [lia|reflexivity].
      * destruct (Z.ltb_spec 0 (n1 + n2)); [|lia].
        destruct rest2 as [|c2 r2]; [reflexivity|].
        rewrite Hm. destruct (ismark c2); [|reflexivity].
        rewrite scan_exp_spec. destruct (exponent r2); reflexivity.
    + replace (n1 + 0) with n1 by lia.
      destruct (Z.eqb_spec n1 0) as [Z0|NZ].
      * destruct (Z.ltb_spec 0 n1); [lia|reflexivity].
      * destruct (Z.ltb_spec 0 n1); [|lia].
        rewrite Hm. destruct (ismark c); [|reflexivity].
        rewrite scan_exp_spec. destruct (exponent r'); reflexivity.
Qed.

(* ---------------------------------------------------------------- arithmetic helpers *)
Lemma wrap64_add_mul x k : wrap64 (x + k * 2 ^ 64) = wrap64 x.
Proof.
  destruct (wrap64_congr x) as [k' E]. apply wrap64_unique with (k := k' - k).
  apply wrap64_range. rewrite E. ring.
Qed.

Lemma neg64_wrap u : neg64 (wrap64 u) = wrap64 (- u).
Proof.
  unfold neg64. destruct (wrap64_congr u) as [k E]. rewrite E.
  replace (- (u + k * 2 ^ 64)) with (- u + (- k) * 2 ^ 64) by ring. apply wrap64_add_mul.
Qed.

Lemma mant_nil dig base mk l a n : digits dig base l 0 0 = (a, n, []) ->
  mantissa_exp dig base mk l = if 0 <? n then Some (a, 0, 0) else None.
Proof. intros H. unfold mantissa_exp. rewrite H. cbn. rewrite Z.add_0_r. reflexivity. Qed.

Lemma hex_prefix_some body r : hex_prefix body = Some r -> exists x, body = 48 :: x :: r /\ is_x x = true.
Proof.
  unfold hex_prefix. destruct body as [|c0 [|x r']]; try discriminate.
  destruct (Z.eqb_spec c0 48) as [->|]; cbn [andb]; [|discriminate].
  destruct (is_x x) eqn:X; [|discriminate]. intros [= <-]. eauto.
Qed.

Lemma alld_app dig l1 l2 : alld dig (l1 ++ l2) = alld dig l1 && alld dig l2.
Proof. apply forallb_app. Qed.

Lemma hex_last16 r : alld hex_digit r = true -> (16 < length r)%nat ->
  alld hex_digit (lastn 16 r) = true /\ length (lastn 16 r) = 16%nat /\
  exists k, dvalue hex_digit 16 r 0 = dvalue hex_digit 16 (lastn 16 r) 0 + k * 2 ^ 64.
Proof.
  intros A L. unfold lastn. set (k := (length r - 16)%nat).
  assert (E : r = firstn k r ++ skipn k r) by (symmetry; apply firstn_skipn).
  assert (LS : length (skipn k r) = 16%nat) by (rewrite skipn_length; unfold k; lia).
  rewrite E in A. rewrite alld_app in A. apply andb_true_iff in A. destruct A as [A1 A2].
  split; [exact A2|]. split; [exact LS|].
  exists (dvalue hex_digit 16 (firstn k r) 0).
  rewrite E at 1. rewrite dvalue_app. rewrite dvalue_acc. rewrite LS.
  change (16 ^ Z.of_nat 16) with (2 ^ 64). ring.
Qed.

Lemma has_p_prefix sg x body : (sg = [] \/ sg = [43] \/ sg = [45]) -> is_x x = true ->
  has_p (sg ++ 48 :: x :: body) = has_p body.
Proof.
  intros S X. unfold has_p. rewrite existsb_app. cbn [existsb].
  assert (is_p 48 = false) by reflexivity. rewrite H.
  assert (is_p x = false).
  { unfold is_x in X. unfold is_p. apply orb_true_iff in X. destruct X as [X|X]; apply Z.eqb_eq in X; subst; reflexivity. }
  rewrite H0. destruct S as [->|[->| ->]]; reflexivity.
Qed.

(* ---------------------------------------------------------------- the theorem *)
(* the text of an optional sign and whether it is '-' *)
Definition sign_text (sg : list Z) (neg : bool) : Prop :=
  (sg = [] /\ neg = false) \/ (sg = [43] /\ neg = false) \/ (sg = [45] /\ neg = true).

(* Hypotheses on strconv (trusted base; sampled by the correspondence check gvh-num str):
   on a syntactically valid text each function returns the mathematically correct result. *)
(* ParseInt(s, 10, 64), s = [sign] digits+ : the value if it fits an int64, else an error *)
Definition ParseInt_ok (ParseInt : list Z -> pi_res) : Prop :=
  forall sg neg ds, sign_text sg neg -> ds <> [] -> alld dec_digit ds = true ->
  ParseInt (sg ++ ds) =
  (let v := if neg then - dvalue dec_digit 10 ds 0 else dvalue dec_digit 10 ds 0 in
   if in64b v then PIOk v else PIErr).
(* ParseUint(s, 16, 64), s = 1..16 hex digits : the value *)
Definition ParseUint16_ok (ParseUint16 : list Z -> Z) : Prop :=
  forall ds, ds <> [] -> (length ds <= 16)%nat -> alld hex_digit ds = true ->
  ParseUint16 ds = dvalue hex_digit 16 ds 0.
(* ParseFloat(s, 64) on a decimal numeral with mantissa digits M, nf fraction digits, exponent e:
   M * 10^(e-nf) correctly rounded (overflow -> ±Inf, underflow -> denormal / ±0) *)
Definition ParseFloat_dec_ok (ParseFloat : list Z -> f64) : Prop :=
  forall sg neg body M nf e, sign_text sg neg ->
  mantissa_exp dec_digit 10 is_e body = Some (M, nf, e) ->
  ParseFloat (sg ++ body) = dec_to_float neg M (e - nf).
(* ParseFloat(s, 64) on a hexadecimal numeral (with "p0" appended when it has no exponent):
   M * 2^(e-4nf) correctly rounded *)
Definition ParseFloat_hex_ok (ParseFloat : list Z -> f64) : Prop :=
  forall sg neg x body M nf e, sign_text sg neg -> is_x x = true ->
  mantissa_exp hex_digit 16 is_p body = Some (M, nf, e) ->
  ParseFloat (sg ++ 48 :: x :: (if has_p body then body else body ++ [112; 48])) =
  of_mant_exp (cond_Zopp neg M) (e - 4 * nf) neg.

Section Spec.
Variable ParseInt : list Z -> pi_res.
Variable ParseUint16 : list Z -> Z.
Variable ParseFloat : list Z -> f64.
Hypothesis HPI : ParseInt_ok ParseInt.
Hypothesis HPU : ParseUint16_ok ParseUint16.
Hypothesis HPF_dec : ParseFloat_dec_ok ParseFloat.
Hypothesis HPF_hex : ParseFloat_hex_ok ParseFloat.

Notation STN := (StringToNumber ParseInt ParseUint16 ParseFloat).

Lemma core sg neg body : sign_text sg neg ->
  split_sign (sg ++ body) = (neg, body) ->
  (match sg ++ body with c :: _ => c =? 45 | [] => false end) = neg ->
  (match scan_body body with
   | DecInt => match ParseInt (sg ++ body) with PIOk n => Some (NInt n) | PIErr => Some (NFlt (ParseFloat (sg ++ body))) end
   | HexInt =>
       let s2 := skipn 2 body in
       let s3 := if (16 <? Z.of_nat (length s2)) then lastn 16 s2 else s2 in
       let n := wrap64 (ParseUint16 s3) in Some (NInt (if neg then neg64 n else n))
   | DecFloat => Some (NFlt (ParseFloat (sg ++ body)))
   | HexFloat => Some (NFlt (ParseFloat (if has_p (sg ++ body) then sg ++ body else (sg ++ body) ++ [112; 48])))
   | NotNumeral => None
   end) =
  (match (match hex_prefix body with
          | Some r => let '(a, n, rest) := digits hex_digit 16 r 0 0 in
                      match rest with [] => if 0 <? n then Some (wrap64 (if neg then - a else a)) else None | _ => None end
          | None => let '(a, n, rest) := digits dec_digit 10 body 0 0 in
                    match rest with
                    | [] => if (0 <? n) && (a <=? (if neg then 2 ^ 63 else 2 ^ 63 - 1)) then Some (wrap64 (if neg then - a else a)) else None
                    | _ => None end
          end) with
   | Some n => Some (NInt n)
   | None =>
       match (match hex_prefix body with
              | Some r => match mantissa_exp hex_digit 16 is_p r with
                          | Some (M, nf, e) => Some (of_mant_exp (cond_Zopp neg M) (e - 4 * nf) neg) | None => None end
              | None => match mantissa_exp dec_digit 10 is_e body with
                        | Some (M, nf, e) => Some (dec_to_float neg M (e - nf)) | None => None end
              end) with
       | Some f => Some (NFlt f) | None => None end
   end).
Proof.
  intros ST SS HN.
  assert (SG : sg = [] \/ sg = [43] \/ sg = [45]) by (destruct ST as [[-> _]|[[-> _]|[-> _]]]; auto).
  unfold scan_body.
  destruct (hex_prefix body) as [r|] eqn:HP.
  - (* hexadecimal *)
    destruct (hex_prefix_some body r HP) as (x & -> & X).
    rewrite (scan_tail_spec hex_digit isHexDigit 16 112 is_p isHex_isd lor32_p r).
    destruct (digits hex_digit 16 r 0 0) as [[a n] rest] eqn:D. cbn [snd].
    destruct rest as [|c rest'].
    + (* all hex digits *)
      rewrite (mant_nil hex_digit 16 is_p r a n D).
      pose proof (digits_nil_alld _ _ _ _ _ _ _ D) as AD.
      rewrite (digits_alld hex_digit 16 r 0 0 AD) in D. injection D as Ea En.
      destruct (Z.ltb_spec 0 n) as [P|NP]; [|reflexivity].
      cbn [kind_of skipn]. cbv zeta.
      assert (RN : r <> []) by (intro C; subst r; cbn in En; lia).
      f_equal. f_equal.
      assert (W : wrap64 (ParseUint16 (if 16 <? Z.of_nat (length r) then lastn 16 r else r)) = wrap64 a).
      { destruct (Z.ltb_spec 16 (Z.of_nat (length r))) as [L|L].
        - destruct (hex_last16 r AD ltac:(lia)) as (A2 & L2 & k & Ek).
          rewrite HPU; [|intro C; rewrite C in L2; discriminate|lia|exact A2].
          rewrite <- Ea, Ek. symmetry. apply wrap64_add_mul.
        - rewrite HPU; [now rewrite Ea|exact RN|lia|exact AD]. }
      rewrite W. destruct neg; [apply neg64_wrap|reflexivity].
    + (* a float or not a numeral *)
      destruct (mantissa_exp hex_digit 16 is_p r) as [[[M nf] e]|] eqn:ME; [|reflexivity].
      cbn [kind_of]. f_equal. f_equal.
      rewrite (has_p_prefix sg x r SG X).
      replace (if has_p r then sg ++ 48 :: x :: r else (sg ++ 48 :: x :: r) ++ [112; 48])
        with (sg ++ 48 :: x :: (if has_p r then r else r ++ [112; 48])).
      2:{ destruct (has_p r); [reflexivity|]. rewrite <- app_assoc. reflexivity. }
      now apply HPF_hex.
  - (* decimal *)
    rewrite (scan_tail_spec dec_digit isDecDigit 10 101 is_e isDec_isd lor32_e body).
    destruct (digits dec_digit 10 body 0 0) as [[a n] rest] eqn:D. cbn [snd].
    destruct rest as [|c rest'].
    + rewrite (mant_nil dec_digit 10 is_e body a n D).
      pose proof (digits_nil_alld _ _ _ _ _ _ _ D) as AD.
      rewrite (digits_alld dec_digit 10 body 0 0 AD) in D. injection D as Ea En.
      destruct (Z.ltb_spec 0 n) as [P|NP]; [|reflexivity].
      cbn [kind_of andb].
      assert (BN : body <> []) by (intro C; subst body; cbn in En; lia).
      assert (A0 : 0 <= a).
      { rewrite <- Ea. apply dvalue_nonneg; try lia. apply dec_digit_range. }
      rewrite (HPI sg neg body ST BN AD). cbv zeta. rewrite Ea.
      assert (ME : mantissa_exp dec_digit 10 is_e body = Some (a, 0, 0)).
      { rewrite (mant_nil dec_digit 10 is_e body a n).
        - destruct (Z.ltb_spec 0 n); [reflexivity|lia].
        - rewrite (digits_alld dec_digit 10 body 0 0 AD). rewrite Ea, En. reflexivity. }
      destruct neg.
      * destruct (Z.leb_spec a (2 ^ 63)) as [B|B].
        -- assert (R : in64b (- a) = true) by (apply in64b_true; unfold in64; lia).
           rewrite R. f_equal. f_equal. symmetry. apply wrap64_id. now apply in64b_true.
        -- assert (R : in64b (- a) = false) by (apply not_true_is_false; intro C; apply in64b_true in C; unfold in64 in C; lia).
           rewrite R. rewrite (HPF_dec sg true body a 0 0 ST ME). reflexivity.
      * destruct (Z.leb_spec a (2 ^ 63 - 1)) as [B|B].
        -- assert (R : in64b a = true) by (apply in64b_true; unfold in64; lia).
           rewrite R. f_equal. f_equal. symmetry. apply wrap64_id. now apply in64b_true.
        -- assert (R : in64b a = false) by (apply not_true_is_false; intro C; apply in64b_true in C; unfold in64 in C; lia).
           rewrite R. rewrite (HPF_dec sg false body a 0 0 ST ME). reflexivity.
    + destruct (mantissa_exp dec_digit 10 is_e body) as [[[M nf] e]|] eqn:ME; [|reflexivity].
      cbn [kind_of]. f_equal. f_equal. now apply HPF_dec.
Qed.

Theorem to_number_string_spec s : STN s = s_str2number s.
Proof.
  unfold StringToNumber, s_str2number, str2int, str2float, scanNumeral.
  set (t := trim s).
  assert (exists sg neg body, t = sg ++ body /\ sign_text sg neg /\ split_sign t = (neg, body) /\
            skip_sign t = body /\ (match t with c :: _ => c =? 45 | [] => false end) = neg)
    as (sg & neg & body & Et & ST & SS & SK & HN).
  { destruct t as [|c r].
    - exists [], false, []. repeat split; try reflexivity. left; auto.
    - destruct (is_sign c) eqn:IS.
      + unfold is_sign in IS. destruct (Z.eqb_spec c 45) as [->|N45].
        * exists [45], true, r. repeat split; try reflexivity. right; right; auto.
        * cbn [orb] in IS. apply Z.eqb_eq in IS. subst c.
          exists [43], false, r. repeat split; try reflexivity. right; left; auto.
      + exists [], false, (c :: r). cbn [app split_sign skip_sign]. rewrite IS. repeat split; try reflexivity.
        * left; auto.
        * unfold is_sign in IS. apply orb_false_iff in IS. apply IS. }
  rewrite SS, SK. rewrite Et in *.
  pose proof (core sg neg body ST SS HN) as C.
  rewrite HN. exact C.
Qed.

(* ---- literals: ast.NewNumber on a numeral token ---- *)
Lemma digits_split dig base : forall l acc n a n' rest, digits dig base l acc n = (a, n', rest) ->
  exists pre, l = pre ++ rest /\ alld dig pre = true.
Proof.
  induction l as [|c r IH]; intros acc n a n' rest H.
  - cbn in H. injection H as _ _ <-. exists []. auto.
  - cbn [digits] in H. destruct (dig c) as [d|] eqn:E.
    + destruct (IH _ _ _ _ _ H) as (pre & -> & A). exists (c :: pre). split; [reflexivity|].
      cbn [alld forallb]. unfold isd at 1. rewrite E. exact A.
    + injection H as _ _ <-. exists []. auto.
Qed.

Lemma contains_alld q dig l : (forall c, q c = true -> dig c = None) -> alld dig l = true -> contains q l = false.
Proof.
  intros Hq. induction l as [|c r IH]; [reflexivity|]. cbn [alld forallb contains existsb].
  intros H. apply andb_true_iff in H. destruct H as [H1 H2].
  destruct (q c) eqn:Q.
  - apply Hq in Q. unfold isd in H1. rewrite Q in H1. discriminate.
  - cbn. apply IH. exact H2.
Qed.

Lemma contains_app q l1 l2 : contains q (l1 ++ l2) = contains q l1 || contains q l2.
Proof. apply existsb_app. Qed.

(* for a valid numeral body the float flag computed by the scanner is "contains . or the exponent marker" *)
Lemma float_flag dig p (base : Z) marker ismark q
  (Hp : forall c, p c = isd dig c) (Hm : forall c, (Z.lor c 32 =? marker) = ismark c)
  (Hq : forall c, q c = (c =? 46) || ismark c) (Hd : forall c, q c = true -> dig c = None) l fl :
  scan_tail p marker l = Some fl -> contains q l = fl.
Proof.
  rewrite (scan_tail_spec dig p base marker ismark Hp Hm l).
  destruct (mantissa_exp dig base ismark l) as [[[M nf] e]|] eqn:ME; [|discriminate].
  intros [= <-].
  destruct (digits dig base l 0 0) as [[a n] rest] eqn:D. cbn [snd].
  destruct (digits_split _ _ _ _ _ _ _ _ D) as (pre & -> & A).
  rewrite contains_app, (contains_alld q dig pre Hd A). cbn [orb].
  destruct rest as [|c r]; [reflexivity|].
  cbn [contains existsb]. rewrite Hq.
  (* c is '.' or the marker, else mantissa_exp would have failed *)
  unfold mantissa_exp in ME. rewrite D in ME.
  destruct (Z.eqb_spec c 46); [reflexivity|]. cbn [orb].
  destruct (0 <? n + 0); [|discriminate].
  destruct (ismark c); [reflexivity|discriminate].
Qed.

Definition NN := NewNumber ParseInt ParseUint16 ParseFloat.

(* a token is an unsigned numeral without surrounding space: exactly what the scanner hands to NewNumber *)
Definition numeral_token (tok : list Z) : Prop :=
  trim tok = tok /\ skip_sign tok = tok /\ scan_body tok <> NotNumeral.

Theorem literal_spec tok : numeral_token tok -> NN tok = s_str2number tok.
Proof.
  intros (T & NS & V).
  rewrite <- (to_number_string_spec tok).
  unfold NN, NewNumber, StringToNumber, scanNumeral. rewrite T, NS.
  assert (HN : (match tok with c :: _ => c =? 45 | [] => false end) = false).
  { destruct tok as [|c r]; [reflexivity|]. cbn [skip_sign] in NS.
    destruct (is_sign c) eqn:IS.
    - exfalso. assert (length r = length (c :: r)) by (rewrite NS at 1; reflexivity). cbn in H. lia.
    - unfold is_sign in IS. apply orb_false_iff in IS. apply IS. }
  rewrite HN. unfold scan_body in *.
  destruct (hex_prefix tok) as [r|] eqn:HP.
  - destruct (hex_prefix_some tok r HP) as (x & -> & X).
    destruct (scan_tail isHexDigit 112 r) as [fl|] eqn:ST; [|contradiction].
    assert (C : contains is_dot_p (48 :: x :: r) = fl).
    { cbn [contains existsb].
      assert (is_dot_p 48 = false) by reflexivity.
      assert (is_dot_p x = false).
      { unfold is_x in X. apply orb_true_iff in X. destruct X as [X|X]; apply Z.eqb_eq in X; subst; reflexivity. }
      rewrite H, H0. cbn [orb].
      apply (float_flag hex_digit isHexDigit 16 112 is_p is_dot_p isHex_isd lor32_p); [reflexivity| |exact ST].
      intros c Q. unfold is_dot_p, is_p in Q. unfold hex_digit.
      repeat (apply orb_true_iff in Q; destruct Q as [Q|Q]); apply Z.eqb_eq in Q; subst; reflexivity. }
    rewrite C. destruct fl; reflexivity.
  - destruct (scan_tail isDecDigit 101 tok) as [fl|] eqn:ST; [|contradiction].
    assert (C : contains is_dot_e tok = fl).
    { apply (float_flag dec_digit isDecDigit 10 101 is_e is_dot_e isDec_isd lor32_e); [reflexivity| |exact ST].
      intros c Q. unfold is_dot_e, is_e in Q. unfold dec_digit.
      repeat (apply orb_true_iff in Q; destruct Q as [Q|Q]); apply Z.eqb_eq in Q; subst; reflexivity. }
    rewrite C. destruct fl; reflexivity.
Qed.
End Spec.

(* the hypotheses on ParseInt / ParseUint are satisfiable (reference implementations) *)
Definition ParseUint16_ref (ds : list Z) : Z := dvalue hex_digit 16 ds 0.
Example ParseUint16_ok_sat : ParseUint16_ok ParseUint16_ref.
Proof. intros ds _ _ _. reflexivity. Qed.

Example numeral_token_sat : numeral_token [48; 120; 49; 46; 56].   (* "0x1.8" *)
Proof. repeat split; try reflexivity. vm_compute. discriminate. Qed.

(* ---------------------------------------------------------------- tostring / tonumber round trip of integers *)
Lemma dec_digit_of d : 0 <= d < 10 -> dec_digit (48 + d) = Some d.
Proof.
  intros H. unfold dec_digit. destruct (Z.leb_spec 48 (48 + d)); [|lia]. destruct (Z.leb_spec (48 + d) 57); [|lia].
  cbn [andb]. f_equal. lia.
Qed.

Lemma dec_digits_spec fuel : forall a acc, 0 <= a < 10 ^ Z.of_nat fuel -> (0 < fuel)%nat -> alld dec_digit acc = true ->
  let l := dec_digits fuel a acc in
  alld dec_digit l = true /\ l <> [] /\
  dvalue dec_digit 10 l 0 = a * 10 ^ Z.of_nat (length acc) + dvalue dec_digit 10 acc 0.
Proof.
  induction fuel as [|k IH]; intros a acc Ha Hf Hacc; [lia|].
  cbn [dec_digits]. destruct (Z.ltb_spec a 10) as [S|B].
  - cbv zeta. split; [|split].
    + cbn [alld forallb]. unfold isd at 1. rewrite dec_digit_of by lia. exact Hacc.
    + discriminate.
    + cbn [dvalue fold_left]. rewrite dec_digit_of by lia.
      fold (dvalue dec_digit 10 acc (0 * 10 + a)). rewrite dvalue_acc. ring.
  - assert (Hk : (0 < k)%nat).
    { destruct k; [|lia]. cbn in Ha. lia. }
    assert (Hd : 0 <= a mod 10 < 10) by (apply Z.mod_pos_bound; lia).
    assert (Hq : 0 <= a / 10 < 10 ^ Z.of_nat k).
    { split; [apply Z.div_pos; lia|]. apply Z.div_lt_upper_bound; [lia|].
      rewrite Nat2Z.inj_succ, Z.pow_succ_r in Ha by lia. lia. }
    assert (Hacc' : alld dec_digit ((48 + a mod 10) :: acc) = true).
    { cbn [alld forallb]. unfold isd at 1. rewrite dec_digit_of by lia. exact Hacc. }
    destruct (IH (a / 10) ((48 + a mod 10) :: acc) Hq Hk Hacc') as (A & N & V).
    cbv zeta. split; [exact A|]. split; [exact N|].
    rewrite V. cbn [length dvalue fold_left]. rewrite dec_digit_of by lia.
    fold (dvalue dec_digit 10 acc (0 * 10 + a mod 10)). rewrite (dvalue_acc dec_digit 10 acc (0 * 10 + a mod 10)).
    rewrite Nat2Z.inj_succ, Z.pow_succ_r by lia.
    pose proof (Z.div_mod a 10 ltac:(lia)). nia.
Qed.

Lemma alld_no_space l : alld dec_digit l = true -> forall c, In c l -> is_space c = false /\ is_sign c = false /\ is_x c = false.
Proof.
  intros A c Hc. unfold alld in A. rewrite forallb_forall in A. specialize (A c Hc).
  unfold isd, dec_digit in A. destruct (Z.leb_spec 48 c); cbn [andb] in A; [|discriminate].
  destruct (Z.leb_spec c 57); [|discriminate].
  unfold is_space, is_sign, is_x.
  repeat split; repeat (apply orb_false_iff; split); try (apply Z.eqb_neq; lia); try (apply andb_false_iff; right; apply Z.leb_gt; lia).
Qed.

Lemma drop_spaces_id l : (forall c, hd_error l = Some c -> is_space c = false) -> drop_spaces l = l.
Proof. destruct l as [|c r]; [reflexivity|]. intros H. cbn. rewrite (H c eq_refl). reflexivity. Qed.

Lemma trim_id l : l <> [] -> (forall c, In c l -> is_space c = false) -> trim l = l.
Proof.
  intros NE H. unfold trim.
  rewrite (drop_spaces_id l).
  2:{ intros c Hc. apply H. destruct l; [discriminate|]. injection Hc as ->. now left. }
  rewrite (drop_spaces_id (rev l)).
  2:{ intros c Hc. apply H. apply in_rev. destruct (rev l); [discriminate|]. injection Hc as ->. now left. }
  apply rev_involutive.
Qed.

Lemma str2int_digits neg sg ds : sign_text sg neg -> ds <> [] -> alld dec_digit ds = true ->
  dvalue dec_digit 10 ds 0 <= (if neg then 2 ^ 63 else 2 ^ 63 - 1) ->
  str2int (sg ++ ds) = Some (wrap64 (if neg then - dvalue dec_digit 10 ds 0 else dvalue dec_digit 10 ds 0)).
Proof.
  intros ST NE A B. unfold str2int.
  pose proof (alld_no_space ds A) as NS.
  assert (T : trim (sg ++ ds) = sg ++ ds).
  { apply trim_id.
    - destruct sg; [exact NE|discriminate].
    - intros c Hc. apply in_app_or in Hc. destruct Hc as [Hc|Hc]; [|now apply NS].
      destruct ST as [[-> _]|[[-> _]|[-> _]]]; cbn in Hc; try tauto; destruct Hc as [<-|[]]; reflexivity. }
  rewrite T.
  assert (SS : split_sign (sg ++ ds) = (neg, ds)).
  { destruct ST as [[-> ->]|[[-> ->]|[-> ->]]]; try reflexivity.
    destruct ds as [|c r]; [contradiction|]. cbn. destruct (NS c (or_introl eq_refl)) as (_ & -> & _). reflexivity. }
  rewrite SS.
  assert (HP : hex_prefix ds = None).
  { destruct ds as [|c0 [|x r]]; try reflexivity. cbn.
    destruct (NS x (or_intror (or_introl eq_refl))) as (_ & _ & ->). now rewrite andb_false_r. }
  rewrite HP. rewrite (digits_alld dec_digit 10 ds 0 0 A).
  assert (0 < 0 + Z.of_nat (length ds)) by (destruct ds; [contradiction|cbn [length]; lia]).
  destruct (Z.ltb_spec 0 (0 + Z.of_nat (length ds))); [|lia]. cbn [andb].
  destruct (Z.leb_spec (dvalue dec_digit 10 ds 0) (if neg then 2 ^ 63 else 2 ^ 63 - 1)); [reflexivity|lia].
Qed.

Theorem tostring_tonumber_int n : in64 n -> s_str2number (int_to_dec n) = Some (NInt n).
Proof.
  intros Hn. unfold s_str2number, int_to_dec. unfold in64 in Hn.
  assert (P20 : 2 ^ 63 < 10 ^ Z.of_nat 20) by (vm_compute; reflexivity).
  destruct (Z.ltb_spec n 0) as [N|P].
  - destruct (dec_digits_spec 20 (- n) [] ltac:(lia) ltac:(lia) eq_refl) as (A & NE & V).
    cbn [length dvalue fold_left] in V. rewrite Z.mul_1_r, Z.add_0_r in V.
    change (45 :: dec_digits 20 (- n) []) with ([45] ++ dec_digits 20 (- n) []).
    rewrite (str2int_digits true [45] _ ltac:(right; right; auto) NE A) by (rewrite V; lia).
    rewrite V. rewrite Z.opp_involutive. rewrite wrap64_id by (unfold in64; lia). reflexivity.
  - destruct (dec_digits_spec 20 n [] ltac:(lia) ltac:(lia) eq_refl) as (A & NE & V).
    cbn [length dvalue fold_left] in V. rewrite Z.mul_1_r, Z.add_0_r in V.
    change (dec_digits 20 n []) with ([] ++ dec_digits 20 n []).
    rewrite (str2int_digits false [] _ ltac:(left; auto) NE A) by (rewrite V; lia).
    rewrite V. rewrite wrap64_id by (unfold in64; lia). reflexivity.
Qed.

(* ---------------------------------------------------------------- the strconv hypotheses are satisfiable *)
(* ParseInt: a reference implementation satisfies ParseInt_ok for ALL inputs *)
Definition ParseInt_ref (l : list Z) : pi_res :=
  let '(neg, ds) := split_sign l in
  let '(a, n, rest) := digits dec_digit 10 ds 0 0 in
  match rest with
  | [] => if 0 <? n then (let v := if neg then - a else a in if in64b v then PIOk v else PIErr) else PIErr
  | _ => PIErr
  end.

Example ParseInt_ok_sat : ParseInt_ok ParseInt_ref.
Proof.
  intros sg neg ds ST NE A. unfold ParseInt_ref.
  pose proof (alld_no_space ds A) as NS.
  assert (SS : split_sign (sg ++ ds) = (neg, ds)).
  { destruct ST as [[-> ->]|[[-> ->]|[-> ->]]]; try reflexivity.
    destruct ds as [|c r]; [contradiction|]. cbn. destruct (NS c (or_introl eq_refl)) as (_ & -> & _). reflexivity. }
  rewrite SS. rewrite (digits_alld dec_digit 10 ds 0 0 A).
  assert (0 < 0 + Z.of_nat (length ds)) by (destruct ds; [contradiction|cbn [length]; lia]).
  destruct (Z.ltb_spec 0 (0 + Z.of_nat (length ds))); [reflexivity|lia].
Qed.

(* ParseFloat: the reference function "what the manual's grammar denotes" satisfies both hypotheses on a
   finite family of texts covering every syntactic shape (sign x integer/fraction/exponent parts, hex with
   and without exponent, overflow, underflow, denormals, ties); in particular the two hypotheses do not
   contradict each other or themselves there.  (For all texts the evidence is the correspondence check
   against Go's strconv.ParseFloat.) *)
Definition ParseFloat_ref (l : list Z) : f64 :=
  match str2float l with Some f => f | None => fnan end.

Definition sign_family : list (list Z * bool) := [([], false); ([43], false); ([45], true)].
Definition of_ascii (s : list nat) : list Z := map Z.of_nat s.
(* "0" "7" "10" "1.5" ".5" "5." "1e1" "1E+2" "25e-1" "1e308" "1e309" "1e-320" "1e-400" "9007199254740993"
   "9007199254740992.5" "123456789012345678901234567890" "0.1" "2.5e-324" *)
Definition dec_family : list (list Z) := map of_ascii
  [[48]; [55]; [49;48]; [49;46;53]; [46;53]; [53;46]; [49;101;49]; [49;69;43;50]; [50;53;101;45;49];
   [49;101;51;48;56]; [49;101;51;48;57]; [49;101;45;51;50;48]; [49;101;45;52;48;48];
   [57;48;48;55;49;57;57;50;53;52;55;52;48;57;57;51]; [57;48;48;55;49;57;57;50;53;52;55;52;48;57;57;50;46;53];
   [49;50;51;52;53;54;55;56;57;48;49;50;51;52;53;54;55;56;57;48;49;50;51;52;53;54;55;56;57;48];
   [48;46;49]; [50;46;53;101;45;51;50;52]]%nat.
(* bodies after 0x: "1" "ff" "1.8" ".8" "8." "1p4" "1P-1" "1.8p+1" "1p1023" "1p1024" "1p-1074" "1p-1075"
   "1fffffffffffff8" "10000000000000001p0" *)
Definition hex_family : list (list Z) := map of_ascii
  [[49]; [102;102]; [49;46;56]; [46;56]; [56;46]; [49;112;52]; [49;80;45;49]; [49;46;56;112;43;49];
   [49;112;49;48;50;51]; [49;112;49;48;50;52]; [49;112;45;49;48;55;52]; [49;112;45;49;48;55;53];
   [49;102;102;102;102;102;102;102;102;102;102;102;102;102;56]; [49;48;48;48;48;48;48;48;48;48;48;48;48;48;48;48;49;112;48]]%nat.

Definition same_float (f g : f64) : bool := Z.eqb (to_bits f) (to_bits g).

Example ParseFloat_dec_ok_family :
  forallb (fun sn : list Z * bool => let '(sg, neg) := sn in
    forallb (fun body =>
      match mantissa_exp dec_digit 10 is_e body with
      | Some (M, nf, e) => same_float (ParseFloat_ref (sg ++ body)) (dec_to_float neg M (e - nf))
      | None => false
      end) dec_family) sign_family = true.
Proof. vm_compute. reflexivity. Qed.

Example ParseFloat_hex_ok_family :
  forallb (fun sn : list Z * bool => let '(sg, neg) := sn in
    forallb (fun body =>
      forallb (fun x =>
        match mantissa_exp hex_digit 16 is_p body with
        | Some (M, nf, e) =>
            same_float (ParseFloat_ref (sg ++ 48 :: x :: (if has_p body then body else body ++ [112; 48])))
                       (of_mant_exp (cond_Zopp neg M) (e - 4 * nf) neg)
        | None => false
        end) [120; 88]) hex_family) sign_family = true.
Proof. vm_compute. reflexivity. Qed.
