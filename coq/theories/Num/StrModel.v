(* Num/StrModel.v — IM: runtime/numconv.go StringToNumber (after the round-2
   repair) and ast/number.go NewNumber, transliterated.  Go's strconv functions
   are Section variables (trusted base; hypotheses about them are stated in
   Num/StrProofs.v).  Byte strings are lists of Z.  Definitions only. *)
From Coq Require Import ZArith Bool List.
From Flocq Require Import Core.Core IEEE754.BinarySingleNaN.
From GV Require Import Base.W64 Base.F64 Num.Model Num.StrSpec.
Import ListNotations.
Open Scope Z_scope.

(* result of strconv.ParseInt(s, 10, 64): the value, or an error (syntax or range) *)
Inductive pi_res : Type := PIOk (n : Z) | PIErr.

Inductive numeralKind : Type := NotNumeral | DecInt | HexInt | DecFloat | HexFloat.

Definition isDecDigit (c : Z) : bool := (48 <=? c) && (c <=? 57).
Definition isHexDigit (c : Z) : bool :=
  ((48 <=? c) && (c <=? 57)) || ((97 <=? c) && (c <=? 102)) || ((65 <=? c) && (c <=? 70)).

(* for i < len(s) && isDigit(s[i]) { i++; n++ } : (what is left, n) *)
Fixpoint skip (p : Z -> bool) (l : list Z) (n : Z) : list Z * Z :=
  match l with
  | c :: r => if p c then skip p r (n + 1) else (l, n)
  | [] => ([], n)
  end.

(* if i < len(s) && (s[i] == '-' || s[i] == '+') { i++ } *)
Definition skip_sign (l : list Z) : list Z :=
  match l with c :: r => if is_sign c then r else l | [] => [] end.

Definition kind_of (hex fl : bool) : numeralKind :=
  if hex then (if fl then HexFloat else HexInt) else (if fl then DecFloat else DecInt).

(* the exponent part after the marker: [sign] decdigits+ up to the end of the string *)
Definition scan_exp (r : list Z) : option bool :=
  let '(r2, ne) := skip isDecDigit (skip_sign r) 0 in
  if ne =? 0 then None else match r2 with [] => Some true | _ => None end.

(* digits [. digits] [marker exponent] up to the end: None = not a numeral, Some fl = numeral, fl = it is a float *)
Definition scan_tail (isDigit : Z -> bool) (marker : Z) (s2 : list Z) : option bool :=
  let '(s3, n1) := skip isDigit s2 0 in
  let '(s4, n, fl) :=
    match s3 with
    | c :: r => if c =? 46 then (let '(s4, n) := skip isDigit r n1 in (s4, n, true)) else (s3, n1, false)
    | [] => (s3, n1, false)
    end in
  if n =? 0 then None else
  match s4 with
  | [] => Some fl
  | c :: r => if Z.lor c 32 =? marker then scan_exp r else None
  end.

(* func scanNumeral(s string) numeralKind *)
Definition scan_body (s1 : list Z) : numeralKind :=
  match hex_prefix s1 with
  | Some r => match scan_tail isHexDigit 112 r with Some fl => kind_of true fl | None => NotNumeral end
  | None => match scan_tail isDecDigit 101 s1 with Some fl => kind_of false fl | None => NotNumeral end
  end.
Definition scanNumeral (s : list Z) : numeralKind := scan_body (skip_sign s).

Definition lastn (n : nat) (l : list Z) : list Z := skipn (length l - n) l.
Definition has_p (s : list Z) : bool := existsb is_p s.

Section Strconv.
Variable ParseInt : list Z -> pi_res.        (* strconv.ParseInt(s, 10, 64) *)
Variable ParseUint16 : list Z -> Z.          (* value returned by strconv.ParseUint(s, 16, 64); error dropped *)
Variable ParseFloat : list Z -> f64.         (* value returned by strconv.ParseFloat(s, 64); error dropped *)

(* func StringToNumber(s string) (n int64, f float64, tp NumberType); None = NaN (not a number) *)
Definition StringToNumber (s0 : list Z) : option num :=
  let s := trim s0 in
  match scanNumeral s with
  | DecInt =>
      match ParseInt s with
      | PIOk n => Some (NInt n)
      | PIErr => Some (NFlt (ParseFloat s))
      end
  | HexInt =>
      let neg := match s with c :: _ => c =? 45 | [] => false end in
      let s2 := skipn 2 (skip_sign s) in
      let s3 := if (16 <? Z.of_nat (length s2)) then lastn 16 s2 else s2 in
      let n := wrap64 (ParseUint16 s3) in
      Some (NInt (if neg then neg64 n else n))
  | DecFloat => Some (NFlt (ParseFloat s))
  | HexFloat => Some (NFlt (ParseFloat (if has_p s then s else s ++ [112; 48])))
  | NotNumeral => None
  end.

(* ast.NewNumber on a NUMDEC / NUMHEX token (no sign, no spaces; the scanner guarantees the token
   is a numeral).  toFloatToken: decimal with one of ".eE", hex with one of ".pP" (adding "p0"). *)
Definition contains (p : Z -> bool) (l : list Z) : bool := existsb p l.
Definition is_dot_e (c : Z) : bool := (c =? 46) || is_e c.
Definition is_dot_p (c : Z) : bool := (c =? 46) || is_p c.

Definition NewNumber (tok : list Z) : option num :=
  match hex_prefix tok with
  | Some r =>
      if contains is_dot_p tok then
        Some (NFlt (ParseFloat (if has_p tok then tok else tok ++ [112; 48])))
      else
        (let s3 := if (16 <? Z.of_nat (length r)) then lastn 16 r else r in
         Some (NInt (wrap64 (ParseUint16 s3))))
  | None =>
      if contains is_dot_e tok then Some (NFlt (ParseFloat tok))
      else match ParseInt tok with
           | PIOk n => Some (NInt n)
           | PIErr => Some (NFlt (ParseFloat tok))
           end
  end.
End Strconv.
