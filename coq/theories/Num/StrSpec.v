(* Num/StrSpec.v — S: string -> number conversion as the manual defines it
   (§3.1 numerals, §3.4.3 "the string is converted to an integer or a float,
   following its syntax and the rules of the Lua lexer; the string may have
   leading and trailing whitespace and a sign"), and tonumber(s, base).
   Byte strings are lists of Z (0..255).  Decimal -> binary64 is correctly
   rounded (round to odd at >= 69 bits, then binary_normalize to nearest even).
   Definitions only (extracted). *)
From Coq Require Import ZArith Bool List.
From Flocq Require Import Core.Core IEEE754.BinarySingleNaN.
From GV Require Import Base.W64 Base.F64 Num.Model.
Import ListNotations.
Open Scope Z_scope.

Definition is_space (c : Z) : bool := (c =? 32) || ((9 <=? c) && (c <=? 13)).

Fixpoint drop_spaces (l : list Z) : list Z :=
  match l with c :: r => if is_space c then drop_spaces r else l | [] => [] end.
Definition trim (l : list Z) : list Z := rev (drop_spaces (rev (drop_spaces l))).

Definition dec_digit (c : Z) : option Z := if (48 <=? c) && (c <=? 57) then Some (c - 48) else None.
Definition hex_digit (c : Z) : option Z :=
  if (48 <=? c) && (c <=? 57) then Some (c - 48)
  else if (97 <=? c) && (c <=? 102) then Some (c - 87)
  else if (65 <=? c) && (c <=? 70) then Some (c - 55) else None.
Definition alnum_digit (c : Z) : option Z :=
  if (48 <=? c) && (c <=? 57) then Some (c - 48)
  else if (97 <=? c) && (c <=? 122) then Some (c - 87)
  else if (65 <=? c) && (c <=? 90) then Some (c - 55) else None.

(* read a maximal run of digits: (value accumulated in the given base, number of digits, rest) *)
Fixpoint digits (dig : Z -> option Z) (base : Z) (l : list Z) (acc n : Z) : Z * Z * list Z :=
  match l with
  | c :: r => match dig c with Some d => digits dig base r (acc * base + d) (n + 1) | None => (acc, n, l) end
  | [] => (acc, n, [])
  end.

Definition is_sign (c : Z) : bool := (c =? 45) || (c =? 43).
(* an optional sign: (is it '-', what follows) *)
Definition split_sign (l : list Z) : bool * list Z :=
  match l with
  | c :: r => if is_sign c then (c =? 45, r) else (false, l)
  | [] => (false, [])
  end.

Definition is_x (c : Z) : bool := (c =? 120) || (c =? 88).

(* does the text start with 0x / 0X ?  Some (what follows) *)
Definition hex_prefix (l : list Z) : option (list Z) :=
  match l with
  | c0 :: x :: r => if (c0 =? 48) && is_x x then Some r else None
  | _ => None
  end.

(* integer numerals: decimal (must fit, else not an integer) or hexadecimal (wraps modulo 2^64) *)
Definition str2int (l : list Z) : option Z :=
  let '(neg, l) := split_sign (trim l) in
  match hex_prefix l with
  | Some r =>
      let '(a, n, rest) := digits hex_digit 16 r 0 0 in
      match rest with [] => if 0 <? n then Some (wrap64 (if neg then - a else a)) else None | _ => None end
  | None =>
      let '(a, n, rest) := digits dec_digit 10 l 0 0 in
      match rest with
      | [] => if (0 <? n) && (a <=? (if neg then 2 ^ 63 else 2 ^ 63 - 1)) then Some (wrap64 (if neg then - a else a)) else None
      | _ => None end
  end.

(* M * 10^e10, correctly rounded *)
Definition dec_to_float (neg : bool) (M e10 : Z) : f64 :=
  if M =? 0 then fzero neg
  else if 0 <=? e10 then of_mant_exp (cond_Zopp neg (M * 10 ^ e10)) 0 neg
  else
    let d := 10 ^ (- e10) in
    let k := Z.max 0 (Z.log2 d + 70 - Z.log2 M) in
    let q := (M * 2 ^ k) / d in
    let r := (M * 2 ^ k) mod d in
    of_mant_exp (cond_Zopp neg (2 * q + (if r =? 0 then 0 else 1))) (- k - 1) neg.

(* optional exponent part: marker already consumed by the caller; [sign] digits+ then end *)
Definition exponent (l : list Z) : option Z :=
  let '(neg, l) := split_sign l in
  let '(e, n, rest) := digits dec_digit 10 l 0 0 in
  match rest with [] => if 0 <? n then Some (if neg then - e else e) else None | _ => None end.

Definition is_e (c : Z) : bool := (c =? 101) || (c =? 69).
Definition is_p (c : Z) : bool := (c =? 112) || (c =? 80).

(* mantissa [. fraction] [marker exponent]  ->  (M, number of fraction digits, exponent) *)
Definition mantissa_exp (dig : Z -> option Z) (base : Z) (marker : Z -> bool) (l : list Z) : option (Z * Z * Z) :=
  let '(a, n1, rest) := digits dig base l 0 0 in
  let '(a, n2, rest) :=
    match rest with
    | c :: r => if c =? 46 then digits dig base r a 0 else (a, 0, rest)
    | [] => (a, 0, rest)
    end in
  if 0 <? n1 + n2 then
    match rest with
    | [] => Some (a, n2, 0)
    | c :: r => if marker c then match exponent r with Some e => Some (a, n2, e) | None => None end else None
    end
  else None.

(* float numerals (inf and nan are not numerals: the grammar has no letter n) *)
Definition str2float (l : list Z) : option f64 :=
  let '(neg, l) := split_sign (trim l) in
  match hex_prefix l with
  | Some r =>
      match mantissa_exp hex_digit 16 is_p r with
      | Some (M, nf, e) => Some (of_mant_exp (cond_Zopp neg M) (e - 4 * nf) neg)
      | None => None
      end
  | None =>
      match mantissa_exp dec_digit 10 is_e l with
      | Some (M, nf, e) => Some (dec_to_float neg M (e - nf))
      | None => None
      end
  end.

Definition s_str2number (l : list Z) : option num :=
  match str2int l with
  | Some n => Some (NInt n)
  | None => match str2float l with Some f => Some (NFlt f) | None => None end
  end.

(* tonumber(s, base), 2 <= base <= 36 *)
Definition s_tonumber_base (l : list Z) (base : Z) : option Z :=
  let '(neg, l) := split_sign (trim l) in
  let '(a, n, rest) := digits (fun c => match alnum_digit c with Some d => if d <? base then Some d else None | None => None end) base l 0 0 in
  match rest with
  | [] => if 0 <? n then Some (wrap64 (if neg then - a else a)) else None
  | _ => None
  end.

(* tostring of an integer: optional '-', decimal digits, no leading zero (lua_Integer "%d") *)
Fixpoint dec_digits (fuel : nat) (a : Z) (acc : list Z) : list Z :=
  match fuel with
  | O => acc
  | S k => if a <? 10 then (48 + a) :: acc else dec_digits k (a / 10) ((48 + a mod 10) :: acc)
  end.
Definition int_to_dec (n : Z) : list Z :=
  if n <? 0 then 45 :: dec_digits 20 (- n) [] else dec_digits 20 n [].
