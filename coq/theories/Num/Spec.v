(* Num/Spec.v — S: the Lua 5.4 manual's definitions of the number operations,
   written as the simplest executable functions over Z and over the exact
   rational value of a float (mantissa * 2^exponent), independent of how golua
   computes them.  Definitions only (extracted); that these definitions mean
   what they should over the reals is proved in Num/SpecSane.v. *)
From Coq Require Import ZArith Bool List.
From Flocq Require Import Core.Core IEEE754.BinarySingleNaN.
From GV Require Import Base.W64 Base.F64 Num.Model.
Import ListNotations.
Open Scope Z_scope.

(* §3.4.1: integer arithmetic wraps around modulo 2^64 *)
Definition s_add_int (a b : Z) : Z := wrap64 (a + b).
Definition s_sub_int (a b : Z) : Z := wrap64 (a - b).
Definition s_mul_int (a b : Z) : Z := wrap64 (a * b).
Definition s_unm_int (a : Z) : Z := wrap64 (- a).
(* floor division rounds the quotient towards minus infinity; modulo is the
   remainder of that division (Z's / and mod are exactly these) *)
Definition s_idiv_int (a b : Z) : Z := wrap64 (a / b).
Definition s_mod_int (a b : Z) : Z := a mod b.

(* §3.4.2: shifts are logical on the 64-bit pattern; displacements >= 64 give
   0; negative displacements shift the other way *)
Definition s_shl (a n : Z) : Z :=
  if (n <=? -64) || (64 <=? n) then 0
  else if 0 <=? n then wrap64 (u64 a * 2 ^ n) else wrap64 (u64 a / 2 ^ (- n)).
Definition s_shr (a n : Z) : Z :=
  if (n <=? -64) || (64 <=? n) then 0
  else if 0 <=? n then wrap64 (u64 a / 2 ^ n) else wrap64 (u64 a * 2 ^ (- n)).

(* §3.4.4: comparison of an integer with a float is by mathematical value.
   The exact value of a finite float is (±m)·2^e; compare in Z after scaling. *)
Definition s_cmp_int_float (n : Z) (f : f64) : option comparison :=
  match f with
  | B754_nan => None
  | B754_zero _ => Some (n ?= 0)
  | B754_infinity s => Some (if s then Gt else Lt)
  | B754_finite s m e _ =>
      if 0 <=? e then Some (n ?= cond_Zopp s (Zpos m * 2 ^ e))
      else Some (n * 2 ^ (- e) ?= cond_Zopp s (Zpos m))
  end.

Definition s_cmp_float (f g : f64) : option comparison := Bcompare f g.

Definition s_cmp (x y : num) : option comparison :=
  match x, y with
  | NInt a, NInt b => Some (a ?= b)
  | NInt a, NFlt g => s_cmp_int_float a g
  | NFlt f, NInt b => option_map CompOpp (s_cmp_int_float b f)
  | NFlt f, NFlt g => s_cmp_float f g
  end.

Definition s_lt (x y : num) : bool := match s_cmp x y with Some Lt => true | _ => false end.
Definition s_le (x y : num) : bool := match s_cmp x y with Some Lt | Some Eq => true | _ => false end.
Definition s_eq (x y : num) : bool := match s_cmp x y with Some Eq => true | _ => false end.

(* §3.4.3: a float converts to an integer iff it has an exact integer value
   that fits an int64 *)
Definition s_float_to_int (f : f64) : option Z :=
  match f with
  | B754_zero _ => Some 0
  | B754_finite s m e _ =>
      if 0 <=? e then
        (let z := cond_Zopp s (Zpos m * 2 ^ e) in if in64b z then Some z else None)
      else if (Zpos m) mod 2 ^ (- e) =? 0 then
        (let z := cond_Zopp s (Zpos m / 2 ^ (- e)) in if in64b z then Some z else None)
      else None
  | _ => None
  end.

Definition s_to_int (x : num) : option Z :=
  match x with NInt a => Some a | NFlt f => s_float_to_int f end.

Definition s_bitop (f : Z -> Z -> Z) (x y : num) : res :=
  match s_to_int x, s_to_int y with
  | Some a, Some b => ROk (NInt (f a b))
  | _, _ => RErr ENoInt
  end.

(* float modulo: a - floor(a/b)*b over the reals, rounded once; the IEEE
   special cases as C's fmod followed by Lua's sign adjustment *)
Definition s_mod_float (x y : f64) : f64 :=
  match x, y with
  | B754_nan, _ | _, B754_nan => B754_nan
  | B754_infinity _, _ => B754_nan
  | _, B754_zero _ => B754_nan
  | B754_zero _, _ => x
  | B754_finite sx _ _ _, B754_infinity sy => if Bool.eqb sx sy then x else y
  | B754_finite _ _ _ _, B754_finite _ _ _ _ => fmod_floor_exact x y
  end.

(* math.fmod: remainder of the division that rounds the quotient towards zero *)
Definition s_math_fmod (x y : num) : res :=
  match x, y with
  | NInt a, NInt b => if b =? 0 then RErr EModZero else ROk (NInt (Z.rem a b))
  | _, _ => ROk (NFlt (fmod (tofloat x) (tofloat y)))
  end.
