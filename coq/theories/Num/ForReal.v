(* Num/ForReal.v — C16, round 8.
   (1) Integer loop with ANY limit, stated directly against the real-valued limit (no reference to
       the clipping function): the IM visits exactly the values s + i*st (i = 0, 1, ...) that are
       int64 values and do not pass the limit (as a real number / infinity; never for NaN), in this
       order, and terminates.
   (2) Float loops: what the code does when the addition is absorbed (x + st == x while x has not
       passed the limit): the loop hands the body x for ever.  Hence "float loops always terminate"
       is refuted (witness for i = 2^53, 2^53+2, 1.0), for the IM and for the manual's definition alike. *)
From Coq Require Import ZArith Reals Lia Lra Bool List.
From Flocq Require Import Core.Core IEEE754.BinarySingleNaN.
From GV Require Import Base.W64 Base.W64Lemmas Base.F64 Base.F64Lemmas Num.Model Num.Spec Num.Ops
  Num.ForLoop Num.ForProofs Num.ForClip.
Import ListNotations.
Open Scope Z_scope.

(* ------------------------------------------------------------------ (2) float loops, absorbing case *)
Lemma s_float_loop_absorbing fuel x l st :
  fadd x st = x -> (if flt fzero0 st then fle x l else fle l x) = true ->
  s_float_loop fuel x l st = (repeat (NFlt x) fuel, false).
Proof.
  intros A C. induction fuel as [|k IH]; [reflexivity|].
  cbn [s_float_loop repeat]. rewrite A, C, IH. reflexivity.
Qed.

(* The IM: a float loop whose current value x satisfies x + st == x and has not passed the limit
   never ends: for every fuel the body has seen x fuel times and the loop is still running. *)
Theorem float_loop_absorbing fuel x l st :
  fadd x st = x -> (if flt fzero0 st then fle x l else fle l x) = true ->
  run_loop fuel (NFlt x) (NFlt l) (NFlt st) = (repeat (NFlt x) fuel, false).
Proof. intros A C. rewrite run_loop_float. now apply s_float_loop_absorbing. Qed.

(* and from the start of the loop (prepfor included), for all numeric operands *)
Theorem float_loop_absorbing_from_start fuel start limit step :
  match step with NInt n => in64 n | NFlt _ => True end -> is_float_loop start step = true ->
  isZero step = false ->
  fadd (tofloat start) (tofloat step) = tofloat start ->
  (if flt fzero0 (tofloat step) then fle (tofloat start) (tofloat limit) else fle (tofloat limit) (tofloat start)) = true ->
  for_im fuel start limit step = FRun (repeat (NFlt (tofloat start)) fuel) false /\
  for_s fuel start limit step = FRun (repeat (NFlt (tofloat start)) fuel) false.
Proof.
  intros W FL NZ A C.
  assert (E : for_s fuel start limit step = FRun (repeat (NFlt (tofloat start)) fuel) false).
  { unfold for_s.
    assert (Z0 : feq (tofloat step) fzero0 = false).
    { destruct step as [n|f]; cbn [tofloat isZero] in *; [|exact NZ]. now rewrite of_int_zero_iff. }
    destruct start as [a|x], step as [n|f]; try discriminate FL;
      rewrite Z0, C, (s_float_loop_absorbing fuel _ _ _ A C); reflexivity. }
  split; [|exact E]. rewrite float_loop_definition by assumption. exact E.
Qed.

Definition two53 : Z := 9007199254740992.

Lemma absorb_witness : fadd (of_int two53) (of_int 1) = of_int two53.
Proof. apply B2SF_inj. vm_compute. reflexivity. Qed.

(* "every numeric for loop terminates" is false for float loops: for i = 2^53, 2^53+2, 1.0 hands the
   body 2^53 for ever (2^53 + 1.0 rounds to 2^53).  Same for the manual's definition. *)
Theorem float_loop_terminates_refuted :
  exists start limit step, isZero step = false /\
    forall fuel, for_im fuel start limit step = FRun (repeat start fuel) false /\
                 for_s fuel start limit step = FRun (repeat start fuel) false.
Proof.
  exists (NFlt (of_int two53)), (NInt (two53 + 2)), (NFlt (of_int 1)). split; [vm_compute; reflexivity|].
  intros fuel.
  apply (float_loop_absorbing_from_start fuel (NFlt (of_int two53)) (NInt (two53 + 2)) (NFlt (of_int 1))).
  - exact I.
  - reflexivity.
  - vm_compute; reflexivity.
  - exact absorb_witness.
  - vm_compute; reflexivity.
Qed.

(* conversely, a float loop that has finished never met an absorbing point before its last value:
   all values handed to the body but the last are pairwise different from their successor *)
Lemma s_float_loop_finished_progress fuel : forall x l st vs,
  s_float_loop fuel x l st = (vs, true) ->
  forall i, (S i < length vs)%nat -> nth i vs (NInt 0) <> nth (S i) vs (NInt 0).
Proof.
  induction fuel as [|k IH]; intros x l st vs E i Hi; [discriminate|].
  cbn [s_float_loop] in E.
  destruct (if flt fzero0 st then fle (fadd x st) l else fle l (fadd x st)) eqn:C.
  - destruct (s_float_loop k (fadd x st) l st) as [vs' fin] eqn:R. inversion E; subst vs fin. clear E.
    destruct i as [|j].
    + cbn [nth]. destruct k as [|k']; [discriminate R|].
      intro Q.
      assert (HD : nth 0 vs' (NInt 0) = NFlt (fadd x st)).
      { cbn [s_float_loop] in R.
        destruct (if flt fzero0 st then fle (fadd (fadd x st) st) l else fle l (fadd (fadd x st) st)).
        - destruct (s_float_loop k' (fadd (fadd x st) st) l st). inversion R. reflexivity.
        - inversion R. reflexivity. }
      rewrite HD in Q. injection Q as Q.
      (* x + st = x and the loop continued: it would never finish *)
      assert (C' : (if flt fzero0 st then fle x l else fle l x) = true) by (rewrite <- Q in C; exact C).
      rewrite <- Q in R. rewrite (s_float_loop_absorbing (S k') x l st (eq_sym Q) C') in R. discriminate R.
    + cbn [nth]. apply (IH _ _ _ _ R). cbn [length] in Hi. lia.
  - inversion E; subst vs. cbn [length] in Hi. lia.
Qed.

(* ------------------------------------------------------------------ (1) integer loop, real-valued limit *)
(* v has not passed the limit (st > 0: v <= limit; st < 0: v >= limit), the limit taken as an exact
   real number; +-infinity as such; nothing is <= or >= NaN *)
Definition not_past (lim : num) (st v : Z) : Prop :=
  match lim with
  | NInt l => if 0 <? st then v <= l else l <= v
  | NFlt f =>
      match f with
      | B754_nan => False
      | B754_infinity sg => if sg then st < 0 else 0 < st
      | _ => if 0 <? st then (IZR v <= B2R f)%R else (B2R f <= IZR v)%R
      end
  end.

(* number of iterations of the integer loop with any limit *)
Definition clip_count (s : Z) (lim : num) (st : Z) : Z :=
  match s_forlimit lim st with Some l => s_count s l st | None => 0 end.

Lemma count_iff s l st i : st <> 0 -> 0 <= i ->
  (i < s_count s l st <-> (if 0 <? st then s + i * st <= l else l <= s + i * st)).
Proof.
  intros NZ Hi. unfold s_count.
  destruct (Z.ltb_spec 0 st) as [P|N].
  - destruct (Z.ltb_spec l s) as [A|A].
    + split; [lia|]. intro. assert (0 <= i * st) by (apply Z.mul_nonneg_nonneg; lia). lia.
    + split; intro H.
      * assert (i <= (l - s) / st) by lia.
        assert (st * ((l - s) / st) <= l - s) by (apply Z.mul_div_le; lia).
        assert (i * st <= ((l - s) / st) * st) by (apply Z.mul_le_mono_nonneg_r; lia). lia.
      * assert (i <= (l - s) / st) by (apply Z.div_le_lower_bound; lia). lia.
  - assert (N' : st < 0) by lia.
    destruct (Z.ltb_spec s l) as [A|A].
    + split; [lia|]. intro. assert (i * st <= 0) by (apply Z.mul_nonneg_nonpos; lia). lia.
    + split; intro H.
      * assert (i <= (s - l) / (- st)) by lia.
        assert ((- st) * ((s - l) / (- st)) <= s - l) by (apply Z.mul_div_le; lia).
        assert (i * (- st) <= ((s - l) / (- st)) * (- st)) by (apply Z.mul_le_mono_nonneg_r; lia). lia.
      * assert (i <= (s - l) / (- st)) by (apply Z.div_le_lower_bound; lia). lia.
Qed.

Lemma IZR_le_floor v x : (IZR v <= x)%R <-> v <= Zfloor x.
Proof.
  split; intro H.
  - now apply Zfloor_lub.
  - apply Rle_trans with (IZR (Zfloor x)); [now apply IZR_le|apply Zfloor_lb].
Qed.
Lemma ceil_le_IZR v x : (x <= IZR v)%R <-> Zceil x <= v.
Proof.
  split; intro H.
  - now apply Zceil_glb.
  - apply Rle_trans with (IZR (Zceil x)); [apply Zceil_ub|now apply IZR_le].
Qed.

(* the clipped limit selects exactly the int64 values that do not pass the real-valued limit *)
Lemma clip_iff lim st : st <> 0 ->
  match s_forlimit lim st with
  | Some l => forall v, in64 v -> ((if 0 <? st then v <= l else l <= v) <-> not_past lim st v)
  | None => forall v, in64 v -> ~ not_past lim st v
  end.
Proof.
  intros NZ. destruct lim as [l|f]; [cbn; intros; tauto|].
  destruct (is_finite f) eqn:Ff.
  - rewrite s_forlimit_finite by exact Ff.
    assert (NP : forall v, not_past (NFlt f) st v = if 0 <? st then (IZR v <= B2R f)%R else (B2R f <= IZR v)%R).
    { intro v. destruct f; try discriminate; reflexivity. }
    destruct (Z.ltb_spec 0 st) as [P|N].
    + rewrite s_floor_z_fin by exact Ff. set (z := Zfloor (B2R f)).
      destruct (in64b z) eqn:R.
      * intros v Hv. rewrite NP. destruct (Z.ltb_spec 0 st); [|lia]. symmetry. apply IZR_le_floor.
      * assert (~ in64 z) by (intro C; apply in64b_true in C; congruence).
        destruct (Z.ltb_spec 0 z).
        -- destruct (Z.ltb_spec st 0); [lia|]. intros v Hv. rewrite NP. destruct (Z.ltb_spec 0 st); [|lia].
           rewrite IZR_le_floor. fold z. unfold in64, maxint in *. lia.
        -- destruct (Z.ltb_spec 0 st); [|lia]. intros v Hv. rewrite NP. destruct (Z.ltb_spec 0 st); [|lia].
           rewrite IZR_le_floor. fold z. unfold in64 in *. lia.
    + assert (N' : st < 0) by lia.
      rewrite s_ceil_z_fin by exact Ff. set (z := Zceil (B2R f)).
      destruct (in64b z) eqn:R.
      * intros v Hv. rewrite NP. destruct (Z.ltb_spec 0 st); [lia|]. symmetry. apply ceil_le_IZR.
      * assert (~ in64 z) by (intro C; apply in64b_true in C; congruence).
        destruct (Z.ltb_spec 0 z).
        -- destruct (Z.ltb_spec st 0); [|lia]. intros v Hv. rewrite NP. destruct (Z.ltb_spec 0 st); [lia|].
           rewrite ceil_le_IZR. fold z. unfold in64 in *. lia.
        -- destruct (Z.ltb_spec 0 st); [lia|]. intros v Hv. rewrite NP. destruct (Z.ltb_spec 0 st); [lia|].
           rewrite ceil_le_IZR. fold z. unfold in64, minint in *. lia.
  - destruct f as [sg|sg| |sg m e B]; try discriminate; cbn [s_forlimit not_past].
    + destruct sg.
      * destruct (Z.ltb_spec 0 st); [intros; lia|]. intros v Hv. unfold in64, minint in *. lia.
      * destruct (Z.ltb_spec st 0); [intros; lia|]. intros v Hv.
        destruct (Z.ltb_spec 0 st); [|lia]. unfold in64, maxint in *. lia.
    + intros v _ C. exact C.
Qed.

Lemma s_forlimit_some_in64 lim st l : num_ok lim -> s_forlimit lim st = Some l -> in64 l.
Proof.
  destruct lim as [n|f]; cbn [num_ok].
  - intros H [= <-]. exact H.
  - intros _. apply s_forlimit_in64.
Qed.

(* Integer loop, any limit: the values are the progression s, s+st, ... cut at clip_count; an index i
   is below clip_count exactly when s + i*st is an int64 value that has not passed the real-valued limit
   (so the body sees exactly those values, in order, each once); and the loop ends: clip_count <= 2^64
   and the run with that much fuel has finished. *)
Theorem int_loop_real_limit fuel s lim st : in64 s -> in64 st -> st <> 0 -> num_ok lim ->
  let c := clip_count s lim st in
  for_im fuel (NInt s) lim (NInt st) =
    FRun (map NInt (prog (Nat.min fuel (Z.to_nat c)) s st)) (c <=? Z.of_nat fuel) /\
  (forall i, 0 <= i -> (i < c <-> in64 (s + i * st) /\ not_past lim st (s + i * st))) /\
  0 <= c <= 2 ^ 64.
Proof.
  intros Hs Hst NZ Hl c.
  assert (E : for_im fuel (NInt s) lim (NInt st) = for_s fuel (NInt s) lim (NInt st)).
  { apply int_loop_any_limit; auto. }
  pose proof (clip_iff lim st NZ) as CI.
  unfold for_s in E. destruct (Z.eqb_spec st 0); [contradiction|].
  unfold clip_count in c.
  destruct (s_forlimit lim st) as [l|] eqn:SL.
  - assert (Hl' : in64 l) by (eapply s_forlimit_some_in64; eassumption).
    subst c. split; [|split].
    + rewrite E, take_count_min. reflexivity.
    + intros i Hi. rewrite (count_iff s l st i NZ Hi). split.
      * intro H.
        assert (V : in64 (s + i * st)).
        { destruct (Z.ltb_spec 0 st).
          - assert (0 <= i * st) by (apply Z.mul_nonneg_nonneg; lia). unfold in64 in *. lia.
          - assert (i * st <= 0) by (apply Z.mul_nonneg_nonpos; lia). unfold in64 in *. lia. }
        split; [exact V|]. now apply CI.
      * intros [V NP]. now apply CI.
    + unfold s_count. unfold in64 in *.
      destruct (0 <? st) eqn:P.
      * apply Z.ltb_lt in P. destruct (Z.ltb_spec l s); [lia|].
        assert (0 <= (l - s) / st) by (apply Z.div_pos; lia).
        assert ((l - s) / st <= l - s) by (apply Z.div_le_upper_bound; nia). lia.
      * apply Z.ltb_ge in P. destruct (Z.ltb_spec s l); [lia|].
        assert (0 <= (s - l) / (- st)) by (apply Z.div_pos; lia).
        assert ((s - l) / (- st) <= s - l) by (apply Z.div_le_upper_bound; nia). lia.
  - subst c. split; [|split].
    + rewrite E. rewrite Nat.min_0_r. cbn [prog map]. f_equal. symmetry. apply Z.leb_le. lia.
    + intros i Hi. split; [lia|]. intros [V NP]. exfalso. exact (CI _ V NP).
    + lia.
Qed.

(* termination: with 2^64 steps of fuel (or just clip_count) every integer loop has finished *)
Corollary int_loop_any_limit_terminates s lim st : in64 s -> in64 st -> st <> 0 -> num_ok lim ->
  exists fuel vs, for_im fuel (NInt s) lim (NInt st) = FRun vs true /\
                  Z.of_nat (length vs) = clip_count s lim st.
Proof.
  intros Hs Hst NZ Hl.
  destruct (int_loop_real_limit (Z.to_nat (clip_count s lim st)) s lim st Hs Hst NZ Hl) as (E & _ & R).
  exists (Z.to_nat (clip_count s lim st)), (map NInt (prog (Z.to_nat (clip_count s lim st)) s st)).
  rewrite Nat.min_id in E. rewrite E. split.
  - f_equal. apply Z.leb_le. lia.
  - rewrite map_length, prog_length. lia.
Qed.

(* the hypotheses are satisfiable and the statement is not vacuous: for i = 1, 3.5 visits 1 2 3;
   for i = maxinteger - 1, +inf visits two values; for i = 1, NaN none *)
Example real_limit_example :
  clip_count 1 (NFlt (of_mant_exp 7 (-1) false)) 1 = 3 /\
  clip_count (maxint - 1) (NFlt (finf false)) 1 = 2 /\
  clip_count 1 (NFlt fnan) 1 = 0.
Proof. vm_compute. auto. Qed.
