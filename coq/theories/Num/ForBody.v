(* Num/ForBody.v — C16, round 8: the body may replace the loop variable in every iteration (arbitrary
   body function returning the new visible variable and a new user state); the values handed to the
   body are nevertheless exactly the progression cut at the real-valued limit, and the machine halts. *)
From Coq Require Import ZArith Lia Bool List Arith.
From GV Require Import Base.W64 Base.F64 Num.Model Num.ForLoop Num.ForProofs Num.ForClip Num.ForMachine Num.ForReal.
Import ListNotations.
Open Scope Z_scope.

Theorem body_assignment_int_sequence (U : Type) (body : num -> U -> num * U) (u : U) (m : nat) s lim st :
  in64 s -> in64 st -> st <> 0 -> num_ok lim ->
  let c := clip_count s lim st in
  let t := run U (fun u => (NInt s, u)) (fun u => (lim, u)) (fun u => (NInt st, u)) body (5 + 4 * m) (init U u) in
  err U t = false /\
  seen U t = map NInt (prog (Nat.min m (Z.to_nat c)) s st) /\
  (c <= Z.of_nat m -> pc U t = 9%nat).
Proof.
  intros Hs Hst NZ Hl c t.
  pose proof (machine_runs_for_im U (fun u => (NInt s, u)) (fun u => (lim, u)) (fun u => (NInt st, u)) body u m) as M.
  cbv beta iota zeta in M.
  destruct (int_loop_real_limit m s lim st Hs Hst NZ Hl) as (E & _ & _).
  rewrite E in M. destruct M as (A & B & C). fold t in A, B, C. fold c in B, C.
  split; [exact A|]. split; [exact B|]. intro H. apply C. apply Z.leb_le. exact H.
Qed.

(* a body that overwrites the loop variable with a constant and one that leaves it alone are both
   instances: the hypotheses are satisfiable *)
Example body_assignment_example :
  seen unit (run unit (fun u => (NInt 1, u)) (fun u => (NInt 3, u)) (fun u => (NInt 1, u))
             (fun _ u => (NInt 100, u)) (5 + 4 * 5) (init unit tt)) = [NInt 1; NInt 2; NInt 3].
Proof. vm_compute. reflexivity. Qed.

(* a non-number among the control values: the outcome is one of the three errors, never a run —
   no value is ever handed to the body *)
Theorem non_number_no_iteration fuel a b c :
  fv_num a = None \/ fv_num b = None \/ fv_num c = None ->
  (for_im_val fuel a b c = FVErrInit \/ for_im_val fuel a b c = FVErrLimit \/ for_im_val fuel a b c = FVErrStep) /\
  forall r, for_im_val fuel a b c <> FVRes r.
Proof.
  unfold for_im_val. destruct (fv_num a), (fv_num b), (fv_num c); intros [H|[H|H]]; try discriminate H;
    (split; [auto|intros r; discriminate]).
Qed.
