(* Num/CmpOrder.v — golua's comparison of two numbers (IM, after the repair of
   comp.go) coincides with the manual's comparison by mathematical value (S)
   and is therefore a consistent order: trichotomy for non-NaN operands and
   a <= b  =  (a < b or a == b). *)
From Coq Require Import ZArith Reals Lia Lra Bool List Floats.SpecFloat.
From Flocq Require Import Core.Core IEEE754.BinarySingleNaN.
From GV Require Import Base.W64 Base.W64Lemmas Base.F64 Base.F64Lemmas Num.Model Num.Spec Num.MixedCmp.
Open Scope Z_scope.

Definition num_wf (x : num) : Prop := match x with NInt a => in64 a | NFlt _ => True end.
Definition num_is_nan (x : num) : bool := match x with NFlt f => is_nan f | _ => false end.

Lemma Rcompare_Lt_iff a b : Rcompare a b = Lt <-> (a < b)%R.
Proof. destruct (Rcompare_spec a b); split; intros; try discriminate; try lra; auto. Qed.
Lemma Rcompare_Eq_iff a b : Rcompare a b = Eq <-> a = b.
Proof. destruct (Rcompare_spec a b); split; intros; try discriminate; try lra; auto. Qed.
Lemma Rcompare_Gt_iff a b : Rcompare a b = Gt <-> (b < a)%R.
Proof. destruct (Rcompare_spec a b); split; intros; try discriminate; try lra; auto. Qed.

Lemma bool_eq_iff (a b : bool) : (a = true <-> b = true) -> a = b.
Proof. destruct a, b; intuition congruence. Qed.

(* int vs float, all five Go helpers against S *)
Lemma mixed_is_spec a g : in64 a ->
  leIntAndFloat a g = s_le (NInt a) (NFlt g) /\
  ltFloatAndInt g a = s_lt (NFlt g) (NInt a) /\
  equalIntAndFloat a g = s_eq (NInt a) (NFlt g) /\
  ltIntAndFloat a g = s_lt (NInt a) (NFlt g) /\ leFloatAndInt g a = s_le (NFlt g) (NInt a).
Proof.
  intros Ha. unfold s_le, s_lt, s_eq. cbn [s_cmp].
  destruct (is_finite g) eqn:Fg.
  - rewrite (s_cmp_int_float_correct a g Fg). cbn [option_map].
    pose proof (leIntAndFloat_exact a g Ha Fg) as L1.
    pose proof (ltFloatAndInt_exact a g Ha Fg) as L2.
    pose proof (equalIntAndFloat_exact a g Ha Fg) as L3.
    repeat split.
    + apply bool_eq_iff. rewrite L1. destruct (Rcompare_spec (IZR a) (B2R g)); split; intros; try discriminate; try lra; auto.
    + apply bool_eq_iff. rewrite L2. destruct (Rcompare_spec (IZR a) (B2R g)); cbn; split; intros; try discriminate; try lra; auto.
    + apply bool_eq_iff. rewrite L3. destruct (Rcompare_spec (IZR a) (B2R g)); split; intros; try discriminate; try lra; auto.
    + apply bool_eq_iff. rewrite (ltIntAndFloat_exact a g Ha Fg).
      destruct (Rcompare_spec (IZR a) (B2R g)); split; intros; try discriminate; try lra; auto.
    + apply bool_eq_iff. rewrite (leFloatAndInt_exact a g Ha Fg).
      destruct (Rcompare_spec (IZR a) (B2R g)); cbn; split; intros; try discriminate; try lra; auto.
  - pose proof (cmp_nonfinite a Ha) as C. unfold finf, fnan in C.
    destruct C as (C1 & C2 & C3 & C4 & C5 & C6 & C7 & C8 & C9 & C10 & C11 & C12 & C13 & C14 & C15).
    destruct g as [s|s| |s m e B]; try discriminate; [destruct s|]; cbn [s_cmp_int_float option_map CompOpp];
      repeat split; intros; assumption.
Qed.

Lemma float_is_spec f g :
  flt f g = s_lt (NFlt f) (NFlt g) /\ fle f g = s_le (NFlt f) (NFlt g) /\ feq f g = s_eq (NFlt f) (NFlt g).
Proof.
  unfold flt, fle, feq, Bltb, Bleb, Beqb, SFltb, SFleb, SFeqb, s_lt, s_le, s_eq. cbn [s_cmp].
  unfold s_cmp_float, Bcompare.
  destruct (SFcompare (B2SF f) (B2SF g)) as [[ | | ]|]; repeat split; reflexivity.
Qed.

Theorem cmp_im_is_spec x y : num_wf x -> num_wf y ->
  num_lt x y = s_lt x y /\ num_le x y = s_le x y /\ num_eq x y = s_eq x y.
Proof.
  intros Wx Wy. destruct x as [a|f], y as [b|g]; cbn [num_lt num_le num_eq].
  - unfold s_lt, s_le, s_eq. cbn [s_cmp]. split; [|split].
    + rewrite Z.ltb_compare. destruct (a ?= b); reflexivity.
    + rewrite Z.leb_compare. destruct (a ?= b); reflexivity.
    + rewrite Z.eqb_compare. destruct (a ?= b); reflexivity.
  - destruct (mixed_is_spec a g Wx) as (L1 & L2 & L3 & L5 & L6).
    repeat split; assumption.
  - destruct (mixed_is_spec b f Wy) as (L1 & L2 & L3 & L5 & L6).
    repeat split; try assumption.
    rewrite L3. unfold s_eq. cbn [s_cmp]. destruct (s_cmp_int_float b f) as [[ | | ]|]; reflexivity.
  - apply float_is_spec.
Qed.

(* --- S is a consistent order --------------------------------------------------- *)
Lemma s_cmp_swap x y : s_cmp y x = option_map CompOpp (s_cmp x y).
Proof.
  destruct x as [a|f], y as [b|g]; cbn [s_cmp option_map].
  - f_equal. apply Z.compare_antisym.
  - reflexivity.
  - destruct (s_cmp_int_float b f) as [[ | | ]|]; reflexivity.
  - unfold s_cmp_float. rewrite Bcompare_swap.
    destruct (Bcompare f g) as [[ | | ]|]; reflexivity.
Qed.

Lemma s_cmp_none_iff_nan x y : s_cmp x y = None <-> (num_is_nan x = true \/ num_is_nan y = true).
Proof.
  destruct x as [a|f], y as [b|g]; cbn [s_cmp num_is_nan option_map].
  - split; [discriminate|intros [|]; discriminate].
  - destruct g as [s|s| |s m e B]; cbn; try destruct s; try destruct (0 <=? e);
      split; try discriminate; try tauto; try (intros [|]; discriminate).
  - destruct f as [s|s| |s m e B]; cbn; try destruct s; try destruct (0 <=? e);
      split; try discriminate; try tauto; try (intros [|]; discriminate).
  - unfold s_cmp_float, Bcompare.
    destruct f as [s|s| |s m e B], g as [s'|s'| |s' m' e' B']; cbn;
      try destruct s; try destruct s'; cbn;
      split; try discriminate; try tauto; try (intros [|]; discriminate);
      try (destruct (e ?= e'); try destruct (Pos.compare_cont Eq m m'); discriminate).
    all: try (destruct (Z.compare e e'); cbn; try destruct (Pos.compare_cont _ m m'); discriminate).
Qed.

(* exactly one of the three *)
Definition exactly_one (a b c : bool) : Prop :=
  (a = true /\ b = false /\ c = false) \/ (a = false /\ b = true /\ c = false) \/ (a = false /\ b = false /\ c = true).

Theorem s_compare_total x y : num_is_nan x = false -> num_is_nan y = false ->
  exactly_one (s_lt x y) (s_eq x y) (s_lt y x).
Proof.
  intros Nx Ny. unfold s_lt, s_eq. rewrite (s_cmp_swap x y).
  destruct (s_cmp x y) as [[ | | ]|] eqn:E; cbn; unfold exactly_one; try tauto.
  apply s_cmp_none_iff_nan in E. destruct E; congruence.
Qed.

Theorem s_le_iff_lt_or_eq x y : s_le x y = s_lt x y || s_eq x y.
Proof. unfold s_le, s_lt, s_eq. destruct (s_cmp x y) as [[ | | ]|]; reflexivity. Qed.

(* --- hence golua's comparison is ------------------------------------------ *)
Theorem compare_total x y : num_wf x -> num_wf y ->
  num_is_nan x = false -> num_is_nan y = false ->
  exactly_one (num_lt x y) (num_eq x y) (num_lt y x).
Proof.
  intros Wx Wy Nx Ny.
  destruct (cmp_im_is_spec x y Wx Wy) as (-> & _ & ->).
  destruct (cmp_im_is_spec y x Wy Wx) as (-> & _ & _).
  now apply s_compare_total.
Qed.

Theorem le_iff_lt_or_eq x y : num_wf x -> num_wf y ->
  num_le x y = num_lt x y || num_eq x y.
Proof.
  intros Wx Wy. destruct (cmp_im_is_spec x y Wx Wy) as (-> & -> & ->).
  apply s_le_iff_lt_or_eq.
Qed.

(* with a NaN operand every comparison is false *)
Theorem cmp_nan x y : num_wf x -> num_wf y -> num_is_nan x = true \/ num_is_nan y = true ->
  num_lt x y = false /\ num_le x y = false /\ num_eq x y = false.
Proof.
  intros Wx Wy N. destruct (cmp_im_is_spec x y Wx Wy) as (-> & -> & ->).
  apply s_cmp_none_iff_nan in N. unfold s_lt, s_le, s_eq. rewrite N. auto.
Qed.
