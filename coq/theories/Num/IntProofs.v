(* Num/IntProofs.v — the integer half of C02: golua's int64 arithmetic, floor
   division, modulo and shifts (Num/Model.v) against the manual's definitions
   (Num/Spec.v).  Pure Z; every statement is for all int64 operands. *)
From Coq Require Import ZArith Lia Bool.
From GV Require Import Base.W64 Base.W64Lemmas Base.F64 Num.Model Num.Spec.
Open Scope Z_scope.

(* --- wrap-around ---------------------------------------------------------- *)
Lemma add_int_spec a b :
  exists r, add (NInt a) (NInt b) = NInt r /\ in64 r /\ r mod 2 ^ 64 = (a + b) mod 2 ^ 64 /\ r = s_add_int a b.
Proof. exists (wrap64 (a + b)). repeat split; try apply wrap64_range. apply wrap64_mod. Qed.

Lemma sub_int_spec a b :
  exists r, sub (NInt a) (NInt b) = NInt r /\ in64 r /\ r mod 2 ^ 64 = (a - b) mod 2 ^ 64 /\ r = s_sub_int a b.
Proof. exists (wrap64 (a - b)). repeat split; try apply wrap64_range. apply wrap64_mod. Qed.

Lemma mul_int_spec a b :
  exists r, mul (NInt a) (NInt b) = NInt r /\ in64 r /\ r mod 2 ^ 64 = (a * b) mod 2 ^ 64 /\ r = s_mul_int a b.
Proof. exists (wrap64 (a * b)). repeat split; try apply wrap64_range. apply wrap64_mod. Qed.

Lemma unm_int_spec a :
  exists r, unm (NInt a) = NInt r /\ in64 r /\ r mod 2 ^ 64 = (- a) mod 2 ^ 64 /\ r = s_unm_int a.
Proof. exists (wrap64 (- a)). repeat split; try apply wrap64_range. apply wrap64_mod. Qed.

(* no overflow: the mathematical result *)
Lemma add_int_exact a b : in64 (a + b) -> add (NInt a) (NInt b) = NInt (a + b).
Proof. intros H. cbn. unfold add64. now rewrite wrap64_id. Qed.

(* --- floor division and modulo ------------------------------------------- *)
Lemma quot_vs_floor a b : b <> 0 ->
  let r := Z.rem a b in let q := Z.quot a b in
  (if negb (r =? 0) && negb (Bool.eqb (r <? 0) (b <? 0)) then a / b = q - 1 /\ a mod b = r + b
   else a / b = q /\ a mod b = r).
Proof.
  intros Hb r q.
  pose proof (Z.quot_rem' a b) as E. fold q r in E.
  pose proof (Z.rem_bound_pos_pos) as _.
  assert (Hr : (0 <= a -> 0 <= r) /\ (a <= 0 -> r <= 0) /\ Z.abs r < Z.abs b).
  { repeat split.
    - intros. subst r. apply Z.rem_nonneg; auto.
    - intros. subst r. apply Z.rem_nonpos; auto.
    - subst r. apply Z.rem_bound_abs; auto. }
  destruct Hr as (H1 & H2 & H3).
  destruct (Z.eqb_spec r 0) as [Z0|NZ]; cbn [negb andb].
  - assert (D := Z.div_mod_unique b (a / b) q (a mod b) 0).
    pose proof (Z.div_mod a b Hb).
    destruct (Z.ltb_spec b 0).
    + pose proof (Z.mod_neg_bound a b ltac:(lia)). rewrite Z0. apply D; lia.
    + pose proof (Z.mod_pos_bound a b ltac:(lia)). rewrite Z0. apply D; lia.
  - destruct (Z.ltb_spec r 0), (Z.ltb_spec b 0); cbn [Bool.eqb negb].
    + (* r<0, b<0: floor = trunc *)
      assert (a / b = q /\ a mod b = r); [|tauto].
      assert (D := Z.div_mod_unique b (a / b) q (a mod b) r).
      pose proof (Z.mod_neg_bound a b ltac:(lia)). pose proof (Z.div_mod a b Hb).
      assert (a / b = q /\ a mod b = r). { apply D; try lia. } tauto.
    + assert (D := Z.div_mod_unique b (a / b) (q - 1) (a mod b) (r + b)).
      pose proof (Z.mod_pos_bound a b ltac:(lia)). pose proof (Z.div_mod a b Hb).
      apply D; try lia.
    + assert (D := Z.div_mod_unique b (a / b) (q - 1) (a mod b) (r + b)).
      pose proof (Z.mod_neg_bound a b ltac:(lia)). pose proof (Z.div_mod a b Hb).
      apply D; try lia.
    + assert (D := Z.div_mod_unique b (a / b) q (a mod b) r).
      pose proof (Z.mod_pos_bound a b ltac:(lia)). pose proof (Z.div_mod a b Hb).
      apply D; try lia.
Qed.

(* a // b is the floor of the exact quotient, reduced modulo 2^64 (which only
   matters for mininteger // -1) *)
Lemma floordiv_int_spec a b : in64 a -> in64 b -> b <> 0 ->
  floordivInt a b = s_idiv_int a b.
Proof.
  intros Ha Hb Hz. unfold floordivInt, s_idiv_int, rem64, quot64, sub64.
  pose proof (quot_vs_floor a b Hz) as Q. cbv zeta in Q.
  destruct (negb (Z.rem a b =? 0) && negb (Bool.eqb (Z.rem a b <? 0) (b <? 0))).
  - destruct Q as [-> _]. replace (wrap64 (Z.quot a b) - 1) with (wrap64 (Z.quot a b) + -1) by ring.
    rewrite wrap64_wrap_add. f_equal.
  - destruct Q as [-> _]. reflexivity.
Qed.

Lemma floordiv_int_floor a b : in64 a -> in64 b -> b <> 0 -> ~ (a = minint /\ b = -1) ->
  floordivInt a b = a / b.
Proof.
  intros Ha Hb Hz Hm. rewrite floordiv_int_spec by assumption. unfold s_idiv_int.
  apply wrap64_id. unfold in64, minint in *. rewrite two63 in *.
  destruct (Z.ltb_spec b 0).
  - pose proof (Z.div_mod a b Hz); pose proof (Z.mod_neg_bound a b ltac:(lia)); nia.
  - pose proof (Z.div_mod a b Hz); pose proof (Z.mod_pos_bound a b ltac:(lia)); nia.
Qed.

Lemma mod_int_spec a b : in64 a -> in64 b -> b <> 0 ->
  modInt a b = s_mod_int a b.
Proof.
  intros Ha Hb Hz. unfold modInt, s_mod_int, rem64, add64.
  pose proof (quot_vs_floor a b Hz) as Q. cbv zeta in Q.
  destruct (negb (Z.rem a b =? 0) && negb (Bool.eqb (Z.rem a b <? 0) (b <? 0))).
  - destruct Q as [_ <-]. apply wrap64_id. unfold in64 in *.
    destruct (Z.ltb_spec b 0).
    + pose proof (Z.mod_neg_bound a b ltac:(lia)). lia.
    + pose proof (Z.mod_pos_bound a b ltac:(lia)). lia.
  - destruct Q as [_ <-]. reflexivity.
Qed.

(* the manual's characterisation of the result of % *)
Lemma mod_int_props a b : in64 a -> in64 b -> b <> 0 ->
  let r := modInt a b in
  in64 r /\ (0 < b -> 0 <= r < b) /\ (b < 0 -> b < r <= 0) /\ a = b * (a / b) + r.
Proof.
  intros Ha Hb Hz r. subst r. rewrite mod_int_spec by assumption. unfold s_mod_int.
  pose proof (Z.div_mod a b Hz). unfold in64 in *.
  destruct (Z.ltb_spec b 0).
  - pose proof (Z.mod_neg_bound a b ltac:(lia)). lia.
  - pose proof (Z.mod_pos_bound a b ltac:(lia)). lia.
Qed.

Lemma div_by_zero_is_error x :
  idiv (NInt x) (NInt 0) = RErr EDivZero /\ mod_ (NInt x) (NInt 0) = RErr EModZero.
Proof. split; reflexivity. Qed.

(* --- shifts ---------------------------------------------------------------- *)
Lemma u64_small n : 0 <= n < 2 ^ 63 -> u64 n = n.
Proof. intros. unfold u64. apply Z.mod_small. rewrite two63, two64 in *. lia. Qed.

Lemma shl_int_spec a n : in64 a -> in64 n -> shl64 a n = s_shl a n.
Proof.
  intros Ha Hn. unfold shl64, s_shl, shlu64, shru64, neg64.
  destruct (Z.ltb_spec n 0) as [Neg|Pos].
  - destruct (Z.leb_spec 0 n); [lia|].
    destruct (Z.eq_dec n minint) as [->|NM].
    + vm_compute. reflexivity.
    + assert (in64 (- n)) by (unfold in64, minint in *; rewrite two63 in *; lia).
      rewrite (wrap64_id (- n)) by assumption.
      rewrite u64_small by (unfold in64 in *; lia).
      destruct (Z.leb_spec n (-64)), (Z.leb_spec 64 (- n)); try lia; cbn [orb].
      * reflexivity.
      * destruct (Z.leb_spec 64 n); [lia|]. cbn [orb].
        rewrite Z.shiftr_div_pow2 by lia. reflexivity.
  - rewrite u64_small by (unfold in64 in *; lia).
    destruct (Z.leb_spec n (-64)); [lia|]. cbn [orb].
    destruct (Z.leb_spec 64 n); [reflexivity|].
    destruct (Z.leb_spec 0 n); [|lia].
    rewrite Z.shiftl_mul_pow2 by lia. apply wrap64_u64.
Qed.

Lemma shr_int_spec a n : in64 a -> in64 n -> shr64 a n = s_shr a n.
Proof.
  intros Ha Hn. unfold shr64, s_shr, shlu64, shru64, neg64.
  destruct (Z.ltb_spec n 0) as [Neg|Pos].
  - destruct (Z.leb_spec 0 n); [lia|].
    destruct (Z.eq_dec n minint) as [->|NM].
    + vm_compute. reflexivity.
    + assert (in64 (- n)) by (unfold in64, minint in *; rewrite two63 in *; lia).
      rewrite (wrap64_id (- n)) by assumption.
      rewrite u64_small by (unfold in64 in *; lia).
      destruct (Z.leb_spec n (-64)), (Z.leb_spec 64 (- n)); try lia; cbn [orb].
      * reflexivity.
      * destruct (Z.leb_spec 64 n); [lia|]. cbn [orb].
        rewrite Z.shiftl_mul_pow2 by lia. apply wrap64_u64.
  - rewrite u64_small by (unfold in64 in *; lia).
    destruct (Z.leb_spec n (-64)); [lia|]. cbn [orb].
    destruct (Z.leb_spec 64 n); [reflexivity|].
    destruct (Z.leb_spec 0 n); [|lia].
    rewrite Z.shiftr_div_pow2 by lia. reflexivity.
Qed.

(* shifting by 64 or more in either direction gives 0; by 0 is the identity;
   a negative displacement shifts the other way *)
Lemma shift_props a n : in64 a -> in64 n ->
  (64 <= Z.abs n -> shl64 a n = 0 /\ shr64 a n = 0) /\
  (n = 0 -> shl64 a n = a /\ shr64 a n = a) /\
  (n <> minint -> shl64 a n = shr64 a (neg64 n)).
Proof.
  intros Ha Hn.
  split; [|split].
  - intros H64. rewrite shl_int_spec, shr_int_spec by assumption. unfold s_shl, s_shr.
    destruct (Z.leb_spec n (-64)), (Z.leb_spec 64 n); cbn [orb]; try (split; reflexivity); lia.
  - intros ->. rewrite shl_int_spec, shr_int_spec by assumption. unfold s_shl, s_shr. cbn.
    rewrite Z.mul_1_r, Z.div_1_r. rewrite wrap64_u64. split; now apply wrap64_id.
  - intros NM.
    assert (in64 (- n)) by (unfold in64, minint in *; rewrite two63 in *; lia).
    unfold neg64. rewrite (wrap64_id (- n)) by assumption.
    rewrite shl_int_spec, shr_int_spec by assumption. unfold s_shl, s_shr.
    destruct (Z.leb_spec n (-64)), (Z.leb_spec 64 n), (Z.leb_spec (-n) (-64)), (Z.leb_spec 64 (-n)); cbn [orb]; try reflexivity; try lia.
    destruct (Z.leb_spec 0 n), (Z.leb_spec 0 (-n)); try lia; rewrite ?Z.opp_involutive; try reflexivity.
    assert (n = 0) by lia. subst. cbn. now rewrite Z.mul_1_r, Z.div_1_r.
Qed.

(* --- integer comparison is the order of Z ---------------------------------- *)
Lemma cmp_int_int a b :
  (num_lt (NInt a) (NInt b) = true <-> a < b) /\
  (num_le (NInt a) (NInt b) = true <-> a <= b) /\
  (num_eq (NInt a) (NInt b) = true <-> a = b).
Proof. cbn. rewrite Z.ltb_lt, Z.leb_le, Z.eqb_eq. tauto. Qed.

(* --- & | ~ stay inside int64 ------------------------------------------------------ *)
(* z is an int64 iff all its bits from position 63 up equal its sign *)
Lemma in64_bits z : in64 z <-> (forall i, 63 <= i -> Z.testbit z i = (z <? 0)).
Proof.
  unfold in64. split.
  - intros [Lo Hi] i Hi63. destruct (Z.ltb_spec z 0) as [N|P].
    + (* negative: lnot z in [0, 2^63) *)
      rewrite <- (Z.lnot_involutive z). rewrite Z.lnot_spec by lia. 
      assert (B : 0 <= Z.lnot z < 2 ^ 63) by (unfold Z.lnot; lia).
      destruct (Z.eq_dec (Z.lnot z) 0) as [E|NE].
      * rewrite E. now rewrite Z.testbit_0_l.
      * rewrite Z.bits_above_log2; [reflexivity|lia|].
        assert (Z.log2 (Z.lnot z) < 63) by (apply Z.log2_lt_pow2; lia). lia.
    + destruct (Z.eq_dec z 0) as [->|NE]; [now rewrite Z.testbit_0_l|].
      apply Z.bits_above_log2; [lia|].
      assert (Z.log2 z < 63) by (apply Z.log2_lt_pow2; lia). lia.
  - intros B. destruct (Z.ltb_spec z 0) as [N|P].
    + split; [|lia]. 
      assert (0 <= Z.lnot z) by (unfold Z.lnot; lia).
      assert (Z.lnot z < 2 ^ 63); [|unfold Z.lnot in *; lia].
      destruct (Z.eq_dec (Z.lnot z) 0) as [E|NE]; [rewrite E; lia|].
      apply Z.log2_lt_pow2; [lia|].
      destruct (Z_lt_le_dec (Z.log2 (Z.lnot z)) 63) as [L|L]; [exact L|exfalso].
      pose proof (Z.bit_log2 (Z.lnot z) ltac:(lia)) as T.
      rewrite Z.lnot_spec in T by (apply Z.log2_nonneg).
      rewrite (B _ L) in T. discriminate.
    + split; [lia|].
      destruct (Z.eq_dec z 0) as [->|NE]; [lia|].
      apply Z.log2_lt_pow2; [lia|].
      destruct (Z_lt_le_dec (Z.log2 z) 63) as [L|L]; [exact L|exfalso].
      pose proof (Z.bit_log2 z ltac:(lia)) as T. rewrite (B _ L) in T. discriminate.
Qed.

Lemma sign_testbit z i : in64 z -> 63 <= i -> Z.testbit z i = (z <? 0).
Proof. intros H. now apply in64_bits. Qed.

Lemma neg_iff_high_bit z : in64 z -> (z <? 0) = Z.testbit z 63.
Proof. intros H. symmetry. apply in64_bits; [exact H|lia]. Qed.

Theorem bitwise_closed a b : in64 a -> in64 b ->
  in64 (and64 a b) /\ in64 (or64 a b) /\ in64 (xor64 a b) /\ in64 (not64 a).
Proof.
  intros Ha Hb. unfold and64, or64, xor64, not64.
  pose proof (proj1 (in64_bits a) Ha) as Ba. pose proof (proj1 (in64_bits b) Hb) as Bb.
  assert (S63 : forall z, (forall i, 63 <= i -> Z.testbit z i = Z.testbit z 63) -> in64 z).
  { intros z H. apply in64_bits. intros i Hi. rewrite (H i Hi).
    destruct (Z.ltb_spec z 0) as [N|P].
    - destruct (Z.testbit z 63) eqn:T; [reflexivity|exfalso].
      (* all bits from 63 up are 0, so z is non-negative *)
      assert (0 <= z); [|lia]. apply Z.bits_iff_nonneg_ex. exists 63. intros m Hm. rewrite H by lia. reflexivity.
    - destruct (Z.testbit z 63) eqn:T; [exfalso|reflexivity].
      assert (z < 0); [|lia]. apply Z.bits_iff_neg_ex. exists 63. intros m Hm. rewrite H by lia. reflexivity. }
  split; [|split; [|split]]; apply S63; intros i Hi.
  - rewrite !Z.land_spec, (Ba i Hi), (Bb i Hi), (Ba 63), (Bb 63) by lia. reflexivity.
  - rewrite !Z.lor_spec, (Ba i Hi), (Bb i Hi), (Ba 63), (Bb 63) by lia. reflexivity.
  - rewrite !Z.lxor_spec, (Ba i Hi), (Bb i Hi), (Ba 63), (Bb 63) by lia. reflexivity.
  - rewrite !Z.lnot_spec, (Ba i Hi), (Ba 63) by lia. reflexivity.
Qed.
