(* Num/Ops.v — dispatch tables used by the oracle: for each operation name the
   IM result (Num/Model.v) and the S result (Num/Spec.v) on a pair of numbers.
   Definitions only. *)
From Coq Require Import ZArith Bool List.
From Flocq Require Import Core.Core IEEE754.BinarySingleNaN.
From GV Require Import Base.W64 Base.F64 Num.Model Num.Spec.
Open Scope Z_scope.

Inductive opcode : Type :=
| OAdd | OSub | OMul | ODiv | OIdiv | OMod | OUnm
| OLt | OLe | OEq | OGt | OGe | ONe
| OBand | OBor | OBxor | OShl | OShr | OBnot
| OAbs | OFloor | OCeil | OFmod | OToInteger | OUlt | OMax | OMin | OModf | OMType | OKeyType | ORandOk.

Inductive rval : Type :=
| RvNum (x : num) | RvBool (b : bool) | RvNil | RvErr (e : err) | RvPair (x : num) (y : f64)
| RvType (is_int : bool).

Definition of_res (r : res) : rval := match r with ROk x => RvNum x | RErr e => RvErr e end.
Definition of_optint (o : option Z) : rval := match o with Some n => RvNum (NInt n) | None => RvNil end.

Definition eval_im (o : opcode) (x y : num) : rval :=
  match o with
  | OAdd => RvNum (add x y) | OSub => RvNum (sub x y) | OMul => RvNum (mul x y) | ODiv => RvNum (div x y)
  | OIdiv => of_res (idiv x y) | OMod => of_res (mod_ x y) | OUnm => RvNum (unm x)
  | OLt => RvBool (num_lt x y) | OLe => RvBool (num_le x y) | OEq => RvBool (num_eq x y)
  | OGt => RvBool (num_lt y x) | OGe => RvBool (num_le y x) | ONe => RvBool (negb (num_eq x y))
  | OBand => of_res (band x y) | OBor => of_res (bor x y) | OBxor => of_res (bxor x y)
  | OShl => of_res (shl x y) | OShr => of_res (shr x y) | OBnot => of_res (bnot x)
  | OAbs => RvNum (math_abs x) | OFloor => RvNum (math_floor x) | OCeil => RvNum (math_ceil x)
  | OFmod => of_res (math_fmod x y)
  | OToInteger => of_optint (math_tointeger x)
  | OUlt => match math_ult x y with Some b => RvBool b | None => RvErr EOther end
  | OMax => RvNum (math_max x y) | OMin => RvNum (math_min x y)
  | OModf => let '(i, f) := math_modf x in RvPair i f
  | OMType => RvType (match x with NInt _ => true | NFlt _ => false end)
  (* t[x] = v: a float key with an integer value is stored under the integer (FloatToInt); NaN is an error *)
  | OKeyType => match x with
                | NInt _ => RvType true
                | NFlt f => if fis_nan f then RvErr EOther
                            else match FloatToInt f with Some _ => RvType true | None => RvType false end
                end
  (* pcall(math.random, x) succeeds: x must have an integer representation n (IntArg) and n = 0 or n >= 1 *)
  | ORandOk => RvBool (match ToIntNoString x with Some n => 0 <=? n | None => false end)
  end.

(* S side *)
Definition s_arith (fi : Z -> Z -> Z) (ff : f64 -> f64 -> f64) (x y : num) : num :=
  match x, y with
  | NInt a, NInt b => NInt (fi a b)
  | _, _ => NFlt (ff (tofloat x) (tofloat y))
  end.

(* floor / ceil of the exact value, as an integer if it fits, else as a float *)
Definition s_floor_z (f : f64) : option Z :=
  match f with
  | B754_zero _ => Some 0
  | B754_finite s m e _ =>
      Some (if 0 <=? e then cond_Zopp s (Zpos m * 2 ^ e) else cond_Zopp s (Zpos m) / 2 ^ (- e))
  | _ => None
  end.
Definition s_ceil_z (f : f64) : option Z :=
  match f with
  | B754_zero _ => Some 0
  | B754_finite s m e _ =>
      Some (if 0 <=? e then cond_Zopp s (Zpos m * 2 ^ e) else - ((- cond_Zopp s (Zpos m)) / 2 ^ (- e)))
  | _ => None
  end.
Definition s_math_floor (x : num) : num :=
  match x with
  | NInt n => NInt n
  | NFlt f => match s_floor_z f with
              | Some z => if in64b z then NInt z else NFlt (ffloor f)
              | None => NFlt f
              end
  end.
Definition s_math_ceil (x : num) : num :=
  match x with
  | NInt n => NInt n
  | NFlt f => match s_ceil_z f with
              | Some z => if in64b z then NInt z else NFlt (fceil f)
              | None => NFlt f
              end
  end.

Definition eval_s (o : opcode) (x y : num) : rval :=
  match o with
  | OAdd => RvNum (s_arith s_add_int fadd x y)
  | OSub => RvNum (s_arith s_sub_int fsub x y)
  | OMul => RvNum (s_arith s_mul_int fmul x y)
  | ODiv => RvNum (NFlt (fdiv (tofloat x) (tofloat y)))
  | OIdiv => match x, y with
             | NInt a, NInt b => if b =? 0 then RvErr EDivZero else RvNum (NInt (s_idiv_int a b))
             | _, _ => RvNum (NFlt (ffloor (fdiv (tofloat x) (tofloat y))))
             end
  | OMod => match x, y with
            | NInt a, NInt b => if b =? 0 then RvErr EModZero else RvNum (NInt (s_mod_int a b))
            | _, _ => RvNum (NFlt (s_mod_float (tofloat x) (tofloat y)))
            end
  | OUnm => RvNum (match x with NInt a => NInt (s_unm_int a) | NFlt f => NFlt (fneg f) end)
  | OLt => RvBool (s_lt x y) | OLe => RvBool (s_le x y) | OEq => RvBool (s_eq x y)
  | OGt => RvBool (s_lt y x) | OGe => RvBool (s_le y x) | ONe => RvBool (negb (s_eq x y))
  | OBand => of_res (s_bitop Z.land x y) | OBor => of_res (s_bitop Z.lor x y) | OBxor => of_res (s_bitop Z.lxor x y)
  | OShl => of_res (s_bitop s_shl x y) | OShr => of_res (s_bitop s_shr x y)
  | OBnot => match s_to_int x with Some a => RvNum (NInt (- a - 1)) | None => RvErr ENoInt end
  | OAbs => RvNum (match x with NInt n => NInt (wrap64 (Z.abs n)) | NFlt f => NFlt (fabs f) end)
  | OFloor => RvNum (s_math_floor x) | OCeil => RvNum (s_math_ceil x)
  | OFmod => of_res (s_math_fmod x y)
  | OToInteger => of_optint (s_to_int x)
  | OUlt => match s_to_int x, s_to_int y with
            | Some a, Some b => RvBool (a mod 2 ^ 64 <? b mod 2 ^ 64)
            | _, _ => RvErr EOther
            end
  | OMax => RvNum (if s_lt x y then y else x) | OMin => RvNum (if s_lt y x then y else x)
  | OModf => let '(i, f) := math_modf x in RvPair i f
  | OMType => RvType (match x with NInt _ => true | NFlt _ => false end)
  | OKeyType => match x with
                | NInt _ => RvType true
                | NFlt f => if fis_nan f then RvErr EOther
                            else match s_float_to_int f with Some _ => RvType true | None => RvType false end
                end
  | ORandOk => RvBool (match s_to_int x with Some n => 0 <=? n | None => false end)
  end.
