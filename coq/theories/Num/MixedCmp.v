(* Num/MixedCmp.v — exactness of golua's mixed integer/float comparisons
   (runtime/comp.go ltIntAndFloat, ltFloatAndInt, leIntAndFloat,
   leFloatAndInt, equalIntAndFloat) against the order of the real numbers,
   for ALL int64 n and ALL binary64 f.

   Result (after the repair of comp.go: range test f >= 2^63 before int64(f)
   in ltIntAndFloat and leFloatAndInt): all five helpers are exact everywhere.
   Without the range test (the *_core functions = the code before the repair)
   ltIntAndFloat and leFloatAndInt answer as if n were 2^63 when f = 2^63 and
   n >= 2^63-512 (core_alone_refuted). *)
From Coq Require Import ZArith Reals Lia Lra Psatz Bool List.
From Flocq Require Import Core.Core IEEE754.BinarySingleNaN.
From GV Require Import Base.W64 Base.W64Lemmas Base.F64 Base.F64Lemmas Num.Model Num.Spec.
Import ListNotations.
Open Scope Z_scope.

Lemma f2p63_correct : B2R f2p63 = IZR (2 ^ 63) /\ is_finite f2p63 = true.
Proof.
  generalize (binary_normalize_correct 53 1024 Hprec64 Hmax64 mode_NE 1 63 false).
  cbv zeta. fold (of_mant_exp 1 63 false). fold f2p63.
  replace (F2R (Float radix2 1 63)) with (IZR (2 ^ 63)) by (unfold F2R; simpl; lra).
  rewrite round_generic by (try apply valid_rnd_N; apply format_2p63).
  rewrite Rlt_bool_true.
  - intros (A & B & _). split; assumption.
  - rewrite Rabs_pos_eq by (apply IZR_le; lia). rewrite <- bpow63. apply bpow_lt. lia.
Qed.

Lemma of_int_le_2p63 n : in64 n -> (B2R (of_int n) <= IZR (2 ^ 63))%R.
Proof.
  intros Hn. apply of_int_le_bound. now apply in64_abs. apply format_2p63.
  apply IZR_le. unfold in64 in Hn. lia.
Qed.
Lemma of_int_ge_m2p63 n : in64 n -> (IZR (- 2 ^ 63) <= B2R (of_int n))%R.
Proof.
  intros Hn. apply of_int_ge_bound. now apply in64_abs. apply format_m2p63.
  apply IZR_le. unfold in64 in Hn. lia.
Qed.

Lemma small_format k : Z.abs k <= 2 ^ 52 -> generic_format radix2 fexp64 (IZR k).
Proof. intros. apply small_int_format. lia. Qed.

Lemma range_test (f : f64) : is_finite f = true ->
  (fle f2p63 f = true -> (IZR (2 ^ 63) <= B2R f)%R) /\ (fle f2p63 f = false -> (B2R f < IZR (2 ^ 63))%R).
Proof.
  intros Ff. destruct f2p63_correct as [V Fin]. split; intros H.
  - apply fle_finite_iff in H; auto. now rewrite V in H.
  - destruct (Rlt_or_le (B2R f) (IZR (2 ^ 63))) as [L|L]; [exact L|].
    assert (fle f2p63 f = true) by (apply fle_finite_iff; auto; now rewrite V). congruence.
Qed.

Section Exact.
Variables (n : Z) (f : f64).
Hypothesis Hn : in64 n.
Hypothesis Ff : is_finite f = true.

Let Fn : is_finite (of_int n) = true := of_int_finite n Hn.

(* the fallback comparison float64(n) ? f in the non-integer case is exact *)
Lemma frac_lt k : (IZR k < B2R f < IZR (k + 1))%R -> Z.abs k <= 2 ^ 52 -> Z.abs (k + 1) <= 2 ^ 52 ->
  ((B2R (of_int n) < B2R f)%R <-> (IZR n < B2R f)%R) /\
  ((B2R (of_int n) <= B2R f)%R <-> (IZR n <= B2R f)%R) /\
  ((B2R f < B2R (of_int n))%R <-> (B2R f < IZR n)%R) /\
  ((B2R f <= B2R (of_int n))%R <-> (B2R f <= IZR n)%R).
Proof.
  intros Hk K1 K2.
  destruct (Z_le_gt_dec n k) as [Le|Gt].
  - assert (B2R (of_int n) <= IZR k)%R.
    { apply of_int_le_bound. now apply in64_abs. now apply small_format. now apply IZR_le. }
    assert (IZR n <= IZR k)%R by now apply IZR_le.
    repeat split; intros; lra.
  - assert (IZR (k + 1) <= B2R (of_int n))%R.
    { apply of_int_ge_bound. now apply in64_abs. now apply small_format. apply IZR_le. lia. }
    assert (IZR (k + 1) <= IZR n)%R by (apply IZR_le; lia).
    repeat split; intros; lra.
Qed.

Theorem ltFloatAndInt_exact : ltFloatAndInt f n = true <-> (B2R f < IZR n)%R.
Proof.
  unfold ltFloatAndInt. destruct (f2i_cases f Ff) as [R E Q|k Q Hk K1 K2|Q B|Q B]; rewrite Q.
  - rewrite Z.ltb_lt. rewrite <- E. split. apply IZR_lt. apply lt_IZR.
  - rewrite flt_finite_iff by assumption. apply frac_lt with (k := k); assumption.
  - rewrite flt_finite_iff by assumption. pose proof (of_int_le_2p63 n Hn).
    assert (IZR n < IZR (2 ^ 63))%R by (apply IZR_lt; unfold in64 in Hn; lia). split; intros; lra.
  - rewrite flt_finite_iff by assumption. pose proof (of_int_ge_m2p63 n Hn).
    assert (IZR (- 2 ^ 63) <= IZR n)%R by (apply IZR_le; unfold in64 in Hn; lia). split; intros; lra.
Qed.

Theorem leIntAndFloat_exact : leIntAndFloat n f = true <-> (IZR n <= B2R f)%R.
Proof.
  unfold leIntAndFloat. destruct (f2i_cases f Ff) as [R E Q|k Q Hk K1 K2|Q B|Q B]; rewrite Q.
  - rewrite Z.leb_le. rewrite <- E. split. apply IZR_le. apply le_IZR.
  - rewrite fle_finite_iff by assumption. apply frac_lt with (k := k); assumption.
  - rewrite fle_finite_iff by assumption. pose proof (of_int_le_2p63 n Hn).
    assert (IZR n < IZR (2 ^ 63))%R by (apply IZR_lt; unfold in64 in Hn; lia). split; intros; lra.
  - rewrite fle_finite_iff by assumption. pose proof (of_int_ge_m2p63 n Hn).
    assert (IZR (- 2 ^ 63) <= IZR n)%R by (apply IZR_le; unfold in64 in Hn; lia). split; intros; lra.
Qed.

Theorem equalIntAndFloat_exact : equalIntAndFloat n f = true <-> IZR n = B2R f.
Proof.
  unfold equalIntAndFloat. destruct (f2i_cases f Ff) as [R E Q|k Q Hk K1 K2|Q B|Q B]; rewrite Q; cbn [andb].
  - rewrite Z.eqb_eq. rewrite <- E. split. intros ->; reflexivity. intros H; symmetry; now apply eq_IZR.
  - split; [discriminate|]. intros E. exfalso. rewrite <- E in Hk.
    destruct Hk as [A B]. apply lt_IZR in A. apply lt_IZR in B. lia.
  - split; [discriminate|]. intros E. exfalso. rewrite <- E in B. apply le_IZR in B. unfold in64 in Hn. lia.
  - split; [discriminate|]. intros E. exfalso. rewrite <- E in B. apply lt_IZR in B. unfold in64 in Hn. lia.
Qed.

Theorem ltIntAndFloat_exact : ltIntAndFloat n f = true <-> (IZR n < B2R f)%R.
Proof.
  unfold ltIntAndFloat. destruct (range_test f Ff) as [R1 R2].
  assert (IZR n < IZR (2 ^ 63))%R by (apply IZR_lt; unfold in64 in Hn; lia).
  destruct (fle f2p63 f).
  - specialize (R1 eq_refl). split; intros; [lra|reflexivity].
  - specialize (R2 eq_refl). unfold ltIntAndFloat_core.
    destruct (f2i_cases f Ff) as [R E Q|k Q Hk K1 K2|Q B|Q B]; rewrite Q.
    + rewrite Z.ltb_lt. rewrite <- E. split. apply IZR_lt. apply lt_IZR.
    + rewrite flt_finite_iff by assumption. apply frac_lt with (k := k); assumption.
    + lra.
    + rewrite flt_finite_iff by assumption. pose proof (of_int_ge_m2p63 n Hn).
      assert (IZR (- 2 ^ 63) <= IZR n)%R by (apply IZR_le; unfold in64 in Hn; lia). split; intros; lra.
Qed.

Theorem leFloatAndInt_exact : leFloatAndInt f n = true <-> (B2R f <= IZR n)%R.
Proof.
  unfold leFloatAndInt. destruct (range_test f Ff) as [R1 R2].
  assert (IZR n < IZR (2 ^ 63))%R by (apply IZR_lt; unfold in64 in Hn; lia).
  destruct (fle f2p63 f).
  - specialize (R1 eq_refl). split; intros; [discriminate|lra].
  - specialize (R2 eq_refl). unfold leFloatAndInt_core.
    destruct (f2i_cases f Ff) as [R E Q|k Q Hk K1 K2|Q B|Q B]; rewrite Q.
    + rewrite Z.leb_le. rewrite <- E. split. apply IZR_le. apply le_IZR.
    + rewrite fle_finite_iff by assumption. apply frac_lt with (k := k); assumption.
    + lra.
    + rewrite fle_finite_iff by assumption. pose proof (of_int_ge_m2p63 n Hn).
      assert (IZR (- 2 ^ 63) <= IZR n)%R by (apply IZR_le; unfold in64 in Hn; lia). split; intros; lra.
Qed.
End Exact.

(* --- the defect is real: witnesses ------------------------------------------ *)
Lemma maxint_lt_2p63_real : (IZR maxint < B2R f2p63)%R.
Proof. destruct f2p63_correct as [-> _]. apply IZR_lt. vm_compute. reflexivity. Qed.

(* why the range test is needed: the code before the repair *)
Theorem core_alone_refuted :
  exists n f, in64 n /\ is_finite f = true /\ (IZR n < B2R f)%R /\
    ltIntAndFloat_core n f = false /\ leFloatAndInt_core f n = true.
Proof.
  exists maxint, f2p63. split; [|split; [|split; [|split]]].
  - unfold in64, maxint. lia.
  - apply f2p63_correct.
  - apply maxint_lt_2p63_real.
  - vm_compute. reflexivity.
  - vm_compute. reflexivity.
Qed.

(* --- infinities and NaN ------------------------------------------------------ *)
Lemma cmp_nonfinite n : in64 n ->
  (* +inf *)
  ltIntAndFloat n (finf false) = true /\ leIntAndFloat n (finf false) = true /\
  ltFloatAndInt (finf false) n = false /\ leFloatAndInt (finf false) n = false /\
  equalIntAndFloat n (finf false) = false /\
  (* -inf *)
  ltIntAndFloat n (finf true) = false /\ leIntAndFloat n (finf true) = false /\
  ltFloatAndInt (finf true) n = true /\ leFloatAndInt (finf true) n = true /\
  equalIntAndFloat n (finf true) = false /\
  (* NaN: every comparison is false *)
  ltIntAndFloat n fnan = false /\ leIntAndFloat n fnan = false /\
  ltFloatAndInt fnan n = false /\ leFloatAndInt fnan n = false /\
  equalIntAndFloat n fnan = false.
Proof.
  intros Hn. pose proof (of_int_finite n Hn) as Fn.
  unfold ltIntAndFloat, leIntAndFloat, ltFloatAndInt, leFloatAndInt, equalIntAndFloat, ltIntAndFloat_core, leFloatAndInt_core.
  change (fle f2p63 (finf false)) with true. change (fle f2p63 (finf true)) with false. change (fle f2p63 fnan) with false.
  change (go_f2i (finf false)) with minint. change (go_f2i (finf true)) with minint.
  change (go_f2i fnan) with minint.
  assert (F0 : is_finite (of_int minint) = true) by (apply of_int_finite; apply in64_minint).
  assert (E1 : forall s, feq (of_int minint) (finf s) = false).
  { intros s. unfold feq, Beqb. destruct (of_int minint); try discriminate; destruct s; reflexivity. }
  assert (E2 : feq (of_int minint) fnan = false).
  { unfold feq, Beqb. destruct (of_int minint); reflexivity. }
  rewrite !E1, !E2. cbn [andb].
  unfold flt, fle, Bltb, Bleb, finf, fnan.
  destruct (of_int n) as [s| | |s m e B]; try discriminate; cbn; try destruct s; repeat split; reflexivity.
Qed.

(* --- S is the order of the reals --------------------------------------------- *)
Lemma B2R_finite_pos s m e B :
  B2R (B754_finite s m e B : f64) = (IZR (cond_Zopp s (Zpos m)) * bpow radix2 e)%R.
Proof. unfold B2R, F2R. simpl. reflexivity. Qed.

Lemma s_cmp_int_float_correct n f : is_finite f = true ->
  s_cmp_int_float n f = Some (Rcompare (IZR n) (B2R f)).
Proof.
  intros Ff. destruct f as [s|s| |s m e B]; try discriminate.
  - cbn [s_cmp_int_float B2R]. f_equal. symmetry. apply Rcompare_IZR.
  - cbn [s_cmp_int_float]. rewrite B2R_finite_pos.
    destruct (Z.leb_spec 0 e) as [P|N]; f_equal.
    + rewrite <- IZR_Zpower by exact P. rewrite <- mult_IZR.
      rewrite Rcompare_IZR. f_equal. change (radix_val radix2) with 2. destruct s; cbn [cond_Zopp]; ring.
    + rewrite <- (Rcompare_mult_r (bpow radix2 (- e))) by apply bpow_gt_0.
      rewrite Rmult_assoc, <- bpow_plus. replace (e + - e) with 0 by ring. simpl bpow. rewrite Rmult_1_r.
      rewrite <- IZR_Zpower by lia. rewrite <- mult_IZR. rewrite Rcompare_IZR. reflexivity.
Qed.
