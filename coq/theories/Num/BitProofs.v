(* Num/BitProofs.v — round 8: the bitwise operators of runtime/bitwise.go against the
   manual's definition "operate on the 64-bit two's-complement bit patterns".
   The IM (Base/W64.v, Num/Model.v) writes & | ~ as Z.land/Z.lor/Z.lxor/Z.lnot on the
   signed value and the shifts as Go does (uint64 conversion, shift with count >= 64
   giving 0, conversion back).  Here the manual's definition is written independently,
   on the unsigned 64-bit pattern u64 a = a mod 2^64 and bit by bit with Z.testbit, and
   the two are proved equal for ALL int64 operands; range closure of every operator
   (shifts included) is part of it. *)
From Coq Require Import ZArith Lia Bool.
From GV Require Import Base.W64 Base.W64Lemmas Base.F64 Num.Model Num.Spec Num.IntProofs.
Open Scope Z_scope.

(* ---- bits of the unsigned pattern and of the wrapped value ------------------------- *)
Lemma u64_testbit z i : Z.testbit (u64 z) i = (i <? 64) && Z.testbit z i.
Proof.
  unfold u64. destruct (Z.ltb_spec i 64) as [L|G]; cbn [andb].
  - destruct (Z_lt_le_dec i 0) as [N|P].
    + now rewrite !Z.testbit_neg_r.
    + apply Z.mod_pow2_bits_low. lia.
  - apply Z.mod_pow2_bits_high. lia.
Qed.

Lemma wrap64_mod_dep x y : x mod 2 ^ 64 = y mod 2 ^ 64 -> wrap64 x = wrap64 y.
Proof.
  intros E. unfold wrap64. f_equal.
  rewrite <- (Zplus_mod_idemp_l x), <- (Zplus_mod_idemp_l y), E. reflexivity.
Qed.

Lemma wrap64_testbit z i : 0 <= i < 64 -> Z.testbit (wrap64 z) i = Z.testbit z i.
Proof.
  intros Hi.
  rewrite <- (Z.mod_pow2_bits_low (wrap64 z) 64 i), <- (Z.mod_pow2_bits_low z 64 i) by lia.
  now rewrite wrap64_mod.
Qed.

(* two integers with the same low 64 bits wrap to the same int64 *)
Lemma wrap64_eq_bits x y :
  (forall i, 0 <= i < 64 -> Z.testbit x i = Z.testbit y i) -> wrap64 x = wrap64 y.
Proof.
  intros H. apply wrap64_mod_dep. apply Z.bits_inj'. intros i Hi.
  destruct (Z_lt_le_dec i 64) as [L|G].
  - rewrite !Z.mod_pow2_bits_low by lia. apply H. lia.
  - rewrite !Z.mod_pow2_bits_high by lia. reflexivity.
Qed.

(* an int64 is determined by its low 64 bits *)
Lemma in64_eq_bits x y : in64 x -> in64 y ->
  (forall i, 0 <= i < 64 -> Z.testbit x i = Z.testbit y i) -> x = y.
Proof.
  intros Hx Hy H. rewrite <- (wrap64_id x Hx), <- (wrap64_id y Hy). now apply wrap64_eq_bits.
Qed.

(* ---- the manual's definition, on the unsigned 64-bit patterns ---------------------- *)
Definition ones64 : Z := 2 ^ 64 - 1.
Definition pat_and (a b : Z) : Z := wrap64 (Z.land (u64 a) (u64 b)).
Definition pat_or  (a b : Z) : Z := wrap64 (Z.lor (u64 a) (u64 b)).
Definition pat_xor (a b : Z) : Z := wrap64 (Z.lxor (u64 a) (u64 b)).
Definition pat_not (a : Z) : Z := wrap64 (ones64 - u64 a).
(* logical shifts of the pattern by a displacement n of either sign *)
Definition pat_shl (a n : Z) : Z :=
  if 0 <=? n then wrap64 (Z.shiftl (u64 a) n mod 2 ^ 64) else wrap64 (Z.shiftr (u64 a) (- n)).
Definition pat_shr (a n : Z) : Z :=
  if 0 <=? n then wrap64 (Z.shiftr (u64 a) n) else wrap64 (Z.shiftl (u64 a) (- n) mod 2 ^ 64).

Lemma ones64_testbit i : 0 <= i < 64 -> Z.testbit ones64 i = true.
Proof. intros Hi. change ones64 with (Z.ones 64). apply Z.ones_spec_low. lia. Qed.

Lemma ones_minus_testbit a i : 0 <= i < 64 ->
  Z.testbit (ones64 - u64 a) i = negb (Z.testbit a i).
Proof.
  intros Hi. change ones64 with (Z.ones 64).
  rewrite Z.sub_nocarry_ldiff.
  - rewrite Z.ldiff_spec, Z.ones_spec_low, u64_testbit by lia.
    destruct (Z.ltb_spec i 64); [reflexivity|lia].
  - apply Z.bits_inj'. intros j Hj. rewrite Z.ldiff_spec, Z.bits_0, u64_testbit.
    destruct (Z.ltb_spec j 64) as [L|G]; [|reflexivity].
    rewrite Z.ones_spec_low by lia. cbn. now rewrite andb_false_r.
Qed.

(* ---- & | ~ : IM = the operation on the patterns ------------------------------------ *)
Theorem bitwise_is_pattern a b : in64 a -> in64 b ->
  and64 a b = pat_and a b /\ or64 a b = pat_or a b /\ xor64 a b = pat_xor a b /\ not64 a = pat_not a.
Proof.
  intros Ha Hb. destruct (bitwise_closed a b Ha Hb) as (C1 & C2 & C3 & C4).
  unfold pat_and, pat_or, pat_xor, pat_not. repeat split.
  - rewrite <- (wrap64_id _ C1). apply wrap64_eq_bits. intros i Hi. unfold and64.
    rewrite !Z.land_spec, !u64_testbit. destruct (Z.ltb_spec i 64); [reflexivity|lia].
  - rewrite <- (wrap64_id _ C2). apply wrap64_eq_bits. intros i Hi. unfold or64.
    rewrite !Z.lor_spec, !u64_testbit. destruct (Z.ltb_spec i 64); [reflexivity|lia].
  - rewrite <- (wrap64_id _ C3). apply wrap64_eq_bits. intros i Hi. unfold xor64.
    rewrite !Z.lxor_spec, !u64_testbit. destruct (Z.ltb_spec i 64); [reflexivity|lia].
  - rewrite <- (wrap64_id _ C4). apply wrap64_eq_bits. intros i Hi. unfold not64.
    rewrite ones_minus_testbit, Z.lnot_spec by lia. reflexivity.
Qed.

(* bit by bit: bit i (0 <= i < 64) of the result is the boolean operation on bit i of the operands *)
Theorem bitwise_bits a b i : 0 <= i < 64 ->
  Z.testbit (and64 a b) i = Z.testbit a i && Z.testbit b i /\
  Z.testbit (or64 a b) i = Z.testbit a i || Z.testbit b i /\
  Z.testbit (xor64 a b) i = xorb (Z.testbit a i) (Z.testbit b i) /\
  Z.testbit (not64 a) i = negb (Z.testbit a i).
Proof.
  intros Hi. unfold and64, or64, xor64, not64.
  rewrite Z.land_spec, Z.lor_spec, Z.lxor_spec, Z.lnot_spec by lia. tauto.
Qed.

(* ---- shifts: range closure (any operands) ------------------------------------------ *)
Theorem shift_closed a n : in64 (shl64 a n) /\ in64 (shr64 a n).
Proof.
  unfold shl64, shr64. destruct (n <? 0); split; apply wrap64_range.
Qed.

(* ---- shifts: IM = logical shift of the pattern; >= 64 gives 0; negative = other way -- *)
Lemma s_shl_pattern a n : s_shl a n = if (n <=? -64) || (64 <=? n) then 0 else pat_shl a n.
Proof.
  unfold s_shl, pat_shl. destruct ((n <=? -64) || (64 <=? n)) eqn:B; [reflexivity|].
  apply orb_false_elim in B. destruct B as [B1 B2]. apply Z.leb_gt in B1, B2.
  destruct (Z.leb_spec 0 n) as [P|N].
  - rewrite Z.shiftl_mul_pow2 by lia. apply wrap64_mod_dep. now rewrite Z.mod_mod by lia.
  - rewrite Z.shiftr_div_pow2 by lia. reflexivity.
Qed.

Lemma s_shr_pattern a n : s_shr a n = if (n <=? -64) || (64 <=? n) then 0 else pat_shr a n.
Proof.
  unfold s_shr, pat_shr. destruct ((n <=? -64) || (64 <=? n)) eqn:B; [reflexivity|].
  apply orb_false_elim in B. destruct B as [B1 B2]. apply Z.leb_gt in B1, B2.
  destruct (Z.leb_spec 0 n) as [P|N].
  - rewrite Z.shiftr_div_pow2 by lia. reflexivity.
  - rewrite Z.shiftl_mul_pow2 by lia. apply wrap64_mod_dep. now rewrite Z.mod_mod by lia.
Qed.

Theorem shift_is_pattern a n : in64 a -> in64 n ->
  shl64 a n = (if (n <=? -64) || (64 <=? n) then 0 else pat_shl a n) /\
  shr64 a n = (if (n <=? -64) || (64 <=? n) then 0 else pat_shr a n) /\
  pat_shl a n = pat_shr a (- n).
Proof.
  intros Ha Hn. rewrite (shl_int_spec a n Ha Hn), (shr_int_spec a n Ha Hn).
  split; [apply s_shl_pattern|]. split; [apply s_shr_pattern|].
  unfold pat_shl, pat_shr.
  destruct (Z.leb_spec 0 n) as [P|N], (Z.leb_spec 0 (- n)) as [P'|N']; try lia.
  - assert (n = 0) as -> by lia. cbn [Z.opp]. rewrite Z.shiftl_0_r, Z.shiftr_0_r.
    apply wrap64_mod_dep. now rewrite Z.mod_mod by lia.
  - now rewrite Z.opp_involutive.
Qed.

(* bit by bit, one formula for every displacement n of either sign and any size:
   bit i of a << n is bit i-n of a when that position exists (0 <= i-n < 64), else 0;
   bit i of a >> n is bit i+n of a when 0 <= i+n < 64, else 0 (logical: zero fill). *)
Theorem shl_bits a n i : in64 a -> in64 n -> 0 <= i < 64 ->
  Z.testbit (shl64 a n) i = (0 <=? i - n) && (i - n <? 64) && Z.testbit a (i - n).
Proof.
  intros Ha Hn Hi. rewrite (shl_int_spec a n Ha Hn), s_shl_pattern. unfold pat_shl.
  destruct ((n <=? -64) || (64 <=? n)) eqn:B.
  - rewrite Z.bits_0. apply orb_true_elim in B. destruct B as [B|B]; apply Z.leb_le in B.
    + destruct (Z.ltb_spec (i - n) 64); [lia|]. now rewrite andb_false_r.
    + destruct (Z.leb_spec 0 (i - n)); [lia|]. reflexivity.
  - apply orb_false_elim in B. destruct B as [B1 B2]. apply Z.leb_gt in B1, B2.
    destruct (Z.leb_spec 0 n) as [P|N]; rewrite wrap64_testbit by lia.
    + rewrite Z.mod_pow2_bits_low by lia. rewrite Z.shiftl_spec by lia.
      destruct (Z.leb_spec 0 (i - n)) as [Q|Q].
      * rewrite u64_testbit. destruct (Z.ltb_spec (i - n) 64); [reflexivity|lia].
      * now rewrite Z.testbit_neg_r by lia.
    + rewrite Z.shiftr_spec by lia. rewrite u64_testbit.
      replace (i + - n) with (i - n) by lia.
      destruct (Z.leb_spec 0 (i - n)); [reflexivity|lia].
Qed.

Theorem shr_bits a n i : in64 a -> in64 n -> 0 <= i < 64 ->
  Z.testbit (shr64 a n) i = (0 <=? i + n) && (i + n <? 64) && Z.testbit a (i + n).
Proof.
  intros Ha Hn Hi. rewrite (shr_int_spec a n Ha Hn), s_shr_pattern. unfold pat_shr.
  destruct ((n <=? -64) || (64 <=? n)) eqn:B.
  - rewrite Z.bits_0. apply orb_true_elim in B. destruct B as [B|B]; apply Z.leb_le in B.
    + destruct (Z.leb_spec 0 (i + n)); [lia|]. reflexivity.
    + destruct (Z.ltb_spec (i + n) 64); [lia|]. now rewrite andb_false_r.
  - apply orb_false_elim in B. destruct B as [B1 B2]. apply Z.leb_gt in B1, B2.
    destruct (Z.leb_spec 0 n) as [P|N]; rewrite wrap64_testbit by lia.
    + rewrite Z.shiftr_spec by lia. rewrite u64_testbit.
      destruct (Z.leb_spec 0 (i + n)); [reflexivity|lia].
    + rewrite Z.mod_pow2_bits_low by lia. rewrite Z.shiftl_spec by lia.
      replace (i - - n) with (i + n) by lia.
      destruct (Z.leb_spec 0 (i + n)) as [Q|Q].
      * rewrite u64_testbit. destruct (Z.ltb_spec (i + n) 64); [reflexivity|lia].
      * now rewrite Z.testbit_neg_r by lia.
Qed.

(* the unsigned reading of the results, in arithmetic terms *)
Theorem shift_unsigned a n : in64 a -> 0 <= n < 64 ->
  u64 (shl64 a n) = (u64 a * 2 ^ n) mod 2 ^ 64 /\ u64 (shr64 a n) = u64 a / 2 ^ n.
Proof.
  intros Ha Hn. assert (Hn' : in64 n) by (unfold in64; rewrite two63; lia).
  rewrite (shl_int_spec a n Ha Hn'), (shr_int_spec a n Ha Hn'). unfold s_shl, s_shr.
  destruct (Z.leb_spec n (-64)); [lia|]. destruct (Z.leb_spec 64 n); [lia|]. cbn [orb].
  destruct (Z.leb_spec 0 n); [|lia]. split.
  { unfold u64 at 1. now rewrite wrap64_mod. }
  unfold u64 at 1. rewrite wrap64_mod.
  apply Z.mod_small. pose proof (u64_range a) as R. unfold inu64 in R.
  assert (0 < 2 ^ n) by (apply Z.pow_pos_nonneg; lia).
  split; [apply Z.div_pos; lia|].
  apply Z.le_lt_trans with (u64 a); [|lia]. apply Z.div_le_upper_bound; nia.
Qed.

(* shifting by minint (the one displacement whose negation wraps) gives 0 both ways *)
Theorem shift_minint a : in64 a -> shl64 a minint = 0 /\ shr64 a minint = 0.
Proof.
  intros Ha. rewrite (shl_int_spec a _ Ha in64_minint), (shr_int_spec a _ Ha in64_minint).
  split; reflexivity.
Qed.

