(* Num/ForMachine.v — C16: the compiled shape of a numeric for loop as a small
   abstract machine (notes/numeric-for.md, astcomp/compstat.go ProcessForStat):

       0: r1 <- e1        1: r2 <- e2        2: r3 <- e3      (control expressions)
       3: prepfor r1,r2,r3
       4: if not r1 jump 9
       5: r4 <- r1                                             (LOOP: fresh copy = the loop variable)
       6: body            (reads r4, may assign to r4, changes the user state)
       7: advfor r1,r2,r3
       8: if r1 jump 5
       9: halt                                                  (END)

   The control expressions and the body are arbitrary (effectful) functions of a
   user state U; the body can assign to the loop variable r4 but has no access
   to the hidden registers r1..r3 (they are not Lua variables).
   Theorems: expressions_evaluated_once, body_assignment_harmless (the hidden
   registers, the control flow and the values the body receives do not depend on
   the body), machine_runs_for_im (the values the body receives are those of
   Num.ForLoop.for_im). *)
From Coq Require Import ZArith Lia Bool List Arith.
From GV Require Import Base.W64 Base.F64 Num.Model Num.ForLoop.
Import ListNotations.
Local Open Scope nat_scope.

Section Machine.
Variable U : Type.
Variable e1 e2 e3 : U -> num * U.

Record st : Type := mk {
  pc : nat;
  r1 : option num;        (* nil = None *)
  r2 : num; r3 : num;
  r4 : num;               (* the loop variable of the current iteration *)
  us : U;
  ev1 : nat; ev2 : nat; ev3 : nat;   (* how many times each control expression was evaluated *)
  seen : list num;        (* loop-variable values handed to the body, in order *)
  err : bool              (* 'for' step is zero *)
}.

Definition init (u : U) : st := mk 0 None (NInt 0%Z) (NInt 0%Z) (NInt 0%Z) u 0 0 0 [] false.

Definition step (body : num -> U -> num * U) (s : st) : st :=
  match pc s with
  | 0 => let '(v, u') := e1 (us s) in mk 1 (Some v) (r2 s) (r3 s) (r4 s) u' (S (ev1 s)) (ev2 s) (ev3 s) (seen s) (err s)
  | 1 => let '(v, u') := e2 (us s) in mk 2 (r1 s) v (r3 s) (r4 s) u' (ev1 s) (S (ev2 s)) (ev3 s) (seen s) (err s)
  | 2 => let '(v, u') := e3 (us s) in mk 3 (r1 s) (r2 s) v (r4 s) u' (ev1 s) (ev2 s) (S (ev3 s)) (seen s) (err s)
  | 3 => match r1 s with
         | Some a =>
             match prepfor a (r2 s) (r3 s) with
             | PErrZero => mk 9 (r1 s) (r2 s) (r3 s) (r4 s) (us s) (ev1 s) (ev2 s) (ev3 s) (seen s) true
             | PSkip => mk 4 None (r2 s) (r3 s) (r4 s) (us s) (ev1 s) (ev2 s) (ev3 s) (seen s) (err s)
             | PStart a' l' c' => mk 4 (Some a') l' c' (r4 s) (us s) (ev1 s) (ev2 s) (ev3 s) (seen s) (err s)
             end
         | None => mk 9 (r1 s) (r2 s) (r3 s) (r4 s) (us s) (ev1 s) (ev2 s) (ev3 s) (seen s) (err s)
         end
  | 4 => mk (match r1 s with Some _ => 5 | None => 9 end) (r1 s) (r2 s) (r3 s) (r4 s) (us s) (ev1 s) (ev2 s) (ev3 s) (seen s) (err s)
  | 5 => mk 6 (r1 s) (r2 s) (r3 s) (match r1 s with Some v => v | None => NInt 0 end) (us s) (ev1 s) (ev2 s) (ev3 s) (seen s) (err s)
  | 6 => let '(v, u') := body (r4 s) (us s) in
         mk 7 (r1 s) (r2 s) (r3 s) v u' (ev1 s) (ev2 s) (ev3 s) (seen s ++ [r4 s]) (err s)
  | 7 => mk 8 (match r1 s with Some a => advfor a (r2 s) (r3 s) | None => None end)
            (r2 s) (r3 s) (r4 s) (us s) (ev1 s) (ev2 s) (ev3 s) (seen s) (err s)
  | 8 => mk (match r1 s with Some _ => 5 | None => 9 end) (r1 s) (r2 s) (r3 s) (r4 s) (us s) (ev1 s) (ev2 s) (ev3 s) (seen s) (err s)
  | _ => s
  end.

Fixpoint run (body : num -> U -> num * U) (k : nat) (s : st) : st :=
  match k with O => s | S k' => run body k' (step body s) end.

Lemma run_add body a b s : run body (a + b) s = run body b (run body a s).
Proof. revert s. induction a; intros s; cbn; auto. Qed.

(* ------------------------------------------------------------ expressions are evaluated once *)
Definition evals_inv (s : st) : Prop :=
  (pc s = 0 /\ ev1 s = 0 /\ ev2 s = 0 /\ ev3 s = 0) \/
  (pc s = 1 /\ ev1 s = 1 /\ ev2 s = 0 /\ ev3 s = 0) \/
  (pc s = 2 /\ ev1 s = 1 /\ ev2 s = 1 /\ ev3 s = 0) \/
  (3 <= pc s <= 9 /\ ev1 s = 1 /\ ev2 s = 1 /\ ev3 s = 1).

Lemma step_evals body s : evals_inv s -> evals_inv (step body s).
Proof.
  unfold evals_inv, step. intros [H|[H|[H|H]]].
  - destruct H as (P & A & B & C). rewrite P. destruct (e1 (us s)). cbn. right; left. lia.
  - destruct H as (P & A & B & C). rewrite P. destruct (e2 (us s)). cbn. right; right; left. lia.
  - destruct H as (P & A & B & C). rewrite P. destruct (e3 (us s)). cbn. right; right; right. lia.
  - destruct H as (P & A & B & C). right; right; right.
    destruct (pc s) as [|[|[|[|[|[|[|[|[|[|n]]]]]]]]]] eqn:E; try lia;
      repeat match goal with |- context [match ?x with _ => _ end] => destruct x end; cbn; try rewrite E; lia.
Qed.

Theorem expressions_evaluated_once body u k :
  let s := run body k (init u) in
  ev1 s <= 1 /\ ev2 s <= 1 /\ ev3 s <= 1 /\ (3 <= pc s -> ev1 s = 1 /\ ev2 s = 1 /\ ev3 s = 1).
Proof.
  assert (I : forall k s, evals_inv s -> evals_inv (run body k s)).
  { induction k0; intros s H; cbn; auto. apply IHk0. now apply step_evals. }
  specialize (I k (init u)). cbv zeta.
  assert (evals_inv (init u)) by (left; cbn; auto).
  specialize (I H). destruct I as [H1|[H1|[H1|H1]]]; lia.
Qed.

(* ------------------------------------------------------------ assigning to the loop variable is harmless *)
(* two runs with different bodies agree on everything the loop depends on *)
Definition agree (s t : st) : Prop :=
  pc s = pc t /\ r1 s = r1 t /\ r2 s = r2 t /\ r3 s = r3 t /\ ev1 s = ev1 t /\ ev2 s = ev2 t /\ ev3 s = ev3 t /\
  seen s = seen t /\ err s = err t /\ (pc s = 6 -> r4 s = r4 t) /\ (pc s <= 3 -> us s = us t).

Lemma step_agree body1 body2 s t : agree s t -> agree (step body1 s) (step body2 t).
Proof.
  intros (P & A & B & C & E1 & E2 & E3 & SN & ER & R4 & UU).
  unfold step. rewrite <- P, <- A, <- B, <- C, <- E1, <- E2, <- E3, <- SN, <- ER.
  destruct (pc s) as [|[|[|[|[|[|[|[|[|n]]]]]]]]] eqn:E.
  - rewrite <- (UU ltac:(lia)). destruct (e1 (us s)). unfold agree; cbn. repeat split; auto; lia.
  - rewrite <- (UU ltac:(lia)). destruct (e2 (us s)). unfold agree; cbn. repeat split; auto; lia.
  - rewrite <- (UU ltac:(lia)). destruct (e3 (us s)). unfold agree; cbn. repeat split; auto; lia.
  - destruct (r1 s); [destruct (prepfor n (r2 s) (r3 s))|]; unfold agree; cbn; repeat split; auto; lia.
  - unfold agree; cbn. repeat split; auto; destruct (r1 s); lia.
  - unfold agree; cbn. repeat split; auto; lia.
  - rewrite <- (R4 eq_refl). destruct (body1 (r4 s) (us s)), (body2 (r4 s) (us t)). unfold agree; cbn. repeat split; auto; lia.
  - unfold agree; cbn. repeat split; auto; lia.
  - unfold agree; cbn. repeat split; auto; destruct (r1 s); lia.
  - unfold agree. rewrite E. repeat split; auto; try lia.
Qed.

(* whatever the body does (including assignments to the loop variable), the hidden registers, the control
   flow, the evaluation counts and the values handed to the body are the same *)
Theorem body_assignment_harmless body1 body2 u k :
  agree (run body1 k (init u)) (run body2 k (init u)).
Proof.
  assert (I : forall k s t, agree s t -> agree (run body1 k s) (run body2 k t)).
  { induction k0; intros s t H; cbn; auto. apply IHk0. now apply step_agree. }
  apply I. unfold agree, init; cbn. repeat split; auto.
Qed.

(* ------------------------------------------------------------ the values handed to the body are for_im's *)
(* state at LOOP (pc 5) with the loop running *)
Lemma loop_sim body m : forall s a, pc s = 5 -> r1 s = Some a ->
  let '(vs, fin) := run_loop m a (r2 s) (r3 s) in
  let t := run body (4 * m) s in
  seen t = seen s ++ vs /\ err t = err s /\ (fin = true -> pc t = 9) /\ (fin = false -> pc t = 5) /\
  ev1 t = ev1 s /\ ev2 t = ev2 s /\ ev3 t = ev3 s.
Proof.
  induction m as [|m IH]; intros s a P R.
  - cbn. rewrite app_nil_r. repeat split; auto; discriminate.
  - cbn [run_loop].
    replace (4 * S m) with (4 + 4 * m) by lia. rewrite run_add.
    (* one iteration: 5, 6, 7, 8 *)
    set (s1 := step body s). set (s2 := step body s1). set (s3 := step body s2). set (s4 := step body s3).
    change (run body 4 s) with s4.
    assert (S1 : pc s1 = 6 /\ r1 s1 = Some a /\ r2 s1 = r2 s /\ r3 s1 = r3 s /\ r4 s1 = a /\ seen s1 = seen s /\ err s1 = err s /\
                 ev1 s1 = ev1 s /\ ev2 s1 = ev2 s /\ ev3 s1 = ev3 s).
    { unfold s1, step. rewrite P, R. cbn. repeat split; auto. }
    destruct S1 as (P1 & R1 & A1 & B1 & C1 & D1 & E1 & F1 & G1 & H1).
    assert (S2 : pc s2 = 7 /\ r1 s2 = Some a /\ r2 s2 = r2 s /\ r3 s2 = r3 s /\ seen s2 = seen s ++ [a] /\ err s2 = err s /\
                 ev1 s2 = ev1 s /\ ev2 s2 = ev2 s /\ ev3 s2 = ev3 s).
    { unfold s2, step. rewrite P1. destruct (body (r4 s1) (us s1)). cbn. rewrite R1, A1, B1, C1, D1, E1, F1, G1, H1. repeat split; auto. }
    destruct S2 as (P2 & R2 & A2 & B2 & D2 & E2 & F2 & G2 & H2).
    assert (S3 : pc s3 = 8 /\ r1 s3 = advfor a (r2 s) (r3 s) /\ r2 s3 = r2 s /\ r3 s3 = r3 s /\ seen s3 = seen s ++ [a] /\ err s3 = err s /\
                 ev1 s3 = ev1 s /\ ev2 s3 = ev2 s /\ ev3 s3 = ev3 s).
    { unfold s3, step. rewrite P2. cbn. rewrite R2, A2, B2, D2, E2, F2, G2, H2. repeat split; auto. }
    destruct S3 as (P3 & R3 & A3 & B3 & D3 & E3 & F3 & G3 & H3).
    assert (S4 : pc s4 = (match advfor a (r2 s) (r3 s) with Some _ => 5 | None => 9 end) /\ r1 s4 = advfor a (r2 s) (r3 s) /\
                 r2 s4 = r2 s /\ r3 s4 = r3 s /\ seen s4 = seen s ++ [a] /\ err s4 = err s /\
                 ev1 s4 = ev1 s /\ ev2 s4 = ev2 s /\ ev3 s4 = ev3 s).
    { unfold s4, step. rewrite P3. cbn. rewrite R3, A3, B3, D3, E3, F3, G3, H3. repeat split; auto. }
    destruct S4 as (P4 & R4 & A4 & B4 & D4 & E4 & F4 & G4 & H4).
    destruct (advfor a (r2 s) (r3 s)) as [n|] eqn:ADV.
    + specialize (IH s4 n P4 R4). rewrite A4, B4 in IH.
      destruct (run_loop m n (r2 s) (r3 s)) as [vs fin].
      destruct IH as (I1 & I2 & I3 & I4 & I5 & I6 & I7).
      rewrite I1, I2, I5, I6, I7, D4, E4, F4, G4, H4. rewrite <- app_assoc. cbn. repeat split; auto.
    + (* the loop is over: pc 9 is absorbing *)
      assert (ABS : forall k t, pc t = 9 -> run body k t = t).
      { induction k; intros t Pt; cbn; auto. unfold step at 1. rewrite Pt. cbn. rewrite IHk; auto. }
      rewrite (ABS (4 * m) s4 P4). rewrite D4, E4, F4, G4, H4. repeat split; auto; discriminate.
Qed.

Lemma prologue body u a u1 b u2 c u3 : e1 u = (a, u1) -> e2 u1 = (b, u2) -> e3 u2 = (c, u3) ->
  run body 5 (init u) =
  match prepfor a b c with
  | PErrZero => mk 9 (Some a) b c (NInt 0%Z) u3 1 1 1 [] true
  | PSkip => mk 9 None b c (NInt 0%Z) u3 1 1 1 [] false
  | PStart a' l' c' => mk 5 (Some a') l' c' (NInt 0%Z) u3 1 1 1 [] false
  end.
Proof.
  intros E1 E2 E3.
  assert (S1 : step body (init u) = mk 1 (Some a) (NInt 0%Z) (NInt 0%Z) (NInt 0%Z) u1 1 0 0 [] false).
  { unfold step, init. cbn. rewrite E1. reflexivity. }
  assert (S2 : step body (mk 1 (Some a) (NInt 0%Z) (NInt 0%Z) (NInt 0%Z) u1 1 0 0 [] false) =
               mk 2 (Some a) b (NInt 0%Z) (NInt 0%Z) u2 1 1 0 [] false).
  { unfold step. cbn. rewrite E2. reflexivity. }
  assert (S3 : step body (mk 2 (Some a) b (NInt 0%Z) (NInt 0%Z) u2 1 1 0 [] false) =
               mk 3 (Some a) b c (NInt 0%Z) u3 1 1 1 [] false).
  { unfold step. cbn. rewrite E3. reflexivity. }
  change (run body 5 (init u)) with (step body (step body (step body (step body (step body (init u)))))).
  rewrite S1, S2, S3.
  unfold step at 2. cbn [pc r1 r2 r3 r4 us ev1 ev2 ev3 seen err].
  destruct (prepfor a b c); unfold step; cbn; reflexivity.
Qed.

(* From the start: after the prologue (3 evaluations, prepfor, test = 5 steps) and 4 steps per iteration,
   the body has been handed exactly the values of for_im, for every body. *)
Theorem machine_runs_for_im body u m :
  let '(a, u1) := e1 u in let '(b, u2) := e2 u1 in let '(c, u3) := e3 u2 in
  let t := run body (5 + 4 * m) (init u) in
  match for_im m a b c with
  | FErrZero => err t = true /\ seen t = []
  | FRun vs fin => err t = false /\ seen t = vs /\ (fin = true -> pc t = 9)
  end.
Proof.
  destruct (e1 u) as [a u1] eqn:E1. destruct (e2 u1) as [b u2] eqn:E2. destruct (e3 u2) as [c u3] eqn:E3.
  cbv zeta. rewrite run_add. rewrite (prologue body u a u1 b u2 c u3 E1 E2 E3).
  assert (ABS : forall k t, pc t = 9 -> run body k t = t).
  { induction k; intros t Pt; cbn; auto. unfold step at 1. rewrite Pt. cbn. rewrite IHk; auto. }
  unfold for_im.
  destruct (prepfor a b c) as [| |a' l' c'] eqn:PF.
  - rewrite ABS by reflexivity. cbn. auto.
  - rewrite ABS by reflexivity. cbn. auto.
  - pose proof (loop_sim body m (mk 5 (Some a') l' c' (NInt 0%Z) u3 1 1 1 [] false) a' eq_refl eq_refl) as L.
    cbn [r2 r3 seen err] in L.
    destruct (run_loop m a' l' c') as [vs fin]. destruct L as (L1 & L2 & L3 & _).
    rewrite L1, L2. cbn. auto.
Qed.

(* ------------------------------------------------------------ the control values are private copies *)
(* The user state U is where Lua variables live (locals, upvalues, globals, table fields): the control
   expressions READ it (pcs 0-2), the loop keeps its own copies in r1..r3, and from then on only the body
   writes to U: prepfor / advfor / the jumps / the copy into the loop variable never do (prepfor's
   normalisation of the limit and step goes to r2, r3, not back to the variables they were read from).
   Hence: the user state at any point of the loop is the state after the three evaluations with the
   bodies applied, in order, to the values handed to them. *)
Definition apply_bodies (body : num -> U -> num * U) (vs : list num) (u : U) : U :=
  fold_left (fun u v => snd (body v u)) vs u.

Definition private_inv (body : num -> U -> num * U) (u : U) (s : st) : Prop :=
  let '(_, u1) := e1 u in let '(_, u2) := e2 u1 in let '(_, u3) := e3 u2 in
  (pc s = 0 /\ us s = u /\ seen s = []) \/ (pc s = 1 /\ us s = u1 /\ seen s = []) \/
  (pc s = 2 /\ us s = u2 /\ seen s = []) \/ (3 <= pc s /\ us s = apply_bodies body (seen s) u3).

Lemma step_private body u s : private_inv body u s -> private_inv body u (step body s).
Proof.
  unfold private_inv.
  destruct (e1 u) as [a u1] eqn:E1. destruct (e2 u1) as [b u2] eqn:E2. destruct (e3 u2) as [c u3] eqn:E3.
  intros [H|[H|[H|H]]].
  - destruct H as (P & Us & Sn). unfold step. rewrite P, Us, E1. cbn. right; left. auto.
  - destruct H as (P & Us & Sn). unfold step. rewrite P, Us, E2. cbn. right; right; left. auto.
  - destruct H as (P & Us & Sn). unfold step. rewrite P, Us, E3. cbn. right; right; right. rewrite Sn. cbn. auto with arith.
  - destruct H as (P & Us). right; right; right. unfold step.
    destruct (pc s) as [|[|[|[|[|[|[|[|[|n]]]]]]]]] eqn:E; try lia.
    + destruct (r1 s); [destruct (prepfor n (r2 s) (r3 s))|]; cbn; split; auto with arith.
    + cbn. split; auto. destruct (r1 s); auto with arith.
    + cbn. split; auto with arith.
    + destruct (body (r4 s) (us s)) as [v u'] eqn:B. cbn. split; auto with arith.
      unfold apply_bodies. rewrite fold_left_app. cbn. fold (apply_bodies body (seen s) u3). rewrite <- Us, B. reflexivity.
    + cbn. split; auto with arith.
    + cbn. split; auto. destruct (r1 s); auto with arith.
    + rewrite E. split; auto.
Qed.

Theorem control_registers_private body u k :
  let '(_, u1) := e1 u in let '(_, u2) := e2 u1 in let '(_, u3) := e3 u2 in
  let s := run body k (init u) in
  3 <= pc s -> us s = apply_bodies body (seen s) u3.
Proof.
  assert (I : forall k s, private_inv body u s -> private_inv body u (run body k s)).
  { induction k0; intros s H; cbn; auto. apply IHk0. now apply step_private. }
  specialize (I k (init u)). unfold private_inv in *.
  destruct (e1 u) as [a u1]. destruct (e2 u1) as [b u2]. destruct (e3 u2) as [c u3].
  cbv zeta. intros P.
  destruct I as [H|[H|[H|H]]]; try (left; cbn; auto); try lia.
  apply H.
Qed.
End Machine.
