(* Num/ModProofs.v — C02: the float modulo.  golua computes a % b on floats as
   r := math.Mod(a, b); if r != 0 && (r < 0) != (b < 0) { r += b }   (runtime/arith.go modFloat).
   Theorem mod_float_spec: for ALL binary64 a, b this is the manual's a - floor(a/b)*b computed exactly
   over the reals and rounded ONCE (Num.Spec.s_mod_float: fmod_floor_exact for finite operands, the IEEE /
   C fmod conventions for zeros, infinities and NaN), bit for bit including the sign of a zero result.
   fmod_floor_value states what that exact value is over the reals. *)
From Coq Require Import ZArith Reals Lia Lra Psatz Bool.
From Flocq Require Import Core.Core IEEE754.BinarySingleNaN.
From GV Require Import Base.W64 Base.W64Lemmas Base.F64 Base.F64Lemmas Num.Model Num.Spec Num.MixedCmp.
Open Scope Z_scope.

Lemma bpow_pos e : (0 < bpow radix2 e)%R. Proof. apply bpow_gt_0. Qed.

(* m·2^(ey-e) at exponent e is m at exponent ey *)
Lemma rescale (m e ey : Z) : e <= ey -> (IZR (m * 2 ^ (ey - e)) * bpow radix2 e = IZR m * bpow radix2 ey)%R.
Proof.
  intros H. rewrite mult_IZR. rewrite (IZR_Zpower radix2) by lia.
  rewrite Rmult_assoc. rewrite <- bpow_plus. f_equal. f_equal. ring.
Qed.

Lemma cond_Zopp_mul s a b : cond_Zopp s (a * b) = cond_Zopp s a * b.
Proof. destruct s; cbn; ring. Qed.

(* of_mant_exp: what binary_normalize gives, in the no-overflow case *)
Lemma of_mant_exp_round M e sz :
  (Rabs (round radix2 fexp64 ZnearestE (IZR M * bpow radix2 e)) < bpow radix2 1024)%R ->
  B2R (of_mant_exp M e sz) = round radix2 fexp64 ZnearestE (IZR M * bpow radix2 e) /\
  is_finite (of_mant_exp M e sz) = true /\
  Bsign (of_mant_exp M e sz) = match Rcompare (IZR M * bpow radix2 e) 0 with Eq => sz | Lt => true | Gt => false end.
Proof.
  intros H. generalize (binary_normalize_correct 53 1024 Hprec64 Hmax64 mode_NE M e sz).
  cbv zeta. fold (of_mant_exp M e sz). unfold F2R. cbn [Fnum Fexp]. cbn [round_mode].
  rewrite Rlt_bool_true by exact H. tauto.
Qed.

(* a mantissa below 2^53 at an exponent >= -1074 is representable *)
Lemma small_mant_format M e : Z.abs M < 2 ^ 53 -> -1074 <= e ->
  generic_format radix2 fexp64 (IZR M * bpow radix2 e).
Proof.
  intros HM He. apply generic_format_FLT. exists (Float radix2 M e).
  - reflexivity.
  - cbn. exact HM.
  - cbn. lia.
Qed.

Lemma of_mant_exp_exact M e sz : Z.abs M < 2 ^ 53 -> -1074 <= e -> e <= 971 ->
  B2R (of_mant_exp M e sz) = (IZR M * bpow radix2 e)%R /\ is_finite (of_mant_exp M e sz) = true /\
  Bsign (of_mant_exp M e sz) = match Rcompare (IZR M * bpow radix2 e) 0 with Eq => sz | Lt => true | Gt => false end.
Proof.
  intros HM He1 He2.
  pose proof (small_mant_format M e HM He1) as G.
  assert (R : round radix2 fexp64 ZnearestE (IZR M * bpow radix2 e) = (IZR M * bpow radix2 e)%R).
  { apply round_generic; auto. apply valid_rnd_N. }
  assert (B : (Rabs (IZR M * bpow radix2 e) < bpow radix2 1024)%R).
  { rewrite Rabs_mult. rewrite (Rabs_pos_eq (bpow radix2 e)) by (left; apply bpow_pos).
    rewrite <- abs_IZR.
    apply Rlt_le_trans with (IZR (2 ^ 53) * bpow radix2 e)%R.
    - apply Rmult_lt_compat_r. apply bpow_pos. now apply IZR_lt.
    - change (IZR (2 ^ 53)) with (bpow radix2 53). rewrite <- bpow_plus. apply bpow_le. lia. }
  destruct (of_mant_exp_round M e sz) as (A1 & A2 & A3).
  - rewrite R. exact B.
  - rewrite R in A1. auto.
Qed.

Lemma bounded_exp (m : positive) e : SpecFloat.bounded 53 1024 m e = true -> -1074 <= e <= 971 /\ Z.pos m < 2 ^ 53.
Proof.
  intros B. unfold SpecFloat.bounded, SpecFloat.canonical_mantissa in B.
  apply andb_true_iff in B. destruct B as [C B]. apply Zle_bool_imp_le in B. apply Zeq_bool_eq in C.
  unfold SpecFloat.fexp, SpecFloat.emin in C. rewrite Zpos_digits2_pos in C.
  assert (D53 : Zdigits radix2 (Z.pos m) <= 53) by lia.
  split; [lia|].
  pose proof (Zdigits_correct radix2 (Z.pos m)) as D. cbn [Z.abs] in D.
  destruct D as [_ D]. apply Z.lt_le_trans with (1 := D).
  change (radix_val radix2) with 2. apply Z.pow_le_mono_r; lia.
Qed.

Lemma flt_finite_zero s m e B : flt (B754_finite s m e B : f64) fzero0 = s.
Proof. destruct s; reflexivity. Qed.

(* finite a, finite non-zero b *)
Lemma mod_float_finite sx mx ex Bx sy my ey By :
  modFloat (B754_finite sx mx ex Bx) (B754_finite sy my ey By) =
  fmod_floor_exact (B754_finite sx mx ex Bx) (B754_finite sy my ey By).
Proof.
  set (x := B754_finite sx mx ex Bx : f64). set (y := B754_finite sy my ey By : f64).
  destruct (bounded_exp mx ex Bx) as [Ex Mx]. destruct (bounded_exp my ey By) as [Ey My].
  set (e := Z.min ex ey).
  set (X := Z.pos mx * 2 ^ (ex - e)). set (Y := Z.pos my * 2 ^ (ey - e)).
  assert (He : -1074 <= e <= 971) by (unfold e; lia).
  assert (PX : 0 < 2 ^ (ex - e)) by (apply Z.pow_pos_nonneg; unfold e; lia).
  assert (PY : 0 < 2 ^ (ey - e)) by (apply Z.pow_pos_nonneg; unfold e; lia).
  assert (Xp : 0 < X) by (unfold X; lia). assert (Yp : 0 < Y) by (unfold Y; lia).
  set (R := X mod Y).
  assert (Rb : 0 <= R < Y) by (apply Z.mod_pos_bound; exact Yp).
  assert (R53 : R < 2 ^ 53).
  { destruct (Z_le_gt_dec ey ex).
    - assert (e = ey) by (unfold e; lia). assert (Y = Z.pos my) by (unfold Y; rewrite H, Z.sub_diag; lia). lia.
    - assert (e = ex) by (unfold e; lia). assert (X = Z.pos mx) by (unfold X; rewrite H, Z.sub_diag; lia).
      assert (R <= X) by (apply Z.mod_le; lia). lia. }
  (* the result of math.Mod *)
  assert (FM : fmod x y = of_mant_exp (cond_Zopp sx R) e sx) by reflexivity.
  assert (AbsR : Z.abs (cond_Zopp sx R) < 2 ^ 53) by (destruct sx; cbn [cond_Zopp]; lia).
  destruct (of_mant_exp_exact (cond_Zopp sx R) e sx AbsR ltac:(lia) ltac:(lia)) as (Vr & Fr & Sr).
  set (E := bpow radix2 e) in *. assert (Ep : (0 < E)%R) by apply bpow_pos.
  (* value of y at the common exponent *)
  assert (Vy : B2R y = (IZR (cond_Zopp sy Y) * E)%R).
  { unfold y. rewrite B2R_finite_pos. unfold Y, E. rewrite cond_Zopp_mul. rewrite rescale by (unfold e; lia). reflexivity. }
  assert (Fy : is_finite y = true) by reflexivity.
  unfold modFloat. cbv zeta. rewrite FM.
  replace (flt y fzero0) with sy by (unfold y; symmetry; apply flt_finite_zero).
  set (r := of_mant_exp (cond_Zopp sx R) e sx) in *.
  assert (F0 : is_finite fzero0 = true) by reflexivity.
  assert (V0 : B2R fzero0 = 0%R) by reflexivity.
  unfold fmod_floor_exact, x, y. fold e. fold X. fold Y.
  destruct (Z.eq_dec R 0) as [R0|RN].
  - (* exact multiple: zero with the sign of a *)
    assert (feq r fzero0 = true).
    { apply feq_finite_iff; auto. rewrite Vr, V0, R0. destruct sx; cbn; lra. }
    rewrite H. cbn [negb andb].
    assert (cond_Zopp sx X mod cond_Zopp sy Y = 0).
    { assert (D : X = Y * (X / Y)) by (pose proof (Z.div_mod X Y ltac:(lia)); fold R in H0; lia).
      destruct sx, sy; cbn [cond_Zopp]; rewrite D.
      - replace (- (Y * (X / Y))) with ((X / Y) * - Y) by ring. apply Z.mod_mul; lia.
      - replace (- (Y * (X / Y))) with ((- (X / Y)) * Y) by ring. apply Z.mod_mul; lia.
      - replace (Y * (X / Y)) with ((- (X / Y)) * - Y) by ring. apply Z.mod_mul; lia.
      - replace (Y * (X / Y)) with ((X / Y) * Y) by ring. apply Z.mod_mul; lia. }
    rewrite H0. unfold r. rewrite R0. destruct sx; reflexivity.
  - assert (Rp : 0 < R) by lia.
    assert (NE : feq r fzero0 = false).
    { apply feq_finite_false; auto. rewrite Vr, V0.
      assert (IZR (cond_Zopp sx R) <> 0%R) by (apply not_0_IZR; destruct sx; cbn; lia).
      intro C. apply Rmult_integral in C. destruct C; [contradiction|lra]. }
    assert (LT : flt r fzero0 = sx).
    { destruct sx; cbn [cond_Zopp] in *.
      - apply flt_finite_iff; auto. rewrite Vr, V0. rewrite opp_IZR.
        assert (0 < IZR R)%R by (apply IZR_lt; lia). nra.
      - destruct (flt r fzero0) eqn:L; [|reflexivity]. apply flt_finite_iff in L; auto. rewrite Vr, V0 in L.
        assert (0 < IZR R)%R by (apply IZR_lt; lia). nra. }
    rewrite NE, LT. cbn [negb andb].
    destruct (Bool.eqb sx sy) eqn:SS; cbn [negb].
    + (* same sign: no adjustment; floor mod = truncated mod *)
      apply Bool.eqb_prop in SS. subst sy. f_equal.
      destruct sx; cbn [cond_Zopp].
      * unfold R. rewrite Z.mod_opp_opp by lia. reflexivity.
      * reflexivity.
    + (* opposite signs: r + b *)
      set (S := cond_Zopp sx R + cond_Zopp sy Y).
      assert (MS : cond_Zopp sx X mod cond_Zopp sy Y = S).
      { unfold S. destruct sx, sy; try discriminate; cbn [cond_Zopp].
        - rewrite Z.mod_opp_l_nz by (fold R; lia). fold R. ring.
        - rewrite Z.mod_opp_r_nz by (fold R; lia). fold R. ring. }
      rewrite MS.
      assert (Sabs : (Rabs (IZR S * E) <= Rabs (B2R y))%R /\ IZR S <> 0%R).
      { rewrite Vy. rewrite !Rabs_mult. rewrite (Rabs_pos_eq E) by lra. rewrite <- !abs_IZR.
        split.
        - apply Rmult_le_compat_r; [lra|]. apply IZR_le. unfold S. destruct sx, sy; try discriminate; cbn [cond_Zopp]; lia.
        - apply not_0_IZR. unfold S. destruct sx, sy; try discriminate; cbn [cond_Zopp]; lia. }
      destruct Sabs as [Sabs SN].
      assert (RB : (Rabs (round radix2 fexp64 ZnearestE (IZR S * E)) < bpow radix2 1024)%R).
      { apply Rle_lt_trans with (Rabs (B2R y)).
        - apply abs_round_le_generic; [apply fexp64_valid|apply valid_rnd_N| |exact Sabs].
          apply generic_format_abs. apply format_B2R.
        - apply abs_B2R_lt_emax. }
      destruct (of_mant_exp_round S e sx RB) as (T1 & T2 & T3).
      assert (SUM : (B2R r + B2R y = IZR S * E)%R).
      { rewrite Vr, Vy. unfold S. rewrite plus_IZR. ring. }
      generalize (Bplus_correct 53 1024 Hprec64 Hmax64 mode_NE r y Fr Fy).
      cbn [round_mode]. rewrite SUM. rewrite Rlt_bool_true by exact RB.
      intros (U1 & U2 & U3).
      unfold fadd. fold y. apply B2R_Bsign_inj; auto.
      * rewrite U1, T1. reflexivity.
      * rewrite U3, T3. fold E.
        destruct (Rcompare_spec (IZR S * E) 0); try reflexivity.
        exfalso. apply Rmult_integral in H. destruct H; [contradiction|lra].
Qed.

(* for ALL binary64 operands (zeros, infinities and NaN included), bit for bit *)
Theorem mod_float_spec x y : modFloat x y = s_mod_float x y.
Proof.
  destruct x as [sx|sx| |sx mx ex Bx], y as [sy|sy| |sy my ey By];
    try (apply mod_float_finite);
    try (destruct sx; try destruct sy; reflexivity); try (destruct sy; reflexivity); try reflexivity.
Qed.

(* what the exact value is: a - floor(a/b)*b over the reals, rounded once to nearest even *)
Theorem fmod_floor_value sx mx ex Bx sy my ey By :
  let a := B754_finite sx mx ex Bx : f64 in let b := B754_finite sy my ey By : f64 in
  B2R (fmod_floor_exact a b) =
    round radix2 fexp64 ZnearestE (B2R a - IZR (Zfloor (B2R a / B2R b)) * B2R b) /\
  is_finite (fmod_floor_exact a b) = true.
Proof.
  cbv zeta. set (a := B754_finite sx mx ex Bx : f64). set (b := B754_finite sy my ey By : f64).
  destruct (bounded_exp mx ex Bx) as [Ex Mx]. destruct (bounded_exp my ey By) as [Ey My].
  set (e := Z.min ex ey).
  set (X := cond_Zopp sx (Z.pos mx * 2 ^ (ex - e))). set (Y := cond_Zopp sy (Z.pos my * 2 ^ (ey - e))).
  assert (PX : 0 < 2 ^ (ex - e)) by (apply Z.pow_pos_nonneg; unfold e; lia).
  assert (PY : 0 < 2 ^ (ey - e)) by (apply Z.pow_pos_nonneg; unfold e; lia).
  assert (Yn : Y <> 0) by (unfold Y; destruct sy; cbn [cond_Zopp]; lia).
  set (E := bpow radix2 e). assert (Ep : (0 < E)%R) by apply bpow_pos.
  assert (Va : B2R a = (IZR X * E)%R).
  { unfold a. rewrite B2R_finite_pos. unfold X, E. rewrite cond_Zopp_mul. rewrite rescale by (unfold e; lia). reflexivity. }
  assert (Vb : B2R b = (IZR Y * E)%R).
  { unfold b. rewrite B2R_finite_pos. unfold Y, E. rewrite cond_Zopp_mul. rewrite rescale by (unfold e; lia). reflexivity. }
  assert (YR : IZR Y <> 0%R) by (apply not_0_IZR; exact Yn).
  assert (Q : (B2R a / B2R b = IZR X / IZR Y)%R).
  { rewrite Va, Vb. field. split; lra. }
  assert (EXACT : (B2R a - IZR (Zfloor (B2R a / B2R b)) * B2R b = IZR (X mod Y) * E)%R).
  { rewrite Q. rewrite Zfloor_div by exact Yn. rewrite Va, Vb.
    rewrite (Z.mod_eq X Y Yn). rewrite minus_IZR, mult_IZR. ring. }
  rewrite EXACT.
  assert (FE : fmod_floor_exact a b = of_mant_exp (X mod Y) e sx) by reflexivity.
  rewrite FE.
  assert (RB : (Rabs (round radix2 fexp64 ZnearestE (IZR (X mod Y) * E)) < bpow radix2 1024)%R).
  { apply Rle_lt_trans with (Rabs (B2R b)).
    - apply abs_round_le_generic; [apply fexp64_valid|apply valid_rnd_N| |].
      + apply generic_format_abs. apply format_B2R.
      + rewrite Vb. rewrite !Rabs_mult. rewrite (Rabs_pos_eq E) by lra. rewrite <- !abs_IZR.
        apply Rmult_le_compat_r; [lra|]. apply IZR_le.
        destruct (Z_lt_le_dec Y 0).
        * pose proof (Z.mod_neg_bound X Y l). lia.
        * pose proof (Z.mod_pos_bound X Y ltac:(lia)). lia.
    - apply abs_B2R_lt_emax. }
  destruct (of_mant_exp_round (X mod Y) e sx RB) as (T1 & T2 & _). split; assumption.
Qed.
