(* Num/Model.v — IM: implementation model of golua's number operations.
   Line-by-line mirror of /repo/runtime/arith.go, comp.go, bitwise.go,
   numconv.go (number part) and the integer/float functions of
   lib/mathlib/mathlib.go.  Definitions only (extracted); proofs elsewhere.

   int64 values are Z in [-2^63,2^63) (Base.W64), float64 values are Flocq
   binary64 with one NaN (Base.F64). *)
From Coq Require Import ZArith Bool List.
From Flocq Require Import Core.Core IEEE754.BinarySingleNaN.
From GV Require Import Base.W64 Base.F64.
Import ListNotations.
Open Scope Z_scope.

Inductive num : Type := NInt (n : Z) | NFlt (f : f64).

(* result of an operation that can raise a Lua error *)
Inductive err : Type :=
| EDivZero          (* "attempt to divide by zero" *)
| EModZero          (* "attempt to perform 'n%0'" *)
| ENoInt            (* "number has no integer representation" *)
| EOther.
Inductive res : Type := ROk (x : num) | RErr (e : err).

Definition fzero0 : f64 := fzero false.

(* ---------------------------------------------------------------- arith.go *)
Definition unm (x : num) : num :=
  match x with NInt a => NInt (neg64 a) | NFlt f => NFlt (fneg f) end.

Definition tofloat (x : num) : f64 :=
  match x with NInt a => of_int a | NFlt f => f end.

Definition add (x y : num) : num :=
  match x, y with
  | NInt a, NInt b => NInt (add64 a b)
  | NInt a, NFlt g => NFlt (fadd (of_int a) g)
  | NFlt f, NInt b => NFlt (fadd f (of_int b))
  | NFlt f, NFlt g => NFlt (fadd f g)
  end.

Definition sub (x y : num) : num :=
  match x, y with
  | NInt a, NInt b => NInt (sub64 a b)
  | NInt a, NFlt g => NFlt (fsub (of_int a) g)
  | NFlt f, NInt b => NFlt (fsub f (of_int b))
  | NFlt f, NFlt g => NFlt (fsub f g)
  end.

Definition mul (x y : num) : num :=
  match x, y with
  | NInt a, NInt b => NInt (mul64 a b)
  | NInt a, NFlt g => NFlt (fmul (of_int a) g)
  | NFlt f, NInt b => NFlt (fmul f (of_int b))
  | NFlt f, NFlt g => NFlt (fmul f g)
  end.

Definition div (x y : num) : num := NFlt (fdiv (tofloat x) (tofloat y)).

(* func floordivInt(x, y int64) int64 { r := x % y; q := x / y;
     if r != 0 && (r < 0) != (y < 0) { q-- }; return q }          (y != 0) *)
Definition floordivInt (x y : Z) : Z :=
  let r := rem64 x y in
  let q := quot64 x y in
  if negb (r =? 0) && negb (Bool.eqb (r <? 0) (y <? 0)) then sub64 q 1 else q.

Definition floordivFloat (x y : f64) : f64 := ffloor (fdiv x y).

Definition idiv (x y : num) : res :=
  match x, y with
  | NInt a, NInt b => if b =? 0 then RErr EDivZero else ROk (NInt (floordivInt a b))
  | _, _ => ROk (NFlt (floordivFloat (tofloat x) (tofloat y)))
  end.

(* func modInt(x, y int64) int64 { r := x % y;
     if r != 0 && (r < 0) != (y < 0) { r += y }; return r }        (y != 0) *)
Definition modInt (x y : Z) : Z :=
  let r := rem64 x y in
  if negb (r =? 0) && negb (Bool.eqb (r <? 0) (y <? 0)) then add64 r y else r.

(* func modFloat(x, y float64) float64 { r := math.Mod(x, y);
     if r != 0 && (r < 0) != (y < 0) { r += y }; return r } *)
Definition modFloat (x y : f64) : f64 :=
  let r := fmod x y in
  if negb (feq r fzero0) && negb (Bool.eqb (flt r fzero0) (flt y fzero0)) then fadd r y else r.

Definition mod_ (x y : num) : res :=
  match x, y with
  | NInt a, NInt b => if b =? 0 then RErr EModZero else ROk (NInt (modInt a b))
  | _, _ => ROk (NFlt (modFloat (tofloat x) (tofloat y)))
  end.

(* ----------------------------------------------------------------- comp.go *)
(* func equalIntAndFloat(n int64, f float64) bool { nf := int64(f); return float64(nf) == f && nf == n } *)
Definition equalIntAndFloat (n : Z) (f : f64) : bool :=
  let nf := go_f2i f in feq (of_int nf) f && (nf =? n).

(* const twoTo63 = float64(1 << 63) *)
Definition f2p63 : f64 := of_mant_exp 1 63 false.

(* func ltIntAndFloat(n int64, f float64) bool {
     if f >= twoTo63 { return true }
     nf := int64(f); if float64(nf) == f { return n < nf }; return float64(n) < f } *)
Definition ltIntAndFloat_core (n : Z) (f : f64) : bool :=
  let nf := go_f2i f in if feq (of_int nf) f then n <? nf else flt (of_int n) f.
Definition ltIntAndFloat (n : Z) (f : f64) : bool :=
  if fle f2p63 f then true else ltIntAndFloat_core n f.
Definition ltFloatAndInt (f : f64) (n : Z) : bool :=
  let nf := go_f2i f in if feq (of_int nf) f then nf <? n else flt f (of_int n).
Definition leIntAndFloat (n : Z) (f : f64) : bool :=
  let nf := go_f2i f in if feq (of_int nf) f then n <=? nf else fle (of_int n) f.
(* func leFloatAndInt(f float64, n int64) bool {
     if f >= twoTo63 { return false }
     nf := int64(f); if float64(nf) == f { return nf <= n }; return f <= float64(n) } *)
Definition leFloatAndInt_core (f : f64) (n : Z) : bool :=
  let nf := go_f2i f in if feq (of_int nf) f then nf <=? n else fle f (of_int n).
Definition leFloatAndInt (f : f64) (n : Z) : bool :=
  if fle f2p63 f then false else leFloatAndInt_core f n.

(* RawEqual on two numbers: Value.Equals (same type: int ==, float ==), else mixed *)
Definition num_eq (x y : num) : bool :=
  match x, y with
  | NInt a, NInt b => a =? b
  | NFlt f, NFlt g => feq f g
  | NInt a, NFlt g => equalIntAndFloat a g
  | NFlt f, NInt b => equalIntAndFloat b f
  end.

(* isLessThan / numIsLessThan *)
Definition num_lt (x y : num) : bool :=
  match x, y with
  | NInt a, NInt b => a <? b
  | NInt a, NFlt g => ltIntAndFloat a g
  | NFlt f, NInt b => ltFloatAndInt f b
  | NFlt f, NFlt g => flt f g
  end.

(* le *)
Definition num_le (x y : num) : bool :=
  match x, y with
  | NInt a, NInt b => a <=? b
  | NInt a, NFlt g => leIntAndFloat a g
  | NFlt f, NInt b => leFloatAndInt f b
  | NFlt f, NFlt g => fle f g
  end.

Definition isZero (x : num) : bool :=
  match x with NInt a => a =? 0 | NFlt f => feq f fzero0 end.
Definition isPositive (x : num) : bool :=
  match x with NInt a => 0 <? a | NFlt f => flt fzero0 f end.

(* -------------------------------------------------------------- numconv.go *)
(* func FloatToInt(f float64) (int64, NumberType) { n := int64(f)
     if float64(n) == f { return n, IsInt }; return 0, NaI } *)
Definition FloatToInt (f : f64) : option Z :=
  let n := go_f2i f in if feq (of_int n) f then Some n else None.

Definition ToIntNoString (x : num) : option Z :=
  match x with NInt a => Some a | NFlt f => FloatToInt f end.

(* -------------------------------------------------------------- bitwise.go *)
Definition bitop (f : Z -> Z -> Z) (x y : num) : res :=
  match ToIntNoString x, ToIntNoString y with
  | Some a, Some b => ROk (NInt (f a b))
  | _, _ => RErr ENoInt
  end.

Definition band := bitop and64.
Definition bor := bitop or64.
Definition bxor := bitop xor64.

(* if iy < 0 { int64(uint64(ix) >> uint64(-iy)) } else { int64(uint64(ix) << uint64(iy)) } *)
Definition shl64 (ix iy : Z) : Z :=
  if iy <? 0 then wrap64 (shru64 (u64 ix) (u64 (neg64 iy)))
  else wrap64 (shlu64 (u64 ix) (u64 iy)).
Definition shr64 (ix iy : Z) : Z :=
  if iy <? 0 then wrap64 (shlu64 (u64 ix) (u64 (neg64 iy)))
  else wrap64 (shru64 (u64 ix) (u64 iy)).

Definition shl := bitop shl64.
Definition shr := bitop shr64.

Definition bnot (x : num) : res :=
  match ToIntNoString x with Some a => ROk (NInt (not64 a)) | None => RErr ENoInt end.

(* -------------------------------------------------------------- mathlib.go *)
Definition math_abs (x : num) : num :=
  match x with
  | NInt n => NInt (if n <? 0 then neg64 n else n)
  | NFlt f => NFlt (fabs f)
  end.

(* f = math.Floor(f); n = int64(f); if float64(n) == f { int n } else { float f } *)
Definition math_floor (x : num) : num :=
  match x with
  | NInt n => NInt n
  | NFlt f => let f' := ffloor f in
              let n := go_f2i f' in if feq (of_int n) f' then NInt n else NFlt f'
  end.
Definition math_ceil (x : num) : num :=
  match x with
  | NInt n => NInt n
  | NFlt f => let f' := fceil f in
              let n := go_f2i f' in if feq (of_int n) f' then NInt n else NFlt f'
  end.

(* math.fmod (after the repair): two integers: d == 0 is an error, else Go's truncated x % d;
   otherwise math.Mod on the operands converted to float64 *)
Definition math_fmod (x y : num) : res :=
  match x, y with
  | NInt a, NInt b => if b =? 0 then RErr EModZero else ROk (NInt (rem64 a b))
  | _, _ => ROk (NFlt (fmod (tofloat x) (tofloat y)))
  end.

(* math.tointeger on a number: ToInt *)
Definition math_tointeger (x : num) : option Z := ToIntNoString x.

(* math.ult: both arguments through ToInt; uint64(x) < uint64(y) *)
Definition math_ult (x y : num) : option bool :=
  match ToIntNoString x, ToIntNoString y with
  | Some a, Some b => Some (u64 a <? u64 b)
  | _, _ => None
  end.

(* math.max / math.min of two numbers: x := arg0; if Lt(x, y) { x = y } *)
Definition math_max (x y : num) : num := if num_lt x y then y else x.
Definition math_min (x y : num) : num := if num_lt y x then y else x.

(* math.modf on a float: (i, f) = math.Modf(x), ±Inf -> (x, 0).  Go's Modf(NaN) = (NaN, NaN);
   a zero fraction is +0.0. *)
Definition math_modf (x : num) : num * f64 :=
  match x with
  | NInt n => (NInt n, fzero false)
  | NFlt f =>
      match f with
      | B754_infinity _ => (NFlt f, fzero false)
      | B754_nan => (NFlt f, fnan)
      | _ => let i := ftrunc f in
             let fr := fsub f i in
             (* math.Modf gives a zero fraction the sign of f; mathlib.modf (after the round-6 repair)
                replaces a zero fraction by +0.0, as the reference implementation does *)
             (NFlt i, if fis_zero fr then fzero false else fr)
      end
  end.
