(* Num/ForClip.v — C16: clipping of a float limit in an integer for loop.
   golua's forLimit (runtime/luacont.go, after the repair) agrees with the
   manual's clipping s_forlimit for EVERY binary64 limit and every step <> 0:
   floor (ceil for a negative step) of the exact value if it fits an int64,
   max/mininteger or "no iteration" beyond the range, no iteration for NaN.
   Hence an integer loop with a float limit is the integer loop with the
   clipped limit (int_loop_float_limit). *)
From Coq Require Import ZArith Reals Lia Lra Bool List.
From Flocq Require Import Core.Core IEEE754.BinarySingleNaN.
From GV Require Import Base.W64 Base.W64Lemmas Base.F64 Base.F64Lemmas Num.Model Num.Spec Num.Ops
  Num.MixedCmp Num.ForLoop Num.ForProofs.
Import ListNotations.
Open Scope Z_scope.

Lemma round_FIX0 rnd (x : R) : round radix2 (FIX_exp 0) rnd x = IZR (rnd x).
Proof.
  unfold round, F2R, scaled_mantissa, cexp, FIX_exp. simpl.
  rewrite Rmult_1_r. rewrite Rmult_1_r. reflexivity.
Qed.

Lemma ffloor_correct f : is_finite f = true ->
  B2R (ffloor f) = IZR (Zfloor (B2R f)) /\ is_finite (ffloor f) = true.
Proof.
  intros Ff. unfold ffloor.
  destruct (Bnearbyint_correct 53 1024 Hmax64 mode_DN f) as (A & B & _).
  rewrite A, B. simpl round_mode. rewrite round_FIX0. auto.
Qed.
Lemma fceil_correct f : is_finite f = true ->
  B2R (fceil f) = IZR (Zceil (B2R f)) /\ is_finite (fceil f) = true.
Proof.
  intros Ff. unfold fceil.
  destruct (Bnearbyint_correct 53 1024 Hmax64 mode_UP f) as (A & B & _).
  rewrite A, B. simpl round_mode. rewrite round_FIX0. auto.
Qed.

(* exact value of a finite float as a quotient of integers *)
Lemma s_floor_z_correct s m e B :
  s_floor_z (B754_finite s m e B : f64) = Some (Zfloor (B2R (B754_finite s m e B : f64))).
Proof.
  cbn [s_floor_z]. f_equal. rewrite B2R_finite_pos.
  destruct (Z.leb_spec 0 e) as [P|N].
  - rewrite <- IZR_Zpower by exact P. rewrite <- mult_IZR. rewrite Zfloor_IZR.
    change (radix_val radix2) with 2. destruct s; cbn [cond_Zopp]; ring.
  - replace e with (- - e) at 2 by ring. rewrite bpow_opp. rewrite <- IZR_Zpower by lia.
    change (radix_val radix2) with 2.
    change (IZR (cond_Zopp s (Z.pos m)) * / IZR (2 ^ - e))%R with (IZR (cond_Zopp s (Z.pos m)) / IZR (2 ^ - e))%R.
    rewrite Zfloor_div. reflexivity. apply Z.pow_nonzero; lia.
Qed.
Lemma s_ceil_z_correct s m e B :
  s_ceil_z (B754_finite s m e B : f64) = Some (Zceil (B2R (B754_finite s m e B : f64))).
Proof.
  cbn [s_ceil_z]. f_equal. rewrite B2R_finite_pos. unfold Zceil.
  destruct (Z.leb_spec 0 e) as [P|N].
  - rewrite <- IZR_Zpower by exact P. rewrite <- mult_IZR. rewrite <- opp_IZR. rewrite Zfloor_IZR.
    change (radix_val radix2) with 2. destruct s; cbn [cond_Zopp]; ring.
  - replace e with (- - e) at 2 by ring. rewrite bpow_opp. rewrite <- IZR_Zpower by lia.
    change (radix_val radix2) with 2.
    replace (- (IZR (cond_Zopp s (Z.pos m)) * / IZR (2 ^ - e)))%R with (IZR (- cond_Zopp s (Z.pos m)) / IZR (2 ^ - e))%R.
    2:{ rewrite opp_IZR. unfold Rdiv. ring. }
    rewrite Zfloor_div. reflexivity. apply Z.pow_nonzero; lia.
Qed.

Lemma fneg_2p63 : B2R (fneg f2p63) = IZR (- 2 ^ 63) /\ is_finite (fneg f2p63) = true.
Proof.
  destruct f2p63_correct as [V Fin]. unfold fneg. rewrite B2R_Bopp, is_finite_Bopp, V, opp_IZR. auto.
Qed.

(* a finite float g whose value is the integer z: the three range cases of forLimit *)
Lemma clip_integral g z (d1 d2 : bool) : is_finite g = true -> B2R g = IZR z ->
  (if fis_nan g then (0, true)
   else if fle f2p63 g then (maxint, d1)
   else if flt g (fneg f2p63) then (minint, d2)
   else (go_f2i g, false)) =
  (if in64b z then (z, false) else if 0 <? z then (maxint, d1) else (minint, d2)).
Proof.
  intros Fg V.
  assert (NN : fis_nan g = false) by (destruct g; try discriminate; reflexivity).
  rewrite NN. destruct (range_test g Fg) as [R1 R2]. destruct fneg_2p63 as [V2 F2].
  destruct (fle f2p63 g).
  - specialize (R1 eq_refl). rewrite V in R1. apply le_IZR in R1.
    assert (in64b z = false) by (apply not_true_is_false; intro C; apply in64b_true in C; unfold in64 in C; lia).
    rewrite H. destruct (Z.ltb_spec 0 z); [reflexivity|lia].
  - specialize (R2 eq_refl). rewrite V in R2. apply lt_IZR in R2.
    destruct (flt g (fneg f2p63)) eqn:L.
    + apply flt_finite_iff in L; auto. rewrite V, V2 in L. apply lt_IZR in L.
      assert (in64b z = false) by (apply not_true_is_false; intro C; apply in64b_true in C; unfold in64 in C; lia).
      rewrite H. destruct (Z.ltb_spec 0 z); [lia|reflexivity].
    + assert (~ (B2R g < B2R (fneg f2p63))%R) by (intro C; apply (flt_finite_iff g (fneg f2p63) Fg F2) in C; congruence).
      rewrite V, V2 in H.
      assert (- 2 ^ 63 <= z). { destruct (Z_lt_le_dec z (- 2 ^ 63)); [|assumption]. exfalso. apply H. now apply IZR_lt. }
      assert (R : in64b z = true) by (apply in64b_true; unfold in64; lia).
      rewrite R. f_equal.
      destruct (f2i_cases g Fg) as [Rg E Q|k Q Hk K1 K2|Q B|Q B].
      * apply eq_IZR. congruence.
      * exfalso. rewrite V in Hk. destruct Hk as [A B]. apply lt_IZR in A. apply lt_IZR in B. lia.
      * exfalso. rewrite V in B. apply le_IZR in B. lia.
      * exfalso. rewrite V in B. apply lt_IZR in B. lia.
Qed.

Lemma s_floor_z_fin f : is_finite f = true -> s_floor_z f = Some (Zfloor (B2R f)).
Proof.
  destruct f as [s|s| |s m e B]; try discriminate; intros _.
  - cbn. now rewrite Zfloor_IZR.
  - apply s_floor_z_correct.
Qed.
Lemma s_ceil_z_fin f : is_finite f = true -> s_ceil_z f = Some (Zceil (B2R f)).
Proof.
  destruct f as [s|s| |s m e B]; try discriminate; intros _.
  - cbn. now rewrite Zceil_IZR.
  - apply s_ceil_z_correct.
Qed.

Lemma s_forlimit_finite f st : is_finite f = true ->
  s_forlimit (NFlt f) st =
  match (if 0 <? st then s_floor_z f else s_ceil_z f) with
  | Some z => if in64b z then Some z
              else if 0 <? z then (if st <? 0 then None else Some maxint)
              else (if 0 <? st then None else Some minint)
  | None => None
  end.
Proof. destruct f; try discriminate; reflexivity. Qed.

Theorem forlimit_spec lim st : st <> 0 ->
  match s_forlimit lim st with
  | Some l => forLimit lim st = (l, false)
  | None => snd (forLimit lim st) = true
  end.
Proof.
  intros NZ. destruct lim as [n|f]; [reflexivity|].
  destruct (is_finite f) eqn:Ff.
  - rewrite s_forlimit_finite by exact Ff. unfold forLimit.
    destruct (Z.ltb_spec 0 st) as [P|N].
    + destruct (ffloor_correct f Ff) as [V Fg]. rewrite s_floor_z_fin by exact Ff.
      rewrite (clip_integral (ffloor f) (Zfloor (B2R f)) (st <? 0) true Fg V).
      destruct (in64b (Zfloor (B2R f))); [reflexivity|].
      destruct (0 <? Zfloor (B2R f)).
      * destruct (Z.ltb_spec st 0); [lia|reflexivity].
      * reflexivity.
    + destruct (fceil_correct f Ff) as [V Fg]. rewrite s_ceil_z_fin by exact Ff.
      assert (st <? 0 = true) by (apply Z.ltb_lt; lia).
      rewrite (clip_integral (fceil f) (Zceil (B2R f)) (st <? 0) false Fg V). rewrite H.
      destruct (in64b (Zceil (B2R f))); [reflexivity|].
      destruct (0 <? Zceil (B2R f)); reflexivity.
  - destruct f as [s|s| |s m e B]; try discriminate.
    + (* infinity *)
      cbn [s_forlimit forLimit].
      destruct s; destruct (Z.ltb_spec 0 st), (Z.ltb_spec st 0); try lia; reflexivity.
    + (* NaN *) cbn [s_forlimit forLimit]. destruct (0 <? st); reflexivity.
Qed.

Lemma s_forlimit_in64 f st l : s_forlimit (NFlt f) st = Some l -> in64 l.
Proof.
  assert (Mx : in64 maxint) by (unfold in64, maxint; lia).
  assert (Mn : in64 minint) by (unfold in64, minint; lia).
  destruct (is_finite f) eqn:Ff.
  - rewrite s_forlimit_finite by exact Ff.
    destruct (if 0 <? st then s_floor_z f else s_ceil_z f) as [z|]; [|discriminate].
    destruct (in64b z) eqn:R.
    + intros [= <-]. now apply in64b_true.
    + destruct (0 <? z); [destruct (st <? 0)|destruct (0 <? st)]; try discriminate; intros [= <-]; assumption.
  - destruct f as [s0|s0| |s0 m e B]; try discriminate; cbn [s_forlimit].
    destruct s0; [destruct (0 <? st)|destruct (st <? 0)]; try discriminate; intros [= <-]; assumption.
Qed.

(* An integer loop with any limit (integer or float, NaN and infinities included) is the manual's loop *)
Theorem int_loop_any_limit fuel s lim st : in64 s -> in64 st -> st <> 0 ->
  match lim with NInt l => in64 l | NFlt _ => True end ->
  for_im fuel (NInt s) lim (NInt st) = for_s fuel (NInt s) lim (NInt st).
Proof.
  intros Hs Hst NZ Hl.
  destruct lim as [l|f]; [now apply int_loop_sequence|].
  pose proof (forlimit_spec (NFlt f) st NZ) as C.
  unfold for_im, for_s, prepfor. cbn [isZero].
  destruct (Z.eqb_spec st 0); [contradiction|].
  destruct (s_forlimit (NFlt f) st) as [l|] eqn:SL.
  - rewrite C.
    assert (Hl' : in64 l) by (eapply s_forlimit_in64; eassumption).
    pose proof (int_loop_sequence fuel s l st Hs Hl' Hst NZ) as IL.
    unfold for_im, for_s, prepfor in IL. cbn [isZero forLimit s_forlimit] in IL.
    destruct (Z.eqb_spec st 0); [contradiction|]. exact IL.
  - destruct (forLimit (NFlt f) st) as [l d]. cbn [snd] in C. subst d. reflexivity.
Qed.

(* --- every loop on numbers: golua's loop is the manual's ------------------------------ *)
Definition num_ok (x : num) : Prop := match x with NInt n => in64 n | NFlt _ => True end.

Theorem for_im_is_manual fuel a b c : num_ok a -> num_ok b -> num_ok c ->
  for_im fuel a b c = for_s fuel a b c.
Proof.
  intros Wa Wb Wc.
  destruct (is_float_loop a c) eqn:FL.
  - now apply float_loop_definition.
  - destruct a as [s|], c as [st|]; try discriminate.
    destruct (Z.eq_dec st 0) as [->|NZ].
    + reflexivity.
    + now apply int_loop_any_limit.
Qed.

(* --- numeric strings as control values -------------------------------------------------- *)
Definition fv_ok (v : forval) : Prop := match fv_num v with Some x => num_ok x | None => True end.

Lemma for_im_gen_false fuel a b c : for_im_gen false fuel a b c = for_im fuel a b c.
Proof. reflexivity. Qed.

(* with a string start or step the loop is the float loop on the converted values *)
Lemma for_im_gen_true fuel a b c : num_ok c ->
  for_im_gen true fuel a b c = for_im fuel (NFlt (tofloat a)) b (NFlt (tofloat c)).
Proof.
  intros Wc. unfold for_im_gen, for_im, prepfor_v, prepfor_float, prepfor.
  assert (Z0 : isZero c = isZero (NFlt (tofloat c))).
  { destruct c as [n|f]; [|reflexivity]. cbn [isZero tofloat]. symmetry. now apply of_int_zero_iff. }
  rewrite Z0. cbn [tofloat]. reflexivity.
Qed.

(* numeric strings as control values: golua's loop (after the repair) is the manual's *)
Theorem string_operand fuel start limit step : fv_ok start -> fv_ok limit -> fv_ok step ->
  for_im_val fuel start limit step = for_s_val fuel start limit step.
Proof.
  intros Ws Wl Wst. unfold for_im_val, for_s_val, fv_ok in *.
  destruct (fv_num start) as [a|] eqn:A; [|reflexivity].
  destruct (fv_num limit) as [b|] eqn:B; [|reflexivity].
  destruct (fv_num step) as [c|] eqn:C; [|reflexivity].
  destruct (fv_is_str start || fv_is_str step) eqn:STR.
  - (* a string: float loop on both sides *)
    assert (II : fv_is_int start && fv_is_int step = false).
    { destruct start as [[?|?]|?|], step as [[?|?]|?|]; cbn in *; try reflexivity; discriminate. }
    rewrite II. f_equal. rewrite for_im_gen_true by exact Wst.
    apply for_im_is_manual; cbn; auto.
  - rewrite for_im_gen_false. rewrite (for_im_is_manual fuel a b c Ws Wl Wst).
    destruct (fv_is_int start && fv_is_int step) eqn:II; [reflexivity|]. f_equal.
    destruct a as [s|x], c as [st|y]; cbn [tofloat]; try reflexivity.
    exfalso. destruct start as [[?|?]|?|], step as [[?|?]|?|]; cbn in *; try discriminate; congruence.
Qed.

(* the loop before the repair (type taken after ToNumberValue only) was not the manual's *)
Theorem string_operand_old_code_refuted :
  exists fuel a b c, for_im fuel a b c <> for_s fuel (NFlt (tofloat a)) b (NFlt (tofloat c)).
Proof.
  exists 5%nat, (NInt 1), (NInt 2), (NInt 1). intro E.
  apply (f_equal (fun r => match r with FRun (NInt _ :: _) _ => true | _ => false end)) in E.
  vm_compute in E. discriminate.
Qed.
