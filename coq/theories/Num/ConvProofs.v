(* Num/ConvProofs.v — float -> integer conversion (runtime/numconv.go
   FloatToInt, used by ToInt/ToIntNoString, bitwise operators, math.tointeger,
   math.floor/ceil): succeeds exactly on the floats whose value is an integer
   of the int64 range, and then returns that integer.  For all binary64 f. *)
From Coq Require Import ZArith Reals Lia Lra Bool List.
From Flocq Require Import Core.Core IEEE754.BinarySingleNaN.
From GV Require Import Base.W64 Base.W64Lemmas Base.F64 Base.F64Lemmas Num.Model Num.Spec Num.MixedCmp.
Open Scope Z_scope.

Lemma FloatToInt_nonfinite f : is_finite f = false -> FloatToInt f = None.
Proof.
  intros NF. unfold FloatToInt, go_f2i. rewrite NF.
  assert (F0 : is_finite (of_int minint) = true) by (apply of_int_finite; apply in64_minint).
  unfold feq, Beqb. destruct f as [s|s| |s m e B]; try discriminate;
    destruct (of_int minint); try discriminate; try destruct s; reflexivity.
Qed.

Theorem float_to_int_exact f z :
  FloatToInt f = Some z <-> (is_finite f = true /\ in64 z /\ IZR z = B2R f).
Proof.
  destruct (is_finite f) eqn:Ff.
  - unfold FloatToInt.
    destruct (f2i_cases f Ff) as [R E Q|k Q Hk K1 K2|Q B|Q B]; rewrite Q.
    + split.
      * intros [= <-]. auto.
      * intros (_ & _ & E'). f_equal. apply eq_IZR. congruence.
    + split; [discriminate|]. intros (_ & _ & E). exfalso. rewrite <- E in Hk.
      destruct Hk as [A B]. apply lt_IZR in A. apply lt_IZR in B. lia.
    + split; [discriminate|]. intros (_ & R & E). exfalso. rewrite <- E in B. apply le_IZR in B. unfold in64 in R. lia.
    + split; [discriminate|]. intros (_ & R & E). exfalso. rewrite <- E in B. apply lt_IZR in B. unfold in64 in R. lia.
  - rewrite FloatToInt_nonfinite by exact Ff. split; [discriminate|]. intros (C & _). discriminate.
Qed.

(* the same characterisation for the executable S definition *)
Theorem s_float_to_int_exact f z :
  s_float_to_int f = Some z <-> (is_finite f = true /\ in64 z /\ IZR z = B2R f).
Proof.
  destruct f as [s|s| |s m e B].
  - cbn. split.
    + intros [= <-]. repeat split; unfold in64; lia.
    + intros (_ & _ & E). f_equal. apply eq_IZR. symmetry. exact E.
  - cbn. split; [discriminate|]. intros (C & _). discriminate.
  - cbn. split; [discriminate|]. intros (C & _). discriminate.
  - cbn [s_float_to_int is_finite]. rewrite B2R_finite_pos.
    destruct (Z.leb_spec 0 e) as [P|N].
    + assert (V : (IZR (cond_Zopp s (Z.pos m)) * bpow radix2 e)%R = IZR (cond_Zopp s (Z.pos m * 2 ^ e))).
      { rewrite <- IZR_Zpower by exact P. rewrite <- mult_IZR. f_equal.
        change (radix_val radix2) with 2. destruct s; cbn [cond_Zopp]; ring. }
      rewrite V. destruct (in64b (cond_Zopp s (Z.pos m * 2 ^ e))) eqn:R.
      * split.
        -- intros [= <-]. apply in64b_true in R. auto.
        -- intros (_ & _ & E). f_equal. apply eq_IZR. symmetry. exact E.
      * split; [discriminate|]. intros (_ & R' & E). apply eq_IZR in E. subst z.
        apply in64b_true in R'. congruence.
    + set (d := 2 ^ (- e)). assert (Dpos : 0 < d) by (apply Z.pow_pos_nonneg; lia).
      assert (BD : bpow radix2 e = (/ IZR d)%R).
      { replace e with (- - e) at 1 by ring. rewrite bpow_opp. f_equal. rewrite <- IZR_Zpower by lia. reflexivity. }
      assert (Dnz : IZR d <> 0%R) by (apply not_0_IZR; lia).
      destruct (Z.eqb_spec (Z.pos m mod d) 0) as [M0|MN].
      * assert (EQ : Z.pos m = d * (Z.pos m / d)). { pose proof (Z.div_mod (Z.pos m) d ltac:(lia)). lia. }
        assert (V : (IZR (cond_Zopp s (Z.pos m)) * bpow radix2 e)%R = IZR (cond_Zopp s (Z.pos m / d))).
        { rewrite BD. destruct s; cbn [cond_Zopp]; rewrite ?opp_IZR; rewrite EQ at 1; rewrite mult_IZR; field; exact Dnz. }
        rewrite V. destruct (in64b (cond_Zopp s (Z.pos m / d))) eqn:R.
        -- split.
           ++ intros [= <-]. apply in64b_true in R. auto.
           ++ intros (_ & _ & E). f_equal. apply eq_IZR. symmetry. exact E.
        -- split; [discriminate|]. intros (_ & R' & E). apply eq_IZR in E. subst z.
           apply in64b_true in R'. congruence.
      * split; [discriminate|]. intros (_ & _ & E). exfalso. apply MN.
        assert (E' : (IZR z * IZR d)%R = IZR (cond_Zopp s (Z.pos m))).
        { rewrite E, BD. field. exact Dnz. }
        rewrite <- mult_IZR in E'. apply eq_IZR in E'.
        assert (Z.pos m = (if s then - z else z) * d).
        { destruct s; cbn [cond_Zopp] in E'; lia. }
        rewrite H. apply Z.mod_mul. lia.
Qed.

Theorem float_to_int_spec f : FloatToInt f = s_float_to_int f.
Proof.
  destruct (FloatToInt f) as [z|] eqn:E.
  - symmetry. apply s_float_to_int_exact. now apply float_to_int_exact.
  - destruct (s_float_to_int f) as [z|] eqn:E'; [|reflexivity].
    apply s_float_to_int_exact in E'. apply float_to_int_exact in E'. congruence.
Qed.

(* bitwise operators take exactly the numbers with an integer representation *)
Theorem bitwise_requires_int f x y :
  bitop f x y = s_bitop f x y.
Proof.
  unfold bitop, s_bitop, ToIntNoString, s_to_int.
  destruct x, y; rewrite ?float_to_int_spec; reflexivity.
Qed.

Theorem to_int_spec x : ToIntNoString x = s_to_int x.
Proof. destruct x; cbn; [reflexivity|apply float_to_int_spec]. Qed.

(* mixed arithmetic converts the integer operand with float64(n) = round-to-nearest *)
Theorem mixed_arith_converts a g : in64 a ->
  add (NInt a) (NFlt g) = NFlt (fadd (of_int a) g) /\
  sub (NInt a) (NFlt g) = NFlt (fsub (of_int a) g) /\
  mul (NInt a) (NFlt g) = NFlt (fmul (of_int a) g) /\
  div (NInt a) (NFlt g) = NFlt (fdiv (of_int a) g) /\
  div (NInt a) (NInt a) = NFlt (fdiv (of_int a) (of_int a)) /\
  B2R (of_int a) = round radix2 fexp64 ZnearestE (IZR a) /\
  (Z.abs a <= 2 ^ 53 -> B2R (of_int a) = IZR a).
Proof.
  intros Ha. repeat split.
  - apply of_int_correct. now apply in64_abs.
  - apply of_int_exact.
Qed.

(* math.fmod after the repair is the manual's: truncated remainder on two integers, C fmod otherwise *)
Theorem math_fmod_spec x y : math_fmod x y = s_math_fmod x y.
Proof. destruct x, y; reflexivity. Qed.

(* ... whose integer result has the sign of the dividend and is smaller than the divisor *)
Theorem math_fmod_int_props a b : b <> 0 ->
  exists r, math_fmod (NInt a) (NInt b) = ROk (NInt r) /\ a = b * Z.quot a b + r /\ Z.abs r < Z.abs b /\ 0 <= r * a.
Proof.
  intros NZ. exists (Z.rem a b). cbn. destruct (Z.eqb_spec b 0); [contradiction|].
  repeat split.
  - apply Z.quot_rem'.
  - apply Z.rem_bound_abs. exact NZ.
  - apply Z.rem_sign_mul. exact NZ.
Qed.
