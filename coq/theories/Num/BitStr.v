(* Num/BitStr.v — bitwise operators on operands that may be strings.
   IM: runtime/bitwise.go converts operands with ToIntNoString: a string operand is never converted,
   the operation falls through to the metamethod lookup and fails ("attempt to perform bitwise ... on a
   string value").  S: the manual (3.4.2, 3.4.3): a string operand is converted to a number by the numeral
   rule and then to an integer like any number.  OPEN finding C02-bitwise-string-operands (golua's own test
   runtime/lua/bitwise.lua pins the error, so it is not repaired): bitop_val_refuted / bitop_val_partial. *)
From Coq Require Import ZArith Bool List.
From GV Require Import Base.W64 Base.F64 Num.Model Num.Spec Num.ConvProofs.
Open Scope Z_scope.

(* an operand: a number, or a string together with what it denotes (None = not a numeral) *)
Inductive bval : Type := BNum (x : num) | BStr (denotes : option num).

Definition bitop_val_im (f : Z -> Z -> Z) (a b : bval) : res :=
  match a, b with
  | BNum x, BNum y => bitop f x y
  | _, _ => RErr EOther            (* "attempt to perform bitwise ... on a string value" *)
  end.

Definition bval_num (a : bval) : option num := match a with BNum x => Some x | BStr d => d end.

Definition bitop_val_s (f : Z -> Z -> Z) (a b : bval) : res :=
  match bval_num a, bval_num b with
  | Some x, Some y => s_bitop f x y
  | _, _ => RErr EOther
  end.

(* the defect class: some operand is a string that is a numeral *)
Definition is_numeral_string (a : bval) : bool := match a with BStr (Some _) => true | _ => false end.
Definition bitstr_defect (a b : bval) : bool := is_numeral_string a || is_numeral_string b.

Theorem bitop_val_partial f a b : bitstr_defect a b = false -> bitop_val_im f a b = bitop_val_s f a b.
Proof.
  unfold bitstr_defect. intros D. apply orb_false_iff in D. destruct D as [Da Db].
  destruct a as [x|[x|]], b as [y|[y|]]; try discriminate; cbn; try reflexivity.
  apply bitwise_requires_int.
Qed.

Theorem bitop_val_refuted :
  exists f a b, bitop_val_im f a b <> bitop_val_s f a b.
Proof.
  exists Z.lor, (BStr (Some (NInt 3))), (BNum (NInt 0)). cbn. discriminate.
Qed.

Example bitop_val_partial_sat : bitstr_defect (BNum (NInt 3)) (BStr None) = false.
Proof. reflexivity. Qed.
