-- limits: rooth=1
-- expect: error T:b0,s78,i1;b0,n;b0,i7 R:s E:524f4f5448414e444c4552
-- goroutines: 0
-- finding: C09-root-handler-applied-inside-coroutines
local co = coroutine.create(function() error("x", 0) end)
local ok, e = coroutine.resume(co); emit(ok, e, #e)
local co2 = coroutine.create(function() error() end); emit(coroutine.resume(co2))
local w = coroutine.wrap(function() error(7, 0) end); emit(pcall(w))
local top = coroutine.wrap(function() error("y", 0) end); top()
