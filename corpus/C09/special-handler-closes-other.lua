-- limits: 
-- expect: ok T:b1,i1;s636c6f73696e67;s6f7468657220636c6f73696e67;b1;s64656164;h1,b0;b1;s64656164 R:
-- goroutines: 0
-- finding: C09-end-handler-coop-deadlock
local other = coroutine.create(function() local y <close> = setmetatable({}, {__close=function() emit("other closing") end}); coroutine.yield() end)
coroutine.resume(other)
local co = coroutine.create(function() local x <close> = setmetatable({}, {__close=function() emit("closing"); emit(coroutine.close(other)); emit(coroutine.status(other)); emit(coroutine.running()) end}); coroutine.yield(1) end)
emit(coroutine.resume(co)); emit(coroutine.close(co)); emit(coroutine.status(co))
