-- limits: cpu=50000
-- expect: killed T:- R:
-- goroutines: 1
-- finding: 
local co = coroutine.create(function() coroutine.yield(1) end)
coroutine.resume(co); while true do end
