-- limits: 
-- expect: ok T:b0,b1,s737472696e67,b1 R:
-- goroutines: 1
-- finding: 
-- (the innermost coroutine was created but its resume refused: it stays suspended = 1 goroutine)
-- a chain of 1000 resumers: Resume refuses ("stack overflow") after its status test; every coroutine of the chain then dies
local depth = 0
local function nest(n) depth = n; local w = coroutine.wrap(nest); return w(n + 1) end
local ok, msg = pcall(nest, 1)
emit(ok, depth >= 1000, type(msg), msg:find("stack overflow") ~= nil)
