-- limits: cpu=100000
-- expect: killed T:s636c6f73696e67 R:
-- goroutines: 0
-- finding: C09-end-handler-quota-crash
local co = coroutine.create(function() local x <close> = setmetatable({}, {__close=function() emit("closing"); while true do end end}); error("boom",0) end)
emit(pcall(coroutine.resume, co)); emit("not reached")
