-- limits: 
-- expect: ok T:s636c6f73696e67;b0,s6368756e6b3a || ok T:s636c6f73696e67;b1,i5;s73757370656e646564;s6e6f742072656163686564;b0,s626f6f6d R:
-- goroutines: 0
-- finding: C09-end-handler-yield-deadlock
-- (either is a defined behaviour: the yield is refused with an ordinary error because the handler runs inside Thread.end,
--  or — when the pending handlers of a failing body run during the unwinding of the body — it transfers like any yield)
local co = coroutine.create(function() local x <close> = setmetatable({}, {__close=function() emit("closing"); coroutine.yield(5); emit("not reached") end}); error("boom",0) end)
emit(coroutine.resume(co)); emit(coroutine.status(co)); emit(coroutine.resume(co))
