-- limits: 
-- expect: ok T:s636c6f73696e67;b0,s6368756e6b3a
-- goroutines: 0
-- finding: C09-end-handler-yield-deadlock
local co = coroutine.create(function() local x <close> = setmetatable({}, {__close=function() emit("closing"); coroutine.yield(5); emit("not reached") end}); error("boom",0) end)
emit(coroutine.resume(co)); emit(coroutine.status(co)); emit(coroutine.resume(co))
