-- limits: cpu=50000
-- expect: killed T:s696e R:
-- goroutines: 0
-- finding: 
local co = coroutine.wrap(function() emit("in"); while true do end end)
co(); emit("not reached")
