-- limits: cpu=50000
-- expect: killed T:s696e6e6572;s6d6964 R:
-- goroutines: 0
-- finding: 
local inner = coroutine.wrap(function() emit("inner"); coroutine.yield(1); while true do end end)
local outer = coroutine.create(function() inner(); emit("mid"); inner(); emit("not reached") end)
emit(coroutine.resume(outer)); emit("not reached 2")
