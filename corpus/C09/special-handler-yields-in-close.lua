-- limits: 
-- expect: ok T:b1,i1;s636c6f73696e67;b1,b0,s6368756e6b3a
-- goroutines: 0
-- finding: C09-end-handler-yield-deadlock
local co = coroutine.create(function() local x <close> = setmetatable({}, {__close=function() emit("closing"); coroutine.yield(5) end}); coroutine.yield(1) end)
emit(coroutine.resume(co)); emit(pcall(coroutine.close, co)); emit("after")
