-- limits: cpu=100000
-- expect: killed T:b1,i1;s636c6f73696e67 R:
-- goroutines: 0
-- finding: C09-end-handler-quota-crash
local co = coroutine.create(function() local x <close> = setmetatable({}, {__close=function() emit("closing"); while true do end end}); coroutine.yield(1) end)
emit(coroutine.resume(co)); emit(coroutine.close(co)); emit("after")
