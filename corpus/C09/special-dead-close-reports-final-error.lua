-- limits: 
-- expect: ok T:b0,i2;s64656164;b0,i2;b0,i2;b0,i4,s64656164;b0,i4;b0,i4;b0,s73 R:
-- goroutines: 0
-- finding: 
local function closer(e) return setmetatable({}, {__close = function() error(e, 0) end}) end
local co1 = coroutine.create(function() local x <close> = closer(2); error(1, 0) end)
emit(coroutine.resume(co1)); emit(coroutine.status(co1)); emit(coroutine.close(co1)); emit(coroutine.close(co1))
local co3 = coroutine.create(function() local x <close> = closer(4); coroutine.yield() end)
coroutine.resume(co3)
local a, b = coroutine.close(co3); emit(a, b, coroutine.status(co3)); emit(coroutine.close(co3)); emit(coroutine.close(co3))
local ok, msg = coroutine.resume(co3); emit(ok, type(msg) == "string" and "s" or msg)
