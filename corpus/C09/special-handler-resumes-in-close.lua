-- limits: 
-- expect: ok T:b1,i1;s636c6f73696e67;s6f74686572;b1;b1;s6166746572
-- goroutines: 0
-- finding: C09-end-handler-coop-deadlock
local other = coroutine.create(function() emit("other") end)
local co = coroutine.create(function() local x <close> = setmetatable({}, {__close=function() emit("closing"); emit(coroutine.resume(other)) end}); coroutine.yield(1) end)
emit(coroutine.resume(co)); emit(coroutine.close(co)); emit("after")
