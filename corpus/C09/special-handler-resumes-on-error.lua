-- limits: 
-- expect: ok T:s636c6f73696e67;s6f74686572;b1;b0,s626f6f6d;s6166746572
-- goroutines: 0
-- finding: C09-end-handler-coop-deadlock-on-error
local other = coroutine.create(function() emit("other") end)
local co = coroutine.create(function() local x <close> = setmetatable({}, {__close=function() emit("closing"); emit(coroutine.resume(other)) end}); error("boom", 0) end)
emit(coroutine.resume(co)); emit("after")
