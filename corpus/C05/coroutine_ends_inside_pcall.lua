local co=coroutine.wrap(function() local ok,e=pcall(function() for i=1,20 do emit(i) end end) emit('after-pcall',ok,e) return 'r' end) emit('after-wrap',pcall(co))
