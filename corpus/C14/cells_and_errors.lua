-- closures called repeatedly (borrowed upvalue cells), errors through Go functions, tail calls: found
-- c14_release_borrowed_cells / c14_gocont_release_on_error quickly
local function counter() local n = 0 return function() n = n + 1 return n end end
local c = counter()
for i = 1, 50 do c() end
emit(c())
local function thrower(n) if n == 0 then error({code = 7}) end return thrower(n - 1) end
for i = 1, 20 do local ok, e = pcall(thrower, i) emit(ok, e.code) end
emit(pcall(string.rep))
emit(select('#', pcall(error)))
emit(c())
