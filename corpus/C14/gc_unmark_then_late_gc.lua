-- configs: !noquotas
-- a marked value gets a metatable without __gc (un-marks it), then __gc is added to that metatable: no finaliser is owed
-- (default and safepool differed: UnsafePool.Mark(v, 0) returned early and left the value marked)
runtime.callcontext({kill = {cpu = 1000000}}, function()
  local A = {__gc = function() emit('A gc') end}
  local B = {}
  o = setmetatable({tag = 'o'}, A)
  setmetatable(o, B)
  B.__gc = function() emit('B gc') end
  p = setmetatable({tag = 'p'}, {__gc = function() emit('p old') end})
  local C = {}
  setmetatable(p, C)
  C.__gc = function() emit('C gc') end
  setmetatable(p, C)                     -- marked again with the now-finalising metatable: owed
  emit('end of body')
end)
emit('after')
