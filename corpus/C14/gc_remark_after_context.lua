-- configs: !noquotas
-- a value created and marked inside a limited context escapes and is marked again after that context ended
local t
local ctx = runtime.callcontext({kill = {cpu = 100000}}, function()
  t = setmetatable({}, {__gc = function() emit('gc-in') end})
end)
emit(ctx.status)
setmetatable(t, {__gc = function() emit('gc-out') end})
emit('survived')
local ctx2 = runtime.callcontext({kill = {cpu = 100000}}, function() setmetatable(t, {__gc = function() emit('gc-in2') end}) end)
emit(ctx2.status, 'survived2')
