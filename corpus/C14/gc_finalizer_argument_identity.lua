-- configs: !noquotas
-- what a finaliser is handed when its context ends while the value is still reachable: the value itself?
local reg = {}
runtime.callcontext({kill = {cpu = 100000}}, function()
  o = setmetatable({tag = 'o'}, {__gc = function(x)
    emit('identity', x == o, rawequal(x, o), reg[x], x.tag)
    x.seen = true
  end})
  reg[o] = 'registered'
end)
emit(o.seen)
