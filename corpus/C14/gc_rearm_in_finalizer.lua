-- configs: !noquotas
-- a finaliser that resurrects its argument and marks it again (same metatable): a second finalisation is owed and must
-- happen when the context ends, whichever finaliser pool the build uses
local done = false
local mt
mt = {__gc = function(x)
  emit('gc', x.tag, done)
  if not done then done = true keep = x setmetatable(x, mt) end
end}
local ctx = runtime.callcontext({kill = {cpu = 500000000}}, function()
  do local r = setmetatable({tag = 'r'}, mt) end
  local n = 0
  while not done and n < 3000000 do local f = function() return {n} end f() n = n + 1 end
  emit('loop done', done)
end)
emit(ctx.status, keep ~= nil)
