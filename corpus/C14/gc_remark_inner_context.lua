-- configs: !noquotas
-- a value marked for finalisation in the outer context is marked again inside a limited context
-- (killed the process with "runtime.SetFinalizer: finalizer already set"; repaired for the default pool in 89af0f1)
local t = setmetatable({}, {__gc = function() emit('gc-out') end})
local ctx = runtime.callcontext({kill = {cpu = 100000}}, function()
  setmetatable(t, {__gc = function() emit('gc-in') end})
  emit('inside')
end)
emit(ctx.status, 'survived')
local ctx2 = runtime.callcontext({kill = {cpu = 100000}}, function()
  runtime.callcontext({kill = {cpu = 10000}}, function() setmetatable(t, {__gc = function() emit('gc-in2') end}) end)
  emit('mid')
end)
emit(ctx2.status, 'survived2')
