local U = 123456789012
function F1(a, b, ...)
  local s = "shared-constant-one" .. tostring(a)
  local t = {...}
  local function inner(p)
    local function deeper(q) return q, s, 2.5, "shared-constant-two" end
    reg(deeper)
    return deeper(p), #t, -0.0, 1/0
  end
  reg(inner)
  if b == nil then error("no b given") end
  return inner(b), select("#", ...), 9007199254740993, "a\0b\255c"
end
reg(F1)
function F2(x)
  -- same constants as F1, other order of first use
  local r = {"shared-constant-two", 2.5, "shared-constant-one", 9007199254740993}
  local n = 0
  local bump = function(d) n = n + (d or 1); return n end
  reg(bump)
  bump(); bump(x)
  local z <close> = setmetatable({}, {__close = function() emit("closed", n) end})
  return r[1], r[2], n, 0x7fffffffffffffff, math.mininteger, 1e-320
end
reg(F2)
local function L(y) U = U + 1; return y, U end
reg(L)
FS = {F1, F2}
