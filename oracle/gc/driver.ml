(* oracle/gc/driver.ml — runs pool-call histories through the extracted
   ClonePool model.  Glue only: parse, call Model.step, print. *)
open Model
open Proto

let parse_op (s : string) : op =
  match split_on ' ' s with
  | ["M"; k; fl] -> OMark (n_of_hex k, n_of_hex fl)
  | ["G"; k] -> OGoFin (n_of_hex k)
  | ["PF"] -> OExtPF
  | ["PR"] -> OExtPR
  | ["AF"] -> OExtAF
  | ["AR"] -> OExtAR
  | _ -> failwith ("bad op: " ^ s)

let dash = function [] -> "-" | l -> String.concat "," l
let dash_sp = function [] -> "-" | l -> String.concat " " l

let show_out (x : out) : string =
  let vals = dash (List.map hex_of_n x.oVals) in
  let calls = dash (List.map (fun (k, b) -> hex_of_n k ^ (if b then "+" else "-")) x.oCalls) in
  vals ^ "|" ^ calls ^ "|" ^ (if x.oPanic then "1" else "0")

let show_entry (e : entry) : string =
  String.concat ":" [hex_of_n e.eKey; hex_of_n e.eOrd; (if e.eFin then "1" else "0"); (if e.eRel then "1" else "0")]

let show_state (p : pool) : string =
  (* the register in ascending mark order = reverse of the model's descending sort *)
  let reg = List.rev (sort_desc (regList p)) in
  String.concat "," [
    (if closed p then "1" else "0"); hex_of_n p.last;
    dash_sp (List.map show_entry reg); dash_sp (List.map show_entry p.pendF); dash_sp (List.map show_entry p.pendR) ]

(* ---- stack of pools ---- *)
let parse_sop (s : string) : sop =
  match split_on ' ' s with
  | ["P1"] -> SPush true
  | ["P0"] -> SPush false
  | ["M"; k; fl] -> SMark (n_of_hex k, n_of_hex fl)
  | ["G"; d; k] -> SGoFin (nat_of_int (int_of_string ("0x" ^ d)), n_of_hex k)
  | ["RP"] -> SRunPending
  | ["X0"] -> SExit false
  | ["X1"] -> SExit true
  | ["CL"] -> SClose
  | _ -> failwith ("bad op: " ^ s)

let show_sobs = function
  | SPushed h -> Printf.sprintf "P%d" (int_of_nat h)
  | SMarked (h, k, fl) -> Printf.sprintf "M%d:%s:%s" (int_of_nat h) (hex_of_n k) (hex_of_n fl)
  | SFin (h, k) -> Printf.sprintf "F%d:%s" (int_of_nat h) (hex_of_n k)
  | SRel (h, k) -> Printf.sprintf "R%d:%s" (int_of_nat h) (hex_of_n k)

let stack_line id ops =
  let s = ref s0 in
  List.iter (fun o -> s := sstep !s (parse_sop o)) ops;
  let evs = List.rev_map show_sobs (!s).strace in
  let sts = List.map (fun f -> Printf.sprintf "%d|%s" (int_of_nat f.fshare) (show_state f.fpool)) (!s).frames in
  print_string id; print_char ' ';
  print_string (match evs with [] -> "-" | l -> String.concat "," l);
  print_string " S:";
  print_endline (match sts with [] -> "-" | l -> String.concat "/" l)

let stack_mode = Array.length Sys.argv > 1 && Sys.argv.(1) = "stack"

let () =
  iter_lines (fun line ->
    match String.index_opt line ' ' with
    | None -> ()
    | Some i ->
      let id = String.sub line 0 i in
      let rest = String.sub line (i + 1) (String.length line - i - 1) in
      let ops = List.filter (fun s -> s <> "") (List.map String.trim (String.split_on_char ';' rest)) in
      if stack_mode then stack_line id ops else
      let p = ref pool0 in
      let outs = List.map (fun s ->
        let (p', x) = step !p (parse_op s) in
        p := p'; show_out x) ops in
      print_string id; print_char ' ';
      print_string (String.concat "/" outs);
      print_string " S:"; print_endline (show_state !p))
