(* oracle/gc/driver.ml — runs pool-call histories through the extracted
   ClonePool model.  Glue only: parse, call Model.step, print. *)
open Model
open Proto

let parse_op (s : string) : op =
  match split_on ' ' s with
  | ["M"; k; fl] -> OMark (n_of_hex k, n_of_hex fl)
  | ["G"; k] -> OGoFin (n_of_hex k)
  | ["PF"] -> OExtPF
  | ["PR"] -> OExtPR
  | ["AF"] -> OExtAF
  | ["AR"] -> OExtAR
  | _ -> failwith ("bad op: " ^ s)

let dash = function [] -> "-" | l -> String.concat "," l
let dash_sp = function [] -> "-" | l -> String.concat " " l

let show_out (x : out) : string =
  let vals = dash (List.map hex_of_n x.oVals) in
  let calls = dash (List.map (fun (k, b) -> hex_of_n k ^ (if b then "+" else "-")) x.oCalls) in
  vals ^ "|" ^ calls ^ "|" ^ (if x.oPanic then "1" else "0")

let show_entry (e : entry) : string =
  String.concat ":" [hex_of_n e.eKey; hex_of_n e.eOrd; (if e.eFin then "1" else "0"); (if e.eRel then "1" else "0")]

let show_state (p : pool) : string =
  (* the register in ascending mark order = reverse of the model's descending sort *)
  let reg = List.rev (sort_desc (regList p)) in
  String.concat "," [
    (if closed p then "1" else "0"); hex_of_n p.last;
    dash_sp (List.map show_entry reg); dash_sp (List.map show_entry p.pendF); dash_sp (List.map show_entry p.pendR) ]

let () =
  iter_lines (fun line ->
    match String.index_opt line ' ' with
    | None -> ()
    | Some i ->
      let id = String.sub line 0 i in
      let rest = String.sub line (i + 1) (String.length line - i - 1) in
      let ops = List.filter (fun s -> s <> "") (List.map String.trim (String.split_on_char ';' rest)) in
      let p = ref pool0 in
      let outs = List.map (fun s ->
        let (p', x) = step !p (parse_op s) in
        p := p'; show_out x) ops in
      print_string id; print_char ' ';
      print_string (String.concat "/" outs);
      print_string " S:"; print_endline (show_state !p))
