(* Extraction of the finaliser-pool model.  ExtrOcamlBasic only; N/positive/nat
   stay Coq datatypes.  No Extract Constant. *)
Require Extraction.
Require ExtrOcamlBasic.
From Coq Require Import ZArith NArith.
From GV Require Import GC.ClonePool GC.Stack.
Extraction Language OCaml.
Extraction "model.ml" Z.add N.add Nat.add Pos.add
  ClonePool.pool0 ClonePool.step ClonePool.closed ClonePool.regList ClonePool.sort_desc
  ClonePool.world0 ClonePool.wstep ClonePool.finc ClonePool.relc ClonePool.wantsF ClonePool.wantsR
  ClonePool.exit_normal ClonePool.exit_killed
  Stack.s0 Stack.sstep.
