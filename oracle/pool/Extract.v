(* Extraction of the pool models.  ExtrOcamlBasic only; no Extract Constant. *)
Require Extraction.
Require ExtrOcamlBasic.
From Coq Require Import ZArith NArith.
From GV Require Import Pool.RegPool Pool.ContPool.
Extraction Language OCaml.
Extraction "model.ml" Z.add N.add Nat.add Pos.add
  RegPool.mkValuePool RegPool.get RegPool.release RegPool.step RegPool.run
  ContPool.mkContPool ContPool.cget_op ContPool.crelease ContPool.cfields.
