(* oracle/pool/driver.ml — runs pool histories through the extracted models.
   Glue only: parsing, the numbering of slice/object identities in order of
   first appearance (the same numbering the Go harness uses), printing. *)
open Model
open Proto

let hexi s = int_of_string ("0x" ^ s)
let all_zero (c : n list) = List.for_all (fun x -> x = N0) c
let b2s b = if b then "1" else "0"

let reg_line id size age ops =
  let p = ref (mkValuePool (nat_of_int size) (n_of_int age)) in
  let lens : (int, int) Hashtbl.t = Hashtbl.create 16 in
  let next = ref 0 in
  let owned = ref [] in
  let take j = (* remove and return the (j mod n)-th owned identity; -1 when nothing is owned *)
    match !owned with
    | [] -> -1
    | l -> let n = List.length l in let j = j mod n in
      let k = List.nth l j in
      owned := List.filteri (fun i _ -> i <> j) l; k in
  let outs = List.map (fun s ->
    match split_on ' ' s with
    | ["G"; sz] ->
      let sz = hexi sz in
      let (p', r) = get !p (nat_of_int sz) in
      p := p';
      (match r with
       | GFresh c ->
         if sz > 0 then begin
           incr next; Hashtbl.replace lens !next sz; owned := !owned @ [!next];
           Printf.sprintf "gf:%x:%x:%s" !next sz (b2s (all_zero c)) end
         else "gf:0:0:1"
       | GReused (i, c) ->
         let l = List.length c in
         if l > 0 then begin owned := !owned @ [int_of_n i];
           Printf.sprintf "gr:%x:%x:%s" (int_of_n i) l (b2s (all_zero c)) end else "gf:0:0:1"
       | GNil -> "gn:0:0:1"
       | GPanic -> "gp:0:0:0")
    | ["R"; j] ->
      let k = take (hexi j) in
      let l = try Hashtbl.find lens k with Not_found -> 0 in
      let kid = if l = 0 then 0 else k in
      (* the client used its registers: contents are non-zero when released *)
      let c = List.init l (fun i -> n_of_int (i + 1)) in
      let (p', r) = release !p (n_of_int kid) c in
      p := p';
      (match r with RPanic -> "rp" | _ -> "r")
    | _ -> failwith ("bad op " ^ s)) ops in
  let st = List.map (fun s ->
    hex_of_n s.sExp ^ ":" ^
    (match s.sVal with None -> "n" | Some (_, c) -> Printf.sprintf "%x" (List.length c))) (!p).slots in
  print_string id; print_char ' '; print_string (String.concat "/" outs);
  print_string " S:"; print_string (hex_of_n (!p).gen); print_char ',';
  print_endline (String.concat " " st)

let cont_line id kind ops =
  let size = if kind = "l" then 100 else 10 in
  let p = ref (mkContPool (nat_of_int size)) in
  let known : (int, unit) Hashtbl.t = Hashtbl.create 16 in
  let next = ref 0 in
  let owned = ref [] in
  let take j =
    match !owned with
    | [] -> -1
    | l -> let n = List.length l in let j = j mod n in
      let k = List.nth l j in
      owned := List.filteri (fun i _ -> i <> j) l; k in
  let outs = List.map (fun s ->
    match split_on ' ' s with
    | ["G"] ->
      let (p', r) = cget_op !p in
      p := p';
      let z = b2s (cfields r = N0) in
      (match r with
       | CNew -> incr next; Hashtbl.replace known !next (); owned := !owned @ [!next]; Printf.sprintf "gn:%x:%s" !next z
       | CReused (i, _) -> owned := !owned @ [int_of_n i]; Printf.sprintf "gr:%x:%s" (int_of_n i) z)
    | ["R"; j] ->
      let k = take (hexi j) in
      let k = if Hashtbl.mem known k then k else begin incr next; Hashtbl.replace known !next (); !next end in
      (* the object was in use: its fields are non-zero when released *)
      p := crelease !p (n_of_int k) (n_of_int 7); "r"
    | _ -> failwith ("bad op " ^ s)) ops in
  print_string id; print_char ' '; print_string (String.concat "/" outs);
  Printf.printf " N:%x\n" (List.length (!p).conts)

let () =
  let mode = if Array.length Sys.argv > 1 then Sys.argv.(1) else "reg" in
  iter_lines (fun line ->
    let ops_of s = List.filter (fun x -> x <> "") (List.map String.trim (String.split_on_char ';' s)) in
    if mode = "reg" then begin
      match String.split_on_char ' ' line with
      | id :: _kind :: size :: age :: rest -> reg_line id (hexi size) (hexi age) (ops_of (String.concat " " rest))
      | _ -> ()
    end else begin
      match String.split_on_char ' ' line with
      | id :: kind :: rest -> cont_line id kind (ops_of (String.concat " " rest))
      | _ -> ()
    end)
