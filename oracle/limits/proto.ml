(* proto.ml — glue shared by all oracle drivers.  It is compiled once per
   engine, after that engine's extracted model.ml, and only converts between
   the text protocol and the extracted Coq datatypes (positive/N/Z/nat/list).
   Numbers travel as hexadecimal so that no arithmetic happens outside the
   extracted code.  No logic of its own. *)
open Model

let hexval c =
  match c with
  | '0'..'9' -> Char.code c - 48
  | 'a'..'f' -> Char.code c - 87
  | 'A'..'F' -> Char.code c - 55
  | _ -> failwith ("bad hex digit " ^ String.make 1 c)

(* bits, most significant first, leading zeros stripped *)
let bits_of_hex (s : string) : bool list =
  let l = ref [] in
  String.iter (fun c ->
    let v = hexval c in
    l := (v land 1 <> 0) :: (v land 2 <> 0) :: (v land 4 <> 0) :: (v land 8 <> 0) :: !l) s;
  let rec strip = function false :: r -> strip r | x -> x in
  strip (List.rev !l)

(* msb-first bits with leading true -> positive *)
let pos_of_bits (bits : bool list) : positive =
  match bits with
  | [] -> failwith "pos_of_bits: zero"
  | _ :: rest -> List.fold_left (fun acc b -> if b then XI acc else XO acc) XH rest

let rec bits_of_pos (p : positive) (acc : bool list) : bool list =
  match p with
  | XH -> true :: acc
  | XO q -> bits_of_pos q (false :: acc)
  | XI q -> bits_of_pos q (true :: acc)

let hex_of_bits (bits : bool list) : string =
  (* bits msb first *)
  let n = List.length bits in
  let pad = (4 - n mod 4) mod 4 in
  let bits = List.init pad (fun _ -> false) @ bits in
  let b = Buffer.create 16 in
  let rec go = function
    | a :: b1 :: c :: d :: r ->
      let v = (if a then 8 else 0) + (if b1 then 4 else 0) + (if c then 2 else 0) + (if d then 1 else 0) in
      Buffer.add_char b "0123456789abcdef".[v]; go r
    | [] -> ()
    | _ -> assert false in
  go bits; Buffer.contents b

let n_of_hex (s : string) : n =
  match bits_of_hex s with [] -> N0 | bits -> Npos (pos_of_bits bits)
let hex_of_n (x : n) : string =
  match x with N0 -> "0" | Npos p -> hex_of_bits (bits_of_pos p [])

let z_of_hex (s : string) : z =
  let neg, s = if String.length s > 0 && s.[0] = '-' then true, String.sub s 1 (String.length s - 1) else false, s in
  match bits_of_hex s with
  | [] -> Z0
  | bits -> if neg then Zneg (pos_of_bits bits) else Zpos (pos_of_bits bits)
let hex_of_z (x : z) : string =
  match x with
  | Z0 -> "0"
  | Zpos p -> hex_of_bits (bits_of_pos p [])
  | Zneg p -> "-" ^ hex_of_bits (bits_of_pos p [])

let rec nat_of_int (i : int) : nat = if i <= 0 then O else S (nat_of_int (i - 1))
let rec int_of_nat (n : nat) : int = match n with O -> 0 | S m -> 1 + int_of_nat m

let z_of_int (i : int) : z = z_of_hex (if i < 0 then Printf.sprintf "-%x" (-i) else Printf.sprintf "%x" i)
let n_of_int (i : int) : n = n_of_hex (Printf.sprintf "%x" i)
let int_of_z (x : z) : int = int_of_string ((fun s -> if s.[0] = '-' then "-0x" ^ String.sub s 1 (String.length s - 1) else "0x" ^ s) (hex_of_z x))
let int_of_n (x : n) : int = int_of_string ("0x" ^ hex_of_n x)

(* byte strings travel as hex pairs; "-" is the empty string *)
let bytes_of_hex (s : string) : int list =
  if s = "-" then [] else
  List.init (String.length s / 2) (fun i -> hexval s.[2*i] * 16 + hexval s.[2*i+1])
let hex_of_bytes (l : int list) : string =
  if l = [] then "-" else String.concat "" (List.map (Printf.sprintf "%02x") l)

let split_on (c : char) (s : string) : string list =
  List.filter (fun x -> x <> "") (String.split_on_char c s)

let iter_lines (f : string -> unit) : unit =
  (try while true do f (input_line stdin) done with End_of_file -> ());
  flush stdout
