(* Extraction of the opcode / limits model (C04).  ExtrOcamlBasic only; no Extract Constant. *)
Require Extraction.
Require ExtrOcamlBasic.
From Coq Require Import ZArith NArith.
From GV Require Import VM.Opcode VM.Limits VM.Wf VM.ParseDepth.
Extraction Language OCaml.
Extraction "model.ml" Z.add N.add Nat.add Pos.add
  Opcode.mkType1 Opcode.mkType2 Opcode.mkType3 Opcode.mkType4a Opcode.mkType4b Opcode.mkType5
  Opcode.mkType6 Opcode.mkType7 Opcode.mkType0 Opcode.encodeDoff Opcode.encodeDcl
  Opcode.TypePfx Opcode.HasType1 Opcode.HasType4a Opcode.HasType0
  Opcode.GetX Opcode.GetF Opcode.GetA Opcode.GetB Opcode.GetC Opcode.GetY Opcode.GetJ Opcode.GetN
  Opcode.GetKIndex Opcode.GetL Opcode.GetUnOp Opcode.GetUnOpK Opcode.GetM Opcode.GetOffset
  Opcode.GetClStackOffset Opcode.SetOffset Opcode.SetKIndex Opcode.LoadSmallInt Opcode.LoadNil
  Opcode.Jump Opcode.JumpIf Opcode.JumpIfNot Opcode.ValueReg Opcode.CellReg Opcode.type_of
  Limits.compile Limits.in_range Limits.ra_init Limits.ra_run Limits.ra_regs Limits.ra_cells
  Wf.check_code Wf.first_bad Wf.succs
  ParseDepth.parseChunk.
