(* oracle/limits/driver.ml — glue between the text protocol and the extracted
   model GV.VM.Opcode / GV.VM.Limits (C04).  Engines "enc" and "lim" as in
   harness/cmd/gvh-limits/main.go.  No logic beyond parsing, calling, printing. *)
open Model
open Proto

let b2i b = if b then "1" else "0"
let reg_str (r : reg) = hex_of_z r.rtp ^ "," ^ hex_of_z r.ridx
let mkreg t i = { rtp = t; ridx = i }

let decode_all (w : z) : string =
  String.concat " " [
    "w=" ^ hex_of_z w; "t1=" ^ b2i (hasType1 w); "t4a=" ^ b2i (hasType4a w); "t0=" ^ b2i (hasType0 w);
    "pfx=" ^ hex_of_z (typePfx w); "x=" ^ hex_of_z (getX w); "f=" ^ b2i (getF w);
    "a=" ^ reg_str (getA w); "b=" ^ reg_str (getB w); "c=" ^ reg_str (getC w);
    "y=" ^ hex_of_z (getY w); "j=" ^ hex_of_z (getJ w); "n=" ^ hex_of_z (getN w); "k=" ^ hex_of_z (getKIndex w);
    "l=" ^ hex_of_z (getL w); "uo=" ^ hex_of_z (getUnOp w); "uk=" ^ hex_of_z (getUnOpK w); "m=" ^ hex_of_z (getM w);
    "off=" ^ hex_of_z (getOffset w); "cl=" ^ hex_of_z (getClStackOffset w) ]

let enc (toks : string list) : string =
  match toks with
  | kind :: args ->
    let a = Array.of_list (List.map z_of_hex args) in
    let reg i = mkreg a.(i) a.(i+1) in
    let some w = decode_all w in
    (match kind with
     | "m1" -> some (mkType1 a.(0) (reg 1) (reg 3) (reg 5))
     | "m2" -> some (mkType2 a.(0) (reg 1) (reg 3) (reg 5))
     | "m3" -> some (mkType3 a.(0) a.(1) (reg 2) a.(4))
     | "m4a" -> some (mkType4a a.(0) a.(1) (reg 2) (reg 4))
     | "m4b" -> some (mkType4b a.(0) a.(1) (reg 2) a.(4))
     | "m5o" -> some (mkType5 a.(0) a.(1) (reg 2) (encodeDoff a.(4)))
     | "m5c" -> some (mkType5 a.(0) a.(1) (reg 2) (encodeDcl a.(4)))
     | "m6" -> some (mkType6 a.(0) (reg 1) (reg 3) a.(5))
     | "m7" -> some (mkType7 a.(0) (reg 1) (reg 3) (reg 5))
     | "m0" -> some (mkType0 a.(0) (reg 1))
     | "so" -> some (setOffset a.(0) a.(1))
     | "sk" -> some (setKIndex a.(0) a.(1))
     | "dec" -> some a.(0)
     | "lsi" -> (match loadSmallInt (reg 0) a.(2) with Some w -> some w | None -> "none")
     | _ -> "?")
  | [] -> "?"

let outcome_str = function
  | Encoded w -> "E " ^ hex_of_z w
  | CompileError -> "C"
  | Panic -> "P"
  | Truncated w -> "T " ^ hex_of_z w

let list_len l = Printf.sprintf "%x" (List.length l)

let lim (toks : string list) : string =
  match toks with
  | "ra" :: cells :: ops ->
    let is_cell = List.init (String.length cells) (fun i -> cells.[i] = '1') in
    let parse o =
      let r = nat_of_int (int_of_string ("0x" ^ String.sub o 1 (String.length o - 1))) in
      match o.[0] with 'T' -> Take r | 'R' -> Release r | _ -> Use r in
    let os = List.map parse ops in
    let ((af, rs), res) = ra_run (ra_init is_cell) os in
    (match res with
     | RPanicComp -> "C"
     | RPanicStr -> "P"
     | ROk _ ->
       let used = List.filter_map (fun (o, r) -> match o with Use _ -> Some (hex_of_z (loadNil r)) | _ -> None)
           (List.combine os rs) in
       "E " ^ String.concat "," used ^ " regs=" ^ list_len af.ra_regs ^ " cells=" ^ list_len af.ra_cells)
  | [("const" | "clos") as kind; n; ks] ->
    (* same layout as the harness: m = ceil(n/30000) children (constants 1..m), then the n loads m+1..m+n *)
    let n = int_of_string ("0x" ^ n) in
    let m = (n + 29999) / 30000 in
    let ks = if ks = "-" then [] else List.map (fun s -> int_of_string ("0x" ^ s)) (String.split_on_char ',' ks) in
    let dst = valueReg Z0 in
    let req i = if kind = "const" then ReqConst (dst, z_of_int (m + i)) else ReqClosure (dst, z_of_int (m + i)) in
    let rec first_bad i = if i > n then None else
        match compile (req i) with Encoded _ -> first_bad (i + 1) | o -> Some o in
    (match first_bad 1 with
     | Some o -> outcome_str o
     | None -> "E " ^ String.concat "," (List.map (fun k ->
         match compile (req k) with Encoded w -> hex_of_z w | _ -> "?") ks))
  | ["etc"; i] -> outcome_str (compile (ReqEtcLookup (valueReg Z0, valueReg (z_of_int 1), z_of_hex i)))
  | ["fill"; i] -> outcome_str (compile (ReqFillTable (valueReg Z0, valueReg (z_of_int 1), z_of_hex i)))
  | ["cltrunc"; h] -> outcome_str (compile (ReqClTrunc (z_of_hex h)))
  | ["jump"; kind; from; too; len] ->
    let r0 = valueReg Z0 in
    let opcode = match kind with "j" -> jump Z0 | "jif" -> jumpIf Z0 r0 | _ -> jumpIfNot Z0 r0 in
    outcome_str (compile (ReqJump (opcode, z_of_hex from, z_of_hex too, z_of_hex len)))
  | _ -> "?"

(* wf: <id> K<c|o per constant> F<start>,<end>,<regs>,<cells>;.. W<hex word>,..  ->  ok <n> | bad f<i> pc<k>
   The certificate of reachable addresses handed to the proved checker [check_code] is computed here
   by a plain work-list over the model's own successor function [succs]; it is untrusted (a wrong
   certificate can only make check_code answer false). *)
let reach_cert (code : z array) : bool list =
  let n = Array.length code in
  let seen = Array.make n false in
  let todo = ref [0] in
  while !todo <> [] do
    (match !todo with
     | pc :: rest ->
       todo := rest;
       if pc >= 0 && pc < n && not seen.(pc) then begin
         seen.(pc) <- true;
         List.iter (fun s -> todo := int_of_z s :: !todo) (succs (z_of_int pc) code.(pc))
       end
     | [] -> ())
  done;
  Array.to_list seen

let wf (toks : string list) : string =
  match toks with
  | [k; f; w] ->
    let kinds = List.init (String.length k - 1) (fun i -> k.[i + 1] = 'c') in
    let words = Array.of_list (List.map z_of_hex (split_on ',' (String.sub w 1 (String.length w - 1)))) in
    let fns = split_on ';' (String.sub f 1 (String.length f - 1)) in
    let rec go i = function
      | [] -> "ok " ^ string_of_int i
      | d :: rest ->
        (match List.map (fun s -> int_of_string ("0x" ^ s)) (String.split_on_char ',' d) with
         | [st; en; rg; ce] ->
           let code = Array.sub words st (en - st) in
           let fn = { fn_code = Array.to_list code; fn_regs = z_of_int rg;
                      fn_cells = z_of_int ce; fn_kcode = kinds } in
           let cert = reach_cert code in
           if check_code fn cert then go (i + 1) rest
           else Printf.sprintf "bad f%d pc%s" i (match first_bad fn cert with Some p -> hex_of_z p | None -> "-")
         | _ -> "?")
    in go 0 fns
  | _ -> "?"

(* pd: <id> <kind> <n>  ->  ok <frames> | err <frames> : the parser skeleton on a nesting template *)
let pd (toks : string list) : string =
  match toks with
  | [kind; n] ->
    let n = int_of_string n in
    let rep t = List.init n (fun _ -> t) in
    let ts = match kind with
      | "paren" -> [TReturn] @ rep TLPar @ [TAtom] @ rep TRPar
      | "neg" -> [TReturn] @ rep TUn @ [TAtom]
      | "pow" -> [TReturn] @ List.concat (List.init n (fun _ -> [TAtom; TPow])) @ [TAtom]
      | "tbl" -> [TReturn] @ rep TLBrace @ rep TRBrace
      | "fn" -> [TReturn] @ List.concat (List.init n (fun _ -> [TFunction; TReturn])) @ [TAtom] @ rep TEnd
      | "do" -> rep TDo @ rep TEnd
      | "binop" -> [TReturn] @ List.concat (List.init n (fun _ -> [TAtom; TBin])) @ [TAtom]
      | _ -> [] in
    (match parseChunk (nat_of_int (4 * n + 20)) ts with
     | Ok (_, m) -> "ok " ^ string_of_int (int_of_nat m)
     | Err m -> "err " ^ string_of_int (int_of_nat m)
     | OutOfFuel -> "fuel")
  | _ -> "?"

let () =
  let engine = if Array.length Sys.argv > 1 then Sys.argv.(1) else "enc" in
  iter_lines (fun line ->
    match split_on ' ' line with
    | id :: rest ->
      print_string id; print_char ' ';
      print_endline (if engine = "lim" then lim rest else if engine = "wf" then wf rest else if engine = "pd" then pd rest else enc rest)
    | [] -> ())
