(* oracle/pattern/driver.ml — runs cases through the extracted pattern models.
   Glue only: parse line -> call extracted functions -> print.
   input : <id> <pattern hex> <subject hex> <init dec, 0-based> <repl hex> <maxn: A | i<signed hex> | f<float>> <budget dec> <mode>
           mode: a = everything, p = pattern API only (no Lua-level drivers)
   output: <id> B=.. MS=.. MM=.. SS=.. SM=.. BRP=.. F=im|s M=im|s GM=im|s GS=im|s|flags *)
open Model
open Proto

let ztab = Array.init 256 z_of_int
let zbytes (h : string) : z list = List.map (fun b -> ztab.(b)) (bytes_of_hex h)
let hexz (l : z list) : string = hex_of_bytes (List.map int_of_z l)

let fuel = nat_of_int 300000

let berr_str = function
  | EMalformed -> "malformed"
  | EUnfinishedCapture -> "unfinished_capture"
  | EInvalidPatternCapture -> "invalid_pattern_capture"
  | ETooComplex -> "too_complex"
  | EInvalidCaptureIdx n -> "invalid_capture_index" ^ string_of_int (int_of_z n)
  | EInvalidPct -> "invalid_pct"
  | EMissingBracket -> "missing_bracket"

let kind_str = function Once -> "o" | Star -> "*" | Plus -> "+" | Lazy -> "-" | Opt -> "?"
let item_str = function
  | ISingle (k, s) -> kind_str k ^ hex_of_n s
  | IBackref n -> "r" ^ string_of_int (int_of_z n)
  | IBalanced (a, b) -> Printf.sprintf "b%d:%d" (int_of_z a) (int_of_z b)
  | IFrontier s -> "f" ^ hex_of_n s
  | ICapStart n -> "(" ^ string_of_int (int_of_z n)
  | ICapEnd n -> ")" ^ string_of_int (int_of_z n)

let build_str = function
  | Ok p -> Printf.sprintf "ok:%d:%d%d:%s" (int_of_z p.p_ncap)
              (if p.p_sanchor then 1 else 0) (if p.p_eanchor then 1 else 0)
              (if p.p_items = [] then "-" else String.concat "," (List.map item_str p.p_items))
  | Err e -> "err:" ^ berr_str e
  | BPanic -> "panic"
  | BFuel -> "fuel"

let caps_str l = String.concat "," (List.map (fun (a, b) -> Printf.sprintf "%d:%d" (int_of_z a) (int_of_z b)) l)
let api_str (r : apires) =
  (match r.a_res with MCaps l -> "c" ^ caps_str l | MNil -> "nil" | MFuel -> "fuel" | MPanic -> "panic")
  ^ "/" ^ string_of_int (int_of_z r.a_used) ^ "/" ^ (if r.a_panicked then "1" else "0")
let spec_str = function Some l -> "c" ^ caps_str l | None -> "nil"

let cval_str = function
  | CStr [] -> "s-"
  | CStr l -> "s" ^ hexz l
  | CPos n -> "i" ^ string_of_int (int_of_z n)
let derr_str = function
  | DEInvalidCaptureIdx n -> "invalid_capture_index" ^ string_of_int (int_of_z n)
  | DEInvalidPct -> "invalid_pct"
let dres_str = function
  | DVals l -> "V" ^ String.concat ";" (List.map cval_str l)
  | DNil -> "nil"
  | DErr e -> "E" ^ derr_str e
  | DPanic -> "panic"
  | DFuel -> "fuel"
let seq_str (l : cval list list) (fin : string) =
  String.concat "/" (List.map (fun vs -> String.concat ";" (List.map cval_str vs)) l) ^ "!" ^ fin

let () =
  iter_lines (fun line ->
    match split_on ' ' line with
    | [id; ph; sh; init; rh; maxn; bud; mode] ->
      let ptn = zbytes ph and s = zbytes sh and repl = zbytes rh in
      let init = z_of_int (int_of_string init) in
      (* 4th argument of gsub: absent, integer, or float (a float with an integer value is that
         integer; any other float is an argument error on both sides, printed as such) *)
      let tail = String.sub maxn 1 (String.length maxn - 1) in
      let argerr = ref false in
      let maxn : z option =
        match maxn.[0] with
        | 'A' -> None
        | 'i' -> Some (z_of_hex tail)
        | _ -> let x = float_of_string tail in
               if Float.is_integer x then Some (z_of_int (int_of_float x)) else (argerr := true; None) in
      let b = z_of_int (int_of_string bud) in
      let br = build ptn in
      let buf = Buffer.create 256 in
      Buffer.add_string buf (id ^ " B=" ^ build_str br);
      (match br with
       | Ok p ->
         let add k v = Buffer.add_string buf (" " ^ k ^ "=" ^ v) in
         add "MS" (api_str (api true p fuel s init b));
         add "MM" (api_str (api false p fuel s init b));
         add "SS" (spec_str (spec_find_list p p.p_sanchor s init));
         add "SM" (spec_str (spec_find_list p false s init));
         add "BRP" (if backref_to_position p then "1" else "0");
         add "WF" (if wf_pattern p then "1" else "0");
         (* is the fixed fuel above the proved bound cost |s| items (C15_api_terminates)? *)
         add "FB" (if Z.leb (cost s p.p_items) (z_of_int 300000) then "1" else "0");
         if mode = "a" then begin
           add "F" (dres_str (fst (find_im p fuel s Z0 (ptn = []) init)) ^ "|" ^ dres_str (find_s p s init));
           add "M" (dres_str (fst (match_im p fuel s Z0 init)) ^ "|" ^ dres_str (match_s p s init));
           (* gmatch compiles "%" .. ptn when ptn starts with ^ (Drivers.gmatch_pattern) *)
           (match build (gmatch_pattern ptn) with
            | Ok pg ->
              let (l, fin) = gmatch_im pg fuel s Z0 init in
              add "GM" (seq_str l (dres_str fin) ^ "|" ^ seq_str (gmatch_s pg s init) "nil")
            | Err e -> add "GM" ("E" ^ berr_str e ^ "|E" ^ berr_str e)
            | _ -> add "GM" "fuel|fuel");
           if !argerr then add "GS" "Enot_integer|Enot_integer|" else
           let (r, sk) = gsub_im p fuel s Z0 repl maxn in
           add "GS" (dres_str r ^ "|" ^ dres_str (gsub_s p s repl maxn) ^ "|"
                     ^ (if sk then "k" else ""))
         end
       | _ -> ());
      print_endline (Buffer.contents buf)
    | _ -> ())
