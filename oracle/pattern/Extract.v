(* Extraction of the pattern models.  ExtrOcamlBasic only; no Extract Constant. *)
Require Extraction.
Require ExtrOcamlBasic.
From Coq Require Import ZArith NArith.
From GV Require Import Pattern.Common Pattern.Build Pattern.Machine Pattern.Spec Pattern.Drivers Pattern.Top Pattern.Terminate.
Extraction Language OCaml.
Extraction "model.ml" Z.add N.add Nat.add Pos.add
  Build.build Machine.api Top.spec_find_list Top.backref_to_position Top.wf_pattern Terminate.cost Z.leb
  Drivers.gmatch_pattern Drivers.find_im Drivers.match_im Drivers.gmatch_im Drivers.gsub_im
  Drivers.find_s Drivers.match_s Drivers.gmatch_s Drivers.gsub_s.
