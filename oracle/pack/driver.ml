(* oracle/pack/driver.ml — glue only: parse a case line, call the extracted
   model (Pack/Model.v, Pack/NumStrModel.v, Pack/QuoteModel.v), print. *)
open Model
open Proto

let zl_of_hex (s : string) : z list = List.map z_of_int (bytes_of_hex s)
let hex_of_zl (l : z list) : string = hex_of_bytes (List.map int_of_z l)

(* decimal text of a Z via the extracted integer printer (no arithmetic here) *)
let dec_of_z (x : z) : string =
  String.concat "" (List.map (fun c -> String.make 1 (Char.chr (int_of_z c))) (format_int x))
let z_of_dec (s : string) : z =
  match parse_digits (z_of_int 10) (List.map (fun c -> z_of_int (Char.code c))
          (List.of_seq (String.to_seq (if s.[0] = '-' then String.sub s 1 (String.length s - 1) else s)))) Z0 with
  | Some v -> if s.[0] = '-' then Z.opp v else v
  | None -> failwith ("bad decimal " ^ s)

let parse_value (s : string) : value =
  if s = "n" then VNil
  else if s = "fnan" then VFlt (z_of_hex "7ff8000000000001")
  else match s.[0] with
  | 'i' -> VInt (z_of_dec (String.sub s 1 (String.length s - 1)))
  | 'f' -> VFlt (z_of_hex (String.sub s 1 (String.length s - 1)))
  | 's' -> VStr (zl_of_hex (String.sub s 1 (String.length s - 1)))
  | _ -> VNil

let parse_values (s : string) : value list =
  if s = "-" then [] else List.map parse_value (String.split_on_char ',' s)

let pad16 s = String.make (max 0 (16 - String.length s)) '0' ^ s
let is_nan_bits (b : z) : bool =
  let h = pad16 (hex_of_z b) in
  let hi = int_of_string ("0x" ^ String.sub h 0 4) land 0x7fff in
  hi > 0x7ff0 || (hi = 0x7ff0 && (String.sub h 4 12 <> "000000000000" || (int_of_string ("0x" ^ String.sub h 0 4) land 0xf) <> 0))
let show_value = function
  | VInt n -> "i" ^ dec_of_z n
  | VFlt b -> if is_nan_bits b then "fnan" else "f" ^ pad16 (hex_of_z b)
  | VStr [] -> "s-"
  | VStr l -> "s" ^ hex_of_zl l
  | VNil -> "n"

let err_name = function
  | EBadOptionArg -> "EBadOptionArg" | EMissingSize -> "EMissingSize" | EBadType -> "EBadType"
  | EOutOfBounds -> "EOutOfBounds" | EExpectedOption -> "EExpectedOption" | EBadAlignment -> "EBadAlignment"
  | EUnexpectedPackEnd -> "EUnexpectedPackEnd" | EDoesNotFit -> "EDoesNotFit"
  | EStringLongerThanFormat -> "EStringLongerThanFormat" | EStringDoesNotFit -> "EStringDoesNotFit"
  | EVariableLength -> "EVariableLength" | EOverflow -> "EOverflow" | EStringContainsZeros -> "EStringContainsZeros"
  | EBadFormat c -> "EBadFormat/" ^ hex_of_z c | ENotEnoughValues -> "ENotEnoughValues" | EEOF -> "EEOF"
  | EUnmodelled -> "EUnmodelled" | EResultTooLarge -> "EResultTooLarge"


let show_unpack (r : uout) : string =
  match r with
  | UOk (vs, j) -> "ok:" ^ String.concat "," (List.map show_value vs @ ["i" ^ dec_of_z (Z.add j (z_of_int 1))])
  | UErr e -> "err:" ^ err_name e
  | UPanic -> "panic"
  | UOutOfFuel -> "outoffuel"
let show_size (r : sout) : string =
  match r with
  | SOk n -> "ok:i" ^ dec_of_z (to_i64 n)
  | SErr e -> "err:" ^ err_name e
  | SOutOfFuel -> "outoffuel"

(* %[flags][width][.prec] of a directive whose verb is the last character; None if anything else is in between *)
let parse_spec (str : string) (n : int) : spec option =
  let i = ref 1 in
  let mi = ref false and pl = ref false and sp = ref false and sh = ref false and ze = ref false in
  while !i < n - 1 && String.contains "-+ #0" str.[!i] do
    (match str.[!i] with '-' -> mi := true | '+' -> pl := true | ' ' -> sp := true | '#' -> sh := true | _ -> ze := true);
    incr i done;
  let num () = let j = !i in while !i < n - 1 && str.[!i] >= '0' && str.[!i] <= '9' do incr i done;
               if !i > j then Some (z_of_int (int_of_string (String.sub str j (!i - j)))) else None in
  let w = num () in
  let p = if !i < n - 1 && str.[!i] = '.' then (incr i; (match num () with Some x -> Some x | None -> Some Z0)) else None in
  if !i <> n - 1 then None
  else Some { minus = !mi; plus = !pl; space = !sp; sharp = !sh; zero = !ze; wid = w; prec = p }

let () =
  iter_lines (fun line ->
    match split_on ' ' line with
    | id :: "R" :: f :: vs :: _ ->
      let fmt = zl_of_hex f in
      let p, u, extra =
        (match pack fmt (parse_values vs) with
         | POk (out, packed) ->
           "ok:" ^ show_value (VStr out), show_unpack (unpack fmt out Z0),
           " G:" ^ (if packed = [] then "-" else String.concat "," (List.map show_value packed))

         | PErr e -> "err:" ^ err_name e, "-", ""
         | POutOfFuel -> "outoffuel", "-", "") in
      print_endline (id ^ " P:" ^ p ^ " U:" ^ u ^ " S:" ^ show_size (packsize fmt) ^ extra)
    | id :: "U" :: f :: d :: pos :: _ ->
      print_endline (id ^ " U:" ^ show_unpack (unpack (zl_of_hex f) (zl_of_hex d) (z_of_int (int_of_string pos - 1))))
    | id :: "S" :: f :: _ ->
      print_endline (id ^ " S:" ^ show_size (packsize (zl_of_hex f)))
    | id :: "Q" :: v :: rest ->
      (match parse_value v with
       | VStr str ->
         let tab = match rest with t :: _ when t <> "-" -> List.map z_of_hex (String.split_on_char ',' t) | _ -> [] in
         let q = quote (is_print_tab tab) str in
         (match lua_string_literal q with
          | Some r -> print_endline (id ^ " Q:" ^ hex_of_zl q ^ " L:K V:" ^ show_value (VStr r))
          | None -> print_endline (id ^ " Q:" ^ hex_of_zl q ^ " L:C V:-"))
       | VInt n -> print_endline (id ^ " Q:" ^ hex_of_zl (quote_int n) ^ " L:K V:" ^
                                  (match lit_int (quote_int n) with Some m -> "i" ^ dec_of_z m | None -> "n"))
       | _ -> print_endline (id ^ " unmodelled"))
    | id :: "F" :: f :: vs :: _ ->
      (* one integer directive %[flags][width][.prec]conv with one integer argument; anything else: unmodelled *)
      let fs = List.map int_of_z (zl_of_hex f) in
      let str = String.init (List.length fs) (fun i -> Char.chr (List.nth fs i)) in
      let n = String.length str in
      (match parse_values vs with
       | [VInt v] when n >= 2 && str.[0] = '%' && String.contains "diuxXo" str.[n-1] ->
         let i = ref 1 in
         let mi = ref false and pl = ref false and sp = ref false and sh = ref false and ze = ref false in
         while !i < n - 1 && String.contains "-+ #0" str.[!i] do
           (match str.[!i] with '-' -> mi := true | '+' -> pl := true | ' ' -> sp := true | '#' -> sh := true | _ -> ze := true);
           incr i done;
         let num () = let j = !i in while !i < n - 1 && str.[!i] >= '0' && str.[!i] <= '9' do incr i done;
                      if !i > j then Some (z_of_int (int_of_string (String.sub str j (!i - j)))) else None in
         let w = num () in
         let p = if !i < n - 1 && str.[!i] = '.' then (incr i; (match num () with Some x -> Some x | None -> Some Z0)) else None in
         if !i <> n - 1 then print_endline (id ^ " unmodelled") else begin
           let c = (match str.[n-1] with 'd' -> CD | 'i' -> CI | 'u' -> CU | 'x' -> Cx | 'X' -> CX | _ -> Co) in
           let spc = { minus = !mi; plus = !pl; space = !sp; sharp = !sh; zero = !ze; wid = w; prec = p } in
           print_endline (id ^ " F:ok:" ^ show_value (VStr (go_fmt c spc v)) ^ " C:" ^ show_value (VStr (c_fmt c spc v))
                          ^ " D:" ^ (if c_defined c spc then "1" else "0") ^ " X:" ^ (if defect_class_src c spc v then "1" else "0"))
         end
       | [VStr bs] when n >= 2 && str.[0] = '%' && str.[n-1] = 's' ->
         (match parse_spec str n with
          | Some spc -> print_endline (id ^ " F:ok:" ^ show_value (VStr (go_fmt_s spc bs)) ^ " C:" ^ show_value (VStr (c_fmt_s spc bs)) ^ " D:1 X:0")
          | None -> print_endline (id ^ " unmodelled"))
       | [VInt v] when n >= 2 && str.[0] = '%' && str.[n-1] = 'c' ->
         (match parse_spec str n with
          | Some spc -> print_endline (id ^ " F:ok:" ^ show_value (VStr (go_fmt_c spc v)) ^ " C:" ^ show_value (VStr (c_fmt_c spc v)) ^ " D:1 X:0")
          | None -> print_endline (id ^ " unmodelled"))
       | _ -> print_endline (id ^ " unmodelled"))
    | id :: "T" :: v :: _ ->
      (match parse_value v with
       | VInt n ->
         let s = format_int n in
         print_endline (id ^ " S:" ^ show_value (VStr s) ^ " N:" ^
                        (match parse_int s with Some m -> "i" ^ dec_of_z m | None -> "n"))
       | _ -> print_endline (id ^ " unmodelled"))
    | id :: _ -> print_endline (id ^ " unmodelled")
    | [] -> ())
