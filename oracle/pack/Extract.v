(* Extraction of the C17 models.  ExtrOcamlBasic only; Z/positive/N/nat stay Coq datatypes. *)
Require Extraction.
Require ExtrOcamlBasic.
From Coq Require Import ZArith NArith.
From GV Require Import Pack.NumStrModel Pack.Model Pack.QuoteModel Pack.FmtModel.
Extraction Language OCaml.
Extraction "model.ml" Z.add N.add Nat.add Pos.add
  Model.pack Model.unpack Model.packsize Model.to_i64
  NumStrModel.format_int NumStrModel.parse_int NumStrModel.fmt_unsigned NumStrModel.fmt_signed
  NumStrModel.c_unsigned NumStrModel.parse_digits NumStrModel.quote_int NumStrModel.lit_int
  QuoteModel.quote QuoteModel.lua_string_literal QuoteModel.is_print_tab
  FmtModel.go_fmt FmtModel.go_fmt_s FmtModel.go_fmt_c FmtModel.c_fmt_s FmtModel.c_fmt_c FmtModel.c_fmt FmtModel.c_defined FmtModel.defect_class_src.
