(* oracle/marshal/driver.ml — glue only: parse a line, call the extracted
   model (Marshal/Model.v, Marshal/ModelRefactor.v), print.

   <id> unm <lim hex> <budget hex> <hex bytes>   -> val <cst> <used> <hex marshal> | nil <used> | err <class> <used> | fatal <req> | fuel,
                                                    then A<al_unmarshal, hex> (0 when there is no budget)
   <id> unit <unit>                              -> ok            (remembers the unit for the dumpu lines that follow)
   <id> dumpu <idx hex>                          -> ok <hex bytes> <cst of the refactored code> | panic | unsup | fuel
   <id> dumpt <cst>                              -> the same for a code with its own constants
   <id> load <lim hex> <budget hex> <hex bytes>  -> fun <upvalue cells> | notfun | err <class> | gopanic | fatal <req> | fuel
   <id> mar <cst>                                -> ok <hex bytes>                                     *)
open Model
open Proto

(* conversion caches (pure memoisation of Proto's converters) *)
let ztab = Array.init 256 z_of_int
let zrev : (z, int) Hashtbl.t = Hashtbl.create 512
let () = Array.iteri (fun i z -> Hashtbl.replace zrev z i) ztab
let zbytes (s : string) : z list = List.map (fun i -> ztab.(i)) (bytes_of_hex s)
let byte_of_z (z : z) : int = match Hashtbl.find_opt zrev z with Some i -> i | None -> int_of_z z
let hexbytes (l : z list) : string =
  if l = [] then "-" else begin
    let b = Buffer.create 64 in
    List.iter (fun z -> Buffer.add_string b (Printf.sprintf "%02x" (byte_of_z z))) l;
    Buffer.contents b end
let zmemo : (string, z) Hashtbl.t = Hashtbl.create 4096
let z_of_hex (s : string) : z =
  match Hashtbl.find_opt zmemo s with
  | Some z -> z
  | None -> let z = Proto.z_of_hex s in (if Hashtbl.length zmemo < 200000 then Hashtbl.replace zmemo s z); z

(* ---- parsing the comma separated token form ---- *)
let toks = ref [||]
let pos = ref 0
let next () = let t = !toks.(!pos) in incr pos; t
let num () = z_of_hex (next ())
let count () = int_of_string ("0x" ^ next ())
let rec many n f = if n <= 0 then [] else let x = f () in x :: many (n - 1) f
let str () = zbytes (next ())

let head_with (mid : unit -> 'a) : chead * 'a =
  let src = str () in
  let nm = str () in
  let nops = count () in
  let ops = many nops num in
  let nl = count () in
  let lines = many nl num in
  let m = mid () in
  let uc = num () in let rc = num () in let cc = num () in
  let nup = count () in
  let ups = many nup str in
  ({ source = src; name = nm; ops = ops; lines = lines; upvalueCount = uc; regCount = rc;
     cellCount = cc; upnames = ups }, m)

let rec cst () : cst =
  let t = next () in
  match t.[0] with
  | 'I' -> KInt (z_of_hex (String.sub t 1 (String.length t - 1)))
  | 'F' -> KFlt (z_of_hex (String.sub t 1 (String.length t - 1)))
  | 'S' -> KStr (zbytes (String.sub t 1 (String.length t - 1)))
  | 'C' -> let (h, ks) = head_with (fun () -> let n = count () in many n cst) in KCode (h, ks)
  | _ -> failwith ("bad constant token " ^ t)

(* X entries (nil/bool) cannot occur: the compiler inlines them; the driver refuses them *)
let ucst () : ucst =
  let t = next () in
  match t.[0] with
  | 'I' -> UInt (z_of_hex (String.sub t 1 (String.length t - 1)))
  | 'F' -> UFlt (z_of_hex (String.sub t 1 (String.length t - 1)))
  | 'S' -> UStr (zbytes (String.sub t 1 (String.length t - 1)))
  | 'C' -> let (h, ()) = head_with (fun () -> ()) in UCode h
  | _ -> failwith ("bad unit constant token " ^ t)

let start (s : string) = toks := Array.of_list (String.split_on_char ',' s); pos := 0

(* ---- printing ---- *)
let rec show_cst (b : Buffer.t) (k : cst) : unit =
  let add s = Buffer.add_string b s in
  let sep () = Buffer.add_char b ',' in
  let hs l = hexbytes l in
  match k with
  | KInt z -> add "I"; add (hex_of_z z)
  | KFlt z -> add "F"; add (hex_of_z z)
  | KStr s -> add "S"; add (hs s)
  | KCode (h, ks) ->
    add "C,"; add (hs h.source); sep (); add (hs h.name); sep ();
    add (Printf.sprintf "%x" (List.length h.ops));
    List.iter (fun o -> sep (); add (hex_of_z o)) h.ops; sep ();
    add (Printf.sprintf "%x" (List.length h.lines));
    List.iter (fun o -> sep (); add (hex_of_z o)) h.lines; sep ();
    add (Printf.sprintf "%x" (List.length ks));
    List.iter (fun k -> sep (); show_cst b k) ks; sep ();
    add (hex_of_z h.upvalueCount); sep (); add (hex_of_z h.regCount); sep (); add (hex_of_z h.cellCount); sep ();
    add (Printf.sprintf "%x" (List.length h.upnames));
    List.iter (fun s -> sep (); add (hs s)) h.upnames

let cst_str k = let b = Buffer.create 256 in show_cst b k; Buffer.contents b

let err_str = function
  | EEof -> "eof" | EUnexpectedEof -> "ueof" | EInvalidType -> "type" | EPrefix -> "prefix"
  | EInvalidLength -> "len" | EInvalidCode -> "code"

let show_r = function
  | ROk k -> "ok " ^ hexbytes (marshal k) ^ " " ^ cst_str k
  | RPanic -> "panic" | RUnsup -> "unsup" | ROutOfFuel -> "fuel"

let cur_unit : ucst list ref = ref []

let () =
  iter_lines (fun line ->
    match split_on ' ' line with
    | [id; "unm"; lim; budget; data] ->
      let inp = zbytes data in
      let r = go_unmarshal (z_of_hex lim) (z_of_hex budget) inp in
      let al = if budget = "0" then "0" else hex_of_z (al_unmarshal (z_of_hex lim) (z_of_hex budget) inp) in
      print_endline (id ^ " " ^ (match r with
        | GVal (k, u) -> "val " ^ cst_str k ^ " " ^ hex_of_z u ^ " " ^ hexbytes (marshal k)
        | GNil u -> "nil " ^ hex_of_z u
        | GErr (e, u) -> "err " ^ err_str e ^ " " ^ hex_of_z u
        | GCrash r -> "fatal " ^ hex_of_z r
        | GOutOfFuel -> "fuel") ^ " A" ^ al)
    | [id; "load"; lim; budget; data] ->
      print_endline (id ^ " " ^ (match load_binary (z_of_hex lim) (z_of_hex budget) (zbytes data) with
        | LFun (_, nup) -> "fun " ^ hex_of_z nup
        | LNotFunction -> "notfun"
        | LErr e -> "err " ^ err_str e
        | LPanic -> "gopanic"
        | LCrash r -> "fatal " ^ hex_of_z r
        | LOutOfFuel -> "fuel"))
    | [id; "unit"; unit] ->
      start unit;
      (match next () with "U" -> () | _ -> failwith "unit expected");
      let n = count () in
      cur_unit := many n ucst;
      print_endline (id ^ " ok")
    | [id; "dumpu"; idx] ->
      let u = !cur_unit in
      print_endline (id ^ " " ^ show_r (refactor_unit (nat_of_int (List.length u + 1)) u (z_of_hex idx)))
    | [id; "dumpt"; t] ->
      start t;
      print_endline (id ^ " " ^ show_r (refactor_cst (cst ())))
    | [id; "mar"; t] ->
      start t;
      print_endline (id ^ " ok " ^ hexbytes (marshal (cst ())))
    | _ -> ())
