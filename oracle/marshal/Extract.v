(* Extraction of the marshal / refactor model (C13).  ExtrOcamlBasic only. *)
Require Extraction.
Require ExtrOcamlBasic.
From Coq Require Import ZArith NArith.
From GV Require Import Marshal.Model Marshal.ModelRefactor Marshal.ModelAlloc.
Extraction Language OCaml.
Extraction "model.ml" Z.add N.add Nat.add Pos.add
  Model.marshal Model.marshal_cst Model.go_unmarshal Model.load_binary Model.KC
  ModelAlloc.al_unmarshal
  ModelRefactor.refactor_cst ModelRefactor.refactor_unit ModelRefactor.dump ModelRefactor.dump_unit.
