(* Extraction of LuaCore (GV.Lua.Machine).  ExtrOcamlBasic only; positive/N/Z/nat
   and Flocq's binary_float stay Coq datatypes.  No Extract Constant. *)
Require Extraction.
Require ExtrOcamlBasic.
From Coq Require Import ZArith NArith.
From GV Require Import Base.F64 Lua.Syntax Lua.Value Lua.Machine.
Extraction Language OCaml.
Extraction "model.ml" Z.add N.add Nat.add Pos.add
  F64.to_bits F64.of_bits Machine.run_program Machine.init_cfg Machine.step.
