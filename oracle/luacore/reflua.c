/* reflua.c — second reference for LuaCore: PUC-Rio Lua 5.3.6 (system liblua5.3).
   Runs the generated programs that stay inside the 5.3 ∩ 5.4 subset with the same
   protocol as `gvh lua` / oracle/luacore:
     input : <id> <hex source> [args=v,v,..]
     output: <id> ok|error|compile_error T:<ev>;<ev> R:<vals> E:<hexmsg>
   Values: n b0 b1 i<dec> f<16 hex bits>|fnan s<hex>|s- t<k> c<k> h<k>, tables /
   functions / threads numbered by first appearance (one counter).  Used only to
   validate the specification side (a LuaCore ≠ PUC-Lua difference on the common
   subset is a defect of LuaCore or of the generator discipline, never of golua). */
#include <lua5.3/lua.h>
#include <lua5.3/lauxlib.h>
#include <lua5.3/lualib.h>
#include <stdio.h>
#include <stdlib.h>
#include <string.h>
#include <stdint.h>

static char *trace = NULL;
static size_t tlen = 0, tcap = 0;
static int nids = 0;

static void tput(const char *s, size_t n) {
  if (tlen + n + 1 > tcap) { tcap = (tlen + n + 1) * 2; trace = realloc(trace, tcap); }
  memcpy(trace + tlen, s, n); tlen += n; trace[tlen] = 0;
}

/* canonical form of the value at idx appended to buf (a luaL_Buffer would move the stack) */
static void canon(lua_State *L, int idx, char **out, size_t *olen, size_t *ocap) {
  char tmp[64];
  const char *s = tmp; size_t n = 0;
  char *big = NULL;
  idx = lua_absindex(L, idx);
  switch (lua_type(L, idx)) {
  case LUA_TNIL: n = sprintf(tmp, "n"); break;
  case LUA_TBOOLEAN: n = sprintf(tmp, lua_toboolean(L, idx) ? "b1" : "b0"); break;
  case LUA_TNUMBER:
    if (lua_isinteger(L, idx)) n = sprintf(tmp, "i%lld", (long long)lua_tointeger(L, idx));
    else {
      double d = lua_tonumber(L, idx);
      if (d != d) n = sprintf(tmp, "fnan");
      else { uint64_t b; memcpy(&b, &d, 8); n = sprintf(tmp, "f%016llx", (unsigned long long)b); }
    }
    break;
  case LUA_TSTRING: {
    size_t l; const char *p = lua_tolstring(L, idx, &l);
    if (l == 0) n = sprintf(tmp, "s-");
    else {
      big = malloc(2 * l + 2); big[0] = 's';
      for (size_t i = 0; i < l; i++) sprintf(big + 1 + 2 * i, "%02x", (unsigned char)p[i]);
      s = big; n = 2 * l + 1;
    }
    break;
  }
  default: {
    /* identity table in the registry: object -> id */
    lua_getfield(L, LUA_REGISTRYINDEX, "canon_ids");
    lua_pushvalue(L, idx);
    lua_rawget(L, -2);
    int id;
    if (lua_isnil(L, -1)) {
      id = ++nids;
      lua_pop(L, 1);
      lua_pushvalue(L, idx);
      lua_pushinteger(L, id);
      lua_rawset(L, -3);
      lua_pop(L, 1);
    } else { id = (int)lua_tointeger(L, -1); lua_pop(L, 2); }
    char k = '?';
    switch (lua_type(L, idx)) {
    case LUA_TTABLE: k = 't'; break;
    case LUA_TFUNCTION: k = 'c'; break;
    case LUA_TTHREAD: k = 'h'; break;
    case LUA_TUSERDATA: case LUA_TLIGHTUSERDATA: k = 'u'; break;
    }
    n = sprintf(tmp, "%c%d", k, id);
  }
  }
  if (*olen + n + 2 > *ocap) { *ocap = (*olen + n + 2) * 2; *out = realloc(*out, *ocap); }
  memcpy(*out + *olen, s, n); *olen += n; (*out)[*olen] = 0;
  if (big) free(big);
}

static void canon_list(lua_State *L, int from, int to, char **out, size_t *olen, size_t *ocap) {
  if (to < from) {
    if (*olen + 3 > *ocap) { *ocap = (*olen + 3) * 2; *out = realloc(*out, *ocap); }
    (*out)[(*olen)++] = '-'; (*out)[*olen] = 0; return;
  }
  for (int i = from; i <= to; i++) {
    if (i > from) { (*out)[(*olen)++] = ','; (*out)[*olen] = 0; }
    canon(L, i, out, olen, ocap);
  }
}

static int l_emit(lua_State *L) {
  int n = lua_gettop(L);
  char *b = malloc(64); size_t bl = 0, bc = 64; b[0] = 0;
  canon_list(L, 1, n, &b, &bl, &bc);
  if (tlen) tput(";", 1);
  tput(b, bl);
  free(b);
  return n;       /* emit returns its arguments */
}

static int hexv(int c) { return c <= '9' ? c - '0' : (c | 32) - 'a' + 10; }

static void push_arg(lua_State *L, const char *a) {
  if (!strcmp(a, "n")) lua_pushnil(L);
  else if (!strcmp(a, "b0")) lua_pushboolean(L, 0);
  else if (!strcmp(a, "b1")) lua_pushboolean(L, 1);
  else if (!strcmp(a, "fnan")) lua_pushnumber(L, 0.0 / 0.0);
  else if (!strcmp(a, "s-")) lua_pushliteral(L, "");
  else if (a[0] == 'i') lua_pushinteger(L, (lua_Integer)strtoll(a + 1, NULL, 10));
  else if (a[0] == 'f') { uint64_t b = strtoull(a + 1, NULL, 16); double d; memcpy(&d, &b, 8); lua_pushnumber(L, d); }
  else if (a[0] == 's') {
    size_t l = strlen(a + 1) / 2; char *p = malloc(l + 1);
    for (size_t i = 0; i < l; i++) p[i] = (char)(hexv(a[1 + 2 * i]) * 16 + hexv(a[2 + 2 * i]));
    lua_pushlstring(L, p, l); free(p);
  } else lua_pushnil(L);
}

static void hexout(const char *p, size_t l) {
  if (l == 0) { printf("-"); return; }
  for (size_t i = 0; i < l; i++) printf("%02x", (unsigned char)p[i]);
}

int main(void) {
  char *line = NULL; size_t cap = 0; ssize_t len;
  while ((len = getline(&line, &cap, stdin)) > 0) {
    while (len > 0 && (line[len - 1] == '\n' || line[len - 1] == '\r')) line[--len] = 0;
    char *id = strtok(line, " ");
    char *hex = strtok(NULL, " ");
    if (!id || !hex) continue;
    char *args = NULL, *tok;
    while ((tok = strtok(NULL, " "))) if (!strncmp(tok, "args=", 5)) args = tok + 5;
    size_t sl = strcmp(hex, "-") ? strlen(hex) / 2 : 0;
    char *src = malloc(sl + 1);
    for (size_t i = 0; i < sl; i++) src[i] = (char)(hexv(hex[2 * i]) * 16 + hexv(hex[2 * i + 1]));
    lua_State *L = luaL_newstate();
    luaL_openlibs(L);
    lua_newtable(L); lua_setfield(L, LUA_REGISTRYINDEX, "canon_ids");
    lua_pushcfunction(L, l_emit); lua_setglobal(L, "emit");
    tlen = 0; nids = 0; if (trace) trace[0] = 0;
    char *r = malloc(64); size_t rl = 0, rc = 64; r[0] = 0;
    if (luaL_loadbufferx(L, src, sl, "=chunk", "t") != LUA_OK) {
      size_t l; const char *m = lua_tolstring(L, -1, &l);
      printf("%s compile_error T:- R:- E:", id); hexout(m ? m : "", m ? l : 0); printf("\n");
    } else {
      int base = lua_gettop(L);          /* the chunk */
      int na = 0;
      if (args && strcmp(args, "-")) {
        char *save; char *copy = strdup(args);
        for (char *a = strtok_r(copy, ",", &save); a; a = strtok_r(NULL, ",", &save)) { push_arg(L, a); na++; }
        free(copy);
      }
      int st = lua_pcall(L, na, LUA_MULTRET, 0);
      if (st == LUA_OK) {
        canon_list(L, base, lua_gettop(L), &r, &rl, &rc);
        printf("%s ok T:%s R:%s E:-\n", id, tlen ? trace : "-", r);
      } else {
        if (lua_type(L, -1) == LUA_TSTRING) {
          size_t l; const char *m = lua_tolstring(L, -1, &l);
          printf("%s error T:%s R:s E:", id, tlen ? trace : "-"); hexout(m, l); printf("\n");
        } else {
          canon(L, -1, &r, &rl, &rc);
          printf("%s error T:%s R:%s E:-\n", id, tlen ? trace : "-", r);
        }
      }
    }
    fflush(stdout);
    free(r); free(src);
    lua_close(L);
  }
  return 0;
}
