(* oracle/luacore/driver.ml — runs LuaCore (extracted from coq/theories/Lua) on
   one program per line.  Glue only: parse the S-expression into the extracted
   AST, call Model.run_program, print trace/results/error in the canonical
   form of `gvh lua` (harness/hx/lua.go).

   input : <id> <fuel exponent> <args v,v|-> <sexp>
   output: <id> ok|error|fuel|unsupported|stuck T:<ev>;<ev> R:<vals> E:<hexmsg> *)
open Model
open Proto

type sx = A of string | L of sx list

let parse_sx (s : string) (pos : int ref) : sx =
  let n = String.length s in
  let rec skip () = if !pos < n && s.[!pos] = ' ' then (incr pos; skip ()) in
  let rec one () : sx =
    skip ();
    if !pos >= n then failwith "sexp: eof";
    if s.[!pos] = '(' then begin
      incr pos;
      let items = ref [] in
      let rec loop () =
        skip ();
        if !pos >= n then failwith "sexp: unclosed";
        if s.[!pos] = ')' then incr pos
        else (items := one () :: !items; loop ()) in
      loop (); L (List.rev !items)
    end else begin
      let st = !pos in
      while !pos < n && s.[!pos] <> ' ' && s.[!pos] <> '(' && s.[!pos] <> ')' do incr pos done;
      A (String.sub s st (!pos - st))
    end in
  one ()

let str_of_hex (h : string) : n list = List.map n_of_int (bytes_of_hex h)

let binop_of = function
  | "add" -> OpAdd | "sub" -> OpSub | "mul" -> OpMul | "div" -> OpDiv | "idiv" -> OpIDiv
  | "mod" -> OpMod | "pow" -> OpPow | "concat" -> OpConcat | "eq" -> OpEq | "ne" -> OpNe
  | "lt" -> OpLt | "le" -> OpLe | "gt" -> OpGt | "ge" -> OpGe | "band" -> OpBAnd
  | "bor" -> OpBOr | "bxor" -> OpBXor | "shl" -> OpShl | "shr" -> OpShr
  | s -> failwith ("binop " ^ s)
let unop_of = function
  | "neg" -> UNeg | "not" -> UNot | "len" -> ULen | "bnot" -> UBNot
  | s -> failwith ("unop " ^ s)
let attrib_of = function
  | "-" -> ANone | "const" -> AConst | "close" -> AClose | s -> failwith ("attrib " ^ s)

let rec exp_of (x : sx) : exp =
  match x with
  | A "nil" -> ENil | A "true" -> ETrue | A "false" -> EFalse | A "..." -> EDots
  | L [A "i"; A h] -> EInt (z_of_hex h)
  | L [A "f"; A h] -> EFlt (z_of_hex h)
  | L [A "s"; A h] -> EStr (str_of_hex h)
  | L [A "v"; A h] -> EVar (str_of_hex h)
  | L [A "ix"; e; k] -> EIndex (exp_of e, exp_of k)
  | L (A "call" :: f :: args) -> ECall (exp_of f, List.map exp_of args)
  | L (A "meth" :: o :: A m :: args) -> EMeth (exp_of o, str_of_hex m, List.map exp_of args)
  | L [A "fn"; L ps; A va; b] ->
    EFun (List.map (function A h -> str_of_hex h | _ -> failwith "param") ps, va = "1", block_of b)
  | L [A "bin"; A o; a; b] -> EBin (binop_of o, exp_of a, exp_of b)
  | L [A "and"; a; b] -> EAnd (exp_of a, exp_of b)
  | L [A "or"; a; b] -> EOr (exp_of a, exp_of b)
  | L [A "un"; A o; a] -> EUn (unop_of o, exp_of a)
  | L [A "par"; e] -> EParen (exp_of e)
  | L (A "tab" :: fs) -> ETable (List.map field_of fs)
  | _ -> failwith "exp"
and field_of = function
  | L [A "p"; e] -> FPos (exp_of e)
  | L [A "n"; A k; e] -> FNamed (str_of_hex k, exp_of e)
  | L [A "k"; k; e] -> FKey (exp_of k, exp_of e)
  | _ -> failwith "field"
and stat_of (x : sx) : stat =
  match x with
  | L [A "local"; L xs; L es] ->
    SLocal (List.map (function L [A h; A a] -> (str_of_hex h, attrib_of a) | _ -> failwith "localname") xs,
            List.map exp_of es)
  | L [A "assign"; L lhs; L es] -> SAssign (List.map exp_of lhs, List.map exp_of es)
  | L [A "scall"; e] -> SCall (exp_of e)
  | L [A "do"; b] -> SDo (block_of b)
  | L [A "while"; c; b] -> SWhile (exp_of c, block_of b)
  | L [A "repeat"; b; A ln; c] -> SRepeat (block_of b, z_of_hex ln, exp_of c)
  | L [A "if"; L arms; els] ->
    SIf (List.map (function L [A ln; c; b] -> ((z_of_hex ln, exp_of c), block_of b) | _ -> failwith "arm") arms,
         block_of els)
  | L [A "for"; A x; e1; e2; e3; b] -> SFor (str_of_hex x, exp_of e1, exp_of e2, exp_of e3, block_of b)
  | L [A "forin"; L xs; L es; b] ->
    SForIn (List.map (function A h -> str_of_hex h | _ -> failwith "forin") xs, List.map exp_of es, block_of b)
  | L [A "goto"; A l] -> SGoto (str_of_hex l)
  | L [A "label"; A l] -> SLabel (str_of_hex l)
  | L [A "break"] -> SBreak
  | L (A "return" :: es) -> SReturn (List.map exp_of es)
  | L [A "localfn"; A f; fn] -> SLocalFun (str_of_hex f, exp_of fn)
  | _ -> failwith "stat"
and block_of (x : sx) : (z * stat) list =
  match x with
  | L items -> List.map (function L [A ln; s] -> (z_of_hex ln, stat_of s) | _ -> failwith "blockitem") items
  | _ -> failwith "block"

(* ---- canonical printing, as harness/hx/lua.go ---- *)
type key = KT of positive | KF of positive | KB of builtin | KC of positive
let ids : (key, int) Hashtbl.t = Hashtbl.create 64
let id_of (k : key) : int =
  match Hashtbl.find_opt ids k with
  | Some n -> n
  | None -> let n = Hashtbl.length ids + 1 in Hashtbl.add ids k n; n

let int_of_n_list (l : n list) : int list = List.map int_of_n l

let dec_of_z (x : z) : string =
  (* decimal rendering of a Z through its hex form; 64-bit values only *)
  let h = hex_of_z x in
  let neg = String.length h > 0 && h.[0] = '-' in
  let h = if neg then String.sub h 1 (String.length h - 1) else h in
  (* schoolbook base conversion on a digit list *)
  let digits = ref [0] in
  String.iter (fun c ->
    let v = hexval c in
    let carry = ref v in
    digits := List.map (fun d -> let t = d * 16 + !carry in carry := t / 10; t mod 10) !digits;
    while !carry > 0 do digits := !digits @ [!carry mod 10]; carry := !carry / 10 done) h;
  let s = String.concat "" (List.rev_map string_of_int !digits) in
  if neg then "-" ^ s else s

let val_str (v : value) : string =
  match v with
  | VNil -> "n"
  | VBool true -> "b1" | VBool false -> "b0"
  | VInt z -> "i" ^ dec_of_z z
  | VFlt f -> (match f with
      | B754_nan -> "fnan"
      | _ -> let h = hex_of_z (to_bits f) in "f" ^ String.make (16 - String.length h) '0' ^ h)
  | VStr s -> if s = [] then "s-" else "s" ^ hex_of_bytes (int_of_n_list s)
  | VTab t -> "t" ^ string_of_int (id_of (KT t))
  | VFun f -> "c" ^ string_of_int (id_of (KF f))
  | VBuiltin b -> "c" ^ string_of_int (id_of (KB b))
  | VCo c -> "h" ^ string_of_int (id_of (KC c))

let vals_str (vs : value list) : string =
  if vs = [] then "-" else String.concat "," (List.map val_str vs)

let value_of_tok (s : string) : value =
  if s = "n" then VNil else if s = "b0" then VBool false else if s = "b1" then VBool true
  else if s = "fnan" then VFlt B754_nan
  else if s = "s-" then VStr []
  else match s.[0] with
    | 'i' -> let d = String.sub s 1 (String.length s - 1) in
      let neg = d.[0] = '-' in
      let d = if neg then String.sub d 1 (String.length d - 1) else d in
      (* decimal -> hex via OCaml ints is not exact beyond 62 bits; args use small ints or hex form "ix..." *)
      let z = z_of_int (int_of_string d) in
      VInt (if neg then Z.opp z else z)
    | 'I' -> VInt (z_of_hex (String.sub s 1 (String.length s - 1)))
    | 'f' -> VFlt (of_bits (z_of_hex (String.sub s 1 (String.length s - 1))))
    | 's' -> VStr (str_of_hex (String.sub s 1 (String.length s - 1)))
    | _ -> failwith ("bad arg value " ^ s)

let () =
  iter_lines (fun line ->
    match String.split_on_char ' ' line with
    | id :: fuel :: args :: _ when String.length line > 0 ->
      (try
        Hashtbl.reset ids;
        let pos = ref (String.length id + String.length fuel + String.length args + 3) in
        let body = block_of (parse_sx line pos) in
        let argv = if args = "-" then [] else List.map value_of_tok (String.split_on_char ',' args) in
        let status, tr, fin =
          match run_program (nat_of_int (int_of_string fuel)) body argv with
          | OutOfFuel c -> "fuel", List.rev c.trace, None
          | Final (f, tr) ->
            (match f with
             | FDone _ -> "ok", tr, Some f
             | FError _ -> "error", tr, Some f
             | FStuck code -> ("stuck:" ^ hex_of_z code), tr, None
             | FUnsupported code -> ("unsupported:" ^ hex_of_z code), tr, None) in
        (* the trace is rendered first so that table/function ids are numbered by first appearance *)
        let tstr = if tr = [] then "-" else String.concat ";" (List.map vals_str tr) in
        let rstr, estr =
          match fin with
          | Some (FDone vs) -> vals_str vs, "-"
          | Some (FError (VStr s)) -> "s", (if s = [] then "-" else hex_of_bytes (int_of_n_list s))
          | Some (FError v) -> val_str v, "-"
          | _ -> "-", "-" in
        print_endline (id ^ " " ^ status ^ " T:" ^ tstr ^ " R:" ^ rstr ^ " E:" ^ estr)
      with Failure m -> print_endline (id ^ " oracle_error " ^ m)
         | Not_found -> print_endline (id ^ " oracle_error notfound"))
    | _ -> ())
