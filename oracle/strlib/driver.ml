(* oracle/strlib/driver.ml — runs library calls through the extracted models
   (IM = Str/Tab, S = StrSpec/TabSpec).  Glue only: parse, call, print.
     input : <id> <fn> <arg> ...      args: s<hex>|s-  i<hex>  n
     output: <id> IM=<res> S=<res>    res : ok:<v>,<v>.. | err:<class> | panic | none *)
open Model
open Proto

let zbytes (h : string) : z list = List.map z_of_int (bytes_of_hex h)
let hexb (l : z list) : string = hex_of_bytes (List.map int_of_z l)

let arg_s a = if a = "s-" then [] else zbytes (String.sub a 1 (String.length a - 1))
let arg_i a = z_of_hex (String.sub a 1 (String.length a - 1))
let opt f = function [] -> None | a :: _ -> if a = "n" then None else Some (f a)
let opt2 f = function _ :: a :: _ -> if a = "n" then None else Some (f a) | _ -> None

let vs s = "s" ^ hexb s
let vi z = "i" ^ hex_of_z z
let errs = function
  | ERange k -> "err:range" ^ hex_of_z k
  | EOverflow -> "err:overflow"
  | ENotInt -> "err:notint"
let show f = function
  | Ok a -> "ok:" ^ f a
  | Err e -> errs e
  | Panic -> "panic"
let ints l = String.concat "," (List.map vi l)
let pair = function None -> "n" | Some (a, b) -> vi a ^ "," ^ vi b

let run (fn : string) (a : string list) : string * string =
  match fn, a with
  | "sub", s :: i :: r -> show vs (sub_im (arg_s s) (arg_i i) (opt arg_i r)), "ok:" ^ vs (sub_spec (arg_s s) (arg_i i) (opt arg_i r))
  | "byte", s :: r -> show ints (byte_im (arg_s s) (opt arg_i r) (opt2 arg_i r)), "ok:" ^ ints (byte_spec (arg_s s) (opt arg_i r) (opt2 arg_i r))
  | "char", r -> show vs (char_im (List.map arg_i r)),
                 (match char_spec (List.map arg_i r) with Some b -> "ok:" ^ vs b | None -> "err:range")
  | "len", [s] -> show vi (len_im (arg_s s)), "ok:" ^ vi (len_spec (arg_s s))
  | "reverse", [s] -> show vs (reverse_im (arg_s s)), "ok:" ^ vs (reverse_spec (arg_s s))
  | "rep", s :: n :: r -> show vs (rep_im (arg_s s) (arg_i n) (opt arg_s r)),
                          (match rep_spec_opt (arg_s s) (arg_i n) (opt arg_s r) with Some b -> "ok:" ^ vs b | None -> "err:toolarge")
  | "upper", [s] -> show vs (upper_im latin1_upper (arg_s s)), "ok:" ^ vs (upper_spec (arg_s s))
  | "lower", [s] -> show vs (lower_im latin1_lower (arg_s s)), "ok:" ^ vs (lower_spec (arg_s s))
  | "find", s :: p :: r -> show pair (find_plain_im (arg_s s) (arg_s p) (opt arg_i r)), "ok:" ^ pair (find_spec (arg_s s) (arg_s p) (opt arg_i r))
  | _ -> failwith ("bad case: " ^ fn)

let () =
  iter_lines (fun line ->
    match split_on ' ' line with
    | id :: fn :: args ->
      let im, s = run fn args in
      print_endline (id ^ " IM=" ^ im ^ " S=" ^ s)
    | _ -> ())
