(* oracle/strlib/driver.ml — runs library calls through the extracted models
   (IM = Str/Tab, S = StrSpec/TabSpec).  Glue only: parse, call, print.
     input : <id> <fn> <arg> ...      args: s<hex>|s-  i<hex>  n
     output: <id> IM=<res> S=<res>    res : ok:<v>,<v>.. | err:<class> | panic | none *)
open Model
open Proto

let zbytes (h : string) : z list = List.map z_of_int (bytes_of_hex h)
let hexb (l : z list) : string = hex_of_bytes (List.map int_of_z l)

let arg_s a = if a = "s-" then [] else zbytes (String.sub a 1 (String.length a - 1))
let arg_i a = z_of_hex (String.sub a 1 (String.length a - 1))
let opt f = function [] -> None | a :: _ -> if a = "n" then None else Some (f a)
let opt2 f = function _ :: a :: _ -> if a = "n" then None else Some (f a) | _ -> None

let vs s = "s" ^ hexb s
let vi z = "i" ^ hex_of_z z
let errs = function
  | ERange k -> "err:range" ^ hex_of_z k
  | EOverflow -> "err:overflow"
  | ETooLarge -> "err:toolarge"
  | ENotInt -> "err:notint"
let show f = function
  | Ok a -> "ok:" ^ f a
  | Err e -> errs e
  | Panic -> "panic"
let ints l = String.concat "," (List.map vi l)
let pair = function None -> "n" | Some (a, b) -> vi a ^ "," ^ vi b

let run (fn : string) (a : string list) : string * string =
  match fn, a with
  | "sub", s :: i :: r -> show vs (sub_im (arg_s s) (arg_i i) (opt arg_i r)), "ok:" ^ vs (sub_spec (arg_s s) (arg_i i) (opt arg_i r))
  | "byte", s :: r -> show ints (byte_im (arg_s s) (opt arg_i r) (opt2 arg_i r)), "ok:" ^ ints (byte_spec (arg_s s) (opt arg_i r) (opt2 arg_i r))
  | "char", r -> show vs (char_im (List.map arg_i r)),
                 (match char_spec (List.map arg_i r) with Some b -> "ok:" ^ vs b | None -> "err:range")
  | "len", [s] -> show vi (len_im (arg_s s)), "ok:" ^ vi (len_spec (arg_s s))
  | "reverse", [s] -> show vs (reverse_im (arg_s s)), "ok:" ^ vs (reverse_spec (arg_s s))
  | "rep", s :: n :: r -> show vs (rep_im (arg_s s) (arg_i n) (opt arg_s r)),
                          (match rep_spec_opt (arg_s s) (arg_i n) (opt arg_s r) with Some b -> "ok:" ^ vs b | None -> "err:toolarge")
  | "upper", [s] -> show vs (upper_im (arg_s s)), "ok:" ^ vs (upper_spec (arg_s s))
  | "lower", [s] -> show vs (lower_im (arg_s s)), "ok:" ^ vs (lower_spec (arg_s s))
  | "find", s :: p :: r -> show pair (find_plain_im (arg_s s) (arg_s p) (opt arg_i r)), "ok:" ^ pair (find_spec (arg_s s) (arg_s p) (opt arg_i r))
  | _ -> failwith ("bad case: " ^ fn)

(* ---------------------------------------------------------------- tables *)
let arg_v (a : string) : value =
  match a.[0] with
  | 'n' -> VNil
  | 'b' -> VBool (a = "b1")
  | 'i' -> VInt (arg_i a)
  | 's' -> VStr (arg_s a)
  | _ -> failwith ("bad value " ^ a)
let show_v = function
  | VNil -> "n"
  | VBool b -> if b then "b1" else "b0"
  | VInt z -> vi z
  | VStr s -> vs s
let contents (s : string) : (z * value) list =
  if s = "-" || s = "" then [] else
  List.map (fun kv -> match String.split_on_char '=' kv with
    | [k; v] -> (arg_i k, arg_v v)
    | _ -> failwith ("bad contents " ^ kv)) (String.split_on_char ';' s)
let terrs = function
  | TERange2 -> "err:range2"
  | TETooLarge -> "err:toolarge"
  | TEWrap -> "err:wrap"
  | TEWrapPos -> "err:wrap"
  | TETooMany -> "err:toomany"
  | TEInvalid k -> "err:invalid:" ^ hex_of_z k
  | TEInjected -> "err:injected"
let tids = function T1 -> "1" | T2 -> "2"
let show_ev = function
  | ELen t -> "l" ^ tids t
  | EGet (t, k) -> "g" ^ tids t ^ ":" ^ hex_of_z k
  | ESet (t, k, v) -> "s" ^ tids t ^ ":" ^ hex_of_z k ^ ":" ^ show_v v
let dump (m : z -> value) (keys : z list) : string =
  let l = List.filter_map (fun k -> match m k with VNil -> None | v -> Some (vi k ^ "=" ^ show_v v)) keys in
  if l = [] then "-" else String.concat ";" l
let show_out f = function
  | ORet a -> "ok:" ^ f a
  | OFail e -> terrs e
  | OOutOfFuel -> "outoffuel"
let vals l = String.concat "," (List.map show_v l)

let run_tab (op : string) (toks : string list) : string * string =
  let kv = Hashtbl.create 8 in
  let rec split = function
    | "--" :: r -> r
    | t :: r -> (match String.index_opt t '=' with
        | Some i -> Hashtbl.replace kv (String.sub t 0 i) (String.sub t (i + 1) (String.length t - i - 1))
        | None -> ()); split r
    | [] -> [] in
  let args = split toks in
  let get k d = try Hashtbl.find kv k with Not_found -> d in
  let a1 = contents (get "t1" "-") and a2 = contents (get "t2" "-") in
  let l1 = z_of_hex (get "len1" "0") and l2 = z_of_hex (get "len2" "0") in
  let keys = List.map z_of_hex (split_on ',' (get "keys" "")) in
  let inj = nat_of_int (int_of_string (get "err" "0")) in
  let same = get "same" "1" = "1" in
  let st = mkstate a1 a2 l1 l2 in
  let im (type a) (f : a -> string) (p : a prog) : string =
    let ((o, st'), log) = run_log p st inj [] in
    String.concat "/" [show_out f o; dump st'.m1 keys; dump st'.m2 keys;
                       (match List.rev_map show_ev log with [] -> "-" | l -> String.concat "," l)] in
  let sres (o : string) (m1' : z -> value) (m2' : z -> value) = String.concat "/" [o; dump m1' keys; dump m2' keys] in
  let m1 = st.m1 and m2 = st.m2 in
  let oi n = match List.nth_opt args n with Some a when a <> "n" -> Some (arg_i a) | _ -> None in
  let small a b = Z.leb (Z.sub b a) (z_of_int 1000) in
  match op with
  | "insert" ->
    let pos, v = (match args with [p; v] -> Some (arg_i p), arg_v v | [v] -> None, arg_v v | _ -> failwith "insert args") in
    let p = (match pos with Some p -> p | None -> Z.add l1 (z_of_int 1)) in
    im (fun () -> "") (insert_im pos v),
    (if insert_pos_ok l1 p then sres "ok:" (insert_spec m1 l1 p v) m2 else sres "err:" m1 m2)
  | "remove" ->
    let pos = oi 0 in
    let p = (match pos with Some p -> p | None -> l1) in
    im show_v (remove_im pos),
    (if remove_pos_ok l1 p then sres ("ok:" ^ show_v (m1 p)) (remove_spec m1 l1 p) m2 else sres "err:" m1 m2)
  | "move" ->
    let f, e, t = (match args with f :: e :: t :: _ -> arg_i f, arg_i e, arg_i t | _ -> failwith "move args") in
    im (fun () -> "") (move_im f e t (if same then T1 else T2)),
    (if move_ok f e t then
       (if same then sres "ok:" (move_spec m1 m1 f e t) m2 else sres "ok:" m1 (move_spec m1 m2 f e t))
     else sres "err:" m1 m2)
  | "unpack" ->
    let i = (match oi 0 with Some i -> i | None -> z_of_int 1) and j = (match oi 1 with Some j -> j | None -> l1) in
    im vals (unpack_im (oi 0) (oi 1)),
    (if small i j then sres ("ok:" ^ vals (unpack_spec m1 i j)) m1 m2 else sres "big" m1 m2)
  | "concat" ->
    let sep = (match args with a :: _ when a <> "n" -> Some (arg_s a) | _ -> None) in
    let i = (match oi 1 with Some i -> i | None -> z_of_int 1) and j = (match oi 2 with Some j -> j | None -> l1) in
    im vs (concat_im (nat_of_int 3000) sep (oi 1) (oi 2)),
    (if small i j then
       (match concat_spec m1 (match sep with Some s -> s | None -> []) i j with
        | Inl b -> sres ("ok:" ^ vs b) m1 m2
        | Inr k -> sres ("err:invalid:" ^ hex_of_z k) m1 m2)
     else sres "big" m1 m2)
  | "pack" ->
    let vl = List.map arg_v args in
    let (pm, n) = pack_spec vl in
    im vi (pack_im vl), sres ("ok:" ^ vi n) pm m2
  | _ -> failwith ("bad table op " ^ op)

let () =
  iter_lines (fun line ->
    match split_on ' ' line with
    | id :: fn :: args ->
      let im, s = if fn.[0] = 'T' then run_tab (String.sub fn 1 (String.length fn - 1)) args else run fn args in
      print_endline (id ^ " IM=" ^ im ^ " S=" ^ s)
    | _ -> ())
