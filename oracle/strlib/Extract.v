(* Extraction of the string/table library models.  ExtrOcamlBasic only. *)
Require Extraction.
Require ExtrOcamlBasic.
From Coq Require Import ZArith NArith.
From GV Require Import StrLib.Str StrLib.StrSpec StrLib.Tab StrLib.TabSpec.
Extraction Language OCaml.
Extraction "model.ml" Z.add N.add Nat.add Pos.add Z.ltb Z.pow
  Str.sub_im Str.byte_im Str.char_im Str.len_im Str.reverse_im Str.rep_im
  Str.find_plain_im Str.upper_im Str.lower_im
  StrSpec.sub_spec StrSpec.byte_spec StrSpec.char_spec StrSpec.len_spec StrSpec.reverse_spec
  StrSpec.rep_spec_opt StrSpec.upper_spec StrSpec.lower_spec StrSpec.find_spec
  Z.leb Z.sub
  Tab.insert_im Tab.remove_im Tab.move_im Tab.unpack_im Tab.concat_im Tab.pack_im Tab.run Tab.run_log Tab.mkstate
  TabSpec.insert_pos_ok TabSpec.insert_spec TabSpec.remove_pos_ok TabSpec.remove_spec TabSpec.move_ok TabSpec.move_spec
  TabSpec.unpack_spec TabSpec.concat_spec TabSpec.pack_spec.
