(* oracle/front/driver.ml — glue for the front-end model: parses the text
   protocol, calls the extracted functions (Parse.parse, Print.print,
   Print.norm, Print.plain), prints.  No logic of its own.

   input   <id> P <token> <token> ...        parse a token list (expression)
           <id> PS <token> <token> ...       parse a token list (chunk, Front/Stat.v)
           <id> R <s-expression>             print / norm a tree
           <id> S <hex body> | L <hex literal> | Q <hex bytes> | N dec|hex <digits>   literal denotations (LexStr.v, Lex.v)
   output  <id> ok <ast> | <id> err <index of offending token> | <id> unsupported | <id> oof
           <id> <tokens> @@ <norm ast> @@ <plain 0/1> @@ <result of parse (print e)>       *)
open Model
open Proto

let bin_names = [
  "or", OpOr; "and", OpAnd; "lt", OpLt; "le", OpLeq; "gt", OpGt; "ge", OpGeq; "eq", OpEq; "ne", OpNeq;
  "bor", OpBitOr; "bxor", OpBitXor; "band", OpBitAnd; "shl", OpShiftL; "shr", OpShiftR; "concat", OpConcat;
  "add", OpAdd; "sub", OpSub; "mul", OpMul; "div", OpDiv; "idiv", OpFloorDiv; "mod", OpMod; "pow", OpPow ]
let un_names = [ "neg", OpNeg; "not", OpNot; "len", OpLen; "bnot", OpBitNot ]
let rassoc x l = fst (List.find (fun (_, y) -> y = x) l)

let simple_toks = [
  "break", TBreak; "goto", TGoto; "do", TDo; "while", TWhile; "end", TEnd; "repeat", TRepeat; "until", TUntil;
  "then", TThen; "else", TElse; "elseif", TElseIf; "if", TIf; "for", TFor; "in", TIn; "function", TFunction;
  "local", TLocal; "not", TNot; "nil", TNil; "true", TTrue; "false", TFalse; "return", TReturn;
  "...", TEtc; "[", TLBrack; "]", TRBrack; "(", TLParen; ")", TRParen; "{", TLBrace; "}", TRBrace;
  ";", TSemi; ",", TComma; ".", TDot; ":", TColon; "::", TDColon; "=", TAssign; "#", THash;
  "-", TMinus; "+", TPlus; "*", TStar; "/", TSlash; "//", TSlashSlash; "%", TPct; "|", TPipe; "~", TTilde;
  "&", TAmp; "^", THat; ">>", TShr; "<<", TShl; "==", TEqEq; "~=", TNe; "<", TLt; "<=", TLe; ">", TGt;
  ">=", TGe; "..", TConcat; "and", TAnd; "or", TOr ]

let tok_of_string (s : string) : token =
  match String.index_opt s ':' with
  | Some i when i > 0 && s <> "::" && (let k = String.sub s 0 i in k = "num" || k = "str" || k = "lstr" || k = "name") ->
    let k = String.sub s 0 i and v = n_of_int (int_of_string (String.sub s (i + 1) (String.length s - i - 1))) in
    (match k with "num" -> TNum v | "str" -> TStr v | "lstr" -> TLStr v | _ -> TName v)
  | _ -> (try List.assoc s simple_toks with Not_found -> failwith ("bad token " ^ s))

let string_of_tok (t : token) : string =
  match t with
  | TNum k -> "num:" ^ string_of_int (int_of_n k)
  | TStr k -> "str:" ^ string_of_int (int_of_n k)
  | TLStr k -> "lstr:" ^ string_of_int (int_of_n k)
  | TName k -> "name:" ^ string_of_int (int_of_n k)
  | _ -> rassoc t simple_toks

(* ---- s-expressions *)
type sx = A of string | L of sx list

let parse_sx (s : string) : sx =
  let n = String.length s in
  let pos = ref 0 in
  let rec skip () = if !pos < n && s.[!pos] = ' ' then (incr pos; skip ()) in
  let rec one () =
    skip ();
    if !pos >= n then failwith "sx: eof";
    if s.[!pos] = '(' then begin
      incr pos;
      let items = ref [] in
      let rec loop () =
        skip ();
        if !pos >= n then failwith "sx: unclosed";
        if s.[!pos] = ')' then incr pos else (items := one () :: !items; loop ()) in
      loop (); L (List.rev !items)
    end else begin
      let st = !pos in
      while !pos < n && s.[!pos] <> ' ' && s.[!pos] <> '(' && s.[!pos] <> ')' do incr pos done;
      A (String.sub s st (!pos - st))
    end in
  one ()

let nn s = n_of_int (int_of_string s)
let bb s = (s = "1")

let rec exp_of_sx (x : sx) : exp =
  match x with
  | A "nil" -> ENil | A "true" -> ETrue | A "false" -> EFalse | A "etc" -> EEtc
  | L [A "num"; A k] -> ENum (nn k)
  | L [A "str"; A k] -> EStr (nn k)
  | L [A "lstr"; A k] -> ELStr (nn k)
  | L [A "name"; A k] -> EName (nn k)
  | L [A "idx"; t; i] -> EIndex (exp_of_sx t, exp_of_sx i)
  | L [A "dot"; t; A k] -> EDot (exp_of_sx t, nn k)
  | L (A "call" :: f :: A m :: A bare :: args) ->
    ECall (exp_of_sx f, (if m = "-" then None else Some (nn m)), bb bare, List.map exp_of_sx args)
  | L [A "paren"; e] -> EParen (exp_of_sx e)
  | L (A "tab" :: A trail :: fs) -> ETable (List.map field_of_sx fs, bb trail)
  | L [A "un"; A o; e] -> EUn (List.assoc o un_names, exp_of_sx e)
  | L [A "bin"; A o; l; r] -> EBin (List.assoc o bin_names, exp_of_sx l, exp_of_sx r)
  | _ -> failwith "bad exp s-expression"
and field_of_sx (x : sx) : ((fkind * exp) * exp) * bool =
  match x with
  | L [A "pos"; v; A semi] -> (((FPos, ENil), exp_of_sx v), bb semi)
  | L [A "key"; k; v; A semi] -> (((FKey, exp_of_sx k), exp_of_sx v), bb semi)
  | L [A "nam"; A n; v; A semi] -> (((FName (nn n), ENil), exp_of_sx v), bb semi)
  | _ -> failwith "bad field"

let b2s b = if b then "1" else "0"
let ni k = string_of_int (int_of_n k)

let rec sx_of_exp (b : Buffer.t) (e : exp) : unit =
  let p = Buffer.add_string b in
  match e with
  | ENil -> p "nil" | ETrue -> p "true" | EFalse -> p "false" | EEtc -> p "etc"
  | ENum k -> p ("(num " ^ ni k ^ ")")
  | EStr k -> p ("(str " ^ ni k ^ ")")
  | ELStr k -> p ("(lstr " ^ ni k ^ ")")
  | EName k -> p ("(name " ^ ni k ^ ")")
  | EIndex (t, i) -> p "(idx "; sx_of_exp b t; p " "; sx_of_exp b i; p ")"
  | EDot (t, k) -> p "(dot "; sx_of_exp b t; p (" " ^ ni k ^ ")")
  | ECall (f, m, bare, args) ->
    p "(call "; sx_of_exp b f;
    p (match m with None -> " -" | Some k -> " " ^ ni k); p (" " ^ b2s bare);
    List.iter (fun a -> p " "; sx_of_exp b a) args; p ")"
  | EParen x -> p "(paren "; sx_of_exp b x; p ")"
  | ETable (fs, trail) ->
    p ("(tab " ^ b2s trail);
    List.iter (fun (((k, key), v), semi) ->
      (match k with
       | FPos -> p " (pos "
       | FKey -> p " (key "; sx_of_exp b key; p " "
       | FName n -> p (" (nam " ^ ni n ^ " "));
      sx_of_exp b v; p (" " ^ b2s semi ^ ")")) fs;
    p ")"
  | EUn (o, x) -> p ("(un " ^ rassoc o un_names ^ " "); sx_of_exp b x; p ")"
  | EBin (o, l, r) -> p ("(bin " ^ rassoc o bin_names ^ " "); sx_of_exp b l; p " "; sx_of_exp b r; p ")"

let show_exp e = let b = Buffer.create 256 in sx_of_exp b e; Buffer.contents b

(* ---- statements (Front/Stat.v), printed in the harness's dump format *)
let nm k = let i = int_of_n k in if i = 1000001 then "const" else if i = 1000002 then "close" else string_of_int i

let rec sx_of_block ?(fbody = false) (b : Buffer.t) (bl : block) : unit =
  Buffer.add_string b "(block"; sx_of_items fbody b bl; Buffer.add_string b ")"
and sx_of_items fbody b bl =
  match bl with
  | BNil None -> if fbody then Buffer.add_string b " (return)"   (* ast.NewFunction gives every body a return *)
  | BNil (Some es) -> Buffer.add_string b " (return"; List.iter (fun e -> Buffer.add_string b " "; sx_of_exp b e) es; Buffer.add_string b ")"
  | BCons (s, rest) -> Buffer.add_string b " "; sx_of_stat b s; sx_of_items fbody b rest
and sx_of_func b (self : bool) (ps : n list) (dots : bool) (body : block) =
  let names = (if self then ["self"] else []) @ List.map nm ps @ (if dots then ["..."] else []) in
  Buffer.add_string b ("(function (" ^ String.concat " " names ^ ") "); sx_of_block ~fbody:true b body; Buffer.add_string b ")"
and sx_of_stat (b : Buffer.t) (s : stat) : unit =
  let p = Buffer.add_string b in
  match s with
  | SEmpty -> p "(empty)" | SBreak -> p "(break)"
  | SGoto k -> p ("(goto " ^ nm k ^ ")") | SLabel k -> p ("(label " ^ nm k ^ ")")
  | SDo bl -> p "(do "; sx_of_block b bl; p ")"
  | SWhile (c, bl) -> p "(while "; sx_of_exp b c; p " "; sx_of_block b bl; p ")"
  | SRepeat (bl, c) -> p "(repeat "; sx_of_block b bl; p " "; sx_of_exp b c; p ")"
  | SIf (c, bl, rest) ->
    p "(if "; sx_of_exp b c; p " "; sx_of_block b bl;
    let rec go r = match r with
      | IEnd -> ()
      | IElse bl -> p " (else "; sx_of_block b bl; p ")"
      | IElseIf (c, bl, r') -> p " (elseif "; sx_of_exp b c; p " "; sx_of_block b bl; p ")"; go r' in
    go rest; p ")"
  | SForNum (v, e1, e2, e3, bl) ->
    p ("(for " ^ nm v ^ " "); sx_of_exp b e1; p " "; sx_of_exp b e2; p " ";
    (match e3 with Some e -> sx_of_exp b e | None -> p "(num 1)"); p " "; sx_of_block b bl; p ")"
  | SForIn (vs, es, bl) ->
    p ("(forin (" ^ String.concat " " (List.map nm vs) ^ ") (");
    List.iteri (fun i e -> if i > 0 then p " "; sx_of_exp b e) es; p ") "; sx_of_block b bl; p ")"
  | SLocal (vs, es) ->
    p ("(local (" ^ String.concat " " (List.map (fun (k, a) -> nm k ^ ":" ^ (match a with ANone -> "0" | AConst -> "1" | AClose -> "2")) vs) ^ ")");
    List.iter (fun e -> p " "; sx_of_exp b e) es; p ")"
  | SAssign (vs, es) ->
    p "(assign ("; List.iteri (fun i e -> if i > 0 then p " "; sx_of_exp b e) vs; p ")";
    List.iter (fun e -> p " "; sx_of_exp b e) es; p ")"
  | SCall e -> p "(callstat "; sx_of_exp b e; p ")"
  | SFunction (path, m, ps, dots, bl) ->
    (* ast.NewFunctionStat: an assignment to the indexed name; a method gets a 'self' parameter *)
    let target = match path with
      | [] -> "?"
      | k0 :: rest -> List.fold_left (fun acc k -> "(idx " ^ acc ^ " (str " ^ nm k ^ "))") ("(name " ^ nm k0 ^ ")") rest in
    let target = match m with Some k -> "(idx " ^ target ^ " (str " ^ nm k ^ "))" | None -> target in
    p ("(assign (" ^ target ^ ") "); sx_of_func b (m <> None) ps dots bl; p ")"
  | SLocalFunction (k, ps, dots, bl) ->
    p ("(localfunc " ^ nm k ^ " "); sx_of_func b false ps dots bl; p ")"

(* statement trees from s-expressions (generator format) *)
let rec block_of_sx (x : sx) : block =
  match x with
  | L (A "block" :: items) ->
    let rec go = function
      | [] -> BNil None
      | [L (A "return" :: es)] -> BNil (Some (List.map exp_of_sx es))
      | s :: rest -> BCons (stat_of_sx s, go rest) in
    go items
  | _ -> failwith "bad block"
and stat_of_sx (x : sx) : stat =
  let names l = List.map (function A k -> nn k | _ -> failwith "bad name") l in
  match x with
  | L [A "empty"] -> SEmpty | L [A "break"] -> SBreak
  | L [A "goto"; A k] -> SGoto (nn k) | L [A "label"; A k] -> SLabel (nn k)
  | L [A "do"; b] -> SDo (block_of_sx b)
  | L [A "while"; c; b] -> SWhile (exp_of_sx c, block_of_sx b)
  | L [A "repeat"; b; c] -> SRepeat (block_of_sx b, exp_of_sx c)
  | L (A "if" :: c :: b :: rest) ->
    let rec go = function
      | [] -> IEnd
      | [L [A "else"; b]] -> IElse (block_of_sx b)
      | L [A "elseif"; c; b] :: r -> IElseIf (exp_of_sx c, block_of_sx b, go r)
      | _ -> failwith "bad if" in
    SIf (exp_of_sx c, block_of_sx b, go rest)
  | L [A "fornum"; A v; e1; e2; e3; b] ->
    SForNum (nn v, exp_of_sx e1, exp_of_sx e2, (match e3 with A "-" -> None | e -> Some (exp_of_sx e)), block_of_sx b)
  | L [A "forin"; L vs; L es; b] -> SForIn (names vs, List.map exp_of_sx es, block_of_sx b)
  | L (A "local" :: L vs :: es) ->
    SLocal (List.map (function L [A k; A a] -> (nn k, (match a with "1" -> AConst | "2" -> AClose | _ -> ANone)) | _ -> failwith "bad attname") vs,
            List.map exp_of_sx es)
  | L (A "assign" :: L vs :: es) -> SAssign (List.map exp_of_sx vs, List.map exp_of_sx es)
  | L [A "callstat"; e] -> SCall (exp_of_sx e)
  | L [A "funcstat"; L path; A m; L ps; A dots; b] ->
    SFunction (names path, (if m = "-" then None else Some (nn m)), names ps, bb dots, block_of_sx b)
  | L [A "localfunc"; A k; L ps; A dots; b] -> SLocalFunction (nn k, names ps, bb dots, block_of_sx b)
  | _ -> failwith "bad stat"

let show_res (n : int) (r : exp res) : string =
  match r with
  | Ok e -> "ok " ^ show_exp e
  | Err rest -> "err " ^ string_of_int (n - List.length rest)
  | Unsupported -> "unsupported"
  | OutOfFuel -> "oof"

(* decimal rendering of a Z from its hex rendering (base conversion on digit strings only) *)
module Z_dec = struct
  let to_string (x : z) : string =
    let h = hex_of_z x in
    let neg = String.length h > 0 && h.[0] = '-' in
    let h = if neg then String.sub h 1 (String.length h - 1) else h in
    (* digits little-endian base 10 *)
    let d = ref [0] in
    let mul16_add v =
      let carry = ref v in
      d := List.map (fun x -> let t = x * 16 + !carry in carry := t / 10; t mod 10) !d;
      while !carry > 0 do d := !d @ [!carry mod 10]; carry := !carry / 10 done in
    String.iter (fun c -> mul16_add (hexval c)) h;
    let s = String.concat "" (List.rev_map string_of_int !d) in
    (if neg then "-" else "") ^ s
end

let () =
  iter_lines (fun line ->
    match split_on ' ' line with
    | id :: "P" :: toks ->
      let ts = List.map tok_of_string toks in
      print_endline (id ^ " " ^ show_res (List.length ts) (parse ts))
    | id :: "PS" :: toks ->
      let ts = List.map tok_of_string toks in
      let n = List.length ts in
      print_endline (id ^ " " ^ (match parse_chunk ts with
        | Ok bl -> let b = Buffer.create 256 in sx_of_block b bl; "ok " ^ Buffer.contents b
        | Err rest -> "err " ^ string_of_int (n - List.length rest)
        | Unsupported -> "unsupported"
        | OutOfFuel -> "oof"))
    | id :: "RS" :: _ ->
      (* StatPrint.print_chunk / wf_block on a statement tree, and the theorem parse_chunk (print_chunk b) = Ok b re-evaluated *)
      let i = String.index_from line (String.length id + 1) ' ' in
      let bl = block_of_sx (parse_sx (String.sub line (i + 1) (String.length line - i - 1))) in
      let ts = print_chunk bl in
      let self = (match parse_chunk ts with Ok b2 -> if b2 = bl then "same" else "different" | Err _ -> "err" | Unsupported -> "unsupported" | OutOfFuel -> "oof") in
      print_endline (String.concat " @@ " [ id ^ " " ^ String.concat " " (List.map string_of_tok ts); b2s (wf_block bl); self ])
    | id :: "R" :: _ ->
      let i = String.index_from line (String.length id + 1) ' ' in
      let e = exp_of_sx (parse_sx (String.sub line (i + 1) (String.length line - i - 1))) in
      let ts = print e in
      print_endline (String.concat " @@ " [
        id ^ " " ^ String.concat " " (List.map string_of_tok ts);
        show_exp (norm e); b2s (plain e); show_res (List.length ts) (parse ts) ])
    | [id; "S"; body] ->
      (* short string body (between the quotes, line ends normalised by the caller) -> denoted bytes *)
      let l = List.map n_of_int (bytes_of_hex body) in
      (match unescape l with
       | Some v -> print_endline (id ^ " s" ^ hex_of_bytes (List.map int_of_n v))
       | None -> print_endline (id ^ " none"))
    | [id; "L"; lit] ->
      let l = List.map n_of_int (bytes_of_hex lit) in
      print_endline (id ^ " s" ^ hex_of_bytes (List.map int_of_n (long_denot l)))
    | [id; "Q"; bytes] ->
      let l = List.map n_of_int (bytes_of_hex bytes) in
      print_endline (id ^ " " ^ hex_of_bytes (List.map int_of_n (quote l)))
    | [id; "N"; kind; digits] ->
      (* integer numerals: S (manual) and IM (ast.NewNumber) denotations; decimal output via hex of the Z *)
      let ds = List.init (String.length digits) (fun i -> z_of_int (hexval digits.[i])) in
      let show v = match v with
        | NInt z -> "i" ^ Z_dec.to_string z
        | NFloatOf n -> "F" ^ Z_dec.to_string n in
      let s, im = if kind = "hex" then s_hex ds, go_hex ds else s_dec ds, go_dec ds in
      print_endline (id ^ " " ^ show s ^ " " ^ show im)
    | _ -> ())
