(* Extraction of the front-end model (C12).  ExtrOcamlBasic only; no Extract
   Constant; positive/N/Z/nat stay Coq datatypes. *)
Require Extraction.
Require ExtrOcamlBasic.
From Coq Require Import ZArith NArith.
From GV Require Import Front.Token Front.Parse Front.Print Front.Lex Front.LexStr Front.Stat Front.StatPrint.
Extraction Language OCaml.
Extraction "model.ml" Z.add N.add Nat.add Pos.add
  Token.binop_of Token.unop_of Token.level
  Parse.parse Parse.parse_fuel Parse.fuel_for Parse.new_binop Parse.unflatten
  Print.print Print.norm Print.plain Print.size
  Lex.s_dec Lex.s_hex Lex.go_dec Lex.go_hex
  LexStr.unescape LexStr.quote LexStr.long_denot LexStr.normalize_nl
  Stat.parse_chunk StatPrint.print_chunk StatPrint.wf_block.
