(* oracle/table/driver.ml — runs table histories through the extracted model.
   Glue only: parse a line, call Model.step / Model.s_step, print.

   input  : <id> M <k=hexhash,...|-> <stride> ; <op> ; <op> ...     implementation model, digests of the state
            <id> V <k=hexhash,...|-> <stride> ; <op> ; ...           same, full state dumps
            <id> S ; <sop> ; <sop> ...                      abstract-map spec
   output : <id> <res> <state>|<res> <state>|... I:<index of first state with invb = false, or ->
            <id> <sres>|<sres>|...
   values : n b0 b1 i<hex, leading - for negative> f<16 hex> s<hex>|s- t<k> g<k> u<k> h<k> c<ptr>.<cls> *)
open Model
open Proto

let parse_value (s : string) : value =
  let rest () = String.sub s 1 (String.length s - 1) in
  match s.[0] with
  | 'n' -> VNil
  | 'b' -> VBool (s = "b1")
  | 'i' -> VInt (z_of_hex (rest ()))
  | 'f' -> VFlt (n_of_hex (rest ()))
  | 's' -> VStr (List.map n_of_int (bytes_of_hex (rest ())))
  | 't' -> VRef (n_of_int 0, n_of_hex (rest ()))
  | 'g' -> VRef (n_of_int 1, n_of_hex (rest ()))
  | 'u' -> VRef (n_of_int 2, n_of_hex (rest ()))
  | 'h' -> VRef (n_of_int 3, n_of_hex (rest ()))
  | 'c' -> (match String.split_on_char '.' (rest ()) with
            | [p; c] -> VClo (n_of_hex p, n_of_hex c)
            | _ -> failwith ("bad closure " ^ s))
  | _ -> failwith ("bad value " ^ s)

let pad16 (h : string) : string = String.make (16 - String.length h) '0' ^ h

let show_value (v : value) : string =
  match v with
  | VNil -> "n"
  | VBool b -> if b then "b1" else "b0"
  | VInt z -> "i" ^ hex_of_z z
  | VFlt b -> "f" ^ pad16 (hex_of_n b)
  | VStr l -> "s" ^ hex_of_bytes (List.map int_of_n l)
  | VRef (k, p) -> (match int_of_n k with 0 -> "t" | 1 -> "g" | 2 -> "u" | _ -> "h") ^ hex_of_n p
  | VClo (p, c) -> "c" ^ hex_of_n p ^ "." ^ hex_of_n c

let nat_of_hex s = nat_of_int (int_of_string ("0x" ^ s))
let hex_of_nat n = Printf.sprintf "%x" (int_of_nat n)

let parse_op (s : string) : op =
  match split_on ' ' s with
  | ["S"; k; v] -> OSet (parse_value k, parse_value v)
  | ["R"; k; v] -> OReset (parse_value k, parse_value v)
  | ["G"; k] -> OGet (parse_value k)
  | ["N"; k] -> ONext (parse_value k)
  | ["L"] -> OLen
  | ["E"; a; b] -> OEq (parse_value a, parse_value b)
  | ["W"; m; p; q; fresh; cap] -> OWalk (nat_of_hex m, nat_of_hex p, nat_of_hex q, z_of_hex fresh, nat_of_hex cap)
  | _ -> failwith ("bad op: " ^ s)

let parse_sop (s : string) : sop =
  match split_on ' ' s with
  | ["S"; k; v] -> SSet (parse_value k, parse_value v)
  | ["A"; k; v] -> SAssign (parse_value k, parse_value v)
  | ["R"; k; v] -> SReset (parse_value k, parse_value v)
  | ["G"; k] -> SGet (parse_value k)
  | ["I"; k] -> SIndex (parse_value k)
  | ["N"; k; nk] -> SNext (parse_value k, parse_value nk)
  | ["L"] -> SLen
  | ["T"] -> SAll
  | ["E"; a; b] -> SEq (parse_value a, parse_value b)
  | _ -> failwith ("bad sop: " ^ s)

let show_pairs l = if l = [] then "-" else
  String.concat "," (List.map (fun (k, v) -> show_value k ^ "=" ^ show_value v) l)

let show_result (r : result) : string =
  match r with
  | RUnit -> "-"
  | RBool b -> if b then "w1" else "w0"
  | RVal v -> show_value v
  | RNext (k, v, ok) -> show_value k ^ "," ^ show_value v ^ "," ^ (if ok then "ok" else "invalid")
  | RLen n -> hex_of_nat n
  | REq (e, r, same, same_big) ->
    let b x = if x then "1" else "0" in
    let o = function None -> "-" | Some x -> b x in
    "q" ^ b e ^ b r ^ o same ^ o same_big
  | RWalk (vis, s) -> (match s with WEnd -> "end" | WInvalid -> "invalid" | WCap -> "cap") ^ ":" ^ show_pairs vis

let show_sres (r : sres) : string =
  match r with
  | SRUnit -> "-"
  | SRBool b -> if b then "b1" else "b0"
  | SRVal v -> show_value v
  | SRValB (v, b) -> show_value v ^ "," ^ (if b then "b1" else "b0")
  | SRBorders l -> String.concat "," (List.map hex_of_z l)
  | SRPairs l -> show_pairs l
  | SREq (r, same) -> (if r then "1" else "0") ^ (if same then "1" else "0")

let show_slot (s : slot) : string =
  String.concat ":" [show_value s.skey; show_value s.sval; hex_of_nat s.snext;
                     (if s.shasNext then "1" else "0"); (if s.schained then "1" else "0")]

let state_full (t : table) : string =
  let h = match t.hpart with
    | None -> "H-"
    | Some h -> "H" ^ hex_of_nat h.hbase ^ "," ^ (match h.nextFree with None -> "-" | Some f -> hex_of_nat f)
                ^ "[" ^ String.concat ";" (List.map show_slot h.slots) ^ "]" in
  let a = match t.apart with
    | None -> "A-"
    | Some a -> "A" ^ hex_of_nat a.alen ^ "[" ^ String.concat ";" (List.map show_value a.avalues) ^ "]" in
  h ^ "/" ^ a

(* summary in clear + md5 of the full dump *)
let state_digest (full : bool) (t : table) : string =
  let hs = match t.hpart with
    | None -> "H-"
    | Some h -> "H" ^ hex_of_nat h.hbase ^ "," ^ (match h.nextFree with None -> "-" | Some f -> hex_of_nat f) in
  let a = match t.apart with
    | None -> "A-"
    | Some a -> "A" ^ hex_of_nat a.alen ^ "," ^ Printf.sprintf "%x" (List.length a.avalues) in
  if full then hs ^ "/" ^ a ^ "#" ^ Digest.to_hex (Digest.string (state_full t)) else hs ^ "/" ^ a

let parse_hashes (s : string) : (value * n) list =
  if s = "-" then [] else
  List.map (fun kv -> match String.split_on_char '=' kv with
    | [k; h] -> (parse_value k, n_of_hex h)
    | _ -> failwith ("bad hash entry " ^ kv)) (String.split_on_char ',' s)

let () =
  iter_lines (fun line ->
    match String.index_opt line ' ' with
    | None -> ()
    | Some i ->
      let id = String.sub line 0 i in
      let rest = String.sub line (i + 1) (String.length line - i - 1) in
      let parts = List.map String.trim (String.split_on_char ';' rest) in
      let head, ops = (match parts with h :: r -> h, List.filter (fun s -> s <> "") r | [] -> "", []) in
      print_string id; print_char ' ';
      (match split_on ' ' head with
       | [("M" | "V") as mode; hs; stride] ->
         let hash = hash_of_list (parse_hashes hs) in
         let stride = int_of_string stride in
         let nops = List.length ops in
         let show_state full = if mode = "V" then state_full else state_digest full in
         let t = ref empty_table in
         let stop = ref false in
         let bad = ref (-1) in
         let idx = ref 0 in
         let outs = ref [] in
         List.iter (fun s ->
           if not !stop then begin
             (match step hash !t (parse_op s) with
              | Ok (t', r) ->
                t := t';
                let full = (!idx mod stride = 0) || (!idx = nops - 1) in
                if full && !bad < 0 && not (invb hash t') then bad := !idx;
                outs := (show_result r ^ " " ^ show_state full t') :: !outs
              | Panic -> stop := true; outs := "panic" :: !outs
              | Fuel -> stop := true; outs := "fuel" :: !outs);
             idx := !idx + 1
           end) ops;
         print_string (String.concat "|" (List.rev !outs));
         print_endline (" I:" ^ (if !bad < 0 then "-" else string_of_int !bad))
       | ["S"] ->
         let m = ref [] in
         let outs = List.map (fun s ->
           let (m', r) = s_step !m (parse_sop s) in
           m := m'; show_sres r) ops in
         print_endline (String.concat "|" outs)
       | _ -> failwith ("bad head: " ^ head)))
