(* Extraction of the table model (IM) and the abstract-map spec (S).
   ExtrOcamlBasic only; positive/N/Z/nat stay Coq datatypes; no Extract Constant. *)
Require Extraction.
Require ExtrOcamlBasic.
From Coq Require Import ZArith NArith.
From GV Require Import Table.ModelValue Table.Model Table.Spec Table.ModelInv.
Extraction Language OCaml.
Extraction "model.ml" Z.add N.add Nat.add Pos.add
  ModelValue.norm ModelValue.equals ModelValue.wf
  Model.step Model.empty_table Model.hash_of_list
  ModelInv.invb
  Spec.s_step Spec.lua_eq.
