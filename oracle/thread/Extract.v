(* Extraction of the coroutine models (C09).  ExtrOcamlBasic only; no Extract Constant. *)
Require Extraction.
Require ExtrOcamlBasic.
From Coq Require Import ZArith NArith.
From GV Require Import Thread.SpecS Thread.Proto.
Extraction Language OCaml.
Extraction "model.ml" Z.add N.add Nat.add Pos.add
  SpecS.srun SpecS.out_st SpecS.alive
  Proto.first_reject Proto.accepts Proto.init Proto.current Proto.old_order Proto.old_handlers
  Proto.can_step Proto.main_done.
