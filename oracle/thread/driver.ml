(* oracle/thread/driver.ml — glue only.
   "<id> S <tbc 0|1|2|3> <nslots> <act>;<act>;..."  -> runs srun, prints
       "<id> <ok|error> T:<events> R:<values> G:<coroutines alive>"
   "<id> P <current|old|oldh> <g>:<label>;..." -> runs Proto.first_reject from Proto.init,
       prints "<id> accept" or "<id> reject <index>" *)
open Model
open Proto

let hex_of_string s = String.concat "" (List.map (fun c -> Printf.sprintf "%02x" (Char.code c)) (List.init (String.length s) (String.get s)))

let parse_val (s : string) : value =
  if s = "n" then VNil else if s = "b0" then VBool false else if s = "b1" then VBool true
  else if s.[0] = 'i' then VInt (z_of_int (int_of_string (String.sub s 1 (String.length s - 1))))
  else failwith ("bad val " ^ s)

let parse_vals (s : string) : value list =
  if s = "" || s = "-" then [] else List.map parse_val (split_on ',' s)

let stat_name k = match int_of_nat k with 0 -> "suspended" | 1 -> "running" | 2 -> "normal" | _ -> "dead"

let show_val (v : value) : string =
  match v with
  | VNil -> "n" | VBool true -> "b1" | VBool false -> "b0"
  | VInt z -> "i" ^ string_of_int (int_of_z z)
  | VMsg c -> "m" ^ string_of_int (int_of_nat c)
  | VTag c -> "s" ^ Printf.sprintf "%02x" (int_of_nat c)
  | VStat k -> "s" ^ hex_of_string (stat_name k)

let show_vals vs = if vs = [] then "-" else String.concat "," (List.map show_val vs)

let tail_from s i = String.sub s i (String.length s - i)

let parse_act (s : string) : act =
  let arg_vals s = match String.index_opt s ':' with
    | None -> (s, [])
    | Some i -> (String.sub s 0 i, parse_vals (tail_from s (i + 1))) in
  let (h, vs) = arg_vals s in
  let num k = nat_of_int (int_of_string (tail_from h k)) in
  match h.[0] with
  | 'c' -> ACreate (num 1)
  | 'w' -> AWrap (num 1)
  | 'r' when h = "ret" -> AReturn vs
  | 'r' -> AResume (num 1, vs)
  | 'p' -> APResume (num 1, vs)
  | 'y' -> AYield vs
  | 'e' -> AError (List.hd vs)
  | 'x' -> AClose (num 1)
  | 't' -> AStatus (num 1)
  | 'i' -> AInfo
  | _ -> failwith ("bad act " ^ s)

let parse_msg (s : string) : msg =
  match s.[0] with
  | 'v' -> MVal (nat_of_int (int_of_string (tail_from s 1)))
  | 'e' -> MErr (nat_of_int (int_of_string (tail_from s 1)))
  | _ -> MTerm

let parse_label (s : string) : label =
  let num k = nat_of_int (int_of_string (tail_from s k)) in
  if s = "C" then LCreate else if s = "RF" then LRefuse else if s = "D" then LRdv else if s = "HY" then LHYield
  else if String.length s > 2 && String.sub s 0 2 = "HR" then LHResume (num 2)
  else if String.length s > 2 && String.sub s 0 2 = "HD" then LHDone (parse_msg (tail_from s 2))
  else match s.[0] with
  | 'R' -> (match split_on '.' (tail_from s 1) with
            | [t; v] -> LResume (nat_of_int (int_of_string t), nat_of_int (int_of_string v))
            | _ -> failwith "bad R")
  | 'X' -> LClose (num 1)
  | 'Y' -> LYield (num 1)
  | 'F' -> LFinish (parse_msg (tail_from s 1))
  | 'T' -> LStatus (num 1)
  | 's' -> LStep (num 1)
  | _ -> failwith ("bad label " ^ s)

let parse_action (s : string) : action =
  match String.index_opt s ':' with
  | Some i -> { who = nat_of_int (int_of_string (String.sub s 0 i)); lab = parse_label (tail_from s (i + 1)) }
  | None -> failwith ("bad action " ^ s)

let () =
  iter_lines (fun line ->
    match split_on ' ' line with
    | id :: "S" :: tbc :: ns :: rest ->
      let sc = match rest with [] -> [] | s :: _ -> List.filter (fun x -> x <> "") (split_on ';' s) in
      let o = srun (nat_of_int (int_of_string ns)) (nat_of_int (int_of_string tbc)) (List.map parse_act sc) in
      let s = out_st o in
      let evs = List.rev s.evs in
      let tr = if evs = [] then "-" else String.concat ";" (List.map show_vals evs) in
      let status, ret = match o with
        | FinOk (_, vs) -> "ok", show_vals vs
        | FinErr (_, v) -> "error", show_val v
        | Going _ -> "stuck", "-" in
      Printf.printf "%s %s T:%s R:%s G:%d\n" id status tr ret (int_of_nat (alive s))
    | id :: "P" :: cf :: rest ->
      let tr = match rest with [] -> [] | s :: _ -> List.filter (fun x -> x <> "") (split_on ';' s) in
      let c = match cf with "old" -> old_order | "oldh" -> old_handlers | _ -> current in
      (match first_reject c init (List.map parse_action tr) O with
       | None -> Printf.printf "%s accept\n" id
       | Some i -> Printf.printf "%s reject %d\n" id (int_of_nat i))
    | _ -> ())
