(* Extraction of the context-manager model.  ExtrOcamlBasic only: bool,
   option, list, prod, unit, sumbool map to OCaml's own; positive/N/Z/nat stay
   Coq datatypes.  No Extract Constant. *)
Require Extraction.
Require ExtrOcamlBasic.
From Coq Require Import ZArith NArith.
From GV Require Import Ctx.Model Ctx.NestModel.
Extraction Language OCaml.
Extraction "model.ml" Z.add N.add Nat.add Pos.add
  Model.init Model.step Model.due Model.mres_mgr Model.checkFlags
  NestModel.exec NestModel.exec_act.
