(* oracle/ctx/driver.ml — runs histories through the extracted context
   manager model.  Glue only: parse, call Model.step, print. *)
open Model
open Proto

let res c m = { cpu = z_of_hex c; mem = z_of_hex m; ms = Z0 }
let res3 c m t = { cpu = z_of_hex c; mem = z_of_hex m; ms = z_of_hex t }
let timed = Array.length Sys.argv > 1 && Sys.argv.(1) = "timed"

let parse_op (s : string) : op =
  match split_on ' ' s with
  | ["P"; hc; hm; sc; sm; fl; iso] ->
    OPush { dHard = res hc hm; dSoft = res sc sm; dFlags = n_of_hex fl; dIso = (iso = "1") }
  | ["P"; hc; hm; sc; sm; fl; iso; hms; sms] ->
    OPush { dHard = res3 hc hm hms; dSoft = res3 sc sm sms; dFlags = n_of_hex fl; dIso = (iso = "1") }
  | ["O"] -> OPop
  | ["C"; a] -> OCpu (z_of_hex a)
  | ["M"; a] -> OMem (z_of_hex a)
  | ["R"; a] -> ORel (z_of_hex a)
  | ["S"; l] -> OStop (n_of_hex l)
  | _ -> failwith ("bad op: " ^ s)

let st_str = function Live -> "live" | Done -> "done" | Err -> "error" | Killed -> "killed"

let dump (c : ctx) : string =
  String.concat "," [
    hex_of_z c.hard.cpu; hex_of_z c.hard.mem; hex_of_z c.soft.cpu; hex_of_z c.soft.mem;
    hex_of_z c.used.cpu; hex_of_z c.used.mem; hex_of_n c.flags; st_str c.st;
    (if due c then "1" else "0") ]
  ^ (if timed then "," ^ String.concat "," [hex_of_z c.hard.ms; hex_of_z c.soft.ms; hex_of_z c.used.ms] else "")

let term_str = function
  | TForce -> "term:force"
  | TCpu l -> "term:cpu:" ^ hex_of_z l
  | TMem l -> "term:mem:" ^ hex_of_z l
  | TTime l -> "term:time:" ^ hex_of_z l

let show (r : mres) : string =
  let m = mres_mgr r in
  let chain = String.concat "/" (List.map dump (m.cur :: m.parents)) in
  match r with
  | MOk (_, None) -> "ok " ^ chain
  | MOk (_, Some c) -> "ok " ^ chain ^ " ret=" ^ dump c
  | MTerm (_, t) -> term_str t ^ " " ^ chain
  | MPanic _ -> "panic " ^ chain

let () =
  iter_lines (fun line ->
    match String.index_opt line ' ' with
    | None -> ()
    | Some i ->
      let id = String.sub line 0 i in
      let rest = String.sub line (i + 1) (String.length line - i - 1) in
      let ops = List.map String.trim (String.split_on_char ';' rest) in
      let ops = List.filter (fun s -> s <> "") ops in
      let m = ref init in
      let now = ref Z0 in
      let outs = List.map (fun s ->
        match split_on ' ' s with
        | ["T"; v] -> now := z_of_hex v; show (MOk (!m, None))
        | _ ->
          let r = step !now !m (parse_op s) in
          m := mres_mgr r; show r) ops in
      print_string id; print_char ' ';
      print_endline (String.concat "|" outs))
