(* oracle/num/driver.ml — glue only: parse a case line, call the extracted
   model (Ops.eval_im / Ops.eval_s, ...), print the result.  No logic. *)
open Model
open Proto

let parse_num (s : string) : num =
  match s.[0] with
  | 'I' -> NInt (z_of_hex (String.sub s 1 (String.length s - 1)))
  | 'F' -> if s = "Fnan" then NFlt (of_bits (z_of_hex "7ff8000000000001"))
           else NFlt (of_bits (z_of_hex (String.sub s 1 (String.length s - 1))))
  | _ -> failwith ("bad num " ^ s)

let pad16 s = String.make (16 - String.length s) '0' ^ s

let show_f (f : f64) : string =
  match f with
  | B754_nan -> "Fnan"
  | _ -> "F" ^ pad16 (hex_of_z (to_bits f))

let show_num = function
  | NInt z -> "I" ^ hex_of_z z
  | NFlt f -> show_f f

let show_err = function
  | EDivZero -> "Edivzero" | EModZero -> "Emodzero" | ENoInt -> "Enoint" | EOther -> "Eother:"

let show_rval = function
  | RvNum x -> show_num x
  | RvBool b -> if b then "B1" else "B0"
  | RvNil -> "N"
  | RvErr e -> show_err e
  | RvPair (x, f) -> show_num x ^ "," ^ show_f f
  | RvType b -> if b then "S696e7465676572" else "S666c6f6174"

let opcode_of = function
  | "add" -> OAdd | "sub" -> OSub | "mul" -> OMul | "div" -> ODiv | "idiv" -> OIdiv | "mod" -> OMod | "unm" -> OUnm
  | "lt" -> OLt | "le" -> OLe | "eq" -> OEq | "gt" -> OGt | "ge" -> OGe | "ne" -> ONe
  | "band" -> OBand | "bor" -> OBor | "bxor" -> OBxor | "shl" -> OShl | "shr" -> OShr | "bnot" -> OBnot
  | "abs" -> OAbs | "floor" -> OFloor | "ceil" -> OCeil | "fmod" -> OFmod | "tointeger" -> OToInteger
  | "ult" -> OUlt | "max" -> OMax | "min" -> OMin | "modf" -> OModf | "mtype" -> OMType | "keytype" -> OKeyType | "randok" -> ORandOk
  | s -> failwith ("bad op " ^ s)

let ops () =
  iter_lines (fun line ->
    match split_on ' ' line with
    | id :: op :: a :: rest ->
      (match (try Some (opcode_of op) with Failure _ -> None) with
       | None -> print_endline (id ^ " M:- S:-")
       | Some o ->
         let x = parse_num a in
         let y = match rest with b :: _ when b <> "nolit" -> parse_num b | _ -> NInt Z0 in
         print_endline (id ^ " M:" ^ show_rval (eval_im o x y) ^ " S:" ^ show_rval (eval_s o x y)))
    | _ -> ())

let f2i () =
  iter_lines (fun line ->
    match split_on ' ' line with
    | [id; a] ->
      (match parse_num a with
       | NFlt f -> let n = go_f2i f in
         print_endline (id ^ " I" ^ hex_of_z n ^ " " ^ show_f (of_int n))
       | _ -> ())
    | _ -> ())

let show_for cap = function
  | FErrZero -> "Eforzero T:-"
  | FRun (vs, fin) ->
    let st = if List.length vs >= cap then "capped" else if fin then "done" else "running" in
    st ^ " T:" ^ (if vs = [] then "-" else String.concat ";" (List.map show_num vs))

let forloop () =
  iter_lines (fun line ->
    match split_on ' ' line with
    | id :: a :: b :: c :: cap :: _ ->
      let cap = int_of_string cap in
      let x = parse_num a and l = parse_num b in
      let st = if c = "-" then NInt (z_of_int 1) else parse_num c in
      print_endline (id ^ " M:" ^ show_for cap (for_im (nat_of_int cap) x l st));
      print_endline (id ^ " S:" ^ show_for cap (for_s (nat_of_int cap) x l st))
    | _ -> ())

let strmode () =
  iter_lines (fun line ->
    match split_on ' ' line with
    | [id; h] ->
      let l = List.map z_of_int (bytes_of_hex h) in
      let r = s_str2number l in
      print_endline (id ^ " S:" ^ (match r with Some x -> show_num x | None -> "N")
                        ^ " I:" ^ (match r with Some x -> (match s_to_int x with Some z -> "I" ^ hex_of_z z | None -> "N") | None -> "N")
                        ^ " MF:" ^ (match r with Some x -> show_rval (eval_s OModf x x) | None -> "E")
                        ^ " FL:" ^ (match r with Some x -> show_rval (eval_s OFloor x x) | None -> "E")
                        ^ " AB:" ^ (match r with Some x -> show_rval (eval_s OAbs x x) | None -> "E"))
    | [id; h; base] ->
      let l = List.map z_of_int (bytes_of_hex h) in
      print_endline (id ^ " S:" ^ (match s_tonumber_base l (z_of_int (int_of_string base)) with Some z -> "I" ^ hex_of_z z | None -> "N"))
    | _ -> ())

let () =
  match Sys.argv with
  | [| _; "str" |] -> strmode ()
  | [| _; "for" |] -> forloop ()
  | [| _; "ops" |] -> ops ()
  | [| _; "f2i" |] -> f2i ()
  | _ -> prerr_endline "usage: oracle.exe ops|f2i"; exit 2
