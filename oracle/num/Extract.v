(* Extraction of the number model (IM and S) for the "num" engine.
   ExtrOcamlBasic only; positive/N/Z/nat stay Coq datatypes; no Extract Constant. *)
Require Extraction.
Require ExtrOcamlBasic.
From Coq Require Import ZArith NArith.
From GV Require Import Base.W64 Base.F64 Num.Model Num.Spec Num.Ops Num.ForLoop Num.StrSpec.
Extraction Language OCaml.
Extraction "model.ml" Z.add N.add Nat.add Pos.add
  F64.of_bits F64.to_bits F64.go_f2i F64.of_int
  Ops.eval_im Ops.eval_s ForLoop.for_im ForLoop.for_s StrSpec.s_str2number StrSpec.s_tonumber_base Spec.s_to_int.
