(* Extraction of the C10 models (reference semantics, compiler slice, close
   stack VM).  ExtrOcamlBasic only; nat/positive/N/Z stay Coq datatypes.  No
   Extract Constant. *)
Require Extraction.
Require ExtrOcamlBasic.
From Coq Require Import ZArith NArith.
From GV Require Import Close.Skel Close.Compile Close.VMclose.
Extraction Language OCaml.
Extraction "model.ml" Z.add N.add Nat.add Pos.add
  Skel.run_ref Skel.brackets Skel.errflow Compile.compile VMclose.run_vm.
