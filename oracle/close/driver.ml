(* oracle/close/driver.ml — glue: parse a skeleton program, run the extracted
   reference semantics (Skel.run_ref), the extracted compiler slice
   (Compile.compile) and the extracted close-stack VM (VMclose.run_vm) on it,
   print the three results.
     input : <id> <fuel> <decisions 0/1 string or -> <program>
     output: <id> R:<events>|<outcome> V:<events>|<outcome> I:<instruction stream>
   program syntax (no spaces): block = stmt;stmt;...[;R|;T(block)]
     Lp Ln Lo<id> Lr<id>.<h> Lx<id>   local plain / nil / closable / closable raising h / not closable
     D(b) W(b) U(b) F<v>(b) I(b)      do / while / repeat / for-in with closing value v / if
     B G<l> :<l> M<n> C(b) P(b) K<k|->(b) Y E<e>
   No logic of its own. *)
open Model
open Proto

let pos = ref 0
let src = ref ""
let peek () = if !pos < String.length !src then !src.[!pos] else '\000'
let adv () = incr pos
let expect c = if peek () <> c then failwith (Printf.sprintf "expected %c at %d in %s" c !pos !src); adv ()
let num () =
  let st = !pos in
  while (match peek () with '0'..'9' -> true | _ -> false) do adv () done;
  nat_of_int (int_of_string (String.sub !src st (!pos - st)))

let tbcv () =
  match peek () with
  | 'p' -> adv (); VPlain
  | 'n' -> adv (); VNil
  | 'o' -> adv (); let id = num () in VObj (id, None)
  | 'r' -> adv (); let id = num () in expect '.'; let h = num () in VObj (id, Some h)
  | 'x' -> adv (); let id = num () in VBad id
  | c -> failwith (Printf.sprintf "bad value %c" c)

let rec block () : block =
  match peek () with
  | ')' | '\000' -> BNil
  | 'R' -> adv (); BRet RPlain
  | 'T' -> adv (); expect '('; let b = block () in expect ')'; BRet (RCall b)
  | _ ->
    let s = stmt () in
    if peek () = ';' then (adv (); BCons (s, block ())) else BCons (s, BNil)
and paren () = expect '('; let b = block () in expect ')'; b
and stmt () : stmt =
  let c = peek () in adv ();
  match c with
  | 'L' -> SLocal (tbcv ())
  | 'D' -> SDo (paren ())
  | 'W' -> SLoop (LWhile, paren ())
  | 'U' -> SLoop (LRepeat, paren ())
  | 'F' -> let v = tbcv () in SLoop (LForIn v, paren ())
  | 'I' -> SIf (paren ())
  | 'B' -> SBreak
  | 'G' -> SGoto (num ())
  | ':' -> SLabel (num ())
  | 'M' -> SMark (num ())
  | 'C' -> SCall (paren ())
  | 'P' -> SPcall (paren ())
  | 'K' -> let k = if peek () = '-' then (adv (); None) else Some (num ()) in SCoro (paren (), k)
  | 'Y' -> SYield
  | 'E' -> SRaise (num ())
  | c -> failwith (Printf.sprintf "bad statement %c at %d in %s" c !pos !src)

let parse (s : string) : block = src := s; pos := 0; let b = block () in
  if !pos <> String.length s then failwith ("trailing input in " ^ s); b

let err_s = function EUser n -> "u" ^ string_of_int (int_of_nat n) | EMissing -> "m"
let oerr_s = function None -> "-" | Some e -> err_s e
let ev_s = function
  | EvOpen id -> "o" ^ string_of_int (int_of_nat id)
  | EvClose (id, e) -> "c" ^ string_of_int (int_of_nat id) ^ ":" ^ oerr_s e
  | EvRaise e -> "r" ^ err_s e
  | EvMark n -> "m" ^ string_of_int (int_of_nat n)
  | EvPcall e -> "p" ^ oerr_s e
  | EvCo e -> "k" ^ oerr_s e
let evs_s l = if l = [] then "-" else String.concat "," (List.map ev_s l)
let out_s = function
  | ONormal -> "N" | OBreak -> "B" | OGoto l -> "G" ^ string_of_int (int_of_nat l) | OReturn -> "R"
  | OError e -> "E" ^ err_s e | OClosed e -> "X" ^ oerr_s e
let vout_s = function VReturn -> "N" | VError e -> "E" ^ err_s e | VClosed -> "X" | VPanic -> "PANIC"

let rec code_s (c : instr list) : string list =
  List.concat_map (function
    | IClPush _ -> ["push"]
    | IClTrunc h -> ["trunc" ^ string_of_int (int_of_nat h)]
    | IJump l -> ["jmp" ^ string_of_int (int_of_nat l)]
    | IJumpIf (l, nt, _) | IJumpLast (l, nt) -> ["jif" ^ string_of_int (int_of_nat l) ^ (if nt then "t" else "f")]
    | ILabel l -> ["lbl" ^ string_of_int (int_of_nat l)]
    | ICall c | IPcall c | ICoro (c, _) -> ["fn("] @ code_s c @ [")"]
    | ITailCall c -> ["fn("] @ code_s c @ [")"; "tail"]
    | IRet -> ["ret"]
    | _ -> []) c

let decisions (s : string) : bool list =
  if s = "-" then [] else List.init (String.length s) (fun i -> s.[i] = '1')

let () =
  iter_lines (fun line ->
    let fields = match split_on ' ' line with [id; fuel; d] -> [id; fuel; d; ""] | l -> l in
    match fields with
    | [id; fuel; d; p] ->
      let b = parse p in
      let fuel = nat_of_int (int_of_string fuel) in
      let ds = decisions d in
      let r = match run_ref fuel b ds with
        | Done (ev, o) -> evs_s ev ^ "|" ^ out_s o
        | OutOfFuel -> "FUEL" in
      let v, i = match compile b with
        | None -> "NOCOMPILE", "NOCOMPILE"
        | Some c ->
          (match run_vm fuel c ds with
           | Done (ev, o) -> evs_s ev ^ "|" ^ vout_s o
           | OutOfFuel -> "FUEL"),
          String.concat "," (code_s c @ ["ret"]) in
      Printf.printf "%s R:%s V:%s I:%s\n" id r v i
    | _ -> ())
