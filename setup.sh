#!/bin/sh
# Build the verification framework from files on disk only (offline).
#  1. full .vo build of the Coq development (coq_makefile + make; no -vos)
#  2. extraction of each model + its OCaml driver -> oracle/<engine>/oracle.exe
#  3. first build of the Go harness against /repo (warms GOCACHE under .work)
set -e
cd "$(dirname "$0")"
VERIF=$(pwd)
export GOFLAGS=-mod=mod GOPROXY=off GOSUMDB=off GOTOOLCHAIN=local GOCACHE=$VERIF/.work/gocache
mkdir -p .work/bin evidence replays
python3 -c "import sys; sys.path.insert(0, \"$VERIF\"); from lib import vlib; rc, so, se = vlib.coq_make(keep_going=True); print((so+se)[-1500:]); sys.exit(0)"
for d in oracle/*/; do
  if [ -f "$d/Extract.v" ]; then
    ( cd "$d" && cp ../common/proto.ml proto.ml \
      && timeout 1200 coqc -R "$VERIF/coq/theories" GV Extract.v >/dev/null \
      && extra=$( [ -f extra_ml.txt ] && cat extra_ml.txt || true ) \
      && ocamlfind ocamlopt -w -a -I . model.mli model.ml proto.ml $extra driver.ml -o oracle.exe ) &
  fi
done
wait
( cd harness && cp /repo/go.sum go.sum && go build -tags verif -ldflags=-checklinkname=0 -o "$VERIF/.work/bin/gvh_verif" ./cmd/gvh )
# translators (C08 flags/call graph, C20 package-level writers): warm the build cache
if [ -d translate ]; then ( cd translate && go build ./... 2>&1 | tail -3 || true ); fi
# per-engine harness binaries
for d in harness/cmd/gvh-*/; do
  n=$(basename "$d")
  ( cd harness && go build -tags verif -ldflags=-checklinkname=0 -o "$VERIF/.work/bin/${n}_warm" "./cmd/$n" 2>&1 | tail -3 || true )
done
echo "setup done"
