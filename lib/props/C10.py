# C10 — to-be-closed variables are closed exactly once, in reverse order, on every exit.
#
#  proof obligations : coq/theories/Properties/C10.v  (models Close/Skel.v, Close/Compile.v, Close/VMclose.v)
#  correspondence (a): instruction level — every generated skeleton is rendered to Lua, parsed and compiled by
#                      the REAL front end (scanner+parsing+astcomp) inside gvh-close; the close-relevant IR
#                      subsequence of every function (PushCloseStack/TruncateCloseStack/Jump/JumpIf/DeclareLabel/
#                      Call{Tail}/MkClosure nesting) is compared EXACTLY with Close/Compile.v's output
#                      (extracted, oracle/close); compile errors must agree too (label visibility).
#  correspondence (b): behaviour — the same source is run on golua (hx.RunLuaCase) with __close handlers that
#                      record (id, err) through emit; the trace is compared with the reference semantics
#                      (Skel.run_ref, extracted) and with the close-stack VM model run on the model's compile
#                      output (VMclose.run_vm).
#  property level    : independent trace predicates evaluated on the Go trace (well-bracketed open/close =
#                      exactly once + reverse order + nothing pending at the end; every handler gets the error in
#                      flight; ordinary code never runs while an error is in flight).
import itertools
import json
import os
import re

from lib import vlib

PROP = ["Properties/C10.v"]
FUEL = 4000
TRUSTED = [
    "Coq 8.16.1 kernel (coqc); vm_compute only in Example/refuted witnesses",
    "no axioms (Print Assumptions: closed under the global context for every C10 theorem)",
    "extraction: ExtrOcamlBasic only; oracle/common/proto.ml + oracle/close/driver.ml (parser of the skeleton syntax, printers)",
    "Go harness harness/cmd/gvh-close/main.go (IR walker over public ir types, Lua prelude with mk/bad/D/IT/CO helpers and the "
    "Go-boundary wrappers VIA_LOAD/HOOK/GC/SORT/GSUB/TOSTRING/INDEX/CONCAT, UNCL) and harness/hx",
    "Python generator / renderer / diff in lib/props/C10.py (the renderer skeleton -> Lua source is trusted)",
    "modelled not verified: registers and every other part of the compiler; handlers are atomic (record, maybe raise); "
    "Go boundaries are not instructions of the models: a callback of a Go function that handles the error itself is compared with the "
    "models' pcall, one that passes the error on with the models' call; a value that loses __close with a raising handler whose "
    "events are rewritten (lib/props/C10.py unclose_expected)",
]
THEOREMS_IM = ["C10_compile_correct", "C10_tailcall_disabled_with_pending_close"]

# ------------------------------------------------------------------ programs
# stmt: ('L', v) ('D', b) ('W', b) ('U', b) ('F', v, b) ('I', b) ('B',) ('G', l) (':', l) ('M', n)
#       ('C', b) ('P', b) ('K', k, b) ('Y',) ('E', e)
# block: (stmts, ret) ; ret: None | 'R' | ('T', block)
# v: ('p',) ('n',) ('o', id) ('r', id, h) ('x', id)


# Extensions that exist only on the Lua side (the oracle sees their reduction):
#   ('u', id)            a closable value whose __close metamethod is removed right after the declaration;
#                        for the models: a value whose handler raises 900+id, the expected trace is then rewritten
#                        (no call of the handler, error "missing __close" in flight instead), see unclose_expected
#   ('P', b, via)        the function runs as a callback of a Go function that handles the error ITSELF:
#                        via = load (reader function of load) | hook (debug hook) | gc (__gc finaliser); = pcall for the models
#   ('C', b, via)        callback of a Go function that passes the error on: sort | gsub | tostring | index | concat; = call
UNCLOSE_ERR = 900
VIA_SWALLOW = {"load": "VIA_LOAD", "hook": "VIA_HOOK", "gc": "VIA_GC"}
VIA_PASS = {"sort": "VIA_SORT", "gsub": "VIA_GSUB", "tostring": "VIA_TOSTRING", "index": "VIA_INDEX", "concat": "VIA_CONCAT"}


def enc_v(v, ext=False):
    if v[0] in "pn":
        return v[0]
    if v[0] == "o":
        return "o%d" % v[1]
    if v[0] == "r":
        return "r%d.%d" % (v[1], v[2])
    if v[0] == "u":
        return "u%d" % v[1] if ext else "r%d.%d" % (v[1], UNCLOSE_ERR + v[1])
    return "x%d" % v[1]


def enc_block(b, ext=False):
    """ext=False: the oracle's syntax; ext=True: with the Lua-side extensions (corpus, replays)"""
    parts = [enc_stmt(s, ext) for s in b[0]]
    if b[1] == "R":
        parts.append("R")
    elif b[1] is not None:
        parts.append("T(%s)" % enc_block(b[1][1], ext))
    return ";".join(parts)


def enc_stmt(s, ext=False):
    k = s[0]
    if k == "L":
        return "L" + enc_v(s[1], ext)
    if k in "DWUICP":
        via = "@" + s[2] if ext and len(s) > 2 else ""
        return "%s%s(%s)" % (k, via, enc_block(s[1], ext))
    if k == "F":
        return "F%s%s(%s)" % ("@multi" if ext and len(s) > 3 else "", enc_v(s[1], ext), enc_block(s[2], ext))
    if k == "K":
        return "K%s(%s)" % ("-" if s[1] is None else str(s[1]), enc_block(s[2], ext))
    if k in "G:ME":
        return "%s%d" % (k, s[1])
    return k   # B Y


def walk(b):
    """all statements of a program, nested ones included"""
    for s in b[0]:
        yield s
        if s[0] in "DWUICP":
            yield from walk(s[1])
        elif s[0] in "FK":
            yield from walk(s[2])
    if b[1] not in (None, "R"):
        yield from walk(b[1][1])


def vias(b):
    return set(s[2] for s in walk(b) if s[0] in "CP" and len(s) > 2)


def unclosed_ids(b):
    return [s[1][1] for s in walk(b) if s[0] == "L" and s[1][0] == "u"]


def unclose_expected(ev, ids):
    """rewrite a model trace for values that lose __close after the declaration: the handler is not called
    (no close event, no raise event of the stand-in error), the error 'missing __close' is in flight instead"""
    if ev == "-":
        return ev
    toks = ev.split(",")
    for i in ids:
        h = "u%d" % (UNCLOSE_ERR + i)
        out = []
        k = 0
        while k < len(toks):
            t = toks[k]
            if t.startswith("c%d:" % i) and k + 1 < len(toks) and toks[k + 1] == "r" + h:
                k += 2
                continue
            out.append(t)
            k += 1
        toks = [("c" + t[1:].split(":")[0] + ":m") if t.startswith("c") and t.endswith(":" + h) else
                (t[0] + "m" if t[0] in "pk" and t[1:] == h else t) for t in out]
    return ",".join(toks) if toks else "-"


def lua_v(v):
    if v[0] == "p":
        return "0"
    if v[0] == "n":
        return "nil"
    if v[0] == "o":
        return "mk(%d)" % v[1]
    if v[0] == "r":
        return "mk(%d, %d)" % (v[1], v[2])
    return "bad()"


def lua_block(b, ind):
    out = []
    for s in b[0]:
        out += lua_stmt(s, ind)
    if b[1] == "R":
        out.append(ind + "return")
    elif b[1] is not None:
        out.append(ind + "return (function()")
        out += lua_block(b[1][1], ind + " ")
        out.append(ind + "end)()")
    return out


def lua_stmt(s, ind):
    k = s[0]
    i2 = ind + " "
    if k == "L":
        if s[1][0] == "p":
            return [ind + "local x = 0"]
        if s[1][0] == "u":
            return [ind + "local x <close> = mk(%d)" % s[1][1], ind + "UNCL(x)"]
        return [ind + "local x <close> = " + lua_v(s[1])]
    if k == "D":
        return [ind + "do"] + lua_block(s[1], i2) + [ind + "end"]
    if k == "W":
        return [ind + "while D() do"] + lua_block(s[1], i2) + [ind + "end"]
    if k == "U":
        return [ind + "repeat"] + lua_block(s[1], i2) + [ind + "until not D()"]
    if k == "F":
        if len(s) > 3:
            # the closing value is the 4th RESULT of a call, not a 4th written expression
            hd = "for _ in FORIN(%s) do" % ("" if s[1][0] == "p" else lua_v(s[1]))
        elif s[1][0] == "p":
            hd = "for _ in IT do"
        else:
            hd = "for _ in IT, nil, nil, %s do" % lua_v(s[1])
        return [ind + hd] + lua_block(s[2], i2) + [ind + "end"]
    if k == "I":
        return [ind + "if D() then"] + lua_block(s[1], i2) + [ind + "end"]
    if k == "B":
        return [ind + "break"]
    if k == "G":
        return [ind + "goto L%d" % s[1]]
    if k == ":":
        return [ind + "::L%d::" % s[1]]
    if k == "M":
        return [ind + 'emit("m", %d)' % s[1]]
    if k == "C":
        if len(s) > 2:
            return [ind + "Z = %s(function()" % VIA_PASS[s[2]]] + lua_block(s[1], i2) + [ind + "end)"]
        return [ind + "Z = (function()"] + lua_block(s[1], i2) + [ind + "end)()"]
    if k == "P":
        if len(s) > 2:
            return [ind + 'emit("p", %s(function()' % VIA_SWALLOW[s[2]]] + lua_block(s[1], i2) + [ind + "end))"]
        return [ind + 'emit("p", pcall(function()'] + lua_block(s[1], i2) + [ind + "end))"]
    if k == "K":
        return [ind + "CO(function()"] + lua_block(s[2], i2) + [ind + "end, %s)" % ("nil" if s[1] is None else str(s[1]))]
    if k == "Y":
        return [ind + "coroutine.yield()"]
    if k == "E":
        return [ind + 'emit("r", %d) error(%d, 0)' % (s[1], s[1])]
    raise ValueError(s)


def lua_program(b):
    return "\n".join(['emit("p", pcall(function()'] + lua_block(b, " ") + ["end))"]) + "\n"


# ------------------------------------------------------------------ trace handling
def unhex(h):
    return bytes.fromhex(h).decode("utf-8", "replace")


def err_tok(v):
    if v == "n":
        return "-"
    if v.startswith("i"):
        return "u" + v[1:]
    if v.startswith("s") and v != "s-":
        s = unhex(v[1:])
        if "missing a __close" in s or s == "missing":
            return "m"
        return "?" + s[:40].replace(" ", "_").replace(",", "_")
    return "?" + v


def canon_trace(tr):
    """Go trace (hx canonical values) -> the oracle's event notation."""
    if tr == "-":
        return "-"
    out = []
    for ev in tr.split(";"):
        a = ev.split(",")
        tag = unhex(a[0][1:]) if a[0].startswith("s") and a[0] != "s-" else "?"
        if tag == "o":
            out.append("o" + a[1][1:])
        elif tag == "c":
            out.append("c%s:%s" % (a[1][1:], err_tok(a[2] if len(a) > 2 else "n")))
        elif tag == "r":
            out.append("r" + err_tok(a[1]))
        elif tag == "m":
            out.append("m" + a[1][1:])
        elif tag == "p":
            if a[1] == "s3f":        # "?": the boundary does not report how the callback ended (hook, finaliser)
                out.append("p*")
            else:
                out.append("p" + ("-" if a[1] == "b1" else err_tok(a[2] if len(a) > 2 else "n")))
        elif tag == "k":
            out.append("k" + err_tok(a[1] if len(a) > 1 else "n"))
        else:
            out.append("?" + ev)
    return ",".join(out)


def trace_predicates(evs):
    """Independent statement of C10 on a trace (same predicates as Skel.brackets / Skel.errflow)."""
    fails = []
    pend = []
    cur = "-"
    if evs == "-":
        return fails
    for i, e in enumerate(evs.split(",")):
        t = e[0]
        if t == "o":
            if cur != "-":
                fails.append("event %d: a value is created while an error is in flight" % i)
            pend.append(e[1:])
        elif t == "c":
            vid, arg = e[1:].split(":")
            if not pend:
                fails.append("event %d: close of %s with nothing pending (closed twice?)" % (i, vid))
            elif pend[-1] != vid:
                fails.append("event %d: close of %s but the innermost pending variable is %s (order)" % (i, vid, pend[-1]))
                if vid in pend:
                    pend.remove(vid)
            else:
                pend.pop()
            if arg != cur:
                fails.append("event %d: handler of %s got error %s but %s is in flight" % (i, vid, arg, cur))
        elif t == "r":
            cur = e[1:]
        elif t == "m":
            if cur != "-":
                fails.append("event %d: ordinary code runs while error %s is in flight" % (i, cur))
        elif t in "pk":
            if e[1:] != cur and e[1:] != "*":
                fails.append("event %d: %s reports %s but %s is in flight" % (i, "pcall" if t == "p" else "coroutine", e[1:], cur))
            cur = "-"
        else:
            fails.append("event %d: unparsable %s" % (i, e))
    if pend:
        fails.append("end: variables %s never closed" % ",".join(pend))
    return fails


# ------------------------------------------------------------------ generators
CONSTRUCTS = "DWUFCP"


# chain letters of the Go-boundary family: the function runs as a callback of a Go function
BOUNDARY = {"Q": ("P", "load"), "H": ("P", "hook"), "Z": ("P", "gc"),
            "S": ("C", "sort"), "G": ("C", "gsub"), "T": ("C", "tostring"), "X": ("C", "index"), "N": ("C", "concat")}


def wrap(c, body, ids):
    """statement for construct c around block body"""
    if c == "F":
        return ("F", ids["forv"], body, "multi") if ids.get("fmulti") else ("F", ids["forv"], body)
    if c == "K":
        return ("K", ids["k"], body)
    if c in BOUNDARY:
        return (BOUNDARY[c][0], body, BOUNDARY[c][1])
    return (c, body)


def nest_program(chain, exitk, raiser, coro_k=None, forv_mode=0):
    """Template family: chain of constructs; at each level  local a<close>; M; <construct>(...); M ;
    innermost: local z<close>; M; <exit>."""
    d = len(chain)
    nid = [0]

    def newv(level):
        nid[0] += 1
        i = nid[0]
        if raiser == "inner" and level == d:
            return ("r", i, 50 + i)
        if raiser == "outer" and level == 0:
            return ("r", i, 50 + i)
        if raiser == "all":
            return ("r", i, 50 + i)
        if raiser == "mid" and level == d // 2:
            return ("r", i, 50 + i)
        if raiser == "unclose-inner" and level == d:
            return ("u", i)
        if raiser == "unclose-outer" and level == 0:
            return ("u", i)
        if raiser == "unclose-mid" and level == d // 2 and 0 < level < d:
            return ("u", i)
        if raiser == "unclose-all":
            return ("u", i)
        return ("o", i)

    # label for goto-out: placed after the construct of the outermost level that is in the same function as the innermost
    same_fn_from = 0
    for i, c in enumerate(chain):
        if c in "CPK" or c in BOUNDARY:
            same_fn_from = i + 1
    def build(level):
        if level == d:
            stmts = [("L", newv(level)), ("M", 100 + level)]
            ret = None
            if exitk == "break":
                stmts.append(("B",))
            elif exitk == "goto":
                stmts.append(("G", 1))
            elif exitk == "cont":
                stmts.append(("G", 2))
            elif exitk == "return":
                ret = "R"
            elif exitk == "retcall":
                ret = ("T", ([("M", 300)], None))
            elif exitk == "gotoret":
                # a goto to a label that is followed by the block's return: the label is NOT an end-of-block label,
                # the variables are closed after the returned call, not at the goto
                stmts += [("I", ([("G", 3)], None)), ("M", 160), (":", 3)]
                ret = ("T", ([("M", 300)], None))
            elif exitk == "gotoret0":
                stmts += [("G", 3), (":", 3)]
                ret = ("T", ([("M", 300)], None))
            elif exitk == "error":
                stmts.append(("E", 7))
            elif exitk == "bad":
                stmts.append(("L", ("x", 99)))
            elif exitk == "yield":
                stmts.append(("Y",))
                stmts.append(("M", 150))
            return (stmts, ret)
        c = chain[level]
        inner = build(level + 1)
        ids = {"forv": [("o", 40 + level), ("p",), ("n",), ("r", 40 + level, 90 + level)][forv_mode % 4], "k": coro_k,
               "fmulti": (forv_mode // 4) % 2 == 1}
        stmts = [("L", newv(level)), ("M", 100 + level), wrap(c, inner, ids), ("M", 200 + level)]
        if exitk == "goto" and level == same_fn_from:
            stmts.append((":", 1))
            stmts.append(("M", 250))
        if exitk == "cont" and level == same_fn_from:
            # continue-style: the label is the last statement of this block (back label rule)
            stmts.append((":", 2))
        return (stmts, None)
    return build(0)


def chain_ok(chain, exitk):
    # break needs an enclosing loop in the same function as the innermost level
    tail = []
    for c in chain:
        if c in "CPK" or c in BOUNDARY:
            tail = []
        else:
            tail.append(c)
    if exitk == "break":
        return any(c in "WUF" for c in tail)
    return True


def enumerate_family(maxd):
    exits = ["fall", "break", "goto", "cont", "return", "retcall", "error", "bad", "gotoret", "gotoret0"]
    raisers = ["none", "inner", "outer"]
    n = 0
    for d in range(1, maxd + 1):
        for chain in itertools.product(CONSTRUCTS, repeat=d):
            for ex in exits:
                if not chain_ok(chain, ex):
                    continue
                for r in raisers:
                    n += 1
                    yield ("nest:%s:%s:%s" % ("".join(chain), ex, r), nest_program(chain, ex, r, forv_mode=n))
    # coroutine family: coroutine outermost, closed at its first / second yield or run to the end
    for d in range(0, maxd):
        for chain in itertools.product(CONSTRUCTS, repeat=d):
            for k in (0, 1, None):
                for r in ("none", "inner", "outer", "mid"):
                    n += 1
                    yield ("coro:%s:%s:%s" % ("".join(chain), k, r),
                           nest_program(("K",) + chain, "yield", r, coro_k=k, forv_mode=n))


def enumerate_boundary(maxd):
    """Go-boundary family: an error (or any other exit) of a function that runs as a callback of a Go function —
    the Go code either handles the error itself (load reader, debug hook, finaliser) or passes it on (sort comparator,
    gsub replacement, __tostring / __index / __concat called by Go code); plus values that lose __close after their
    declaration.  Invariant checked: when the Go code gets the error, the variables of the abandoned run have been
    closed with it (the close stack is back at its height before the call)."""
    exits = ["error", "fall", "return", "bad", "retcall"]
    n = 0
    for d in range(1, maxd + 1):
        for chain in itertools.product(CONSTRUCTS + "".join(BOUNDARY), repeat=d):
            if not any(c in BOUNDARY for c in chain):
                continue
            for ex in exits:
                for r in ("none", "inner", "outer"):
                    n += 1
                    yield ("bound:%s:%s:%s" % ("".join(chain), ex, r), nest_program(chain, ex, r, forv_mode=n))
    # values whose __close metamethod is removed after the declaration
    for d in range(0, maxd + 1):
        for chain in itertools.product(CONSTRUCTS + "QS", repeat=d):
            for ex in ["error", "fall", "break", "goto", "return", "retcall"]:
                if not chain_ok(chain, ex):
                    continue
                for r in ("unclose-inner", "unclose-outer", "unclose-mid", "unclose-all"):
                    if d == 0 and r != "unclose-inner":
                        continue
                    n += 1
                    yield ("uncl:%s:%s:%s" % ("".join(chain), ex, r), nest_program(chain, ex, r, forv_mode=n))
    # a coroutine whose body crosses a boundary, closed while suspended / run to the end (no yield under hook or gc)
    for d in range(1, maxd):
        for chain in itertools.product(CONSTRUCTS + "QSGT", repeat=d):
            if not any(c in BOUNDARY for c in chain):
                continue
            for k in (0, None):
                for r in ("none", "inner"):
                    n += 1
                    yield ("bcoro:%s:%s:%s" % ("".join(chain), k, r),
                           nest_program(("K",) + chain, "yield", r, coro_k=k, forv_mode=n))


class RandGen:
    """Random skeletons: every construct at random positions, labels unique per function, goto targets drawn from
    the labels of the function (so a good share is ill-scoped: compile errors must agree too)."""

    def __init__(self, rng):
        self.rng = rng
        self.vid = 0
        self.lab = 0

    def value(self):
        r = self.rng
        k = r.below(20)
        self.vid += 1
        if k < 9:
            return ("o", self.vid)
        if k < 13:
            return ("r", self.vid, 50 + self.vid)
        if k < 16:
            return ("p",)
        if k < 18:
            return ("n",)
        if k < 19:
            return ("x", self.vid)
        return ("o", self.vid)

    def function(self, depth, in_coro):
        labels = []
        gotos = []
        b = self.block(depth, False, in_coro, labels, gotos, True)
        # patch gotos: choose a label of this function (or a missing one, rarely)
        return self.patch(b, labels)

    def patch(self, b, labels):
        r = self.rng

        def pb(b):
            ret = b[1]
            return ([ps(s) for s in b[0]], ret)

        def ps(s):
            if s[0] == "G" and s[1] == -1:
                if labels and not r.chance(1, 12):
                    return ("G", r.choice(labels))
                return ("G", 999)
            if s[0] in "DWUI":
                return (s[0], pb(s[1]))
            if s[0] == "F":
                return ("F", s[1], pb(s[2])) + tuple(s[3:])
            return s
        return pb(b)

    def block(self, depth, in_loop, in_coro, labels, gotos, fbody):
        r = self.rng
        n = r.geometric(3, 6) + (1 if fbody else 0)
        stmts = []
        for _ in range(n):
            k = r.below(100)
            if k < 22:
                stmts.append(("L", self.value()))
            elif k < 34:
                stmts.append(("M", r.below(90)))
            elif k < 40 and depth > 0:
                stmts.append(("D", self.block(depth - 1, in_loop, in_coro, labels, gotos, False)))
            elif k < 48 and depth > 0:
                stmts.append((r.choice("WU"), self.block(depth - 1, True, in_coro, labels, gotos, False)))
            elif k < 53 and depth > 0:
                fs = ("F", self.value(), self.block(depth - 1, True, in_coro, labels, gotos, False))
                stmts.append(fs + ("multi",) if r.chance(1, 3) else fs)
            elif k < 62 and depth > 0:
                stmts.append(("I", self.block(depth - 1, in_loop, in_coro, labels, gotos, False)))
            elif k < 67 and depth > 0:
                stmts.append(("C", self.function(depth - 1, in_coro)))
            elif k < 73 and depth > 0:
                stmts.append(("P", self.function(depth - 1, in_coro)))
            elif k < 76 and depth > 0:
                stmts.append(("K", r.choice([None, 0, 0, 1, 2]), self.function(depth - 1, True)))
            elif k < 80:
                if in_loop or r.chance(1, 10):
                    stmts.append(("I", ([("B",)], None)) if r.chance(2, 3) else ("B",))
            elif k < 86:
                self.lab += 1
                labels.append(self.lab)
                stmts.append((":", self.lab))
            elif k < 92:
                g = ("G", -1)
                stmts.append(("I", ([g], None)) if r.chance(3, 4) else g)
            elif k < 95:
                stmts.append(("I", ([("E", r.below(9) + 1)], None)) if r.chance(1, 2) else ("E", r.below(9) + 1))
            elif k < 98 and in_coro:
                stmts.append(("Y",))
        ret = None
        k = r.below(10)
        if k == 0:
            ret = "R"
        elif k == 1 and depth > 0:
            ret = ("T", self.function(depth - 1, in_coro))
        return (stmts, ret)


def has_closed_yield_under_pcall(b, in_coro_closed=False, under_pcall=False):
    """defect class of the known finding: a yield of a coroutine that gets closed, lexically under a pcall of that coroutine"""
    for s in b[0]:
        k = s[0]
        if k == "Y" and in_coro_closed and under_pcall:
            return True
        if k in "DWUI" and has_closed_yield_under_pcall(s[1], in_coro_closed, under_pcall):
            return True
        if k == "F" and has_closed_yield_under_pcall(s[2], in_coro_closed, under_pcall):
            return True
        if k == "C" and has_closed_yield_under_pcall(s[1], in_coro_closed, under_pcall):
            return True
        if k == "P" and has_closed_yield_under_pcall(s[1], in_coro_closed, True):
            return True
        if k == "K" and has_closed_yield_under_pcall(s[2], s[1] is not None, False):
            return True
    if b[1] not in (None, "R") and has_closed_yield_under_pcall(b[1][1], in_coro_closed, under_pcall):
        return True
    return False


def labels_first(b):
    """FragL.fragBl false: in every block the label statements precede the block's first local
    (informational: compile_correct is proved for the whole language; this only classifies generated programs)"""
    seen_local = False
    for s in b[0]:
        k = s[0]
        if k == ":" and seen_local:
            return False
        if k == "L":
            seen_local = True
        if k in "DWUICP" and not labels_first(s[1]):
            return False
        if k in "FK" and not labels_first(s[2]):
            return False
    if b[1] not in (None, "R") and not labels_first(b[1][1]):
        return False
    return True


LIMIT_PROGRAMS = [
    # the nesting of Lua runs started from Go code (pcall, metamethods, load readers, ...) is bounded
    # (maxGoFunctionCallDepth); the variables pending when the bound is hit are still closed exactly once
    ("limit:pcall", """local n = 0
local function rec() n = n + 1 local x <close> = mk(n) local ok, e = pcall(rec) if not ok then error(e, 0) end end
emit("p", pcall(rec))
"""),
    ("limit:index-metamethod", """local n = 0
local t = setmetatable({}, {__index = function(t, k) n = n + 1 local x <close> = mk(n) return t[k] end})
emit("p", pcall(function() return t.x end))
"""),
    ("limit:load-reader", """local n = 0
local function rec() n = n + 1 local x <close> = mk(n) load(rec) end
emit("p", pcall(rec))
"""),
    ("limit:tostring", """local n = 0
local o
o = setmetatable({}, {__tostring = function() n = n + 1 local x <close> = mk(n) return tostring(o) end})
emit("p", pcall(tostring, o))
"""),
]


def bracket_predicates(evs):
    """exactly once / reverse order / nothing pending, on a trace whose errors are runtime errors (no raise events)"""
    pend, nopen = [], 0
    for i, e in enumerate(evs.split(",")):
        if e[0] == "o":
            pend.append(e[1:])
            nopen += 1
        elif e[0] == "c":
            vid = e[1:].split(":", 1)[0]
            if not pend:
                return nopen, "event %d: close of %s with nothing pending (closed twice?)" % (i, vid)
            if pend[-1] != vid:
                return nopen, "event %d: close of %s but the innermost pending variable is %s" % (i, vid, pend[-1])
            pend.pop()
    if pend:
        return nopen, "end: %d variable(s) never closed, innermost %s" % (len(pend), pend[-1])
    return nopen, None


def limit_check(ck, gvh):
    lines = ["l%d %s -" % (i, src.encode().hex()) for i, (_, src) in enumerate(LIMIT_PROGRAMS)]
    out = vlib.run_lines_resilient(gvh, [], lines, per_case_timeout=60)
    for (name, src), g in zip(LIMIT_PROGRAMS, out):
        ck.count("family:limit")
        if " I:" not in g:
            ck.violation("golua crashed or hung at the re-entry limit: " + g[:200], {"kind": "crash", "lua": src, "family": name})
            continue
        gd = parse_oracle(g)
        gt = canon_trace(gd["T"])
        nopen, fail = bracket_predicates(gt)
        ck.case(name + "/" + src, nontrivial=nopen > 100)
        if fail is None and nopen < 100:
            fail = "the program did not reach the nesting limit (%d variables declared)" % nopen
        if fail:
            ck.violation("to-be-closed property fails on golua at the limit of nested Lua runs: " + fail,
                         {"kind": "Go!=S", "engine": "close", "family": name, "lua": src, "variables_declared": nopen,
                          "failed_predicate": fail, "go_trace_tail": gt[-300:],
                          "theorems": ["C10_close_exactly_once", "C10_close_reverse_order"]})


def parse_oracle(line):
    f = line.split(" ")
    d = {"id": f[0]}
    for t in f[1:]:
        d[t[0]] = t[2:]
    return d


def build(ck):
    ov = os.environ.get("C10_OVERLAY")     # mutation experiments: go build -overlay
    gvh, err = ck.build_gvh(pkg="./cmd/gvh-close", name="gvh_close" + ("_mut" if ov else ""), overlay=ov)
    if gvh is None:
        ck.violation("harness gvh-close does not build against /repo", {"kind": "build", "stderr": err[-3000:]}, no_input=True)
        return None, None
    oracle = ck.build_oracle("close")
    if oracle is None:
        ck.violation("oracle (extracted model) does not build", {"kind": "build"}, no_input=True)
        return None, None
    return gvh, oracle


def evaluate(ck, gvh, oracle, cases):
    """cases: list of (family, block, decisions). Returns list of result dicts."""
    olines = ["c%d %d %s %s" % (i, FUEL, ds or "-", enc_block(b)) for i, (_, b, ds) in enumerate(cases)]
    rc, mout, e2 = vlib.run_lines(oracle, [], olines, timeout=3000)
    if rc != 0 or len(mout) != len(olines):
        ck.violation("oracle crashed (%d/%d lines)" % (len(mout), len(olines)), {"kind": "oracle-crash", "stderr": e2[-2000:]}, no_input=True)
        return []
    model = [parse_oracle(l) for l in mout]
    glines = []
    for i, (_, b, ds) in enumerate(cases):
        src = lua_program(b)
        run = model[i]["R"] != "FUEL"
        glines.append("c%d %s %s%s" % (i, src.encode().hex(), ds or "-", "" if run else " norun"))
    # feed the Go side in chunks: one long-lived process accumulates address space over tens of
    # thousands of fresh runtimes and eventually hits the runner's ulimit -v (a harness artefact,
    # seen once in the thorough tier: "runtime: out of memory" after ~19 000 cases)
    gout = []
    CH = 4000
    for k in range(0, len(glines), CH):
        gout += vlib.run_lines_resilient(gvh, [], glines[k:k + CH], per_case_timeout=10)
    res = []
    for i, (fam, b, ds) in enumerate(cases):
        g = gout[i] if i < len(gout) else "c%d CRASH" % i
        gd = parse_oracle(g) if " I:" in g else {"id": "c%d" % i, "crash": g}
        res.append({"family": fam, "block": b, "ds": ds, "model": model[i], "go": gd, "src": None})
    return res


def judge(ck, r, counters):
    """Compare one case; returns list of (kind, message)."""
    m, g, b = r["model"], r["go"], r["block"]
    diffs = []
    if "crash" in g:
        return [("crash", "golua crashed or hung: " + g["crash"][:200])]
    # (a) instruction level
    gi = g["I"]
    if gi.startswith("COMPILE_ERROR") or gi.startswith("PARSE_ERROR") or gi.startswith("GOPANIC"):
        gi_c = "NOCOMPILE"
        if gi.startswith("GOPANIC"):
            diffs.append(("crash", "compiler panicked: " + unhex(gi.split(":", 1)[1])[:200]))
    else:
        gi_c = gi
    if gi_c != m["I"]:
        diffs.append(("ir", "IR differs: go=%s model=%s" % (gi[:300], m["I"][:300])))
    if gi_c == "NOCOMPILE":
        counters["nocompile"] += 1
        return diffs
    if m["R"] == "FUEL" or g.get("S") == "skipped":
        counters["fuel"] += 1
        return diffs
    # (b) behaviour
    gt = canon_trace(g["T"])
    ref_ev = m["R"].split("|")[0]
    vm_ev = m["V"].split("|")[0] if "|" in m["V"] else m["V"]
    uids = unclosed_ids(b)
    if uids:
        # values that lost __close: the models ran a raising handler in their place
        ref_ev, vm_ev = unclose_expected(ref_ev, uids), unclose_expected(vm_ev, uids)
    if vias(b) & {"hook", "gc"}:
        # these boundaries drop the error: what the protected calls report is not compared in such programs
        star = lambda ev: re.sub(r"(^|,)p[^,]*", r"\1p*", ev)
        gt, ref_ev, vm_ev = star(gt), star(ref_ev), star(vm_ev)
    r["gotrace"] = gt
    r["expected"] = ref_ev
    if g["S"] != "ok":
        diffs.append(("status", "chunk ended with status %s (%s)" % (g["S"], unhex(g["E"]) if g["E"] != "-" else "")))
    pf = [] if uids else trace_predicates(gt)     # (a missing __close raises without an event: no independent predicate)
    if pf:
        diffs.append(("pred", pf[0]))
    if gt != ref_ev:
        diffs.append(("ref", "trace differs from the reference semantics: go=%s ref=%s" % (gt, ref_ev)))
    if gt != vm_ev:
        diffs.append(("vm", "trace differs from the close-stack VM model: go=%s vm=%s" % (gt, vm_ev)))
    if vm_ev != ref_ev:
        counters["vm_ne_ref"] += 1
    return diffs


def shrink_block(b, still, budget=60):
    """greedy AST reduction: drop statements / unwrap constructs while the failure persists"""
    changed = True
    while changed and budget > 0:
        changed = False
        for cand in reductions(b):
            budget -= 1
            if budget <= 0:
                break
            if still(cand):
                b = cand
                changed = True
                break
    return b


def reductions(b):
    stmts, ret = b
    for i in range(len(stmts)):
        yield (stmts[:i] + stmts[i + 1:], ret)
    if ret is not None:
        yield (stmts, None)
    for i, s in enumerate(stmts):
        if s[0] in "DWUICP":
            for sub in reductions(s[1]):
                yield (stmts[:i] + [(s[0], sub) + tuple(s[2:])] + stmts[i + 1:], ret)
            if s[0] in "DI":
                yield (stmts[:i] + list(s[1][0]) + stmts[i + 1:], ret if s[1][1] is None else ret)
        elif s[0] == "F":
            for sub in reductions(s[2]):
                yield (stmts[:i] + [("F", s[1], sub) + tuple(s[3:])] + stmts[i + 1:], ret)
        elif s[0] == "K":
            for sub in reductions(s[2]):
                yield (stmts[:i] + [("K", s[1], sub)] + stmts[i + 1:], ret)
        elif s[0] == "L" and s[1][0] in "ru":
            yield (stmts[:i] + [("L", ("o", s[1][1]))] + stmts[i + 1:], ret)
    if ret not in (None, "R"):
        for sub in reductions(ret[1]):
            yield (stmts, ("T", sub))


def run(tier, seed):
    ck = vlib.Check("C10", tier, seed, level="proof")
    ok_obl = ck.obligations(PROP, clean=False)
    gvh, oracle = build(ck)
    if gvh is None:
        return ck.finish("n/a", TRUSTED, [])
    rng = ck.rng

    cases = []
    corpus = os.path.join(vlib.VERIF, "corpus", "C10")
    ncorpus = 0
    if os.path.isdir(corpus):
        for fn in sorted(os.listdir(corpus)):
            for l in open(os.path.join(corpus, fn)):
                l = l.strip()
                if l and not l.startswith("#"):
                    name, ds, prog = l.split()
                    cases.append(("corpus:" + name, dec_block(prog), "" if ds == "-" else ds))
                    ncorpus += 1
    fam = list(enumerate_family(4))
    total_family = len(fam)
    if tier == "quick":
        # all of depth <= 2, a sample of the rest
        small = [x for x in fam if len(x[0].split(":")[1]) <= 2]
        big = [x for x in fam if len(x[0].split(":")[1]) > 2]
        want = max(0, 2500 - len(small))
        step = max(1, len(big) // want) if want else len(big)
        off = rng.below(step)
        fam = small + big[off::step]
    for name, b in fam:
        nd = 2 + rng.below(6)
        ds = "".join("1" if rng.chance(3, 4) else "0" for _ in range(nd))
        cases.append((name, b, ds))
    # Go-boundary family (callbacks of Go functions, values that lose __close): all of depth 1, a sample of the rest
    def bound_ok(name):
        ch = name.split(":")[1]
        return sum(ch.count(x) for x in "HZ") <= 1     # hooks are off inside a hook; one finaliser at a time
    bfam = [x for x in enumerate_boundary(2 if tier == "quick" else 3) if bound_ok(x[0])]
    total_boundary = len(bfam)
    bsmall = [x for x in bfam if len(x[0].split(":")[1]) <= 1]
    bbig = [x for x in bfam if len(x[0].split(":")[1]) > 1]
    want = 400 if tier == "quick" else 12000
    step = max(1, len(bbig) // want)
    boff = rng.below(step)
    bfam = bsmall + bbig[boff::step]
    if tier == "quick":
        # a finaliser boundary costs several full collections per program: keep one in three
        bfam = [x for i, x in enumerate(bfam) if "Z" not in x[0].split(":")[1] or i % 3 == 0]
    for name, b in bfam:
        nd = 2 + rng.below(6)
        ds = "".join("1" if rng.chance(3, 4) else "0" for _ in range(nd))
        cases.append((name, b, ds))
    nfam = len(cases) - ncorpus
    nrand = 1500 if tier == "quick" else 40000
    for i in range(nrand):
        g = RandGen(rng)
        b = g.function(3, False)
        nd = rng.below(10)
        ds = "".join("1" if rng.chance(2, 3) else "0" for _ in range(nd))
        cases.append(("rand", b, ds))
    ck.log("cases: corpus %d, template family %d of %d, random %d" % (ncorpus, nfam, total_family, nrand))

    results = evaluate(ck, gvh, oracle, cases)
    counters = {"nocompile": 0, "fuel": 0, "vm_ne_ref": 0}
    known = {k["id"]: k for k in ck.known}
    nviol = 0
    kinds = {}
    first_im = None
    for r in results:
        b = r["block"]
        canon = enc_block(b, True) + "/" + r["ds"]
        diffs = judge(ck, r, counters)
        fam0 = r["family"].split(":")[0]
        ck.count("family:" + fam0)
        if fam0 in ("nest", "coro"):
            ck.count("exit:" + r["family"].split(":")[2])
        for v in sorted(vias(b)):
            ck.count("go boundary:" + v)
        if unclosed_ids(b):
            ck.count("value loses __close after declaration")
        gt = r.get("gotrace", "-")
        ck.case(canon, nontrivial=("c" in gt))
        ck.count("closes_in_trace:%s" % min(gt.count("c"), 6))
        if r["model"]["I"] != "NOCOMPILE":
            ck.count("program:" + ("labels first" if labels_first(b) else "labels after a local / back labels"))
        if r["model"]["I"] == "NOCOMPILE":
            ck.count("outcome:compile_error")
        elif r["model"]["R"] == "FUEL":
            ck.count("outcome:diverges(IR only)")
        else:
            ck.count("outcome:" + ("pcall_error" if ",pu" in gt or ",pm" in gt or gt.endswith("pm") else "ok"))
        if not diffs:
            continue
        # known finding: coroutine.close does not run the handlers pending inside a pcall of the closed coroutine
        kf = known.get("C10-coroutine-close-skips-pcall-frames")
        dk = set(k for k, _ in diffs)
        if kf and kf.get("status") == "open" and has_closed_yield_under_pcall(b) and dk <= {"ref", "pred"} \
                and r["model"]["V"].split("|")[0] == gt and gt.count("c") < r["model"]["R"].split("|")[0].count("c"):
            ck.known_finding(kf)
            continue
        for k, _ in diffs:
            kinds[k] = kinds.get(k, 0) + 1
        property_level = dk & {"ref", "pred", "crash", "status"}
        if property_level:
            nviol += 1
            if nviol <= 3:
                def still(cand, ds=r["ds"]):
                    rr = evaluate(ck, gvh, oracle, [("shrink", cand, ds)])
                    if not rr:
                        return False
                    dd = set(k for k, _ in judge(ck, rr[0], {"nocompile": 0, "fuel": 0, "vm_ne_ref": 0}))
                    return bool(dd & property_level) and not (has_closed_yield_under_pcall(cand) and kf)
                small = shrink_block(b, still)
                rr = evaluate(ck, gvh, oracle, [("shrunk", small, r["ds"])])
                dd = judge(ck, rr[0], {"nocompile": 0, "fuel": 0, "vm_ne_ref": 0}) if rr else diffs
                ck.violation("to-be-closed property fails on golua: " + next((m for k, m in (dd or diffs) if k in ("ref", "pred", "crash", "status")), (dd or diffs)[0][1])[:300],
                             {"kind": "Go!=S", "engine": "close", "program": enc_block(small, True), "decisions": r["ds"],
                              "lua": lua_program(small), "go_trace": rr[0].get("gotrace") if rr else None,
                              "reference_trace": rr[0]["model"]["R"] if rr else None,
                              "differences": [m for _, m in dd][:6], "family": r["family"],
                              "theorems": ["C10_close_exactly_once", "C10_close_reverse_order", "C10_close_before_receiver",
                                           "C10_close_gets_inflight_error", "C10_handler_error_replaces_and_rest_still_run"]})
        elif first_im is None:
            first_im = (r, diffs)
    limit_check(ck, gvh)
    if first_im is not None and nviol == 0 and not ck.violations:
        r, diffs = first_im
        ck.violation("golua no longer matches the Coq models Close/Compile.v / Close/VMclose.v (%s); behaviour still equals the reference semantics on every generated program"
                     % ", ".join("%s:%d" % kv for kv in sorted(kinds.items())),
                     {"kind": "Go!=IM", "correspondence": "Go≈IM/close (instruction stream / close-stack VM)",
                      "program": enc_block(r["block"], True), "decisions": r["ds"], "lua": lua_program(r["block"]),
                      "differences": [m for _, m in diffs][:6], "counts": kinds,
                      "theorems_no_longer_about_this_code": THEOREMS_IM}, no_input=True)
    if not ok_obl:
        ck.violation("proof obligations of C10 no longer check: " + str(ck.cov.get("obligation_failure", ""))[:300],
                     {"kind": "proof", "theorem_file": PROP, "detail": ck.cov.get("obligation_failure")}, no_input=(nviol == 0))
    for i in (0, ncorpus + 7, ncorpus + nfam // 2, ncorpus + nfam + 3):
        if 0 <= i < len(results):
            r = results[i]
            ck.sample({"family": r["family"], "program": enc_block(r["block"], True), "decisions": r["ds"],
                       "go_ir": r["go"].get("I", "")[:300], "go_trace": r.get("gotrace"), "reference": r["model"]["R"]})
    ck.cov["difference_kinds"] = kinds
    ck.cov["template_family_total"] = total_family
    ck.cov["template_family_run"] = nfam
    ck.cov["boundary_family_total"] = total_boundary
    ck.cov["boundary_family_run"] = len(bfam)
    ck.cov["exhaustive"] = (tier != "quick")
    ck.cov["model_vm_differs_from_reference"] = counters["vm_ne_ref"]
    ck.cov["compile_errors_agreed"] = counters["nocompile"]
    return ck.finish(
        rule="template family: chains (depth<=4) over do/while/repeat/for-in/function/pcall with a <close> variable and marks at every level "
             "x exit kind at the innermost level (fall off, break, goto out, goto continue-label, return, return f(), error, non-closable value) "
             "x raising handler (none/inner/outer), plus coroutine-outermost chains closed at the 1st/2nd yield or run to the end "
             "(%d programs; quick: all of depth<=2 + sample); random skeletons (depth<=3, all constructs, gotos to random labels incl. ill-scoped); "
             "Go-boundary family: the same chains with levels that run as CALLBACKS OF GO FUNCTIONS — load reader, debug hook, __gc finaliser "
             "(the Go code handles the error itself) and sort comparator, gsub replacement, __tostring/__index/__concat (the error goes on) — "
             "x exit (error, fall off, return, return f(), non-closable) x raising handler, values whose __close is removed after the declaration "
             "(x every exit kind), coroutines closed while suspended under such a callback; "
             "non-trivial = at least one __close call observed on golua; distinct by program+decisions" % total_family,
        trusted_base=TRUSTED,
        assumptions=["handlers are atomic (record, optionally raise); the only metatable change is the removal of __close right after a declaration",
                     "programs run under pcall on the main thread",
                     "in programs with a hook or finaliser boundary (which drop the error) what the protected calls report is not compared",
                     "programs on which the reference semantics runs out of fuel (%d steps) are compared at instruction level only" % FUEL])


def dec_block(s):
    """parser of the oracle's program syntax -> block"""
    pos = [0]

    def peek():
        return s[pos[0]] if pos[0] < len(s) else ""

    def num():
        m = re.match(r"\d+", s[pos[0]:])
        pos[0] += len(m.group(0))
        return int(m.group(0))

    def val():
        c = peek()
        pos[0] += 1
        if c in "pn":
            return (c,)
        if c == "o":
            return ("o", num())
        if c == "x":
            return ("x", num())
        if c == "u":
            return ("u", num())
        i = num()
        pos[0] += 1
        return ("r", i, num())

    def paren():
        pos[0] += 1
        b = block()
        pos[0] += 1
        return b

    def block():
        stmts = []
        while True:
            c = peek()
            if c in ")" or c == "":
                return (stmts, None)
            if c == "R":
                pos[0] += 1
                return (stmts, "R")
            if c == "T":
                pos[0] += 1
                return (stmts, ("T", paren()))
            stmts.append(stmt())
            if peek() == ";":
                pos[0] += 1

    def stmt():
        c = peek()
        pos[0] += 1
        if c == "L":
            return ("L", val())
        if c in "DWUICP":
            if peek() == "@":
                m = re.match(r"@([a-z]+)", s[pos[0]:])
                pos[0] += len(m.group(0))
                return (c, paren(), m.group(1))
            return (c, paren())
        if c == "F":
            multi = s[pos[0]:].startswith("@multi")
            if multi:
                pos[0] += 6
            v = val()
            return ("F", v, paren(), "multi") if multi else ("F", v, paren())
        if c == "K":
            if peek() == "-":
                pos[0] += 1
                k = None
            else:
                k = num()
            return ("K", k, paren())
        if c in "G:ME":
            return (c, num())
        return (c,)
    return block()


def replay(path, seed):
    r = json.load(open(path))
    ck = vlib.Check("C10", "quick", seed)
    gvh, oracle = build(ck)
    prog, ds = r["program"], r.get("decisions", "")
    _, mout, _ = vlib.run_lines(oracle, [], ["r %d %s %s" % (FUEL, ds or "-", prog)])
    print("model:", mout[0] if mout else None)
    if True:
        src = r.get("lua") or lua_program(dec_block(prog))
        print(src)
        gout = vlib.run_lines_resilient(gvh, [], ["r %s %s" % (src.encode().hex(), ds or "-")])
        print("go   :", gout[0] if gout else None)
        if gout and " T:" in gout[0]:
            gt = canon_trace(parse_oracle(gout[0])["T"])
            print("go trace  :", gt)
            print("predicates:", trace_predicates(gt))
    return 0
