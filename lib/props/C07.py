# C07 — nested execution contexts conserve budgets and report status truthfully.
#
#  proof obligations : coq/theories/Properties/C07.v (model Ctx/Model.v, Ctx/NestModel.v)
#  correspondence    : gvh ctx (real runtimeContextManager through the exported API)
#                      vs oracle/ctx (extracted model), whole context chain after every op
#  property-level    : independent predicates on the Go output (budget, flags, soft<=hard,
#                      used<kill, pop charges parent, status) — the search for a failing
#                      input when the correspondence or a proof breaks
import itertools
import json
import re

from lib import vlib

M64 = (1 << 64) - 1
PROP = ["Properties/C07.v"]
TRUSTED = [
    "Coq 8.16.1 kernel (coqc); vm_compute only in Example/refuted witnesses",
    "no axioms (Print Assumptions: closed under the global context for every C07 theorem)",
    "extraction: ExtrOcamlBasic only, no Extract Constant; positive/N/Z kept as Coq datatypes",
    "oracle/common/proto.ml + oracle/ctx/driver.ml (text protocol glue), OCaml 4.13.1",
    "Go harness harness/cmd/gvh/ctx.go; Python generator/diff in lib/props/C07.py",
    "time limits: the manager's clock is replaced at BUILD time (go build -overlay of runtime/runtimecontextmanager.go regenerated from the current source by vlib.clock_overlay; /repo untouched) so that histories with Millis limits are compared exactly; the real clock and Go scheduling are not modelled",
    "modelled not verified: GC pool switching in Push/PopContext; coroutines x contexts are modelled only as far as required flags (Ctx/CoroModel.v)",
]


def hexs(v):
    return "%x" % v


def op_str(op):
    return " ".join([op[0]] + [hexs(x) for x in op[1:]])


def enum_alphabet():
    ops = []
    for hc, hm, sc, fl in itertools.product([0, 1, 3], [0, 2], [0, 2], [0, 4]):
        ops.append(("P", hc, hm, sc, 0, fl, 0))
    ops += [("C", a) for a in (0, 1, 2, 3, M64)]
    ops += [("M", a) for a in (1, 3)]
    ops += [("R", a) for a in (1, 3)]
    ops += [("S", l) for l in (1, 2)]
    ops.append(("O",))
    return ops


def rand_val(rng, small):
    k = rng.below(10)
    if k < 6:
        return rng.below(small)
    if k == 6:
        return 0
    if k == 7:
        return rng.choice([1 << 63, (1 << 63) - 1, (1 << 63) + 1, M64 - 1, M64, 1 << 62, (1 << 32)])
    return rng.below(4 * small)


def rand_history(rng, extreme):
    n = 3 + rng.geometric(14, 60)
    small = 24
    ops = []
    depth = 0
    for _ in range(n):
        k = rng.below(100)
        if k < 22:
            lim = lambda: (rand_val(rng, small) if rng.chance(2, 3) else 0)
            hc, hm, sc, sm = lim(), lim(), lim(), lim()
            if not extreme:
                hc, hm, sc, sm = hc & 0xFFFF, hm & 0xFFFF, sc & 0xFFFF, sm & 0xFFFF
            ops.append(("P", hc, hm, sc, sm, rng.below(16) if rng.chance(1, 3) else 0, rng.below(2)))
            depth += 1
        elif k < 38 and depth > 0:
            ops.append(("O",))
            depth -= 1
        elif k < 40:
            ops.append(("O",))
        elif k < 68:
            a = rand_val(rng, 10)
            ops.append(("C", a if extreme else a & 0xFFFF))
        elif k < 84:
            a = rand_val(rng, 10)
            ops.append(("M", a if extreme else a & 0xFFFF))
        elif k < 95:
            a = rand_val(rng, 10)
            ops.append(("R", a if extreme else a & 0xFFFF))
        else:
            ops.append(("S", rng.choice([1, 1, 2, 3])))
    return ops


def parse_ctx(s):
    f = s.split(",")
    return {"hc": int(f[0], 16), "hm": int(f[1], 16), "sc": int(f[2], 16), "sm": int(f[3], 16),
            "uc": int(f[4], 16), "um": int(f[5], 16), "fl": int(f[6], 16), "st": f[7], "due": f[8] == "1"}


def parse_out(line):
    """'id res|res|...' -> list of (outcome, chain, ret)"""
    i = line.index(" ")
    res = []
    for part in line[i + 1:].split("|"):
        toks = part.split(" ")
        outcome = toks[0]
        chain = [parse_ctx(x) for x in toks[1].split("/")]
        ret = None
        if len(toks) > 2 and toks[2].startswith("ret="):
            ret = parse_ctx(toks[2][4:])
        res.append((outcome, chain, ret))
    return res


def lim_le(a, b):
    return b == 0 or (0 < a <= b)


def at_limit(v, l):
    return l > 0 and v >= l


def property_predicates(ops, states):
    """Independent statement of C07 on the implementation's observable state.
    Returns a list of failure descriptions (empty = property holds on this history)."""
    fails = []
    prev = [{"hc": 0, "hm": 0, "sc": 0, "sm": 0, "uc": 0, "um": 0, "fl": 0, "st": "live", "due": False}]
    any_stop = False
    disciplined = True   # no work was requested in a context that is not live (what CallContext guarantees)
    for idx, (op, (outcome, chain, ret)) in enumerate(zip(ops, states)):
        if op[0] == "S":
            any_stop = True
        if op[0] in ("C", "M") and prev[0]["st"] != "live":
            disciplined = False
        cur = chain[0]
        # soft <= hard for every context on the chain
        for c in chain:
            if not lim_le(c["sc"], c["hc"]) or not lim_le(c["sm"], c["hm"]):
                fails.append("op %d: soft limit above hard limit" % idx)
            if c["st"] == "live":
                if (c["hc"] > 0 and c["uc"] >= c["hc"]) or (c["hm"] > 0 and c["um"] >= c["hm"]):
                    fails.append("op %d: live context with used >= kill" % idx)
        # flags grow along the chain
        for child, parent in zip(chain, chain[1:]):
            if parent["fl"] & ~child["fl"]:
                fails.append("op %d: child flags do not include parent's" % idx)
        if op[0] == "P" and outcome == "ok" and len(chain) == len(prev) + 1:
            p = prev[0]
            for h, u, req in (("hc", "uc", op[1]), ("hm", "um", op[2])):
                if p["st"] == "live" and p[h] > 0:
                    if not (0 < cur[h] <= p[h] - p[u]):
                        fails.append("op %d: child %s=%d exceeds parent's remaining %d" % (idx, h, cur[h], p[h] - p[u]))
                if not lim_le(cur[h], req):
                    fails.append("op %d: child %s=%d above requested %d" % (idx, h, cur[h], req))
            want = p["fl"] | op[5] | (2 if op[1] > 0 else 0) | (1 if op[2] > 0 else 0)
            if want & ~cur["fl"]:
                fails.append("op %d: child flags %x miss %x" % (idx, cur["fl"], want))
            if cur["st"] != "live" or cur["uc"] != 0 or cur["um"] != 0:
                fails.append("op %d: fresh context not live/zero" % idx)
        if op[0] == "O" and outcome == "ok" and len(prev) > 1 and len(chain) == len(prev) - 1:
            child, p = prev[0], prev[1]
            if ret is None:
                fails.append("op %d: pop returned no context" % idx)
            else:
                if ret["st"] == "live":
                    fails.append("op %d: popped context still reports live" % idx)
                want = "done" if child["st"] == "live" else child["st"]
                if ret["st"] != want:
                    fails.append("op %d: popped context status %s, expected %s" % (idx, ret["st"], want))
                if ret["uc"] != child["uc"] or ret["um"] != child["um"]:
                    fails.append("op %d: popped context used differs" % idx)
            within = (child["hc"] == 0 or child["uc"] < child["hc"]) and (child["hm"] == 0 or child["um"] < child["hm"])
            if p["st"] == "live" and within:
                if p["hc"] > 0 and cur["uc"] != p["uc"] + child["uc"]:
                    fails.append("op %d: parent cpu not charged with child's use" % idx)
                if p["hm"] > 0 and cur["um"] != p["um"] + child["um"]:
                    fails.append("op %d: parent mem not charged with child's use" % idx)
            if disciplined and ret is not None:
                if (ret["hc"] > 0 and ret["uc"] > ret["hc"]) or (ret["hm"] > 0 and ret["um"] > ret["hm"]):
                    fails.append("op %d: returned context reports used > kill" % idx)
        # due
        reach = at_limit(cur["uc"], cur["sc"]) or at_limit(cur["um"], cur["sm"])
        if reach and not cur["due"]:
            fails.append("op %d: soft limit reached but not due" % idx)
        if not any_stop and cur["due"] and not reach:
            fails.append("op %d: due without soft limit reached or stop request" % idx)
        # status transitions
        if outcome.startswith("term") and len(chain) == len(prev):
            # the context that was terminated is the current one, except when PopContext
            # terminated the parent while charging it (the child then stays current)
            victim = chain[1] if (op[0] == "O" and len(chain) > 1) else cur
            if victim["st"] != "killed":
                fails.append("op %d: termination but context not killed" % idx)
        prev = chain
    return fails


def shrink(ops, still_fails):
    """Delta-debug an op list."""
    ops = list(ops)
    changed = True
    budget = 120            # child-process runs
    while changed and budget > 0:
        changed = False
        for i in range(len(ops)):
            cand = ops[:i] + ops[i + 1:]
            budget -= 1
            if budget <= 0:
                break
            if cand and still_fails(cand):
                ops = cand
                changed = True
                break
    return ops



# ---------------------------------------------------------------------------------------------
# Lua level: nested runtime.callcontext / pcall / coroutine on the real runtime.  Independent
# predicates on what the context objects report (status truthful, used <= kill, child <= parent's
# remaining, soft <= hard, flags, charge to parent, stack balanced afterwards).

LUA_PRELUDE = """
local function rep(tag, c)
  emit(tag, c.status, c.kill.cpu or 0, c.used.cpu or 0, c.kill.memory or 0, c.used.memory or 0, c.stop.cpu or 0, c.flags, c.due)
end
local function work(n) local s=0 for i=1,n do s=s+i end return s end
local function guard(n) return setmetatable({}, {__close=function() emit('guard', work(n)) end}) end
"""
ENDINGS = {
    "normal": "emit('i-end') return 7",
    "error": "emit('i-before-error') error('E')",
    "loop": "emit('i-loop') while true do end",
}
BOUNDARY = {
    "direct": "%s",
    "pcall": "emit('pc', pcall(function() %s end))",
    "coro": "local co=coroutine.wrap(function() %s end) emit('co', pcall(co))",
}


def lua_case(rng):
    KO = rng.choice([800, 2000, 5000, 20000])
    KI = rng.choice([0, 0, 300, 1000, 3000, 50000])
    MI = rng.choice([0, 0, 0, 20000])
    SI = rng.choice([0, 0, 100, 100000])
    FI = rng.choice(["", "", "iosafe", "memsafe"])
    FO = rng.choice(["", "cpusafe", "iosafe"])
    pre = rng.choice([0, 10, 100])
    inner_work = rng.choice([0, 10, 60, 400])
    post = rng.choice([0, 10, 100])
    ending = rng.choice(list(ENDINGS))
    g = rng.choice([0, 0, 20, 2000])          # work done by a pending __close handler of the inner body
    bnd = rng.choice(list(BOUNDARY))
    idef = []
    kill = []
    if KI:
        kill.append("cpu=%d" % KI)
    if MI:
        kill.append("memory=%d" % MI)
    if kill:
        idef.append("kill={%s}" % ",".join(kill))
    if SI:
        idef.append("stop={cpu=%d}" % SI)
    if FI:
        idef.append("flags='%s'" % FI)
    inner_body = ("%s emit('i-start') emit('w', work(%d)) %s" %
                  (("local g<close> = guard(%d)" % g) if g else "", inner_work, ENDINGS[ending]))
    inner_call = ("local inner, x = runtime.callcontext({%s}, function() %s end) rep('inner', inner) emit('inner-ret', x)" %
                  (",".join(idef), BOUNDARY[bnd] % inner_body))
    odef = ["kill={cpu=%d}" % KO]
    if FO:
        odef.append("flags='%s'" % FO)
    src = (LUA_PRELUDE +
           "rep('top-before', runtime.context())\n"
           "local outer = runtime.callcontext({%s}, function() emit('o-start') emit('w', work(%d)) rep('outer-at-push', runtime.context()) %s "
           "rep('outer-live', runtime.context()) emit('w', work(%d)) emit('o-end') end)\n"
           "rep('outer', outer) rep('top-after', runtime.context())" % (",".join(odef), pre, inner_call, post))
    meta = {"KO": KO, "KI": KI, "MI": MI, "SI": SI, "FI": FI, "FO": FO, "ending": ending, "guard": g, "boundary": bnd}
    return src, meta


def dec_val(v):
    if v.startswith("s"):
        return "" if v == "s-" else bytes.fromhex(v[1:]).decode("utf-8", "replace")
    if v.startswith("i"):
        return int(v[1:])
    if v == "b1":
        return True
    if v == "b0":
        return False
    if v == "n":
        return None
    return v


def lua_predicates(meta, line):
    """Independent statement of C07 on what the Lua-visible context objects say."""
    f = line.split(" ")
    if f[1] in ("CRASH", "HANG", "gopanic"):
        return ["process %s" % f[1]]
    if f[1] not in ("ok",):
        return ["top-level chunk ended with status %s (%s)" % (f[1], line[:200])]
    evs = [[dec_val(v) for v in e.split(",")] for e in f[2][2:].split(";")] if f[2] != "T:-" else []
    reps = {}
    for e in evs:
        if e[0] in ("top-before", "outer-at-push", "inner", "outer-live", "outer", "top-after"):
            reps[e[0]] = dict(zip(["status", "kcpu", "ucpu", "kmem", "umem", "scpu", "flags", "due"], e[1:]))
    tags = [e[0] for e in evs]
    fails = []
    for tag, r in reps.items():
        if r["kcpu"] and r["ucpu"] > r["kcpu"]:
            fails.append("%s: used cpu %d exceeds kill %d" % (tag, r["ucpu"], r["kcpu"]))
        if r["kmem"] and r["umem"] > r["kmem"]:
            fails.append("%s: used memory %d exceeds kill %d" % (tag, r["umem"], r["kmem"]))
        if r["kcpu"] and not (0 < r["scpu"] <= r["kcpu"]):
            fails.append("%s: soft cpu limit %d not within hard limit %d" % (tag, r["scpu"], r["kcpu"]))
    if "outer" not in reps or "top-after" not in reps or "top-before" not in reps:
        return fails + ["missing reports: %s" % sorted(reps)]
    tb, ta, outer = reps["top-before"], reps["top-after"], reps["outer"]
    if (ta["status"], ta["kcpu"], ta["kmem"], ta["flags"]) != (tb["status"], tb["kcpu"], tb["kmem"], tb["flags"]) or ta["status"] != "live":
        fails.append("context stack not balanced: top-level context before %s, after %s" % (tb, ta))
    if outer["kcpu"] != meta["KO"]:
        fails.append("outer kill.cpu %s, requested %d" % (outer["kcpu"], meta["KO"]))
    if "cpusafe" not in outer["flags"].split():
        fails.append("outer context with a cpu limit lacks the cpusafe flag")
    if outer["status"] == "done" and "o-end" not in tags:
        fails.append("outer reports done but its body did not finish")
    # (the converse is not observable: the limit can be hit after the last emit, while returning)
    if "inner" in reps and "outer-at-push" in reps:
        inner, op = reps["inner"], reps["outer-at-push"]
        left = op["kcpu"] - op["ucpu"]
        if not (0 < inner["kcpu"] <= left + 0):
            # the parent used a little more between the report and the push, so kill <= left is the bound
            fails.append("inner kill.cpu %d exceeds what the parent had left (%d)" % (inner["kcpu"], left))
        if meta["KI"] and inner["kcpu"] > meta["KI"]:
            fails.append("inner kill.cpu %d above requested %d" % (inner["kcpu"], meta["KI"]))
        need = set(op["flags"].split()) | set(meta["FI"].split()) | ({"cpusafe"} if meta["KI"] else set()) | ({"memsafe"} if meta["MI"] else set())
        if not need <= set(inner["flags"].split()):
            fails.append("inner flags '%s' do not include %s" % (inner["flags"], sorted(need)))
        want = {"normal": ("done", "killed"), "error": ("error", "killed"), "loop": ("killed",)}[meta["ending"]]
        if meta["boundary"] != "direct":
            # the body's ending is absorbed by the pcall / coroutine boundary inside the context
            want = ("done", "killed", "error")
        if inner["status"] not in want:
            fails.append("inner status %s after a body ending by %s" % (inner["status"], meta["ending"]))
        ret = [e for e in evs if e[0] == "inner-ret"]
        if inner["status"] == "done" and meta["boundary"] == "direct" and (not ret or ret[0][1] != 7 or "i-end" not in tags):
            fails.append("inner reports done but did not return its result")
        if inner["status"] == "killed" and ret and ret[0][1] is not None:
            fails.append("inner reports killed but returned a value")
        if inner["status"] == "error" and "i-before-error" not in tags:
            fails.append("inner reports error but the error site was not reached")
        if inner["status"] == "killed" and meta["guard"] and "guard" in tags and meta["boundary"] == "direct":
            fails.append("to-be-closed handler ran in a killed context")
        if inner["due"] != (inner["scpu"] > 0 and inner["ucpu"] >= inner["scpu"]):
            fails.append("inner due=%s but used %d, stop %d" % (inner["due"], inner["ucpu"], inner["scpu"]))
        if "outer-live" in reps and reps["outer-live"]["ucpu"] < op["ucpu"] + inner["ucpu"]:
            fails.append("parent not charged with the child's use: before %d, child %d, after %d" % (op["ucpu"], inner["ucpu"], reps["outer-live"]["ucpu"]))
    return fails


def lua_stage(ck, gvh, n):
    cases = [lua_case(ck.rng) for _ in range(n)]
    lines = ["L%d %s" % (i, src.encode().hex()) for i, (src, _) in enumerate(cases)]
    outs = vlib.run_lines_resilient(gvh, ["lua"], lines, per_case_timeout=30)
    nviol = 0
    for (src, meta), o in zip(cases, outs):
        ck.case("lua:" + src, True)
        ck.count("lua:ending:" + meta["ending"])
        ck.count("lua:boundary:" + meta["boundary"])
        fails = lua_predicates(meta, o)
        if fails:
            nviol += 1
            if nviol <= 3:
                ck.violation("nested contexts at Lua level: " + fails[0],
                             {"kind": "Go!=S", "engine": "lua", "program": src, "params": meta, "output": o[:1500], "failed_predicates": fails})
    if cases:
        ck.sample({"lua_program": cases[0][0][-500:], "params": cases[0][1], "output": outs[0][:300]})
    return nviol


# ---------------------------------------------------------------------------------------------------------------
# coroutines x contexts (Ctx/CoroModel.v): programs with a main thread and 2-3 coroutines, each a tree of
# runtime.callcontext{flags} / pcall frames, resumes, yields and looks at runtime.context().flags.  The program
# logs the events in the order they happen; that history is replayed on the model INSIDE Coq (vm_compute on
# CoroModel.verdict), which says (1) whether the model reproduces what the implementation reported (flags in force at
# every look, flags of every returned context object), (2) whether those observations satisfy the property (every
# frame ends its own context; required flags in force), (3) whether the history is disciplined (no yield inside an
# open frame: the hypothesis of C07_coroutines_disciplined_contexts_sound).
FLAGBITS = {"memsafe": 1, "cpusafe": 2, "iosafe": 4, "timesafe": 8}
CORO_PRELUDE = (
    "local FB={memsafe=1,cpusafe=2,iosafe=4,timesafe=8} "
    "local function fnum(s) local n=0 for w in tostring(s):gmatch('%a+') do n=n+(FB[w] or 0) end return n end "
    "local NF=0 local CO={} "
    "local function cur() return fnum(runtime.context().flags) end "
)


def coro_items(rng, tid, nthreads, depth, budget):
    """-> (lua source, has_yield_inside_frame) for a sequence of items of thread tid at frame depth `depth`."""
    out = []
    n = 1 + rng.below(4)
    for _ in range(n):
        if budget[0] <= 0:
            break
        budget[0] -= 1
        k = rng.below(10)
        if k < 3 and depth < 3:
            body = coro_items(rng, tid, nthreads, depth + 1, budget)
            if rng.below(3) == 0:
                out.append("do local id=NF NF=NF+1 emit('push',%d,id,0) pcall(function() %s end) emit('xany',%d,id) end" % (tid, body, tid))
            else:
                fl = rng.choice(["", "iosafe", "cpusafe", "memsafe", "timesafe", "iosafe cpusafe", "memsafe timesafe"])
                req = sum(FLAGBITS[w] for w in fl.split())
                out.append("do local id=NF NF=NF+1 emit('push',%d,id,%d) local c=runtime.callcontext({flags='%s'},function() %s end) "
                           "emit('exit',%d,id,c and fnum(c.flags) or -1) end" % (tid, req, fl, body, tid))
        elif k < 6:
            u = 1 + rng.below(nthreads - 1)
            if u != tid:
                out.append("if coroutine.status(CO[%d])=='suspended' then emit('resume',%d,%d) local ok,e=coroutine.resume(CO[%d]) "
                           "if not ok then emit('resume-error',tostring(e)) end end" % (u, tid, u, u))
        elif k < 8 and tid != 0:
            out.append("emit('yield',%d) coroutine.yield()" % tid)
        else:
            out.append("emit('obs',%d,cur())" % tid)
    return " ".join(out)


def coro_case(rng):
    nthreads = 3 + rng.below(2)
    budget = [14 + rng.below(12)]
    parts = [CORO_PRELUDE]
    for t in range(1, nthreads):
        parts.append("CO[%d]=coroutine.create(function() %s emit('end',%d) end)" % (t, coro_items(rng, t, nthreads, 0, budget), t))
    parts.append(coro_items(rng, 0, nthreads, 0, budget))
    parts.append("emit('obs',0,cur())")
    return "\n".join(parts)


CORO_CORPUS = [
    # the witnesses of C07_coroutine_exit_pops_own_refuted / C07_coroutine_flags_in_force_refuted
    CORO_PRELUDE + "CO[1]=coroutine.create(function() do local id=NF NF=NF+1 emit('push',1,id,4) local c=runtime.callcontext({flags='iosafe'},function() "
    "emit('yield',1) coroutine.yield() emit('obs',1,cur()) end) emit('exit',1,id,c and fnum(c.flags) or -1) end emit('end',1) end)\n"
    "do local id=NF NF=NF+1 emit('push',0,id,0) local c=runtime.callcontext({flags=''},function() emit('resume',0,1) coroutine.resume(CO[1]) end) "
    "emit('exit',0,id,c and fnum(c.flags) or -1) end emit('resume',0,1) coroutine.resume(CO[1]) emit('obs',0,cur())",
    # a coroutine suspended inside pcall and abandoned: the enclosing context's exit pops the pcall context
    CORO_PRELUDE + "CO[1]=coroutine.create(function() do local id=NF NF=NF+1 emit('push',1,id,0) pcall(function() emit('yield',1) coroutine.yield() end) "
    "emit('xany',1,id) end emit('end',1) end)\n"
    "do local id=NF NF=NF+1 emit('push',0,id,2) local c=runtime.callcontext({flags='cpusafe'},function() emit('resume',0,1) coroutine.resume(CO[1]) "
    "emit('obs',0,cur()) end) emit('exit',0,id,c and fnum(c.flags) or -1) end emit('obs',0,cur())",
]


def coro_history(line):
    """protocol line -> (events as Coq terms, observations as Coq terms, error string or None)"""
    f = line.split(" ")
    if len(f) < 3 or f[1] != "ok":
        return None, None, "program ended with status %s" % (f[1] if len(f) > 1 else "?")
    evs = [[dec_val(v) for v in e.split(",")] for e in f[2][2:].split(";")] if f[2] != "T:-" else []
    h, o = [], []
    for e in evs:
        k = e[0]
        if k == "push":
            h.append("EPush %d" % e[3])
        elif k == "exit":
            h.append("EExit")
            o.append("PExit %d %s" % (e[2], "None" if e[3] < 0 else "(Some %d%%N)" % e[3]))
        elif k == "xany":
            h.append("EExit")
            o.append("PExitAny %d" % e[2])
        elif k == "resume":
            h.append("EResume %d" % e[2])
        elif k == "yield":
            h.append("EYield")
        elif k == "end":
            h.append("EEnd")
        elif k == "obs":
            h.append("EObs")
            o.append("PCur %d" % e[2])
        elif k == "resume-error":
            return None, None, "coroutine.resume failed: %s" % e[1]
    return h, o, None


def coro_stage(ck, gvh, n):
    import os
    srcs = list(CORO_CORPUS) + [coro_case(ck.rng) for _ in range(n)]
    lines = ["K%d %s" % (i, src.encode().hex()) for i, src in enumerate(srcs)]
    outs = vlib.run_lines_resilient(gvh, ["lua"], lines, per_case_timeout=30)
    rows, idx = [], []
    kf = ck.known_match(lambda k: k.get("match", {}).get("class") == "context-stack-shared-by-coroutines")
    nviol = 0
    for i, (src, o) in enumerate(zip(srcs, outs)):
        ck.case("coro:" + src, True)
        h, ob, err = coro_history(o)
        if err:
            nviol += 1
            if nviol <= 3:
                ck.violation("coroutine x context program: " + err, {"kind": "Go!=S", "engine": "lua", "program": src, "output": o[:1500]})
            continue
        rows.append("([%s], [%s])" % ("; ".join(h), "; ".join(ob)))
        idx.append(i)
    coq = ("From Coq Require Import NArith List.\nFrom GV Require Import Ctx.CoroModel.\nImport ListNotations.\n"
           "Definition cases : list (list ev * list pobs) := [\n" + ";\n".join(rows) + "].\n"
           "Definition V := Eval vm_compute in map (fun c => verdict (fst c) (snd c)) cases.\nPrint V.\n")
    d = os.path.join(vlib.WORK, "C07")
    os.makedirs(d, exist_ok=True)
    fn = os.path.join(d, "coro_cases.v")
    open(fn, "w").write(coq)
    rc, so, se = vlib.sh(["coqc", "-R", os.path.join(vlib.COQ, "theories"), "GV", fn], cwd=d, timeout=900)
    m = re.search(r"V\s*=\s*\[(.*?)\]", so, re.S)
    verdicts = [int(x) for x in re.findall(r"(\d+)%?N?", m.group(1))] if m else []
    if rc != 0 or len(verdicts) != len(rows):
        ck.violation("coroutine x context histories could not be evaluated in Coq", {"kind": "oracle", "coqc_rc": rc, "out": (so + se)[-1500:]}, no_input=True)
        return nviol
    stats = {"histories": len(rows), "disciplined": 0, "undisciplined": 0, "model_predicts_failure": 0}
    for i, v in zip(idx, verdicts):
        src, o = srcs[i], outs[i]
        agrees, ok, disc = bool(v & 1), bool(v & 2), bool(v & 4)
        stats["disciplined" if disc else "undisciplined"] += 1
        ck.count("coro:" + ("disciplined" if disc else "undisciplined"))
        rep = {"kind": "Go!=S", "engine": "lua", "program": src, "output": o[:1500], "history": rows[idx.index(i)][:1500],
               "model_agrees": agrees, "observations_ok": ok, "history_disciplined": disc}
        if v & 8:
            nviol += 1
            ck.violation("coroutine x context program produced a history the model cannot follow", rep)
        elif not agrees:
            nviol += 1
            if nviol <= 3:
                rep["kind"] = "Go!=IM"
                ck.violation("coroutines x contexts: the implementation reports other context flags than the model of its shared context stack "
                             "(Ctx/CoroModel.v) predicts for the same history", rep)
        elif not ok:
            stats["model_predicts_failure"] += 1
            if disc:
                nviol += 1
                ck.violation("coroutines x contexts: a frame ended another context / required flags not in force in a DISCIPLINED history "
                             "(contradicts C07_coroutines_disciplined_contexts_sound: model and code differ)", rep)
            elif kf:
                ck.known_finding(kf)
            else:
                nviol += 1
                if nviol <= 3:
                    ck.violation("coroutines x contexts: a coroutine suspended inside an open CallContext frame makes a frame end another "
                                 "thread's context / lets the body of a flagged context run without its flags", rep)
    ck.cov["coroutine_context_stage"] = stats
    return nviol


# ---------------------------------------------------------------------------------------------------------------
# histories with TIME limits.  The manager reads the clock through now(); the harness binary for this stage is built
# with a go-build overlay (vlib.clock_overlay: regenerated from the current runtimecontextmanager.go on every run,
# /repo untouched) in which now() returns a value set by the op "T <ms>".  Model: the same Ctx/Model.v step with its
# `now` argument.  The comparison covers the Millis fields of every context on the chain after every operation.
def rand_timed_history(rng):
    n = 4 + rng.geometric(12, 50)
    ops = []
    depth = 0
    clock = 0
    for _ in range(n):
        k = rng.below(100)
        if k < 24:
            lim = lambda small: (rng.below(small) if rng.chance(1, 2) else 0)
            hms, sms = lim(60), lim(60)
            hc, hm = (lim(40) if rng.chance(1, 3) else 0), (lim(40) if rng.chance(1, 4) else 0)
            sc = lim(40) if rng.chance(1, 4) else 0
            ops.append(("P", hc, hm, sc, 0, rng.below(16) if rng.chance(1, 4) else 0, rng.below(2), hms, sms))
            depth += 1
        elif k < 42 and depth > 0:
            ops.append(("O",))
            depth -= 1
        elif k < 44:
            ops.append(("O",))
        elif k < 66:
            # the clock only moves forward (mostly by a little; sometimes past every limit)
            clock += rng.choice([0, 1, 1, 2, 3, 5, 8, 20, 100])
            ops.append(("T", clock))
        elif k < 90:
            # time is looked at when the CPU counter passes a threshold (10000 ticks)
            ops.append(("C", rng.choice([0, 1, 5, 9999, 10000, 10001, 20000, 3])))
        elif k < 96:
            ops.append(("M", rng.below(10)))
        else:
            ops.append(("S", rng.choice([1, 1, 2])))
    return ops


def parse_ctx_timed(s):
    f = s.split(",")
    d = parse_ctx(s)
    d.update({"hms": int(f[9], 16), "sms": int(f[10], 16), "ums": int(f[11], 16)})
    return d


def timed_stage(ck, oracle, n):
    ov, why = ck.clock_overlay()
    if ov is None:
        ck.violation("time-limit correspondence cannot be set up: " + why, {"kind": "translator", "detail": why}, no_input=True)
        return 0
    gvh, err = ck.build_gvh(tags=("verif", "verifclock"), name="gvh_clock", overlay=ov)
    if gvh is None:
        ck.violation("harness with the clock overlay does not build against /repo", {"kind": "build", "stderr": err[-3000:]}, no_input=True)
        return 0
    cases = []
    cfile = vlib.os.path.join(vlib.VERIF, "corpus", "C07", "timed.hist")
    if vlib.os.path.exists(cfile):
        for l in open(cfile):
            l = l.strip()
            if l and not l.startswith("#"):
                cases.append([tuple([t.split()[0]] + [int(x, 16) for x in t.split()[1:]]) for t in l.split(";") if t.strip()])
    for _ in range(n):
        cases.append(rand_timed_history(ck.rng))
    lines = ["t%d %s" % (i, ";".join(op_str(o) for o in ops)) for i, ops in enumerate(cases)]
    rc1, impl, e1 = vlib.run_lines(gvh, ["ctx", "timed"], lines, timeout=1800)
    rc2, model, e2 = vlib.run_lines(oracle, ["timed"], lines, timeout=1800)
    if rc1 != 0 or len(impl) != len(lines) or rc2 != 0 or len(model) != len(lines):
        ck.violation("timed ctx engine or oracle crashed (%d/%d, %d/%d lines)" % (len(impl), len(lines), len(model), len(lines)),
                     {"kind": "crash", "stderr": (e1 + e2)[-2000:]})
        return 0
    nviol = 0
    nterm_time = 0
    npop_term = 0
    for ops, a, b in zip(cases, impl, model):
        ck.case("timed:" + a.split(" ", 1)[0] + ";".join(op_str(o) for o in ops), True)
        ck.count("timed-history")
        if "term:time" in a:
            nterm_time += 1
        ra, rb = a.split(" ", 1)[1].split("|"), b.split(" ", 1)[1].split("|")
        for idx, (op, x, y) in enumerate(zip(ops, ra, rb)):
            if op[0] == "O" and x.startswith("term"):
                npop_term += 1
            if x != y:
                nviol += 1
                if nviol <= 3:
                    ck.violation("time limits: implementation and model differ at op %d (%s) of a history with a controlled clock" % (idx, op_str(op)),
                                 {"kind": "Go!=IM", "engine": "ctx-timed", "history": ";".join(op_str(o) for o in ops), "op_index": idx,
                                  "impl": x, "model": y})
                break
    ck.cov["timed_stage"] = {"histories": len(cases), "with_time_termination": nterm_time, "pops_that_terminated": npop_term}
    return nviol


# Lua level with the controlled clock: nested callcontext / pcall with time limits; setclock(ms) moves the clock while a
# child runs.  Independent predicates: the context stack is balanced afterwards (the top level is the root context
# again), and a context object says 'done' exactly when its body ran to its end.
def lua_timed_case(rng):
    K = rng.choice([50, 100, 200])
    w = lambda: rng.choice([0, 100, 1500, 3000, 6000, 12000])
    t1 = rng.choice([0, 10, K - 1, K, K + 1, 3 * K])
    t2 = rng.choice([t1, t1 + 1, K, 2 * K, 5 * K])
    inner_def = rng.choice(["PCALL", "{}", "{kill={millis=%d}}" % rng.choice([10, K // 2, K, 2 * K]), "{kill={cpu=1000000}}"])
    inner_body = "emit('i-start') work(%d) setclock(%d) work(%d) emit('i-end')" % (w(), t1, w())
    if inner_def == "PCALL":
        inner = "local ok=pcall(function() %s end) emit('inner-ret', ok and 'done' or 'error')" % inner_body
    else:
        inner = "local ic=runtime.callcontext(%s,function() %s end) emit('inner-ret', ic.status)" % (inner_def, inner_body)
    src = ("local function work(n) local s=0 for i=1,n do s=s+i end return s end\n"
           "emit('top-before', runtime.context().status, runtime.context().kill.millis or 0)\n"
           "local oc=runtime.callcontext({kill={millis=%d}},function() emit('o-start') work(%d) %s work(%d) setclock(%d) work(%d) emit('o-end') end)\n"
           "emit('outer', oc.status, oc.kill.millis or 0)\n"
           "emit('top-after', runtime.context().status, runtime.context().kill.millis or 0)\n"
           "work(20000) emit('top-end', runtime.context().status)" % (K, w(), inner, w(), t2, w()))
    return src, {"K": K, "t1": t1, "t2": t2, "inner": inner_def}


def lua_timed_stage(ck, n):
    ov, why = ck.clock_overlay()
    if ov is None:
        return 0     # reported by timed_stage
    gvh, err = ck.build_gvh(tags=("verif", "verifclock"), name="gvh_clock", overlay=ov)
    if gvh is None:
        return 0
    cases = [lua_timed_case(ck.rng) for _ in range(n)]
    # promptness (C07_child_clock_read_at_first_request / C07_clock_read_every_10000_ticks): once the clock is past the
    # limit of a nested context, that context does not get through more than a few times 10000 ticks of work, however
    # much CPU its parent had used before it started
    for k in range(max(4, n // 20)):
        pre = ck.rng.choice([0, 5000, 60000, 300000])
        K2 = ck.rng.choice([10, 50, 200])
        kind = ck.rng.choice(["{kill={millis=%d}}" % K2, "{kill={millis=%d,cpu=100000000}}" % K2])
        src = ("local function work(n) local s=0 for i=1,n do s=s+i end return s end\n"
               "emit('top-before', runtime.context().status, runtime.context().kill.millis or 0)\n"
               "local oc=runtime.callcontext({kill={millis=1000000}},function() emit('o-start') work(%d) setclock(500) "
               "local ic=runtime.callcontext(%s,function() emit('i-start') setclock(%d) work(40000) emit('i-end') end) emit('inner-ret', ic.status) "
               "emit('prompt', ic.status) emit('o-end') end)\n"
               "emit('outer', oc.status, oc.kill.millis or 0)\n"
               "emit('top-after', runtime.context().status, runtime.context().kill.millis or 0)\n"
               "work(20000) emit('top-end', runtime.context().status)" % (pre, kind, 500 + K2 + 1))
        cases.append((src, {"family": "prompt", "parent_work": pre, "inner_millis": K2}))
    # conservation through time-limit kills (C07_time_kill_keeps_cpu / C07_pop_time_kill_keeps_charge): work done in a
    # pcall inside a time-limited context that dies while absorbing it is still charged to the CPU-limited context above
    for k in range(max(3, n // 40)):
        R = ck.rng.choice([3, 5, 8])
        wk = ck.rng.choice([4000, 6000, 9000])
        src = ("local function work(n) local s=0 for i=1,n do s=s+i end return s end\n"
               "emit('top-before', runtime.context().status, runtime.context().kill.millis or 0)\n"
               "local clock=0 local oc=runtime.callcontext({kill={cpu=100000000}},function() emit('o-start') "
               "for r=1,%d do runtime.callcontext({kill={millis=50}},function() pcall(function() work(%d) clock=clock+100 setclock(clock) work(%d) end) end) end "
               "emit('o-end') end)\n"
               "emit('outer', oc.status, oc.kill.millis or 0) emit('charged', oc.used.cpu or 0)\n"
               "emit('top-after', runtime.context().status, runtime.context().kill.millis or 0)\n"
               "work(20000) emit('top-end', runtime.context().status)" % (R, wk, wk))
        cases.append((src, {"family": "conserve", "rounds": R, "work": wk}))
    outs = vlib.run_lines_resilient(gvh, ["lua"], ["Z%d %s" % (i, src.encode().hex()) for i, (src, _) in enumerate(cases)], per_case_timeout=30)
    nviol = 0
    stats = {"outer_killed": 0, "outer_done": 0, "inner_killed": 0}
    for (src, meta), o in zip(cases, outs):
        ck.case("lua-timed:" + src, True)
        ck.count("lua-timed")
        f = o.split(" ")
        fails = []
        if len(f) < 3 or f[1] != "ok":
            fails.append("top-level chunk ended with status %s" % (f[1] if len(f) > 1 else "?"))
            evs = []
        else:
            evs = [[dec_val(v) for v in e.split(",")] for e in f[2][2:].split(";")] if f[2] != "T:-" else []
        tags = {e[0]: e for e in evs}
        if not fails:
            if "outer" not in tags or "top-after" not in tags or "top-end" not in tags:
                fails.append("program did not reach its end: events %s" % [e[0] for e in evs])
            else:
                if tags["top-after"][1:] != tags["top-before"][1:] or tags["top-end"][1] != "live":
                    fails.append("context stack not balanced: at top level before %s, after the outer context returned %s, at the end %s"
                                 % (tags["top-before"][1:], tags["top-after"][1:], tags["top-end"][1:]))
                ost = tags["outer"][1]
                stats["outer_killed" if ost == "killed" else "outer_done"] += 1
                if (ost == "done") != ("o-end" in tags):
                    fails.append("outer context reports %s but its body %s its end" % (ost, "reached" if "o-end" in tags else "did not reach"))
                if ost not in ("done", "killed"):
                    fails.append("outer context reports %s" % ost)
                if meta.get("family") == "conserve" and "charged" in tags:
                    least = meta["rounds"] * meta["work"] * 2      # each loop iteration costs at least 2 ticks; the first half always runs
                    if tags["charged"][1] < least:
                        fails.append("work done inside nested time-limited contexts is not charged to the CPU-limited context above: "
                                     "%d rounds of at least %d ticks each, used.cpu = %d" % (meta["rounds"], meta["work"] * 2, tags["charged"][1]))
                if "inner-ret" in tags:
                    ist = tags["inner-ret"][1]
                    if ist == "killed":
                        stats["inner_killed"] += 1
                    if meta.get("family") == "prompt" and ist != "killed":
                        fails.append("a nested context with a %d ms limit did 40000 loop iterations after the clock had passed its limit "
                                     "and ended %s (its parent had done %d iterations before)" % (meta["inner_millis"], ist, meta["parent_work"]))
                    if (ist == "done") != ("i-end" in tags):
                        fails.append("inner context reports %s but its body %s its end" % (ist, "reached" if "i-end" in tags else "did not reach"))
        if fails:
            nviol += 1
            if nviol <= 3:
                ck.violation("time limits at Lua level: " + fails[0],
                             {"kind": "Go!=S", "engine": "lua+clock", "program": src, "params": meta, "output": o[:1500], "failed_predicates": fails,
                              "theorem": "C07_pop_always_pops / C07_status_truthful"})
    ck.cov["lua_timed_stage"] = dict(stats, programs=len(cases))
    return nviol


def coq_crosscheck(ck, cases, model_lines, k=150):
    """Extraction cross-check: re-evaluate k histories INSIDE Coq (vm_compute on Ctx/Model.v) and compare the final
    manager state with what the extracted OCaml oracle printed.  Bounds the trust in extraction + driver glue."""
    import os
    step = max(1, len(cases) // k)
    picks = list(range(0, len(cases), step))[:k]
    def z(v):
        return "(%d)%%Z" % v
    def op_coq(o):
        if o[0] == "P":
            return "OPush (mkDef (mkRes %s %s 0) (mkRes %s %s 0) %d%%N %s)" % (z(o[1]), z(o[2]), z(o[3]), z(o[4]), o[5], "true" if o[6] else "false")
        if o[0] == "O":
            return "OPop"
        if o[0] == "C":
            return "OCpu %s" % z(o[1])
        if o[0] == "M":
            return "OMem %s" % z(o[1])
        if o[0] == "R":
            return "ORel %s" % z(o[1])
        return "OStop %d%%N" % o[1]
    rows = []
    for i in picks:
        if i >= len(model_lines):
            continue
        last = parse_out(model_lines[i])[-1]
        chain = last[1]
        cur = chain[0]
        stc = {"live": "Live", "done": "Done", "error": "Err", "killed": "Killed"}[cur["st"]]
        hist = "[" + "; ".join("(0%%Z, %s)" % op_coq(o) for o in cases[i]) + "]"
        rows.append("(%s, (%s, %s, %s, %s, %s, %d%%nat))" % (hist, z(cur["uc"]), z(cur["um"]), z(cur["hc"]), z(cur["hm"]), stc, len(chain) - 1))
    src = ("From Coq Require Import ZArith List Bool.\nFrom GV Require Import Ctx.Model.\nImport ListNotations.\nOpen Scope Z_scope.\n"
           "Definition chk (c : list (Z * op) * (Z * Z * Z * Z * status * nat)) : bool :=\n"
           "  let '(h, (uc, um, hc, hm, s, d)) := c in let m := run init h in\n"
           "  (cpu (used (cur m)) =? uc) && (mem (used (cur m)) =? um) && (cpu (hard (cur m)) =? hc) && (mem (hard (cur m)) =? hm)\n"
           "  && status_eqb (st (cur m)) s && Nat.eqb (length (parents m)) d.\n"
           "Definition cases : list (list (Z * op) * (Z * Z * Z * Z * status * nat)) := [\n" + ";\n".join(rows) + "].\n"
           "Definition bad := Eval vm_compute in length (filter (fun c => negb (chk c)) cases).\nPrint bad.\n")
    d = os.path.join(vlib.WORK, "C07")
    os.makedirs(d, exist_ok=True)
    fn = os.path.join(d, "cases.v")
    open(fn, "w").write(src)
    rc, so, se = vlib.sh(["coqc", "-R", os.path.join(vlib.COQ, "theories"), "GV", fn], cwd=d, timeout=900)
    ok = rc == 0 and "bad = 0" in so.replace("\n", " ")
    ck.cov["extraction_crosscheck"] = {"histories_reevaluated_in_coq": len(rows), "agree": ok}
    if not ok:
        ck.violation("extracted oracle and in-Coq evaluation of Ctx/Model.v disagree (extraction/driver glue cannot be trusted)",
                     {"kind": "oracle", "coqc_rc": rc, "out": (so + se)[-1500:]}, no_input=True)
    return ok


def run(tier, seed):
    ck = vlib.Check("C07", tier, seed, level="proof")
    ok_obl = ck.obligations(PROP, clean=False)
    if tier == "thorough":
        ck.coqchk(["GV.Properties.C07"])
    gvh, err = ck.build_gvh()
    if gvh is None:
        ck.violation("harness does not build against /repo", {"kind": "build", "stderr": err[-3000:]}, no_input=True)
        return ck.finish("n/a", TRUSTED, [])
    oracle = ck.build_oracle("ctx")
    if oracle is None:
        ck.violation("oracle (extracted model) does not build", {"kind": "build"}, no_input=True)
        return ck.finish("n/a", TRUSTED, [])

    # ---------------- cases
    cases = []
    corpus = vlib.os.path.join(vlib.VERIF, "corpus", "C07")
    if vlib.os.path.isdir(corpus):
        for fn in sorted(vlib.os.listdir(corpus)):
            for l in open(vlib.os.path.join(corpus, fn)):
                l = l.strip()
                if l and not l.startswith("#"):
                    cases.append([tuple([t.split()[0]] + [int(x, 16) for x in t.split()[1:]]) for t in l.split(";") if t.strip()])
    ncorpus = len(cases)
    alpha = enum_alphabet()
    depth = 3 if tier == "quick" else 4
    nenum = 0
    for d in range(1, depth + 1):
        if d < 4:
            for h in itertools.product(alpha, repeat=d):
                cases.append(list(h))
                nenum += 1
        else:
            # depth 4: all histories that start with a push (the others are covered at depth 3 shapes)
            pushes = [o for o in alpha if o[0] == "P"]
            for p in pushes:
                for h in itertools.product(alpha, repeat=3):
                    cases.append([p] + list(h))
                    nenum += 1
    nrand = 20000 if tier == "quick" else 300000
    for i in range(nrand):
        cases.append(rand_history(ck.rng, extreme=(i % 4 == 0)))
    ck.log("cases: corpus %d, enumerated %d (depth<=%d), random %d" % (ncorpus, nenum, depth, nrand))

    lines = ["h%d %s" % (i, ";".join(op_str(o) for o in ops)) for i, ops in enumerate(cases)]
    rc1, impl, e1 = vlib.run_lines(gvh, ["ctx"], lines, timeout=1800)
    rc2, model, e2 = vlib.run_lines(oracle, [], lines, timeout=1800)
    if rc1 != 0 or len(impl) != len(lines):
        ck.violation("gvh ctx crashed or produced %d/%d lines" % (len(impl), len(lines)),
                     {"kind": "crash", "stderr": e1[-2000:], "last_line": lines[min(len(impl), len(lines) - 1)]})
    if rc2 != 0 or len(model) != len(lines):
        ck.violation("oracle crashed (%d/%d lines)" % (len(model), len(lines)), {"kind": "oracle-crash", "stderr": e2[-2000:]}, no_input=True)

    # ---------------- diff + predicates
    ndiff = 0
    first_diffs = []
    pred_fail = 0
    for i, ops in enumerate(cases):
        if i >= len(impl):
            break
        states = parse_out(impl[i])
        nontriv = any(o[0] == "P" for o in ops) and any(s[0] != "ok" or len(s[1]) > 1 for s in states)
        ck.case(lines[i].split(" ", 1)[1], nontriv)
        for o in ops:
            ck.count("op:" + o[0])
        for s in states:
            ck.count("outcome:" + s[0].split(":")[0] + (":" + s[0].split(":")[1] if ":" in s[0] else ""))
        ck.count("maxdepth:%d" % max(len(s[1]) for s in states))
        fails = property_predicates(ops, states)
        if fails:
            pred_fail += 1
            if pred_fail <= 2:
                def still(cand):
                    r, out, _ = vlib.run_lines(gvh, ["ctx"], ["x " + ";".join(op_str(o) for o in cand)], timeout=60)
                    return r == 0 and out and bool(property_predicates(cand, parse_out(out[0])))
                small = shrink(ops, still)
                r, out, _ = vlib.run_lines(gvh, ["ctx"], ["x " + ";".join(op_str(o) for o in small)], timeout=60)
                ck.violation("context property fails on the implementation: " + fails[0],
                             {"kind": "Go!=S", "engine": "ctx", "history": ";".join(op_str(o) for o in small),
                              "impl": out[0] if out else None,
                              "failed_predicates": property_predicates(small, parse_out(out[0])) if out else fails,
                              "theorems": ["C07_child_budget", "C07_used_lt_kill", "C07_pop_charges_parent", "C07_due_iff"]})
        if i < len(model) and impl[i] != model[i]:
            ndiff += 1
            if len(first_diffs) < 3:
                first_diffs.append(i)
    for i in (0, ncorpus + 5, ncorpus + nenum + 1, len(cases) - 1):
        if 0 <= i < len(impl):
            ck.sample({"history": lines[i].split(" ", 1)[1], "impl": impl[i].split(" ", 1)[1][:400]})
    if rc2 == 0 and len(model) == len(lines):
        coq_crosscheck(ck, cases, model, k=(40 if tier == "quick" else 600))
    lua_fail = lua_stage(ck, ck.build_gvh()[0], 400 if tier == "quick" else 6000)
    lua_fail += coro_stage(ck, ck.build_gvh()[0], 300 if tier == "quick" else 5000)
    lua_fail += timed_stage(ck, oracle, 6000 if tier == "quick" else 100000)
    lua_fail += lua_timed_stage(ck, 400 if tier == "quick" else 8000)
    ck.cov["lua_level_failures"] = lua_fail
    pred_fail += lua_fail
    if ndiff and not pred_fail:
        # Go != IM but no property predicate failed: search harder on the Go side alone
        ck.log("%d correspondence differences; searching for a property-level failure" % ndiff)
        found = False
        extra = [rand_history(ck.rng, extreme=(j % 3 == 0)) for j in range(200000)]
        xl = ["s%d %s" % (j, ";".join(op_str(o) for o in ops)) for j, ops in enumerate(extra)]
        r, out, _ = vlib.run_lines(gvh, ["ctx"], xl, timeout=1800)
        for j, ops in enumerate(extra):
            if j < len(out):
                f = property_predicates(ops, parse_out(out[j]))
                if f:
                    found = True
                    ck.violation("context property fails on the implementation: " + f[0],
                                 {"kind": "Go!=S", "engine": "ctx", "history": xl[j].split(" ", 1)[1], "impl": out[j],
                                  "failed_predicates": f})
                    break
        if not found:
            i = first_diffs[0]
            ck.violation("implementation no longer matches the Coq model Ctx/Model.v (Go≈IM/ctx); no property-level failure found",
                         {"kind": "Go!=IM", "correspondence": "Go≈IM/ctx", "history": lines[i].split(" ", 1)[1],
                          "impl": impl[i], "model": model[i], "differences": ndiff,
                          "theorems_no_longer_about_this_code": ["C07_invariant_every_history", "C07_child_budget",
                                                                  "C07_conservation_cpu", "C07_conservation_mem",
                                                                  "C07_pop_charges_parent", "C07_callcontext_balanced",
                                                                  "C07_status_truthful"]},
                         no_input=True)
    if not ok_obl:
        ck.violation("proof obligations of C07 no longer check: " + str(ck.cov.get("obligation_failure", ""))[:300],
                     {"kind": "proof", "theorem_file": PROP, "detail": ck.cov.get("obligation_failure")},
                     no_input=(pred_fail == 0))
    ck.cov["correspondence_differences"] = ndiff
    ck.cov["predicate_failures"] = pred_fail
    ck.cov["exhaustive"] = False
    ck.cov["enumerated_depth"] = depth
    return ck.finish(
        rule="histories of push/pop/requireCPU/requireMem/releaseMem/setStopLevel: every history of length <= %d over a 36-op alphabet "
             "(limits 0/1/2/3, amounts incl. 2^64-1) + random histories (length 3..60, values small/boundary/near 2^64, 1 in 4 with extreme values); "
             "non-trivial = contains a push and some op that is not a plain success at depth 0; distinct by op string" % depth,
        trusted_base=TRUSTED,
        assumptions=["Millis limits are 0 in every generated history (clock not controllable)",
                     "the Go object is driven through the exported API of *runtime.Runtime with recover() around each call"])


def replay(path, seed):
    r = json.load(open(path))
    ck = vlib.Check("C07", "quick", seed)
    gvh, _ = ck.build_gvh()
    oracle = ck.build_oracle("ctx")
    line = "r " + r["history"]
    _, a, _ = vlib.run_lines(gvh, ["ctx"], [line])
    _, b, _ = vlib.run_lines(oracle, [], [line])
    print("impl :", a[0] if a else None)
    print("model:", b[0] if b else None)
    ops = [tuple([t.split()[0]] + [int(x, 16) for x in t.split()[1:]]) for t in r["history"].split(";") if t.strip()]
    print("predicates:", property_predicates(ops, parse_out(a[0])))
    return 0
