# C05 — a CPU limit is a hard, exact and uninterceptable bound.
#
#  proof obligations : coq/theories/Properties/C05.v (Ctx/Model.v, Ctx/NestModel.v, Ctx/Exact.v)
#  correspondence    : the manager-level tie is C07's (gvh ctx vs oracle/ctx); here the *program level*:
#                      every program is run unlimited (usage u) and under limits L around u;
#                      kill_exact / determinism / monotonicity / no-event-after-kill are checked on the
#                      real runtime; wrappers try to intercept the kill; amplifiers look for unmetered work
import json
import re
import time

from lib import vlib, qprogs

PROP = ["Properties/C05.v"]
BIG = 1 << 62
WALL_BOUND = 4.0     # least wall-clock bound (s) for a library call under cpu=100000, mem=16 MiB; scaled up by calibration
TRUSTED = [
    "Coq 8.16.1 kernel (coqc); no axioms in the C05 theorems",
    "model Ctx/Model.v + Ctx/NestModel.v tied to the Go manager by the C07 correspondence (gvh ctx vs extracted oracle)",
    "Go harness harness/hx/lua.go (fresh runtime per case, CallContext with the limit, emit callback)",
    "program families lib/qprogs.py; Python comparison in lib/props/C05.py",
    "modelled not verified: the VM's tick placement (which instruction charges what) is observed through the unlimited run, not modelled; real work between ticks is measured by wall-clock per case (watchdog), not proved",
]
TERM_RE = re.compile(r"(CPU limit of \d+ exceeded|memory limit of \d+ exceeded|time limit of \d+ exceeded|force kill)")


# events that only code running AFTER the protected region / the kill can emit
AFTER_MARKERS = {"after-pcall", "handler", "after-xpcall", "after-resume", "guard-closed", "in-close", "after-scope",
                 "after-wrap", "inner", "outer", "after-callctx", "after-gc", "close-returned", "wrap-returned"}


def hexs(s):
    return s.encode().hex()


def parse(line):
    """'<id> <status> T:.. R:.. E:.. O:.. X:.. A:..' -> dict"""
    f = line.split(" ")
    d = {"id": f[0], "status": f[1], "raw": line}
    if f[1] in ("CRASH", "HANG"):
        return d
    for tok in f[2:]:
        k, _, v = tok.partition(":")
        d[k] = v
    d["trace"] = [] if d.get("T", "-") == "-" else d["T"].split(";")
    x = d.get("X", "-")
    if x != "-":
        st, uc, um = x.split(",")
        d["ctx"] = st
        d["ucpu"] = int(uc)
        d["umem"] = int(um)
    return d


def decode_event(ev):
    out = []
    for v in ev.split(","):
        if v.startswith("s") and v != "s-":
            try:
                out.append(bytes.fromhex(v[1:]).decode("utf-8", "replace"))
            except ValueError:
                out.append(v)
        else:
            out.append(v)
    return out


def interception(trace, base_trace):
    """First event of trace that deviates from the baseline; says whether it is Lua code
    being handed a termination error (pcall/xpcall/resume returning it)."""
    for i, ev in enumerate(trace):
        if i >= len(base_trace) or ev != base_trace[i]:
            dec = decode_event(ev)
            got_term = any(isinstance(x, str) and TERM_RE.search(x) for x in dec)
            return i, dec, got_term
    return None


def run(tier, seed):
    ck = vlib.Check("C05", tier, seed, level="proof")
    ok_obl = ck.obligations(PROP)
    if tier == "thorough":
        ck.coqchk(["GV.Properties.C05"])
    gvh, err = ck.build_gvh()
    if gvh is None:
        ck.violation("harness does not build against /repo", {"kind": "build", "stderr": err[-3000:]}, no_input=True)
        return ck.finish("n/a", TRUSTED, [])
    rng = ck.rng
    nprog = 120 if tier == "quick" else 8000

    # ------------------------------------------------------------ programs
    progs = []   # (name, source)
    corpus = vlib.os.path.join(vlib.VERIF, "corpus", "C05")
    if vlib.os.path.isdir(corpus):
        for fn in sorted(vlib.os.listdir(corpus)):
            if fn.endswith(".lua"):
                progs.append(("corpus:" + fn, open(vlib.os.path.join(corpus, fn)).read()))
    while len(progs) < nprog:
        fam = qprogs.bodies(rng)
        name, body = rng.choice(fam)
        w = rng.choice([x for x in qprogs.WRAPS if x != "gc_guard"])   # GC timing is not deterministic
        if rng.chance(1, 4):
            # two bodies in sequence inside the wrapper
            n2, b2 = rng.choice(fam)
            name, body = name + "+" + n2, "do " + body + " end do " + b2 + " end"
        progs.append(("%s/%s" % (w, name), qprogs.wrap(w, body)))
    # every other program runs with a CPU limit only (no memory limit): different tracking and GC-pool policy
    memarg = [(" mem=%d" % BIG) if i % 2 == 0 else "" for i in range(len(progs))]
    base_lines = ["p%d %s cpu=%d%s" % (i, hexs(src), BIG, memarg[i]) for i, (_, src) in enumerate(progs)]
    base = [parse(l) for l in vlib.run_lines_resilient(gvh, ["lua"], base_lines, per_case_timeout=30)]

    cases = []   # (prog index, L)
    for i, b in enumerate(base):
        ck.count("wrapper:" + progs[i][0].split("/")[0])
        if b["status"] in ("CRASH", "HANG") or "ucpu" not in b:
            ck.violation("program crashed or hung without any limit", {"kind": "crash", "program": progs[i][1], "output": b["raw"][:600]})
            continue
        u = b["ucpu"]
        ck.count("baseline:" + b["status"])
        Ls = {1, 2, max(1, u // 2), max(1, u - 1), u, u + 1, 2 * u + 1, 1 + rng.below(max(1, u)), 1 + rng.below(max(1, u))}
        if u >= 3:
            Ls.add(u - 2)
        for L in sorted(Ls):
            if L >= 1:
                cases.append((i, L))
    lines = ["c%d %s cpu=%d%s" % (k, hexs(progs[i][1]), L, memarg[i]) for k, (i, L) in enumerate(cases)]
    t0 = time.time()
    outs = [parse(l) for l in vlib.run_lines_resilient(gvh, ["lua"], lines, per_case_timeout=30)]
    ck.log("%d programs, %d limited runs in %.1fs" % (len(progs), len(cases), time.time() - t0))

    intercepted = 0
    for (i, L), o in zip(cases, outs):
        name, src = progs[i]
        b = base[i]
        u = b["ucpu"]
        ck.case("%s@%d" % (src, L), nontrivial=True)
        ck.count("L<=u" if L <= u else "L>u")
        rep = {"kind": "Go!=S", "engine": "lua", "program": src, "family": name, "limit_cpu": L, "unlimited_usage": u,
               "baseline": b["raw"][:500], "limited": o["raw"][:500]}
        if o["status"] in ("CRASH", "HANG"):
            k = None
            if o["status"] == "CRASH":
                try:
                    tail = bytes.fromhex(o["raw"].split(" ")[3]).decode("utf-8", "replace")
                except (ValueError, IndexError):
                    tail = ""
                if "TerminateContext" in tail and "cleanupCloseStack" in tail and "Thread).end" in tail:
                    k = ck.known_match(lambda kf: kf.get("match", {}).get("class") == "termination-in-close-handler-run-by-thread-end")
            if k:
                ck.known_finding(k)
            else:
                ck.violation("limited run crashed/hung: %s cpu=%d" % (name, L), rep)
            continue
        fail = None
        dev = interception(o["trace"], b["trace"])
        if L <= u:
            if o["status"] != "killed":
                fail = "usage %d >= limit %d but the context was not killed (status %s)" % (u, L, o["status"])
            elif o["ucpu"] >= L:
                fail = "killed context reports used %d >= kill %d" % (o["ucpu"], L)
            elif dev is not None:
                fail = "after the kill Lua code of the context still ran (event %d: %s)" % (dev[0], dev[1])
            elif len(o["trace"]) > len(b["trace"]):
                fail = "more events under a limit than without"
        else:
            if o["status"] != b["status"] or o["trace"] != b["trace"] or o.get("R") != b.get("R") or o.get("E") != b.get("E"):
                fail = "limit %d above usage %d changed the behaviour" % (L, u)
            elif o["ucpu"] != u:
                fail = "CPU accounting not deterministic: used %d under limit %d, %d unlimited" % (o["ucpu"], L, u)
        if fail:
            k = None
            if dev is not None and dev[2]:
                k = ck.known_match(lambda kf: kf.get("match", {}).get("class") == "termination-error-returned-to-lua")
            if k:
                intercepted += 1
                ck.known_finding(k)
            else:
                rep["failure"] = fail
                if len([v for v in ck.violations]) < 5:
                    ck.violation("%s: %s" % (name, fail), rep)
                else:
                    ck.violations.append((ck.violations[-1][0], False, fail))
    for k in (0, len(cases) // 2, len(cases) - 1):
        if 0 <= k < len(cases):
            i, L = cases[k]
            ck.sample({"program": progs[i][1][:300], "limit": L, "usage_unlimited": base[i].get("ucpu"),
                       "status": outs[k]["status"], "ctx": outs[k].get("X")})

    # ------------------------------------------------------------ infinite loops behind wrappers
    inf_bodies = ["while true do end", "local i=0 while true do i=i+1 end", "local function f() return f() end f()",
                  "local t={} while true do t[#t+1]=1 t[#t]=nil end", "repeat local s=('x'):rep(3) until false",
                  "for i=1,math.huge do end", "local co=coroutine.wrap(function() while true do coroutine.yield() end end) while true do co() end",
                  "while true do pcall(error,'x') end", "while true do pcall(function() while true do end end) end",
                  # the limit is hit inside a __close handler run while a coroutine stops: closed while suspended, ending
                  # by an error, ending by a return, closed from inside another handler
                  "local co=coroutine.create(function() local g<close> = setmetatable({},{__close=function() while true do end end}) coroutine.yield() end) "
                  "coroutine.resume(co) emit('close-returned', coroutine.close(co))",
                  "local co=coroutine.wrap(function() local g<close> = setmetatable({},{__close=function() while true do end end}) error('x') end) "
                  "emit('wrap-returned', pcall(co))",
                  "local co=coroutine.wrap(function() local g<close> = setmetatable({},{__close=function() while true do end end}) return 1 end) "
                  "emit('wrap-returned', pcall(co))",
                  "local co=coroutine.create(function() local g<close> = setmetatable({},{__close=function() while true do end end}) coroutine.yield() end) "
                  "coroutine.resume(co) do local h<close> = setmetatable({},{__close=function() emit('close-returned', coroutine.close(co)) end}) end",
                  ]   # (a self-retriggering __index is not "non-terminating": it ends in a stack-overflow error, see C04)
    inf_cases = []
    for bi, body in enumerate(inf_bodies):
        for w in qprogs.WRAPS + qprogs.WRAPS_EXPLICIT:
            for L in (50, 1000, 20000):
                inf_cases.append((qprogs.wrap(w, body), w, L))
    if tier == "quick":
        inf_cases = [c for j, c in enumerate(inf_cases) if (j + seed) % 2 == 0]
    ilines = ["i%d %s cpu=%d mem=%d" % (k, hexs(src), L, BIG) for k, (src, w, L) in enumerate(inf_cases)]
    iouts = [parse(l) for l in vlib.run_lines_resilient(gvh, ["lua"], ilines, per_case_timeout=20)]
    for (src, w, L), o in zip(inf_cases, iouts):
        ck.case("inf:%s@%d" % (src, L), True)
        ck.count("infinite:" + w)
        rep = {"kind": "Go!=S", "engine": "lua", "program": src, "limit_cpu": L, "limited": o["raw"][:600]}
        fail = None
        if w in qprogs.WRAPS_EXPLICIT and o["status"] not in ("HANG", "CRASH"):
            # an explicit child context is a legitimate boundary: the child must report 'killed',
            # its <close> guard must not have run, and the outer context stays within its limit
            evs = [decode_event(e) for e in o["trace"]]
            if o.get("ucpu", 0) >= L:
                fail = "context reports used %d >= kill %d" % (o["ucpu"], L)
            elif any(e[0] in ("guard-closed", "in-close") for e in evs):
                fail = "to-be-closed handler ran in a killed explicit context"
            elif o["status"] == "ok" and ["after-callctx", "killed"] not in evs:
                fail = "explicit child context with a non-terminating body did not end 'killed'"
            if fail:
                rep["failure"] = fail
                ck.violation("%s wrapper: %s" % (w, fail), rep)
            continue
        if o["status"] == "HANG":
            fail = "non-terminating program not stopped by cpu limit %d (watchdog 20 s)" % L
        elif o["status"] == "CRASH":
            fail = "process died under cpu limit %d" % L
        elif o["status"] != "killed":
            fail = "non-terminating program ended with status %s under cpu limit %d" % (o["status"], L)
        elif o["ucpu"] >= L:
            fail = "killed context reports used %d >= kill %d" % (o["ucpu"], L)
        elif [e for e in o["trace"] if decode_event(e)[0] in AFTER_MARKERS]:
            fail = "Lua code ran after the kill: events %s" % [decode_event(e) for e in o["trace"] if decode_event(e)[0] in AFTER_MARKERS][:3]
        if fail:
            got_term = any(TERM_RE.search(x) for e in o.get("trace", []) for x in decode_event(e) if isinstance(x, str))
            k = None
            if got_term:
                k = ck.known_match(lambda kf: kf.get("match", {}).get("class") == "termination-error-returned-to-lua")
            if not k and o["status"] == "killed" and "guard-closed" in str([decode_event(e) for e in o.get("trace", [])]):
                k = ck.known_match(lambda kf: kf.get("match", {}).get("class") == "close-handler-runs-in-killed-coroutine")
            if k:
                ck.known_finding(k)
            else:
                rep["failure"] = fail
                ck.violation("%s wrapper: %s" % (w, fail), rep)

    # ------------------------------------------------------------ finalisers of a killed context never run (not even later, in the parent)
    gc_cases = []
    for inner in ("{kill={cpu=2000}}", "{kill={cpu=2000,memory=1000000}}", "{kill={memory=4000}}", "{kill={cpu=2000},stop={cpu=100}}"):
        for body in ("while true do end", "local t={} while true do t[#t+1]=#t end"):
            if "cpu" not in inner and "t={}" not in body:
                continue   # a memory-only limit cannot stop a loop that does not allocate
            src = ("local keep={} local c=runtime.callcontext(%s,function() "
                   "for i=1,5 do keep[i]=setmetatable({},{__gc=function() local n=0 for j=1,1000 do n=n+j end emit('gc-of-killed-ran',n) end}) end "
                   "%s end) emit('ctx',c.status) keep=nil collectgarbage() collectgarbage() emit('end')" % (inner, body))
            gc_cases.append((inner, src))
    # ... and neither do the to-be-closed handlers pending in it: CallContext discards them; they must not run later in
    # the parent (e.g. when the function that called runtime.callcontext returns or leaves a block)
    guard = "setmetatable({},{__close=function() local n=0 for j=1,1000 do n=n+j end emit('gc-of-killed-ran',n) end})"
    for inner in ("{kill={cpu=2000}}", "{kill={cpu=2000,memory=1000000}}"):
        for shape in ("local g<close> = %s while true do end" % guard,
                      "local function callee() local g<close> = %s while true do end end callee()" % guard,
                      "pcall(function() local g<close> = %s while true do end end)" % guard,
                      "do local g1<close> = %s do local g2<close> = %s while true do end end end" % (guard, guard),
                      "for i=1,3 do local g<close> = %s if i==2 then while true do end end end" % guard):
            src = ("local function run() do local c=runtime.callcontext(%s,function() %s end) emit('ctx',c.status) end emit('left-block') end "
                   "run() emit('returned') local t={} for i=1,100 do t[i]=i end emit('end')" % (inner, shape))
            gc_cases.append((inner, src))
    # finalisers of a limited context run INSIDE it when it ends (by return or by error) and are stopped by its limit
    heavy = "setmetatable({},{__gc=function() local n=0 for j=1,2000000 do n=n+j end emit('gc-of-killed-ran',n) end})"
    for inner in ("{kill={cpu=3000}}", "{kill={cpu=3000,memory=1000000}}"):
        for ending in ("return 1", "error('x')", "error({})", "local t=nil return t.x"):
            src = ("local c=runtime.callcontext(%s,function() local v=%s v=nil %s end) emit('ctx',c.status) "
                   "emit('used-within-limit', (c.used.cpu or 0) < 3000) collectgarbage() emit('end')" % (inner, heavy, ending))
            gc_cases.append((inner, src))
    glines = ["g%d %s" % (k, hexs(src)) for k, (_, src) in enumerate(gc_cases)] + \
             ["G%d %s cpu=%d" % (k, hexs(src), 50000000) for k, (_, src) in enumerate(gc_cases)]
    gouts = [parse(l) for l in vlib.run_lines_resilient(gvh, ["lua"], glines, per_case_timeout=30)]
    for (inner, src), o in zip(gc_cases + gc_cases, gouts):
        ck.case("gc:" + o["id"] + src, True)
        ck.count("gc-in-killed-context")
        evs = [decode_event(e) for e in o.get("trace", [])]
        rep = {"kind": "Go!=S", "engine": "lua", "program": src, "limited": o["raw"][:600]}
        if o["status"] in ("CRASH", "HANG"):
            ck.violation("finaliser/killed-context program crashed or hung", rep)
        elif ["ctx", "killed"] not in evs:
            ck.violation("explicit context %s with a non-terminating body did not end 'killed'" % inner, rep)
        elif ["used-within-limit", "b0"] in evs:
            ck.violation("explicit context %s: used.cpu is not below the kill limit after its finalisers ran" % inner, rep)
        elif any(e[0] == "gc-of-killed-ran" for e in evs):
            ck.violation("a __gc finaliser or pending __close handler of a killed context ran afterwards (the killed computation continues from its handler)", rep)

    # ------------------------------------------------------------ the same exactness for a limit set INSIDE a limited context
    # runtime.callcontext({kill={cpu=L}}, body) under an outer CPU limit, after the parent has used P ticks of its own: the
    # inner context is killed exactly for L <= u (u = its own usage when L is out of reach), whatever P is — in particular
    # for P < L, P = L and P > L (the child's limit is min(L, what the parent has left), never "L minus what the parent used")
    nest_progs = []
    nnest = 16 if tier == "quick" else 300
    fam_names = ("loop", "while", "nested", "rec", "closure", "concat", "table", "sort", "strlib", "meta", "coro", "goto", "err_str", "pcallerr")
    while len(nest_progs) < nnest:
        fam = dict(qprogs.bodies(rng))
        name = rng.choice(fam_names)
        nest_progs.append((name, fam[name]))
    OUTER = 50000000

    def nest_src(body, P, L):
        return ("local p=0 for i=1,%d do p=p+1 end "
                "local c=runtime.callcontext({kill={cpu=%d}},function() %s end) emit('inner',c.status) emit('after')" % (P, L, body))

    nb = [parse(l) for l in vlib.run_lines_resilient(
        gvh, ["lua"], ["n%d %s cpu=%d" % (k, hexs("local c=runtime.callcontext({kill={cpu=%d}},function() %s end) emit('inner',c.status,c.used.cpu)"
                                                    % (OUTER // 2, body)), OUTER) for k, (_, body) in enumerate(nest_progs)], per_case_timeout=30)]
    ncases = []
    for k, ((name, body), o) in enumerate(zip(nest_progs, nb)):
        evs = [decode_event(e) for e in o.get("trace", [])]
        inner = [e for e in evs if e and e[0] == "inner"]
        if o["status"] != "ok" or not inner or not inner[-1][2].startswith("i"):
            ck.violation("nested baseline did not run: %s" % o["raw"][:200], {"kind": "harness", "program": body})
            continue
        u = int(inner[-1][2][1:])
        want_unlimited = inner[-1][1]
        for L in sorted({max(1, u - 1), u, u + 1, u + 2, max(1, u // 2)}):
            for P in sorted({0, 1, max(0, L // 2), L, L + 1, 3 * L + 7}):
                ncases.append((name, body, u, want_unlimited, L, P))
    nlines = ["N%d %s cpu=%d" % (k, hexs(nest_src(body, P, L)), OUTER) for k, (_, body, u, wu, L, P) in enumerate(ncases)]
    nouts = [parse(l) for l in vlib.run_lines_resilient(gvh, ["lua"], nlines, per_case_timeout=30)]
    for (name, body, u, wu, L, P), o in zip(ncases, nouts):
        ck.case("nested:%s@L=%d,P=%d" % (body, L, P), True)
        ck.count("nested:L<=u" if L <= u else "nested:L>u")
        evs = [decode_event(e) for e in o.get("trace", [])]
        inner = [e for e in evs if e and e[0] == "inner"]
        got = inner[-1][1] if inner else None
        want = "killed" if L <= u else wu
        if o["status"] != "ok" or got != want or ["after"] not in evs:
            ck.violation("nested context, body %s: inner usage is %d ticks, inner limit %d, parent had used about %d of %d: inner status %s, expected %s"
                         % (name, u, L, 3 * P, OUTER, got, want),
                         {"kind": "Go!=S", "engine": "lua", "program": nest_src(body, P, L), "limit_cpu": OUTER, "inner_usage_unlimited": u,
                          "inner_limit": L, "parent_preburn_iterations": P, "limited": o["raw"][:600],
                          "theorem": "C07_child_budget / C05_limit_above_usage_same_behaviour: the child's limit is min(L, parent's remaining budget)"})
    ck.cov["nested_limit_runs"] = len(ncases)

    # ------------------------------------------------------------ amplification: no unmetered operation
    amp_cases = []
    exps = (10, 16, 20, 24, 30, 34, 40) if tier == "quick" else tuple(range(8, 41, 2))
    for name, tmpl in qprogs.amplifiers():
        for e in exps:
            amp_cases.append((name, e, tmpl % (1 << e)))
    alines = ["a%d %s cpu=%d mem=%d wall=1" % (k, hexs(src), 100000, 16 << 20) for k, (_, _, src) in enumerate(amp_cases)]
    t0 = time.time()
    worst_wall = (0.0, None)
    aouts = []
    # run one by one to time each case (wall-clock per tick is the observable for "bounded real work")
    slow = []
    # calibration: a reference case that allocates and processes as much memory as the limit allows, timed before and
    # after the sweep; the wall-clock bound scales with it so that a loaded machine does not raise alarms
    calib = "c0 %s cpu=%d mem=%d wall=1" % (hexs("local s=string.rep('x',1<<24) emit(#s:upper(), #s:reverse())"), BIG, 1 << 27)

    def calibrate():
        o = parse(vlib.run_lines_resilient(gvh, ["lua"], [calib], per_case_timeout=60)[0])
        return int(o.get("W", "0")) / 1e6 if o["status"] == "ok" else 0.0

    t_ref = calibrate()
    res = vlib.run_lines_resilient(gvh, ["lua"], alines, per_case_timeout=15, mem_kb=6 * 1024 * 1024)
    t_ref = max(t_ref, calibrate())
    wall_bound = max(WALL_BOUND, 60 * t_ref)
    ck.cov["amplifier_calibration"] = {"reference_case_seconds": round(t_ref, 3), "wall_bound_seconds": round(wall_bound, 2)}
    for (name, e, src), l in zip(amp_cases, res):
        o = parse(l)
        ck.case("amp:%s@2^%d" % (name, e), True)
        ck.count("amp:" + o["status"])
        rep = {"kind": "Go!=S", "engine": "lua", "program": src, "limit_cpu": 100000, "limit_mem": 16 << 20, "limited": o["raw"][:600]}
        if o["status"] in ("HANG", "CRASH"):
            k = ck.known_match(lambda kf: kf.get("match", {}).get("class") == "unmetered-op" and kf["match"].get("amplifier") == name)
            if k:
                ck.known_finding(k)
            else:
                ck.violation("library call %s with N=2^%d under cpu limit 100000: %s (work not metered)" % (name, e, o["status"]), rep)
        elif o["status"] == "killed" and o["ucpu"] >= 100000:
            ck.violation("amplifier %s: used >= kill" % name, rep)
        else:
            # "the real work done between two counter increments is bounded": 100000 ticks and 16 MiB are a few
            # milliseconds of interpreter work; WALL_BOUND leaves three orders of magnitude for a loaded machine
            wall = int(o.get("W", "0")) / 1e6
            if wall > worst_wall[0]:
                worst_wall = (wall, "%s N=2^%d" % (name, e))
            if wall > wall_bound:
                k = ck.known_match(lambda kf: kf.get("match", {}).get("class") == "unmetered-op" and kf["match"].get("amplifier") == name)
                if k:
                    ck.known_finding(k)
                else:
                    rep["wall_seconds"] = wall
                    ck.violation("library call %s with N=2^%d ran for %.1f s under a CPU limit of 100000 ticks (status %s, %d ticks "
                                 "charged): work is done that the counter does not see" % (name, e, wall, o["status"], o.get("ucpu", 0)), rep)
    ck.cov["amplifier_worst_wall_seconds"] = {"seconds": round(worst_wall[0], 3), "case": worst_wall[1], "bound": round(wall_bound, 2)}
    ck.log("amplification: %d cases in %.1fs" % (len(amp_cases), time.time() - t0))

    if not ok_obl:
        ck.violation("proof obligations of C05 no longer check: " + str(ck.cov.get("obligation_failure", ""))[:300],
                     {"kind": "proof", "theorem_file": PROP, "detail": ck.cov.get("obligation_failure")},
                     no_input=not any(not v[1] for v in ck.violations))
    ck.cov["programs"] = len(progs)
    ck.cov["limited_runs"] = len(cases)
    ck.cov["terminations_returned_to_lua"] = intercepted
    return ck.finish(
        rule="program = random body family x wrapper (plain/pcall/pcall loop/xpcall/coroutine/<close> guard/pcall in coroutine/nested pcall/"
             "limit-less callcontext); each run unlimited (usage u) and under L in {1,2,u/2,u-2,u-1,u,u+1,2u+1,2 random}; "
             "non-terminating bodies x wrappers x L in {50,1000,20000}; library amplifiers with N=2^e under cpu=100000 with a 15 s watchdog; "
             "distinct by (source, limit)",
        trusted_base=TRUSTED,
        assumptions=["programs do not read their own context counters or the clock, so the request stream is independent of L",
                     "bounded real work per tick is judged by a wall-clock watchdog (15-30 s per case), not proved"])


def replay(path, seed):
    r = json.load(open(path))
    ck = vlib.Check("C05", "quick", seed)
    gvh, _ = ck.build_gvh()
    src = r["program"]
    lines = ["base %s cpu=%d mem=%d" % (hexs(src), BIG, BIG), "lim %s cpu=%d mem=%d" % (hexs(src), r.get("limit_cpu", 1000), BIG),
             "limcpuonly %s cpu=%d" % (hexs(src), r.get("limit_cpu", 1000)), "nolimit %s" % hexs(src)]
    for l in vlib.run_lines_resilient(gvh, ["lua"], lines, per_case_timeout=30):
        print(l[:800])
    return 0
