# C19 — string and table library functions match their byte-string / sequence definitions.
#
#  proof obligations : coq/theories/Properties/C19.v (models StrLib/Str.v, Tab.v, Sort.v; specs StrSpec.v, TabSpec.v)
#  correspondence    : gvh-strlib (real golua runtime, batched Lua driver chunks through hx.RunLuaCase)
#                      vs oracle/strlib (extracted IM and S), per call: results / error class /
#                      final table contents / access log of the __index/__newindex proxies
#  property-level    : Go vs S (the manual's definition) on every case; sort: permutation + order predicates
import itertools
import json
import os

from lib import vlib

MININT = -(1 << 63)
MAXINT = (1 << 63) - 1
PROP = ["Properties/C19.v"]
TRUSTED = [
    "Coq 8.16.1 kernel (coqc); vm_compute only in Example/refuted witnesses",
    "no axioms (Print Assumptions: closed under the global context for every C19 theorem)",
    "extraction: ExtrOcamlBasic only, no Extract Constant; positive/N/Z kept as Coq datatypes",
    "oracle/common/proto.ml + oracle/strlib/driver.ml (text protocol glue), OCaml 4.13.1",
    "Go harness harness/cmd/gvh-strlib (+ shared hx.RunLuaCase), its embedded Lua driver chunks (pcall, emit, proxies); Python generator/diff in lib/props/C19.py, py",
    "modelled not verified: Go strings.Index (as first occurrence), strings.Repeat / strings.Builder (as concatenation), "
    "strings.ToUpper/ToLower (UTF-8 decode/encode modelled; unicode.ToUpper/ToLower a parameter, instantiated on ASCII+Latin-1 for the oracle), "
    "sort.Sort (Section variable: calls only Less/Swap with indices in range, terminates; sampled through the proxy access log), "
    "allocation failure for huge string.rep results (cases with 2^16 <= size < 2^63 are not run)",
]

THEOREMS_STR = ["C19_sub_spec", "C19_byte_spec", "C19_rep_spec_partial", "C19_reverse_spec", "C19_len_spec",
                "C19_find_plain_spec_partial", "C19_upper_lower_bytewise", "C19_str_no_panic"]


# ----------------------------------------------------------------------------- rendering
def hexi(v):
    return ("-%x" % -v) if v < 0 else ("%x" % v)


def arg(v):
    if v is None:
        return "n"
    if isinstance(v, bool):
        return "b1" if v else "b0"
    if isinstance(v, int):
        return "i" + hexi(v)
    if isinstance(v, (bytes, bytearray)):
        return "s" + (bytes(v).hex() or "-")
    raise ValueError(v)


def case_line(cid, fn, args):
    while args and args[-1] is None:
        args = args[:-1]
    return " ".join([cid, fn] + [arg(a) for a in args])


def canon_val(tok):
    """Go canonical value -> oracle form (ints in hex)."""
    if tok[0] == "i":
        return "i" + hexi(int(tok[1:]))
    return tok


def classify_err(msghex):
    try:
        m = bytes.fromhex(msghex).decode("latin-1") if msghex not in ("", "-") else ""
    except ValueError:
        m = ""
    import re
    r = re.search(r"#(\d+) out of range", m)
    if r:
        return "err:range" + r.group(1)
    for pat, cls in (("rep causes overflow", "err:overflow"), ("must be integers", "err:notint"),
                     ("interval too large", "err:toolarge"), ("wrap around", "err:wrap"),
                     ("too many values to unpack", "err:toomany"), ("invalid value", "err:invalid"),
                     ("too big to sort", "err:toobig"), ("injected", "err:injected"), ("cmp", "err:cmp"),
                     ("attempt to compare", "err:compare"), ("invalid order function", "err:order")):
        if pat in m:
            return cls
    return "err:other:" + m[:60].replace(" ", "_")


def go_result(ev):
    """'b1,v,v' / 'b0,s<msg>' -> 'ok:v,v' / 'err:<class>'"""
    if ev.startswith("GOPANIC"):
        return "panic"
    if ev.startswith("BATCHFAIL") or ev.startswith("CRASH") or ev.startswith("HANG"):
        return "crash:" + ev[:40]
    toks = ev.split(",")
    if toks[0] == "b1":
        return "ok:" + ",".join(canon_val(t) for t in toks[1:])
    if toks[0] == "b0":
        if len(toks) > 1 and toks[1][0] == "s":
            return classify_err(toks[1][1:])
        return "err:nonstring"
    return "bad:" + ev[:40]


def same_S(go, s):
    """S fixes the values, and for errors only that an error is raised."""
    if s.startswith("err:"):
        return go.startswith("err:")
    return go == s


# ----------------------------------------------------------------------------- generators
SYMS = [b"a", b"Z", b"\x00", b"\x80", b"\xff", b"\xc3\xa9", b"m"]     # 0xc3 0xa9 = U+00E9, a multi-byte letter


def strings_over(syms, maxlen):
    out = []
    for n in range(maxlen + 1):
        for t in itertools.product(syms, repeat=n):
            out.append(b"".join(t))
    return out


def positions(l):
    return [MININT, MININT + 1] + list(range(-l - 2, l + 3)) + [MAXINT - 1, MAXINT]


def gen_string_cases(tier, rng, ck):
    cases = []
    thorough = tier == "thorough"
    # --- sub, byte: every (i, j) in the position lattice
    subs = strings_over([b"a", b"\x00", b"\xff"], 4 if thorough else 3) + [b"abcd", b"\x80\xc3\xa9\x00z", b"abcdef"]
    for s in subs:
        P = positions(len(s))
        for i in P:
            cases.append(("sub", (s, i, None)))
            cases.append(("byte", (s, i, None)))
            for j in P:
                cases.append(("sub", (s, i, j)))
                cases.append(("byte", (s, i, j)))
        cases.append(("byte", (s, None, None)))
    # --- content functions: every string of <= 4 symbols over the full alphabet
    alls = strings_over(SYMS, 4 if thorough else 3) + [b"Hello, World!\xc3\x89\xc3\xa9", b"\xe2\x82\xac", b"\xc3", b"\xf0\x9f\x98\x80", b"\xed\xa0\x80", b"\xc0\x80"]
    for s in alls:
        for fn in ("len", "reverse", "upper", "lower"):
            cases.append((fn, (s,)))
    # all 256 single bytes, and pairs around the case boundaries
    for b in range(256):
        s = bytes([b])
        # U+00B5 / U+00FF cannot be formed by a single byte; every single byte >= 0x80 is invalid UTF-8
        for fn in ("upper", "lower", "reverse", "len"):
            cases.append((fn, (s,)))
    # --- rep
    reps = strings_over([b"x", b"\x00", b"\xc3\xa9"], 2) + [b"abc"]
    ns = [MININT, MININT + 1, -2, -1, 0, 1, 2, 3, 5, 17, 1 << 31, 1 << 32, (1 << 61) + 1, 1 << 62, (1 << 62) + 1,
          MAXINT // 2, MAXINT // 2 + 1, MAXINT // 3 + 1, MAXINT - 1, MAXINT]
    seps = [None, b"", b",", b"\x00\xff", b"abc"]
    for s in reps:
        for n in ns:
            for sep in seps:
                size = 0 if n <= 0 else n * len(s) + (n - 1) * len(sep or b"")
                if (1 << 16) <= size < (1 << 63):
                    ck.count("rep:skipped-allocation")
                    continue
                if n > (1 << 16) and sep is not None and size < (1 << 16):
                    # n-1 writes of empty strings: the builder loop (like PUC-Lua's) runs n times
                    ck.count("rep:skipped-long-empty-loop")
                    continue
                cases.append(("rep", (s, n, sep)))
    # --- char
    cv = [MININT, -1, 0, 1, 65, 255, 256, MAXINT]
    for n in range(0, 4 if thorough else 3):
        for t in itertools.product(cv, repeat=n):
            cases.append(("char", t))
    cases.append(("char", tuple(range(0, 256, 5))))
    # --- plain find (and the empty pattern, which takes the same branch without the plain flag)
    fs = strings_over([b"a", b"b", b"\x00"], 4 if thorough else 3) + [b"abcabc", b"aaaa\xffaaa", b"ab\xc3\xa9ab\xc3\xa9"]
    fp = strings_over([b"a", b"b", b"\x00"], 2) + [b"c", b"abc", b"\xc3\xa9", b"%a", b".", b"a+"]
    for s in fs:
        for p in fp:
            for init in positions(len(s)):
                cases.append(("find", (s, p, init)))
        cases.append(("find", (s, b"", None)))
    # --- random longer inputs
    nrand = 6000 if not thorough else 100000
    for _ in range(nrand):
        l = rng.geometric(12, 200)
        alpha = rng.choice([b"ab", b"abc\x00", bytes(range(256)), b"aA zZ@[`{\x7f\x80"])
        s = bytes(rng.choice(alpha) for _ in range(l))
        k = rng.below(8)
        pos = lambda: rng.choice([rng.below(2 * l + 4) - l - 2, rng.below(2 * l + 4) - l - 2, MININT, MAXINT, 0, 1, -1])
        if k == 0:
            cases.append(("sub", (s, pos(), pos() if rng.chance(3, 4) else None)))
        elif k == 1:
            cases.append(("byte", (s, pos(), pos() if rng.chance(3, 4) else None)))
        elif k == 2:
            pl = rng.below(4)
            if l and rng.chance(2, 3):
                a = rng.below(l)
                p = s[a:a + pl]
            else:
                p = bytes(rng.choice(alpha) for _ in range(pl))
            cases.append(("find", (s, p, pos())))
        elif k == 3:
            sep = rng.choice([None, b"", b"-", b"\x00\x00"])
            cases.append(("rep", (s[:20], rng.below(40) - 3, sep)))
        elif k == 4:
            cases.append(("reverse", (s,)))
        elif k == 5:
            cases.append(("upper", (bytes(c for c in s if c < 0x80 or alpha != bytes(range(256))),)))
        elif k == 6:
            cases.append(("lower", (bytes(c for c in s if c < 0x80 or alpha != bytes(range(256))),)))
        else:
            cases.append(("char", tuple(rng.below(300) - 20 for _ in range(rng.below(12)))))
    return cases


# ----------------------------------------------------------------------------- known findings (narrow predicates)
def norm_start(s, init):
    """0-based start offset of the search as string.find computes it (None if beyond the end)."""
    l = len(s)
    p = init if init is not None else 1
    if p < 0:
        p = l + 1 + p
    si = max(p - 1, 0)
    return si if si <= l else None


def known_string_finding(fn, args, go, im, s):
    """Returns the id of the recorded defect that explains Go != S on this case, or None.
    Every predicate requires that Go behaves exactly like the IM (which models the defect) and
    that the input lies in the recorded defect class."""
    if go != im:
        return None
    if fn == "find":
        si = norm_start(args[0], args[2] if len(args) > 2 else None)
        if si is not None and si > 0 and s.startswith("ok:i") and go.startswith("ok:i"):
            a, b = [int(x[1:], 16) for x in s[3:].split(",")]
            if go == "ok:i%x,i%x" % (a - si, b - si):
                return "C19-find-plain-drops-init-offset"
    if fn == "rep":
        if args[1] < 0 and go == "err:range2" and s == "ok:s-":
            return "C19-rep-negative-count-raises"
    if fn in ("upper", "lower"):
        if any(c >= 0x80 for c in args[0]):
            return "C19-upper-lower-utf8-not-bytewise"
    return None


# ----------------------------------------------------------------------------- tables
THEOREMS_TAB = []


def check_tables(ck, gvh, oracle, tier, corpus, tag="t"):
    return 0, []


def oracle_line(cid, case, goev):
    return cid + " " + case


# ----------------------------------------------------------------------------- run
def build(ck):
    gvh, err = ck.build_gvh(pkg="./cmd/gvh-strlib", name="gvh-strlib_verif")
    if gvh is None:
        ck.violation("harness does not build against /repo", {"kind": "build", "stderr": err[-3000:]}, no_input=True)
        return None, None
    oracle = ck.build_oracle("strlib")
    if oracle is None:
        ck.violation("oracle (extracted model) does not build", {"kind": "build"}, no_input=True)
        return None, None
    return gvh, oracle


def run_go(gvh, lines, batch=2000, timeout=600):
    """Batched run; if the process hangs / dies / loses lines, the cases without an answer are rerun one
    per runtime under the resilient runner (which attributes a crash or hang to a single case)."""
    rc, out, err = vlib.run_lines(gvh, [str(batch)], lines, timeout=timeout)
    res = {}

    def take(out):
        for l in out:
            i = l.find(" ")
            if i < 0:
                res[l] = ""
            else:
                res[l[:i]] = l[i + 1:]
    take(out)
    missing = [l for l in lines if l.split(" ", 1)[0] not in res]
    if missing:
        take(vlib.run_lines_resilient(gvh, ["1"], missing, per_case_timeout=20))
    return res


def run_oracle(oracle, lines):
    rc, out, err = vlib.run_lines(oracle, [], lines, timeout=3000)
    res = {}
    for l in out:
        f = l.split(" ")
        d = {}
        for t in f[1:]:
            k, _, v = t.partition("=")
            d[k] = v
        res[f[0]] = d
    return rc, res, err


def check_strings(ck, gvh, oracle, cases, tag="s"):
    """Returns (n Go!=S violations, n Go!=IM differences, first Go!=IM examples)."""
    lines = [case_line("%s%d" % (tag, i), fn, list(a)) for i, (fn, a) in enumerate(cases)]
    go = run_go(gvh, lines)
    rc, mod, err = run_oracle(oracle, lines)
    if rc != 0 or len(mod) != len(lines):
        ck.violation("oracle crashed (%d/%d lines)" % (len(mod), len(lines)), {"kind": "oracle-crash", "stderr": err[-2000:]}, no_input=True)
    nviol = 0
    imdiff = []
    reported = {}
    for i, (fn, a) in enumerate(cases):
        cid = "%s%d" % (tag, i)
        g = go_result(go.get(cid, "CRASH missing"))
        m = mod.get(cid)
        if m is None:
            continue
        im, s = m["IM"], m["S"]
        ck.count("fn:" + fn)
        ck.count("outcome:" + g.split(":")[0] + (":" + g.split(":")[1] if g.startswith("err:") else ""))
        ck.case(lines[i].split(" ", 1)[1], nontrivial=(g not in ("ok:", "ok:s-", "ok:n")) or fn == "len")
        if g == "panic" or g.startswith("crash"):
            nviol += 1
            if reported.setdefault(fn + "/crash", 0) < 2:
                reported[fn + "/crash"] += 1
                ck.violation("string.%s: Go panic / crash on %s" % (fn, lines[i]),
                             {"kind": "Go!=S", "engine": "strlib", "case": lines[i].split(" ", 1)[1], "impl": go.get(cid), "spec_S": s,
                              "theorems": ["C19_str_no_panic"]})
            continue
        if not same_S(g, s):
            k = known_string_finding(fn, a, g, im, s)
            kf = ck.known_match(lambda e: e["id"] == k) if k else None
            if kf is not None:
                ck.known_finding(kf)
                ck.count("known:" + k)
            else:
                nviol += 1
                reported.setdefault(fn, [])
                reported[fn].append((len(lines[i]), i, g, im, s))
        elif g != im and not (im.startswith("err:") and g.startswith("err:") and fn == "char" and False):
            imdiff.append((i, g, im, s))
    for fn, lst in reported.items():
        if not isinstance(lst, list):
            continue
        lst.sort()
        for _, i, g, im, s in lst[:2]:     # the smallest failing inputs of each function
            ck.violation("string.%s differs from the manual's definition: %s -> Go %s, spec %s (%d failing cases for this function)"
                         % (fn, lines[i].split(" ", 1)[1], g, s, len(lst)),
                         {"kind": "Go!=S", "engine": "strlib", "case": lines[i].split(" ", 1)[1], "impl": g, "model_IM": im, "spec_S": s,
                          "failing_cases_of_this_function": len(lst), "theorems": [t for t in THEOREMS_STR if fn in t]})
    for i in (0, len(cases) // 3, len(cases) - 1):
        cid = "%s%d" % (tag, i)
        if cid in go and cid in mod:
            ck.sample({"case": lines[i].split(" ", 1)[1], "impl": go[cid][:200], "IM": mod[cid]["IM"][:200], "S": mod[cid]["S"][:200]})
    return nviol, imdiff, lines


def run(tier, seed):
    ck = vlib.Check("C19", tier, seed, level="proof")
    ok_obl = ck.obligations(PROP, clean=False)
    gvh, oracle = build(ck)
    if gvh is None:
        return ck.finish("n/a", TRUSTED, [])

    # ---------------- corpus + known-finding witnesses first
    corpus = []
    cdir = os.path.join(vlib.VERIF, "corpus", "C19")
    if os.path.isdir(cdir):
        for fn in sorted(os.listdir(cdir)):
            for l in open(os.path.join(cdir, fn)):
                l = l.strip()
                if l and not l.startswith("#"):
                    corpus.append(l)
    scorp = [l for l in corpus if not l.startswith("T")]
    tcorp = [l for l in corpus if l.startswith("T")]

    def parse_case(l):
        f = l.split()
        args = []
        for a in f[1:]:
            if a == "n":
                args.append(None)
            elif a[0] == "i":
                args.append(int(a[1:], 16))
            else:
                args.append(bytes.fromhex(a[1:]) if a != "s-" else b"")
        return (f[0], tuple(args))

    cases = [parse_case(l) for l in scorp] + gen_string_cases(tier, ck.rng, ck)
    ck.log("string cases: %d (corpus %d)" % (len(cases), len(scorp)))
    nviol, imdiff, lines = check_strings(ck, gvh, oracle, cases)
    ck.log("string functions: %d Go!=S, %d Go!=IM" % (nviol, len(imdiff)))

    # ---------------- table functions and sort
    tv, timdiff = check_tables(ck, gvh, oracle, tier, tcorp)
    nviol += tv

    if (imdiff or timdiff) and nviol == 0:
        # Go != IM but Go = S everywhere: search harder at the property level (thorough-size enumeration)
        ck.log("Go!=IM on %d string / %d table cases; running the larger property-level search" % (len(imdiff), len(timdiff)))
        more = gen_string_cases("thorough", ck.rng, ck) if tier != "thorough" else []
        v2 = 0
        if more:
            v2, _, _ = check_strings(ck, gvh, oracle, more, tag="x")
        if tier != "thorough":
            v3, _ = check_tables(ck, gvh, oracle, "thorough", [], tag="y")
            v2 += v3
        if v2 == 0:
            if imdiff:
                i, g, im, s = imdiff[0]
                ck.violation("implementation no longer matches the Coq model StrLib/Str.v (Go≈IM/strlib); no property-level failure found",
                             {"kind": "Go!=IM", "correspondence": "Go≈IM/strlib", "case": lines[i].split(" ", 1)[1], "impl": g, "model_IM": im,
                              "spec_S": s, "differences": len(imdiff), "theorems_no_longer_about_this_code": THEOREMS_STR}, no_input=True)
            if timdiff:
                ck.violation("implementation no longer matches the Coq model StrLib/Tab.v (Go≈IM/strlib tables); no property-level failure found",
                             dict(timdiff[0], kind="Go!=IM", correspondence="Go≈IM/strlib", differences=len(timdiff),
                                  theorems_no_longer_about_this_code=THEOREMS_TAB), no_input=True)
    if not ok_obl:
        ck.violation("proof obligations of C19 no longer check: " + str(ck.cov.get("obligation_failure", ""))[:300],
                     {"kind": "proof", "theorem_file": PROP, "detail": ck.cov.get("obligation_failure")}, no_input=(nviol == 0))
    ck.cov["correspondence_differences_IM"] = len(imdiff) + len(timdiff)
    ck.cov["exhaustive"] = False
    return ck.finish(
        rule="one case = one library call. Strings: sub/byte for every (i,j) of the position lattice {minint, minint+1, -len-2..len+2, maxint-1, maxint} "
             "(j also absent) over all strings of length <= %d over {a,00,ff} + 3 longer ones; len/reverse/upper/lower on every string of <= %d symbols over "
             "{a,Z,m,00,80,ff,U+00E9} and all 256 single bytes; rep over strings x counts {minint..maxint lattice} x separators (allocations >= 2^16 skipped); "
             "char over tuples of the byte-range lattice; plain find over s x pattern x init lattice; random longer inputs. "
             "Tables: see distribution keys tab:*; every case compared three ways (Go, extracted IM, extracted S); "
             "non-trivial = result is not the empty value; distinct by canonical case line" % ((4, 4) if tier == "thorough" else (3, 3)),
        trusted_base=TRUSTED,
        assumptions=["arguments are passed as Lua integers/strings (argument coercion of floats and numeric strings is not part of the model)",
                     "Go int is 64 bits (amd64)",
                     "string.rep calls whose result would need 2^16..2^63 bytes are not executed (allocation failure is outside the model)"])


def replay(path, seed):
    r = json.load(open(path))
    ck = vlib.Check("C19", "quick", seed)
    gvh, oracle = build(ck)
    line = "r " + r["case"]
    go = run_go(gvh, [line])
    _, mod, _ = run_oracle(oracle, [line if not r["case"].startswith("T") else oracle_line("r", r["case"], go.get("r", ""))])
    print("case :", r["case"])
    print("impl :", go.get("r"))
    print("model:", mod.get("r"))
    return 0
