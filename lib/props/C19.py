# C19 — string and table library functions match their byte-string / sequence definitions.
#
#  proof obligations : coq/theories/Properties/C19.v (models StrLib/Str.v, Tab.v, Sort.v; specs StrSpec.v, TabSpec.v)
#  correspondence    : gvh-strlib (real golua runtime, batched Lua driver chunks through hx.RunLuaCase)
#                      vs oracle/strlib (extracted IM and S), per call: results / error class /
#                      final table contents / access log of the __index/__newindex proxies
#  property-level    : Go vs S (the manual's definition) on every case; sort: permutation + order predicates
import itertools
import json
import os

from lib import vlib

MININT = -(1 << 63)
MAXINT = (1 << 63) - 1
PROP = ["Properties/C19.v"]
TRUSTED = [
    "Coq 8.16.1 kernel (coqc); vm_compute only in Example/refuted witnesses",
    "no axioms (Print Assumptions: closed under the global context for every C19 theorem)",
    "extraction: ExtrOcamlBasic only, no Extract Constant; positive/N/Z kept as Coq datatypes",
    "oracle/common/proto.ml + oracle/strlib/driver.ml (text protocol glue), OCaml 4.13.1",
    "Go harness harness/cmd/gvh-strlib (+ shared hx.RunLuaCase), its embedded Lua driver chunks (pcall, emit, proxies); Python generator/diff in lib/props/C19.py, py",
    "modelled not verified: Go strings.Index (as first occurrence), strings.Repeat / strings.Builder (as concatenation), "
    "sort.Sort (Section variable: calls only Less/Swap with indices in range, terminates; sampled through the proxy access log), "
    "allocation failure for huge string.rep results (cases with 2^16 <= size <= 2^40 are not run; above 2^40 rep refuses)",
]

THEOREMS_STR = ["C19_sub_spec", "C19_byte_spec", "C19_char_spec", "C19_rep_spec_partial", "C19_rep_spec_refuted", "C19_len_spec",
                "C19_find_plain_spec", "C19_reverse_spec", "C19_upper_lower_bytewise", "C19_str_no_panic"]


# ----------------------------------------------------------------------------- rendering
def hexi(v):
    return ("-%x" % -v) if v < 0 else ("%x" % v)


class _Nil:
    """an explicit nil argument (None = argument absent)"""
    def __repr__(self):
        return "NIL"


NIL = _Nil()


class F:
    """a float argument"""
    def __init__(self, x):
        self.x = float(x)

    def __repr__(self):
        return "F(%r)" % self.x


class _Tbl:
    def __repr__(self):
        return "TBL"


TBL = _Tbl()     # some table


def arg(v):
    if v is None or v is NIL:
        return "n"
    if v is TBL:
        return "t"
    if isinstance(v, F):
        import struct
        return "f%016x" % struct.unpack(">Q", struct.pack(">d", v.x))[0]
    if isinstance(v, bool):
        return "b1" if v else "b0"
    if isinstance(v, int):
        return "i" + hexi(v)
    if isinstance(v, (bytes, bytearray)):
        return "s" + (bytes(v).hex() or "-")
    raise ValueError(v)


def case_line(cid, fn, args):
    args = list(args)
    while args and args[-1] is None:
        args = args[:-1]
    return " ".join([cid, fn] + [arg(a) for a in args])


def scase(c):
    """string case -> (fn, normalised args, raw args or None, must_raise)"""
    if len(c) == 2:
        return c[0], c[1], None, False
    return c


# ----------------------------------------------------------------------------- argument conversion (S; manual §3.4.3, §6.4)
# The Coq models take integers and byte strings.  What the manual says about the *types* of arguments is stated here, in
# Python, as a thin layer in front of them (trusted; kept to the finite pool of spellings the generator uses):
#   * an integer parameter accepts an integer, a float with an integral value, and a string that the Lua lexer reads as
#     such a number (surrounding whitespace and a sign allowed); anything else is an error;
#   * a string parameter accepts a string and a number (converted as tostring does); anything else is an error;
#   * an OPTIONAL parameter given as nil is absent; a required one given as nil is an error;
#   * surplus arguments are ignored — except by table.insert, which cannot tell which value is meant.
WS = b" \t\n\r\f\v"


def lua_str2number(b):
    """bytes -> int | float | None, for the spellings the generator produces"""
    import re
    t = b.strip(WS)
    try:
        t = t.decode("ascii")
    except UnicodeDecodeError:
        return None
    m = re.fullmatch(r"([+-]?)(0[xX][0-9a-fA-F]+|[0-9]+)", t)
    if m:
        v = int(m.group(2), 0 if m.group(2)[:2].lower() == "0x" else 10)
        if m.group(2)[:2].lower() == "0x":
            v &= (1 << 64) - 1
            if v >= 1 << 63:
                v -= 1 << 64
        elif v > MAXINT:
            return float(m.group(1) + m.group(2))
        return -v if m.group(1) == "-" else v
    if re.fullmatch(r"[+-]?([0-9]+\.?[0-9]*|\.[0-9]+)([eE][+-]?[0-9]+)?", t):
        return float(t)
    return None


def to_int_spec(v):
    """the integer an integer parameter receives, or None when the call must raise"""
    if isinstance(v, bool) or v is None or v is NIL or v is TBL:
        return None
    if isinstance(v, int):
        return v
    if isinstance(v, (bytes, bytearray)):
        v = lua_str2number(bytes(v))
        if v is None:
            return None
        if isinstance(v, int):
            return v
        v = F(v)
    if isinstance(v, F):
        x = v.x
        if x != x or x in (float("inf"), float("-inf")) or x != int(x) or not (-2.0 ** 63 <= x < 2.0 ** 63):
            return None
        return int(x)
    return None


def lua_float_tostring(x):
    t = "%.14g" % x
    if all(ch in "-0123456789" for ch in t):
        t += ".0"
    return t.encode()


def to_str_spec(v):
    """the byte string a string parameter receives, or None when the call must raise"""
    if isinstance(v, bool) or v is None or v is NIL or v is TBL:
        return None
    if isinstance(v, (bytes, bytearray)):
        return bytes(v)
    if isinstance(v, int):
        return b"%d" % v
    if isinstance(v, F):
        return lua_float_tostring(v.x)
    return None


# parameter kinds after the function/table itself: S string, I integer, OS/OI optional, * = any number of integers
SIGS = {"sub": ["S", "I", "OI"], "byte": ["S", "OI", "OI"], "char": ["I*"], "len": ["S"], "reverse": ["S"], "upper": ["S"],
        "lower": ["S"], "rep": ["S", "I", "OS"], "find": ["S", "S", "OI"], "match": ["S", "S", "OI"], "gmatch": ["S", "S", "OI"],
        "insert": None, "remove": ["OI"], "move": ["I", "I", "I"], "unpack": ["OI", "OI"], "concat": ["OS", "OI", "OI"]}


def coerce_args(fn, raw):
    """raw typed arguments -> (normalised arguments for the Coq models | None when the manual demands an error)"""
    sig = SIGS[fn]
    raw = list(raw)
    if fn == "insert":          # (pos, v) | (v); more is an error; the value itself is arbitrary
        if len(raw) > 2:
            return None
        if len(raw) == 2:
            p = to_int_spec(raw[0])
            return None if p is None else [p, raw[1]]
        return raw
    if sig == ["I*"]:
        out = [to_int_spec(a) for a in raw]
        return None if any(a is None for a in out) else out
    out = []
    for k, kind in enumerate(sig):
        a = raw[k] if k < len(raw) else None
        if kind[0] == "O":
            if a is None or a is NIL:
                out.append(None)
                continue
            kind = kind[1:]
        elif a is None:
            return None              # required argument missing
        v = to_int_spec(a) if kind == "I" else to_str_spec(a)
        if v is None:
            return None
        out.append(v)
    return out                       # surplus arguments ignored


def int_spellings(k, rng):
    """other ways to pass the integer k, all of which the manual converts to k"""
    out = []
    if abs(k) < 1 << 53:
        out.append(F(float(k)))
        out.append(b"%d" % k)
        out.append(b" %d\t" % k)
        out.append(b"%d.0" % k)
        out.append(b"%de0" % k)
        if k >= 0:
            out.append(b"0x%x" % k)
            out.append(b"+%d" % k)
    else:
        out.append(b"%d" % k)
    if k == MININT:
        out.append(F(-2.0 ** 63))
    return out


BAD_INTS = [F(1.5), F(-0.5), F(float("inf")), F(float("nan")), F(2.0 ** 63), b"abc", b"", b"1x", b"1.5", b"0x", True, TBL]
BAD_STRS = [True, TBL]
NUM_STRS = [(b"12345", 12345), (b"-7", -7), (b"0", 0), (b"1.5", F(1.5)), (b"2.0", F(2.0)), (b"-0.25", F(-0.25)), (b"1e+15", F(1e15)),
            (b"100000", 100000)]


def canon_val(tok):
    """Go canonical value -> oracle form (ints in hex)."""
    if tok[0] == "i":
        return "i" + hexi(int(tok[1:]))
    return tok


def classify_err(msghex):
    try:
        m = bytes.fromhex(msghex).decode("latin-1") if msghex not in ("", "-") else ""
    except ValueError:
        m = ""
    import re
    r = re.search(r"#(\d+) out of range", m)
    if r:
        return "err:range%x" % int(r.group(1))
    for pat, cls in (("rep causes overflow", "err:overflow"), ("resulting string too large", "err:toolarge"), ("must be integers", "err:notint"),
                     ("interval too large", "err:toolarge"), ("wrap around", "err:wrap"),
                     ("too many values to unpack", "err:toomany"), ("invalid value", "err:invalid"),
                     ("too big to sort", "err:toobig"), ("injected", "err:injected"), ("cmp", "err:cmp"),
                     ("attempt to compare", "err:compare"), ("invalid order function", "err:order"),
                     ("must be a string", "err:muststring"), ("must be an integer", "err:mustint"), ("must be a table", "err:musttable"),
                     ("wrong number of arguments", "err:nargs"), ("needed", "err:nargs")):
        if pat in m:
            return cls
    return "err:other:" + m[:60].replace(" ", "_")


def go_result(ev):
    """'b1,v,v' / 'b0,s<msg>' -> 'ok:v,v' / 'err:<class>'"""
    if ev.startswith("GOPANIC"):
        return "panic"
    if ev.startswith("BATCHFAIL") or ev.startswith("CRASH") or ev.startswith("HANG"):
        return "crash:" + ev[:40]
    toks = ev.split(",")
    if toks[0] == "b1":
        return "ok:" + ",".join(canon_val(t) for t in toks[1:])
    if toks[0] == "b0":
        if len(toks) > 1 and toks[1][0] == "s":
            return classify_err(toks[1][1:])
        return "err:nonstring"
    return "bad:" + ev[:40]


def same_S(go, s):
    """S fixes the values, and for errors only that an error is raised."""
    if s.startswith("err:"):
        return go.startswith("err:")
    return go == s


# ----------------------------------------------------------------------------- generators
SYMS = [b"a", b"Z", b"\x00", b"\x80", b"\xff", b"\xc3\xa9", b"m"]     # 0xc3 0xa9 = U+00E9, a multi-byte letter


def strings_over(syms, maxlen):
    out = []
    for n in range(maxlen + 1):
        for t in itertools.product(syms, repeat=n):
            out.append(b"".join(t))
    return out


def positions(l):
    return [MININT, MININT + 1] + list(range(-l - 2, l + 3)) + [MAXINT - 1, MAXINT]


def gen_string_cases(tier, rng, ck):
    cases = []
    thorough = tier == "thorough"
    # --- sub, byte: every (i, j) in the position lattice
    subs = strings_over([b"a", b"\x00", b"\xff"], 4 if thorough else 3) + [b"abcd", b"\x80\xc3\xa9\x00z", b"abcdef"]
    for s in subs:
        P = positions(len(s))
        for i in P:
            cases.append(("sub", (s, i, None)))
            cases.append(("byte", (s, i, None)))
            for j in P:
                cases.append(("sub", (s, i, j)))
                cases.append(("byte", (s, i, j)))
        cases.append(("byte", (s, None, None)))
    # --- content functions: every string of <= 4 symbols over the full alphabet
    alls = strings_over(SYMS, 4 if thorough else 3) + [b"Hello, World!\xc3\x89\xc3\xa9", b"\xe2\x82\xac", b"\xc3", b"\xf0\x9f\x98\x80", b"\xed\xa0\x80", b"\xc0\x80"]
    for s in alls:
        for fn in ("len", "reverse", "upper", "lower"):
            cases.append((fn, (s,)))
    # all 256 single bytes, and pairs around the case boundaries
    for b in range(256):
        s = bytes([b])
        # U+00B5 / U+00FF cannot be formed by a single byte; every single byte >= 0x80 is invalid UTF-8
        for fn in ("upper", "lower", "reverse", "len"):
            cases.append((fn, (s,)))
    # --- rep
    reps = strings_over([b"x", b"\x00", b"\xc3\xa9"], 2) + [b"abc"]
    ns = [MININT, MININT + 1, -2, -1, 0, 1, 2, 3, 5, 17, 1 << 31, 1 << 32, (1 << 61) + 1, 1 << 62, (1 << 62) + 1,
          MAXINT // 2, MAXINT // 2 + 1, MAXINT // 3 + 1, MAXINT - 1, MAXINT]
    seps = [None, b"", b",", b"\x00\xff", b"abc"]
    for s in reps:
        for n in ns:
            for sep in seps:
                size = 0 if n <= 0 else n * len(s) + (n - 1) * len(sep or b"")
                if (1 << 16) <= size <= (1 << 40):
                    ck.count("rep:skipped-allocation")     # a real allocation; above 2^40 rep refuses
                    continue
                if n > (1 << 16) and size < (1 << 16):
                    # n-1 writes of empty strings: the builder loop (like PUC-Lua's) runs n times
                    ck.count("rep:skipped-long-empty-loop")
                    continue
                cases.append(("rep", (s, n, sep)))
    # --- char
    cv = [MININT, -1, 0, 1, 65, 255, 256, MAXINT]
    for n in range(0, 4 if thorough else 3):
        for t in itertools.product(cv, repeat=n):
            cases.append(("char", t))
    cases.append(("char", tuple(range(0, 256, 5))))
    # --- plain find (and the empty pattern, which takes the same branch without the plain flag)
    fs = strings_over([b"a", b"b", b"\x00"], 4 if thorough else 3) + [b"abcabc", b"aaaa\xffaaa", b"ab\xc3\xa9ab\xc3\xa9"]
    fp = strings_over([b"a", b"b", b"\x00"], 2) + [b"c", b"abc", b"\xc3\xa9", b"%a", b".", b"a+"]
    for s in fs:
        for p in fp:
            for init in positions(len(s)):
                cases.append(("find", (s, p, init)))
        cases.append(("find", (s, b"", None)))
    # --- random longer inputs
    nrand = 6000 if not thorough else 100000
    for _ in range(nrand):
        l = rng.geometric(12, 200)
        alpha = rng.choice([b"ab", b"abc\x00", bytes(range(256)), b"aA zZ@[`{\x7f\x80"])
        s = bytes(rng.choice(alpha) for _ in range(l))
        k = rng.below(8)
        pos = lambda: rng.choice([rng.below(2 * l + 4) - l - 2, rng.below(2 * l + 4) - l - 2, MININT, MAXINT, 0, 1, -1])
        if k == 0:
            cases.append(("sub", (s, pos(), pos() if rng.chance(3, 4) else None)))
        elif k == 1:
            cases.append(("byte", (s, pos(), pos() if rng.chance(3, 4) else None)))
        elif k == 2:
            pl = rng.below(4)
            if l and rng.chance(2, 3):
                a = rng.below(l)
                p = s[a:a + pl]
            else:
                p = bytes(rng.choice(alpha) for _ in range(pl))
            cases.append(("find", (s, p, pos())))
        elif k == 3:
            sep = rng.choice([None, b"", b"-", b"\x00\x00"])
            cases.append(("rep", (s[:20], rng.below(40) - 3, sep)))
        elif k == 4:
            cases.append(("reverse", (s,)))
        elif k == 5:
            cases.append(("upper", (bytes(c for c in s if c < 0x80 or alpha != bytes(range(256))),)))
        elif k == 6:
            cases.append(("lower", (bytes(c for c in s if c < 0x80 or alpha != bytes(range(256))),)))
        else:
            cases.append(("char", tuple(rng.below(300) - 20 for _ in range(rng.below(12)))))
    return cases


def typed_string_cases(rng, ck):
    """The argument-TYPE dimension: every parameter of every string function is also passed as nil (optionals),
    a number where a string is expected, a numeric string / integral float where an integer is expected, values that
    must be refused (non-integral float, non-numeric string, boolean, table, nil for a required parameter), and
    with surplus arguments."""
    base = []
    strs = [b"abcde", b"12345", b"1.5"]
    for sv in strs:
        for i in (-2, 0, 2, MININT, MAXINT):
            for j in (None, -1, 3, 7):
                base.append(("sub", (sv, i, j)))
        for i in (None, -2, 2):
            for j in (None, -1, 4):
                if not (i is None and j is not None):
                    base.append(("byte", (sv, i, j)))
                else:
                    base.append(("byte", (sv, 1, j)))
        for fn in ("len", "reverse", "upper", "lower"):
            base.append((fn, (sv,)))
        for n in (0, 1, 3):
            for sep in (None, b"", b",", b"2.0"):
                base.append(("rep", (sv[:3], n, sep)))
        for pt in (b"", b"3", b".5", b"cd", b"%d"):
            for init in (None, 1, 3, -2, 9):
                base.append(("find", (sv, pt, init)))
                if pt in (b"3", b"cd"):
                    # match / gmatch with a pattern without magic characters: the first match is the pattern itself, exactly
                    # where plain find finds it (their init argument is parsed like find's)
                    base.append(("match", (sv, pt, init)))
                    base.append(("gmatch", (sv, pt, init)))
    for b, _ in NUM_STRS:
        for fn in ("len", "reverse", "upper"):
            base.append((fn, (b,)))
        base.append(("sub", (b, 2, -2)))
        base.append(("byte", (b, 1, 2)))
        base.append(("rep", (b, 2, b"-7")))
        base.append(("find", (b"x-7;12345|0|1.5|2.0;-0.25 1e+15 100000", b, 1)))
    for t in ((), (65,), (0, 255), (97, 98, 99)):
        base.append(("char", t))
    numof = dict(NUM_STRS)
    out = [(fn, a) for fn, a in base if fn in ("match", "gmatch")]

    def emit(fn, raw):
        raw = list(raw)
        while raw and raw[-1] is None:
            raw.pop()
        norm = coerce_args(fn, raw)
        ck.count("argtype:" + fn + (":must-raise" if norm is None else ":converted"))
        if norm is None:
            out.append((fn, None, tuple(raw), True))
        else:
            out.append((fn, tuple(norm), tuple(raw), False))
    for fn, a in base:
        sig = SIGS[fn]
        a = list(a)
        if sig == ["I*"]:
            for k, v in enumerate(a):
                for sp in int_spellings(v, rng) + BAD_INTS[:4] + [b"abc", NIL, True]:
                    emit(fn, a[:k] + [sp] + a[k + 1:])
            emit(fn, a + [b"65"])
            emit(fn, a + [F(66.0)])
            continue
        for k, kind in enumerate(sig):
            v = a[k] if k < len(a) else None
            later = any(x is not None for x in a[k + 1:])
            if kind in ("I", "OI"):
                if v is not None:
                    for sp in int_spellings(v, rng):
                        emit(fn, a[:k] + [sp] + a[k + 1:])
                    for bad in BAD_INTS:
                        emit(fn, a[:k] + [bad] + a[k + 1:])
                if kind == "OI" and (v is None or not later):
                    emit(fn, a[:k] + [NIL] + a[k + 1:])            # nil = absent
                if kind == "OI" and v is None and k + 1 < len(sig):
                    emit(fn, a[:k] + [NIL, 2] + a[k + 2:])        # nil in the middle
                if kind == "I":
                    emit(fn, a[:k] + [NIL] + a[k + 1:])            # required: must raise
            else:
                if v is not None and v in numof:
                    emit(fn, a[:k] + [numof[v]] + a[k + 1:])       # a number where a string is expected
                if v is not None:
                    for bad in BAD_STRS:
                        emit(fn, a[:k] + [bad] + a[k + 1:])
                if kind == "OS":
                    emit(fn, a[:k] + [NIL] + a[k + 1:])
                    emit(fn, a[:k] + [7] + a[k + 1:])
                else:
                    emit(fn, a[:k] + [NIL] + a[k + 1:])
        if fn != "find":          # (the harness appends the plain flag to find's arguments)
            full = [x if x is not None else NIL for x in (a + [None] * len(sig))[:len(sig)]]
            emit(fn, full + [b"surplus"])
            emit(fn, full + [NIL, 1, TBL])
        emit(fn, [])                                               # no argument at all
    return out


# ----------------------------------------------------------------------------- known findings (narrow predicates)
def norm_start(s, init):
    """0-based start offset of the search as string.find computes it (None if beyond the end)."""
    l = len(s)
    p = init if init is not None else 1
    if p < 0:
        p = l + 1 + p
    si = max(p - 1, 0)
    return si if si <= l else None


def known_string_finding(fn, args, go, im, s, raw=None):
    """Returns the id of the recorded defect that explains Go != S on this case, or None.
    Every predicate requires that Go behaves exactly like the IM (which models the defect) and
    that the input lies in the recorded defect class."""
    if raw is not None and s.startswith("ok:"):
        sig = SIGS[fn]
        if go == "err:muststring" and any(k < len(raw) and isinstance(raw[k], (int, F)) and not isinstance(raw[k], bool)
                                          for k, kind in enumerate(sig) if kind in ("S", "OS")):
            return "C19-number-for-string-parameter-rejected"
        if fn == "byte" and go == "err:mustint" and any(x is NIL for x in raw[1:3]):
            return "C19-byte-nil-optional-rejected"
    if go != im or args is None:
        return None
    if fn == "rep":
        if args[1] < 0 and go == "err:range2" and s == "ok:s-":
            return "C19-rep-negative-count-raises"
    return None


# ----------------------------------------------------------------------------- tables
THEOREMS_TAB = ["C19_insert_spec", "C19_remove_spec", "C19_move_spec", "C19_unpack_spec", "C19_pack_spec", "C19_concat_spec",
                "C19_sort_is_permutation", "C19_sort_refines_list", "C19_sort_sorted_if_consistent"]
TAGS = {"4c": "L", "52": "R", "524e": "RN", "72": "r", "636e": "cn", "6331": "c1", "6332": "c2",
        "6731": "g1", "6732": "g2", "7331": "s1", "7332": "s2", "6c31": "l1", "6c32": "l2"}


def contents_str(d):
    if not d:
        return "-"
    return ";".join("%s=%s" % (arg(k), arg(v)) for k, v in sorted(d.items()))


def tab_go_line(cid, c):
    toks = [cid, "T" + c["op"], "mode=" + c["mode"], "len=" + (arg(c["len"]) if c.get("len") is not None else "-"),
            "t1=" + contents_str(c["t1"])]
    if c.get("t2") is not None:
        toks.append("t2=" + contents_str(c["t2"]))
    toks.append("keys=" + ",".join(hexi(k) for k in tab_keys(c)))
    if c.get("err"):
        toks.append("err=%d" % c["err"])
    if c.get("cmp"):
        toks.append("cmp=" + c["cmp"])
    toks.append("--")
    toks += [a if isinstance(a, str) else arg(a) for a in (c.get("raw") or c["args"])]
    return " ".join(toks)


def pv(tok):
    """canonical Go value -> python value"""
    if tok == "n":
        return None
    if tok in ("b0", "b1"):
        return tok == "b1"
    if tok[0] == "i":
        return int(tok[1:])
    if tok[0] == "s":
        return bytes.fromhex(tok[1:]) if tok != "s-" else b""
    return ("opaque", tok)


def parse_tab_go(ev):
    """-> dict(status, L, ok, res, new, c1, c2, log) or dict(status='killed'/'panic'/...)"""
    if ev.startswith("BATCHFAIL killed"):
        return {"status": "spin"}
    if ev.startswith("GOPANIC"):
        return {"status": "panic", "raw": ev}
    if ev.startswith(("BATCHFAIL", "CRASH", "HANG")) or not ev:
        return {"status": "crash", "raw": ev[:200]}
    r = {"status": "done", "L": None, "res": None, "new": {}, "c1": {}, "c2": {}, "log": []}
    rn = None
    for e in ev.split(";"):
        t = e.split(",")
        tag = TAGS.get(t[0][1:], "?")
        v = [pv(x) for x in t[1:]]
        if tag == "L":
            r["L"] = v[0]
        elif tag == "R":
            n = v[-1]
            r["res"] = v[:n]
        elif tag == "RN":
            rn = v[0]
            r["res"] = []
        elif tag == "r":
            r["res"].append(v[0] if v else None)
        elif tag in ("cn", "c1", "c2"):
            r[{"cn": "new", "c1": "c1", "c2": "c2"}[tag]][v[0]] = v[1]
        elif tag in ("g1", "g2"):
            r["log"].append("%s:%s" % (tag, hexi(v[0])))
        elif tag in ("s1", "s2"):
            r["log"].append("%s:%s:%s" % (tag, hexi(v[0]), arg(v[1] if len(v) > 1 else None)))
        elif tag in ("l1", "l2"):
            r["log"].append(tag)
        else:
            r["status"] = "bad"
    if rn is not None:
        while len(r["res"]) < rn:
            r["res"].append(None)
    return r


def tab_args_plain(c):
    return [a for a in c["args"] if not (isinstance(a, str) and a.startswith("@"))]


def tab_same(c):
    return not (c["op"] == "move" and len(c["args"]) >= 5 and c["args"][4] == "@2")


def tab_len(c, g):
    return c["len"] if (c["mode"] == "proxy" and c.get("len") is not None) else g.get("L")


def tab_keys(c, g=None):
    """The keys whose final value is compared (probed on the Go side, evaluated on the model side):
    initial keys, integer arguments, reported length, destination range of a move, each with its neighbours."""
    ks = set(c["t1"].keys()) | set((c.get("t2") or {}).keys())
    a = [x for x in tab_args_plain(c) if isinstance(x, int) and not isinstance(x, bool)]
    L = c.get("len") if c.get("len") is not None else 0
    a.append(L)
    a.append(len(c["t1"]))
    if c["op"] == "move" and len(a) >= 3 and a[0] <= a[1] and a[1] - a[0] <= 1000:
        ks |= set(range(a[2], a[2] + a[1] - a[0] + 1))
    if c["op"] == "pack":
        ks |= set(range(0, len(c["args"]) + 3))
    if c["op"] == "sort":
        ks |= set(range(0, min(max(len(c["t1"]), L if L < 1000 else 0), 400) + 2))
    for x in a:
        ks |= {x}
    out = set()
    for k in ks:
        for d in (-1, 0, 1):
            if MININT <= k + d <= MAXINT:
                out.add(k + d)
    return sorted(out)


def tab_oracle_line(cid, c, g):
    L = tab_len(c, g)
    toks = [cid, "T" + c["op"], "len1=" + hexi(L if isinstance(L, int) else 0), "len2=0", "t1=" + contents_str(c["t1"]),
            "t2=" + contents_str(c.get("t2") or {}), "keys=" + ",".join(hexi(k) for k in tab_keys(c, g)),
            "same=%d" % (1 if tab_same(c) else 0), "err=%d" % (c.get("err") or 0), "--"]
    toks += [arg(a) for a in tab_args_plain(c)]
    return " ".join(toks)


def tab_go_canon(c, g):
    """Go outcome in the oracle's form: (result, contents1, contents2, log)"""
    if g["status"] != "done":
        return (g["status"], "", "", "")
    res = g["res"]
    if res and res[0] is True:
        vals = res[1:]
        if c["op"] in ("insert",):
            out = "ok:" if vals == [] else "ok:?" + repr(vals)
        elif c["op"] == "move":
            want = b"@1" if tab_same(c) else b"@2"
            out = "ok:" if vals == [want] else "ok:?" + repr(vals)
        elif c["op"] == "pack":
            n = g["new"].get(b"n")
            out = "ok:" + arg(n) if vals == [b"@new"] else "ok:?" + repr(vals)
        elif c["op"] in ("remove", "concat"):
            out = "ok:" + (arg(vals[0]) if len(vals) == 1 else "?" + repr(vals))
        else:
            out = "ok:" + ",".join(arg(v) for v in vals)
    elif res and res[0] is False:
        m = res[1] if len(res) > 1 else None
        out = classify_err(m.hex()) if isinstance(m, bytes) else "err:nonstring"
        if out == "err:invalid":
            import re
            r = re.search(rb"at index (-?\d+) in table", m)
            out = "err:invalid:" + hexi(int(r.group(1))) if r else out
    else:
        out = "bad"
    c1 = g["new"] if c["op"] == "pack" else g["c1"]
    c1 = {k: v for k, v in c1.items() if isinstance(k, int)}
    return (out, contents_str(c1), contents_str(g["c2"]), ",".join(g["log"]) or "-")


def tab_feasible(c):
    """False for calls that (correctly) run an astronomically long loop."""
    a = [x for x in tab_args_plain(c)]
    op = c["op"]
    L = c.get("len") if c["mode"] == "proxy" and c.get("len") is not None else len(c["t1"])
    if op == "move":
        f, e, t = a[0], a[1], a[2]
        if f <= e and e - f > 300:
            ok = (e - f + 1 <= MAXINT) and (t + (e - f) <= MAXINT)
            return not ok
    if op == "insert" and len(a) == 2 and isinstance(a[0], int):
        return not (1 <= a[0] <= L + 1 and L - a[0] > 300 and L < MAXINT)
    if op == "remove" and a and isinstance(a[0], int):
        return not (1 <= a[0] < L and L - a[0] > 300)
    if op in ("unpack", "concat"):
        idx = a if op == "unpack" else a[1:]
        i = idx[0] if len(idx) > 0 and idx[0] is not None else 1
        j = idx[1] if len(idx) > 1 and idx[1] is not None else L
        if op == "unpack":
            return j - i <= 300 or (i < MAXINT - 256)        # the latter raises "too many"
        return True      # concat stops at the first nil
    return True


def gen_table_cases(tier, rng, ck):
    thorough = tier == "thorough"
    cases = []
    seqs = []
    for n in range(0, 6):
        seqs.append({i + 1: 11 + i for i in range(n)})
    seqs.append({1: b"a", 2: 7, 3: b"", 4: -3})
    seqs.append({1: 11, 2: 12, 4: 14, 5: 15})            # a hole
    seqs.append({0: 10, 1: 11, 2: 12, 3: 13, -1: 9, 7: 17})
    def lens(n):
        return [None, n, n + 1, n - 1, 0, -1, MAXINT, MAXINT - 1, MININT]
    def modes(n):
        out = [("plain", None)]
        for l in lens(n):
            out.append(("proxy", l))
        return out
    def poslat(n):
        return [MININT, MININT + 1, -1, 0] + list(range(1, n + 3)) + [MAXINT - 1, MAXINT]
    for t in seqs:
        n = len(t)
        for mode, l in modes(n):
            base = {"mode": mode, "len": l, "t1": t}
            for pos in [None] + poslat(n):
                for v in (99, None):
                    cases.append(dict(base, op="insert", args=["@1", v] if pos is None else ["@1", pos, v]))
                cases.append(dict(base, op="remove", args=["@1"] if pos is None else ["@1", pos]))
            for i in [None] + poslat(n):
                for j in [None] + poslat(n):
                    if i is None and j is not None:
                        continue      # unpack(t, nil, j): nil for an optional integer is argument-convention, not modelled
                    cases.append(dict(base, op="unpack", args=["@1"] + ([i] if i is not None else []) + ([j] if j is not None else [])))
                    for sep in (b",", b""):
                        if (mode == "plain" or l in (None, n, MAXINT)) and (sep or thorough):
                            cases.append(dict(base, op="concat", args=["@1", sep] + ([i] if i is not None else []) + ([j] if j is not None else [])))
            cases.append(dict(base, op="concat", args=["@1"]))
    # concat with an invalid element at every position
    for n in range(1, 5):
        for bad in range(1, n + 1):
            for badv in (True, None):
                t = {i: (b"s%d" % i if i % 2 else i * 10) for i in range(1, n + 1)}
                if badv is None:
                    del t[bad]
                else:
                    t[bad] = badv
                for mode in ("plain", "proxy"):
                    cases.append({"op": "concat", "mode": mode, "len": n, "t1": t, "args": ["@1", b"-"]})
                    cases.append({"op": "concat", "mode": mode, "len": n, "t1": t, "args": ["@1", b"-", 2, n]})
    for v in (MININT, MAXINT, -1, 0, 1234567890123):
        cases.append({"op": "concat", "mode": "plain", "len": None, "t1": {1: v, 2: b"x", 3: v}, "args": ["@1", b" "]})
    # move: the (f, e, t) lattice, same table and another table
    mseqs = [seqs[3], seqs[5], seqs[8]] if not thorough else seqs
    for t in mseqs:
        n = len(t)
        lat = [MININT, MININT + 1, -1, 0, 1, 2, 3, n, n + 1, n + 3, MAXINT - 1, MAXINT]
        lat = sorted(set(lat))
        for f, e, d in itertools.product(lat, repeat=3):
            for mode in ("plain", "proxy"):
                cases.append({"op": "move", "mode": mode, "len": None, "t1": t, "args": ["@1", f, e, d]})
                if mode == "proxy" or thorough:
                    cases.append({"op": "move", "mode": mode, "len": None, "t1": t, "t2": {1: 71, 2: 72, 9: 79},
                                  "args": ["@1", f, e, d, "@2"]})
                    cases.append({"op": "move", "mode": mode, "len": None, "t1": t, "args": ["@1", f, e, d, "@1"]})
    # overlapping moves of every small shape
    for n in range(1, 6):
        t = {i: 20 + i for i in range(1, n + 1)}
        for f in range(0, n + 1):
            for e in range(f - 1, n + 2):
                for d in range(-1, n + 3):
                    cases.append({"op": "move", "mode": "proxy" if (f + e + d) % 2 else "plain", "len": None, "t1": t, "args": ["@1", f, e, d]})
    # pack
    pvs = [None, 1, b"x", False]
    for n in range(0, 4):
        for tup in itertools.product(pvs, repeat=n):
            cases.append({"op": "pack", "mode": "plain", "len": None, "t1": {}, "args": list(tup)})
    cases.append({"op": "pack", "mode": "plain", "len": None, "t1": {}, "args": list(range(1, 40))})
    # error injection: a metamethod raises at the k-th access
    for t in (seqs[3], seqs[5]):
        n = len(t)
        for k in range(1, 2 * n + 4):
            b = {"mode": "proxy", "len": n, "t1": t, "err": k}
            cases.append(dict(b, op="insert", args=["@1", 1, 99]))
            cases.append(dict(b, op="insert", args=["@1", 99]))
            cases.append(dict(b, op="remove", args=["@1", 1]))
            cases.append(dict(b, op="remove", args=["@1"]))
            cases.append(dict(b, op="move", args=["@1", 1, n, 2]))
            cases.append(dict(b, op="move", args=["@1", 2, n, 1]))
            cases.append(dict(b, op="move", t2={5: 1}, args=["@1", 1, n, 1, "@2"]))
            cases.append(dict(b, op="unpack", args=["@1"]))
            cases.append(dict(b, op="concat", args=["@1", b","]))
    # random longer sequences
    nrand = 1500 if not thorough else 40000
    for _ in range(nrand):
        n = rng.geometric(8, 60)
        t = {i: (rng.below(100) if rng.chance(4, 5) else bytes([97 + rng.below(26)])) for i in range(1, n + 1)}
        mode = rng.choice(["plain", "proxy"])
        pos = lambda: rng.choice([rng.below(n + 3) - 1, rng.below(n + 1) + 1, rng.below(n + 1) + 1])
        k = rng.below(6)
        b = {"mode": mode, "len": None, "t1": t}
        if k == 0:
            cases.append(dict(b, op="insert", args=["@1", pos(), 1000] if rng.chance(2, 3) else ["@1", 1000]))
        elif k == 1:
            cases.append(dict(b, op="remove", args=["@1", pos()] if rng.chance(2, 3) else ["@1"]))
        elif k == 2:
            cases.append(dict(b, op="move", args=["@1", pos(), pos(), pos() + rng.below(3) - 1]))
        elif k == 3:
            cases.append(dict(b, op="unpack", args=["@1", pos(), pos()]))
        elif k == 4:
            cases.append(dict(b, op="concat", args=["@1", rng.choice([b"", b", "]), pos(), pos()]))
        else:
            cases.append(dict(b, op="move", t2={i: -i for i in range(1, rng.below(8))}, args=["@1", pos(), pos(), pos(), "@2"]))
    out = []
    for c in cases:
        if tab_feasible(c):
            out.append(c)
        else:
            ck.count("tab:skipped-long-loop:" + c["op"])
    return out


def gen_sort_cases(tier, rng):
    thorough = tier == "thorough"
    cases = []
    # lt0 … ltnan answer with true VALUES that are not the boolean true (0, "", a table, the operand, a position, several
    # values, a function, NaN) and with false / nil / nothing at all: the manual's "returns true" is truthiness
    truthy = ["lt0", "ltstr", "lttab", "ltand", "ltfind", "ltmulti", "ltfun", "ltnan"]
    # bad*: a comparator that is not a function (number, string, true, a callable table): refused whatever the table is
    badcmp = ["bad42", "badstr", "badtrue", "badcall"]
    cmps = ["none", "lt", "gt", "le", "true", "false", "nil", "mod3", "rand1", "rand7", "rand12345", "err1", "err2", "err5", "err17", "yield"] + truthy + badcmp
    vals = [3, 1, 2]
    for n in range(0, 6 if not thorough else 7):
        for perm in itertools.permutations(range(1, n + 1)):
            t = {i + 1: perm[i] for i in range(n)}
            for cmpk in (cmps if n <= 4 or thorough else ["none", "gt", "true", "rand7", "err2"] + truthy):
                cases.append({"op": "sort", "mode": "plain" if (n + len(cmpk)) % 2 else "proxy", "len": None, "t1": t, "cmp": cmpk, "args": []})
    # duplicates, strings, mixed (comparison errors), holes, lying __len
    specials = [{1: 2, 2: 2, 3: 1, 4: 2, 5: 1}, {1: b"b", 2: b"a", 3: b"", 4: b"ab"}, {1: 3, 2: b"x", 3: 1},
                {1: 5, 2: 4, 4: 2, 5: 1}, {1: 3, 2: 2, 3: 1, 0: 100, 4: -1, 7: 0}]
    for t in specials:
        for cmpk in cmps:
            for mode, l in (("plain", None), ("proxy", None), ("proxy", 3), ("proxy", 6), ("proxy", 0), ("proxy", -1),
                            ("proxy", MININT), ("proxy", 1 << 40), ("proxy", MAXINT)):
                cases.append({"op": "sort", "mode": mode, "len": l, "t1": t, "cmp": cmpk, "args": []})
    for _ in range(400 if not thorough else 10000):
        n = rng.geometric(15, 300)
        t = {i: rng.below(rng.choice([3, 50, 1 << 40])) for i in range(1, n + 1)}
        cmpk = rng.choice(cmps + ["rand%d" % rng.below(1 << 30), "err%d" % (1 + rng.below(4 * n + 1))])
        cases.append({"op": "sort", "mode": rng.choice(["plain", "proxy"]), "len": None, "t1": t, "cmp": cmpk, "args": []})
    return cases


CONSISTENT = {"none": lambda a, b: a < b, "lt": lambda a, b: a < b, "gt": lambda a, b: a > b, "mod3": lambda a, b: a % 3 < b % 3}
for _k in ("lt0", "ltstr", "lttab", "ltand", "ltfind", "ltmulti", "ltfun", "ltnan"):
    CONSISTENT[_k] = CONSISTENT["lt"]


def sort_predicates(c, g):
    """C19 for table.sort on the Go output alone; returns a list of failures."""
    fails = []
    if g["status"] != "done":
        return ["sort did not return: " + g["status"] + " " + g.get("raw", "")[:80]]
    if c.get("cmp", "").startswith("bad"):
        res = g["res"] or [None]
        if res[0] is not False:
            fails.append("a comparator that is not a function was accepted (%s)" % c["cmp"])
        if any(g["c1"].get(k) != v for k, v in c["t1"].items()):
            fails.append("table changed although the comparator was refused")
        return fails
    L = tab_len(c, g)
    res = g["res"]
    ok = bool(res) and res[0] is True
    before, after = c["t1"], g["c1"]
    if isinstance(L, int) and 0 < L < (1 << 40):
        rng_keys = range(1, min(L, 400) + 1)
        b = sorted((repr(before.get(k)) for k in rng_keys))
        a = sorted((repr(after.get(k)) for k in rng_keys))
        if a != b:
            fails.append("elements lost or duplicated: before %s after %s" % (b[:12], a[:12]))
        for k in set(before) | set(after):
            if not (1 <= k <= L) and before.get(k) != after.get(k):
                fails.append("key %d outside 1..#t changed" % k)
        if ok and c["cmp"] in CONSISTENT and all(isinstance(after.get(k), int) for k in rng_keys):
            lt = CONSISTENT[c["cmp"]]
            for k in range(1, min(L, 400)):
                if lt(after[k + 1], after[k]):
                    fails.append("not ordered at %d: %r then %r" % (k, after[k], after[k + 1]))
                    break
        if ok and c["cmp"] in ("none", "lt") and all(isinstance(after.get(k), bytes) for k in rng_keys):
            for k in range(1, L):
                if after[k + 1] < after[k]:
                    fails.append("strings not ordered at %d" % k)
                    break
        for e in g["log"]:
            f = e.split(":")
            if len(f) > 1 and not (1 <= int(f[1], 16) <= L):
                fails.append("sort accessed index %s outside 1..%d" % (f[1], L))
                break
    else:
        if before != {k: v for k, v in after.items()}:
            fails.append("table changed although #t = %r" % (L,))
        if isinstance(L, int) and L >= (1 << 40) and ok:
            fails.append("sort of 2^40 or more elements returned normally")
    if not ok and res is not None and (c["cmp"] in CONSISTENT or c["cmp"] in ("true", "false", "nil")) and \
            isinstance(L, int) and L < (1 << 40) and all(isinstance(before.get(k), int) for k in range(1, max(L, 0) + 1)) and not c.get("err"):
        fails.append("sort raised an error on integers with a total comparator: %r" % (res[1:2],))
    return fails


def tab_known(c, g, go, im, s):
    raw = c.get("raw")
    if raw and c["op"] == "concat" and go[0] == "err:muststring" and len(raw) > 1 and isinstance(raw[1], (int, F)) \
            and not isinstance(raw[1], bool):
        return "C19-number-for-string-parameter-rejected"
    return None


def typed_table_cases(rng, ck):
    """argument-TYPE dimension for the table functions (see typed_string_cases)"""
    out = []
    t = {1: 11, 2: 12, 3: 13}

    def emit(op, mode, raw, t2=None, a2=None):
        """raw: the arguments after the table, as spelled; a2: optional 5th argument of move"""
        norm = coerce_args(op, raw)
        c = {"op": op, "mode": mode, "len": None, "t1": dict(t), "raw": ["@1"] + list(raw) + ([a2] if a2 is not None else [])}
        if t2 is not None:
            c["t2"] = dict(t2)
        ck.count("argtype:" + op + (":must-raise" if norm is None else ":converted"))
        if norm is None:
            c["argerr"] = True
            c["args"] = ["@1"]
        else:
            while norm and norm[-1] is None:
                norm.pop()
            c["args"] = ["@1"] + norm + ([("@2" if a2 == "@2" else "@1")] if a2 in ("@1", "@2") else [])
        out.append(c)
    for mode in ("plain", "proxy"):
        for pos in (1, 2, 4):
            for sp in int_spellings(pos, rng):
                emit("insert", mode, [sp, 99])
                emit("remove", mode, [sp])
            for bad in BAD_INTS + [NIL]:
                emit("insert", mode, [bad, 99])
            for bad in BAD_INTS:
                emit("remove", mode, [bad])
        emit("insert", mode, [1, 99, 5])                 # four arguments
        emit("insert", mode, [1, 99, NIL])
        emit("insert", mode, [99, NIL, NIL, 7])
        emit("remove", mode, [NIL])
        emit("remove", mode, [NIL, b"surplus"])
        emit("remove", mode, [2, b"surplus", TBL])
        base = [1, 2, 2]
        for k in range(3):
            for sp in int_spellings(base[k], rng):
                emit("move", mode, base[:k] + [sp] + base[k + 1:])
            for bad in BAD_INTS + [NIL]:
                emit("move", mode, base[:k] + [bad] + base[k + 1:])
        emit("move", mode, base, a2=NIL)                # a2 = nil: the same table
        emit("move", mode, base, t2={5: 1}, a2="@2")
        emit("move", mode, base + [NIL, 7])
        emit("move", mode, [1, 2])                       # too few
        for i, j in ((None, None), (2, None), (None, 2), (2, 3), (-1, 1)):
            raws = [[x if x is not None else NIL for x in (i, j)]]
            if i is not None:
                raws += [[sp, j if j is not None else NIL] for sp in int_spellings(i, rng)]
                raws += [[bad, j if j is not None else NIL] for bad in BAD_INTS]
            if j is not None:
                raws += [[i if i is not None else NIL, sp] for sp in int_spellings(j, rng)]
                raws += [[i if i is not None else NIL, bad] for bad in BAD_INTS]
            for r in raws:
                emit("unpack", mode, r)
                emit("concat", mode, [b","] + r)
            emit("unpack", mode, raws[0] + [b"surplus"])
            emit("concat", mode, [NIL] + raws[0])
            emit("concat", mode, [NIL] + raws[0] + [TBL])
            emit("concat", mode, [7] + raws[0])          # a number as separator
            emit("concat", mode, [F(1.5)] + raws[0])
            for bad in BAD_STRS:
                emit("concat", mode, [bad] + raws[0])
    return out


def parse_tab_case(line):
    """'T<op> mode=.. len=.. t1=.. [t2=..] [keys=..] [err=n] [cmp=k] -- args' -> case dict"""
    f = line.split()
    c = {"op": f[0][1:], "mode": "plain", "len": None, "t1": {}, "t2": None, "args": []}

    def val(a):
        if a in ("@1", "@2"):
            return a
        if a == "n":
            return None
        if a in ("b0", "b1"):
            return a == "b1"
        if a[0] == "i":
            return int(a[1:], 16)
        return bytes.fromhex(a[1:]) if a != "s-" else b""

    def cont(sv):
        d = {}
        if sv not in ("-", ""):
            for kv in sv.split(";"):
                k, _, v = kv.partition("=")
                d[val(k)] = val(v)
        return d
    i = 1
    while i < len(f) and f[i] != "--":
        k, _, v = f[i].partition("=")
        if k == "mode":
            c["mode"] = v
        elif k == "len":
            c["len"] = None if v == "-" else val(v)
        elif k in ("t1", "t2"):
            c[k] = cont(v)
        elif k == "err":
            c["err"] = int(v)
        elif k == "cmp":
            c["cmp"] = v
        i += 1
    c["args"] = [val(a) for a in f[i + 1:]]
    if c["op"] in SIGS:
        # arguments as spelled -> what the manual converts them to (explicit nil = NIL)
        rest = [NIL if a is None else a for a in c["args"][1:]]
        a2 = None
        if c["op"] == "move" and len(rest) >= 4:
            a2 = rest[3]
            rest = rest[:3] + rest[4:]
        norm = coerce_args(c["op"], [x for x in rest])
        c["raw"] = c["args"][:1] + [NIL if a is None else a for a in c["args"][1:]]
        if norm is None or (a2 is not None and a2 is not NIL and a2 not in ("@1", "@2")):
            c["argerr"] = True
            c["args"] = ["@1"]
        else:
            while norm and norm[-1] is None:
                norm.pop()
            c["args"] = ["@1"] + norm + ([a2] if a2 in ("@1", "@2") else [])
    return c


def check_tables(ck, gvh, oracle, tier, corpus, tag="t"):
    ccases = [parse_tab_case(l) for l in corpus]
    cases = [c for c in ccases if c["op"] != "sort"] + gen_table_cases(tier, ck.rng, ck) + typed_table_cases(ck.rng, ck)
    sorts = [c for c in ccases if c["op"] == "sort"] + gen_sort_cases(tier, ck.rng)
    allc = cases + sorts
    lines = [tab_go_line("%s%d" % (tag, i), c) for i, c in enumerate(allc)]
    ck.log("table cases: %d (+ %d sort)" % (len(cases), len(sorts)))
    go = run_go(gvh, lines, batch=500)
    parsed = {}
    for i, c in enumerate(allc):
        cid = "%s%d" % (tag, i)
        parsed[cid] = parse_tab_go(go.get(cid, ""))
    olines = [tab_oracle_line("%s%d" % (tag, i), c, parsed["%s%d" % (tag, i)]) for i, c in enumerate(cases) if not c.get("argerr")]
    rc, mod, err = run_oracle(oracle, olines)
    for i, c in enumerate(cases):
        if c.get("argerr"):
            mod["%s%d" % (tag, i)] = {"IM": "err:arg/-/-/-", "S": "err:arg/-/-"}
    if rc != 0 or len(mod) != len(cases):
        ck.violation("oracle crashed on table cases (%d/%d lines)" % (len(mod), len(olines)),
                     {"kind": "oracle-crash", "stderr": err[-2000:]}, no_input=True)
    nviol = 0
    imdiff = []
    fails = {}
    for i, c in enumerate(cases):
        cid = "%s%d" % (tag, i)
        g = parsed[cid]
        m = mod.get(cid)
        if m is None or go.get(cid) == "NOTRUN":
            continue
        gc = tab_go_canon(c, g)
        imf = (m["IM"].split("/") + ["", "", "", ""])[:4]
        sf = (m["S"].split("/") + ["", "", ""])[:3]
        op = c["op"]
        ck.count("tab:" + op + ":" + c["mode"] + (":err-injected" if c.get("err") else "") + (":2tables" if c.get("t2") is not None else ""))
        ck.count("tab-outcome:" + gc[0].split(":")[0] + (":" + gc[0].split(":")[1] if gc[0].startswith("err:") else ""))
        ck.case(lines[i].split(" ", 1)[1], nontrivial=(gc[0] not in ("ok:",) or gc[1] != contents_str(c["t1"])))
        if g["status"] in ("panic", "crash", "bad"):
            nviol += 1
            fails.setdefault(op + "/crash", []).append((len(lines[i]), i, gc, imf, sf))
            continue
        # --- Go vs S
        Lc = tab_len(c, g)
        neglen = isinstance(Lc, int) and Lc < 0 and op in ("insert", "remove")    # the manual says nothing about a negative #t
        s_applicable = not (sf[0] == "big") and not (gc[0] == "err:injected") and not neglen
        s_ok = True
        unpack_limit = False
        if c.get("argerr"):
            # the manual demands an error for these argument types; nothing may change
            sf = ["err:arg", contents_str(c["t1"]), contents_str(c.get("t2") or {})]
            imf = sf + [gc[3]]
        if s_applicable:
            if sf[0].startswith("err:"):
                s_ok = gc[0].startswith("err:") and gc[1] == sf[1] and gc[2] == sf[2]
            else:
                s_ok = (gc[0], gc[1], gc[2]) == (sf[0], sf[1], sf[2])
            if not s_ok and op == "unpack" and gc[0] == "err:toomany":
                a = tab_args_plain(c)
                ii = a[0] if len(a) > 0 and a[0] is not None else 1
                jj = a[1] if len(a) > 1 and a[1] is not None else tab_len(c, g)
                if jj - ii >= 256 and tuple(imf[:3]) == tuple(gc[:3]):
                    unpack_limit = True  # implementation limit on the number of results: recorded finding
        else:
            ck.count("tab:S-not-applicable:" + ("big-range" if sf[0] == "big" else "negative-length" if neglen else "injected-error"))
        if s_ok and op == "move" and c["mode"] == "proxy" and gc[0] == "ok:" and not c.get("err") and not c.get("argerr"):
            # "equivalent to the multiple assignment a2[t],··· = a1[f],···,a1[e]": through the metamethods, every source
            # index is read and every destination index is assigned — also when source and destination coincide
            am = tab_args_plain(c)
            f_, e_, t_ = am[0], am[1], am[2]
            if f_ <= e_:
                dno = "1" if tab_same(c) else "2"
                gets = {int(x.split(":")[1], 16) for x in g["log"] if x.startswith("g1:")}
                sets = {int(x.split(":")[1], 16) for x in g["log"] if x.startswith("s" + dno + ":")}
                if gets != set(range(f_, e_ + 1)) or sets != set(range(t_, t_ + e_ - f_ + 1)):
                    s_ok = False
                    sf = list(sf) + ["every index f..e read through __index, every index t..t+(e-f) assigned through __newindex"]
                ck.count("tab:move:assignment-through-metamethods-checked")
        # --- Go vs IM (log only where there is one)
        im_ok = (gc[0], gc[1], gc[2]) == (imf[0], imf[1], imf[2]) and (c["mode"] == "plain" or gc[3] == imf[3])
        if c.get("argerr"):
            im_ok = gc[0].startswith("err:") and (gc[1], gc[2]) == (imf[1], imf[2])
        if not s_ok:
            k = "C19-unpack-result-limit-256" if unpack_limit else tab_known(c, g, gc[:3], tuple(imf[:3]), sf)
            kf = ck.known_match(lambda e: e["id"] == k) if k else None
            if kf is not None:
                ck.known_finding(kf)
                ck.count("known:" + k)
            else:
                nviol += 1
                fails.setdefault(op, []).append((len(lines[i]), i, gc, imf, sf))
        elif not im_ok:
            k = tab_known(c, g, gc[:3], tuple(imf[:3]), sf)
            kf = ck.known_match(lambda e: e["id"] == k) if k else None
            if kf is not None:          # Go raises for a recorded reason where the manual's call raises for another
                ck.known_finding(kf)
                ck.count("known:" + k)
            else:
                imdiff.append({"case": lines[i].split(" ", 1)[1], "impl": list(gc), "model_IM": imf, "spec_S": sf})
    for op, lst in fails.items():
        lst.sort()
        seen, pick = set(), []
        for e in lst:
            sig = (e[2][0] if e[2][0].startswith("err:") else e[2][0][:3], e[4][0][:3], e[2][1] == e[4][1])
            if sig not in seen and len(pick) < 4:
                seen.add(sig)
                pick.append(e)
        for _, i, gc, imf, sf in pick:
            ck.violation("table.%s differs from the manual's definition on %s: Go %s, spec %s (%d failing cases)"
                         % (op, lines[i].split(" ", 1)[1][:200], gc[:3], sf, len(lst)),
                         {"kind": "Go!=S", "engine": "strlib", "case": lines[i].split(" ", 1)[1], "impl": list(gc), "model_IM": imf,
                          "spec_S": sf, "failing_cases": len(lst), "theorems": [t for t in THEOREMS_TAB if op.split("/")[0] in t]})
    # --- sort: property predicates on the Go output
    sfail = []
    for j, c in enumerate(sorts):
        i = len(cases) + j
        cid = "%s%d" % (tag, i)
        g = parsed[cid]
        if go.get(cid) == "NOTRUN":
            continue
        f = sort_predicates(c, g)
        res = g.get("res") or [None]
        ck.count("sort:cmp=" + ("".join(ch for ch in c["cmp"] if not ch.isdigit())) + ":" + c["mode"])
        ck.count("sort-outcome:" + ("ok" if res[0] is True else "error" if res[0] is False else g["status"]))
        ck.case(lines[i].split(" ", 1)[1], nontrivial=len(c["t1"]) > 1)
        if f:
            sfail.append((len(lines[i]), i, f))
    sfail.sort()
    nviol += len(sfail)
    for _, i, f in sfail[:3]:
        ck.violation("table.sort: %s on %s (%d failing cases)" % (f[0], lines[i].split(" ", 1)[1][:160], len(sfail)),
                     {"kind": "Go!=S", "engine": "strlib", "case": lines[i].split(" ", 1)[1], "impl": go.get("%s%d" % (tag, i), "")[:2000],
                      "failed_predicates": f, "theorems": ["C19_sort_is_permutation", "C19_sort_refines_list", "C19_sort_sorted_if_consistent"]})
    for i in (0, len(cases) // 2, len(cases) + len(sorts) // 2):
        cid = "%s%d" % (tag, i)
        if i < len(allc):
            ck.sample({"case": lines[i].split(" ", 1)[1][:300], "impl": go.get(cid, "")[:300], "model": str(mod.get(cid, ""))[:300]})
    ck.log("table functions: %d Go!=S, %d Go!=IM; sort predicate failures %d" % (nviol - len(sfail), len(imdiff), len(sfail)))
    return nviol, imdiff


# ----------------------------------------------------------------------------- run
def build(ck):
    # C19_OVERLAY: a `go build -overlay` file, used only for the mutation-sensitivity experiments
    gvh, err = ck.build_gvh(pkg="./cmd/gvh-strlib", name="gvh-strlib_verif", overlay=os.environ.get("C19_OVERLAY"))
    if gvh is None:
        ck.violation("harness does not build against /repo", {"kind": "build", "stderr": err[-3000:]}, no_input=True)
        return None, None
    oracle = ck.build_oracle("strlib")
    if oracle is None:
        ck.violation("oracle (extracted model) does not build", {"kind": "build"}, no_input=True)
        return None, None
    return gvh, oracle


def run_go(gvh, lines, batch=2000, timeout=150):
    """Batched run; if the process hangs / dies / loses lines, the cases without an answer are rerun one
    per runtime under the resilient runner (which attributes a crash or hang to a single case)."""
    rc, out, err = vlib.run_lines(gvh, [str(batch)], lines, timeout=timeout)
    res = {}

    def take(out):
        for l in out:
            i = l.find(" ")
            if i < 0:
                res[l] = ""
            else:
                res[l[:i]] = l[i + 1:]
    take(out)
    missing = [l for l in lines if l.split(" ", 1)[0] not in res]
    hangs = 0
    while missing and hangs < 3:
        chunk, missing = missing[:200], missing[200:]
        out = vlib.run_lines_resilient(gvh, ["1"], chunk, per_case_timeout=8)
        hangs += sum(1 for l in out if l.endswith(" HANG") or " CRASH " in l)
        take(out)
    for l in missing:          # after three hangs/crashes the rest is not run (and not counted as evaluated)
        res[l.split(" ", 1)[0]] = "NOTRUN"
    return res


def run_oracle(oracle, lines):
    rc, out, err = vlib.run_lines(oracle, [], lines, timeout=3000)
    res = {}
    for l in out:
        f = l.split(" ")
        d = {}
        for t in f[1:]:
            k, _, v = t.partition("=")
            d[k] = v
        res[f[0]] = d
    return rc, res, err


def check_strings(ck, gvh, oracle, cases, tag="s"):
    """Returns (n Go!=S violations, n Go!=IM differences, first Go!=IM examples)."""
    cases = [scase(c) for c in cases]
    # Go gets the arguments as spelled (raw); the models get what the manual converts them to
    lines = [case_line("%s%d" % (tag, i), fn, list(raw if raw is not None else a)) for i, (fn, a, raw, bad) in enumerate(cases)]
    olines = [(case_line("%s%d" % (tag, i), "find" if fn in ("match", "gmatch") else fn, list(a)) if not bad else None)
              for i, (fn, a, raw, bad) in enumerate(cases)]
    go = run_go(gvh, lines)
    rc, mod, err = run_oracle(oracle, [l for l in olines if l is not None])
    if rc != 0 or len(mod) != sum(1 for l in olines if l is not None):
        ck.violation("oracle crashed (%d/%d lines)" % (len(mod), len(lines)), {"kind": "oracle-crash", "stderr": err[-2000:]}, no_input=True)
    nviol = 0
    imdiff = []
    reported = {}
    for i, (fn, a, raw, bad) in enumerate(cases):
        cid = "%s%d" % (tag, i)
        if bad:
            mod[cid] = {"IM": "err:arg", "S": "err:arg"}     # the manual demands an error for these argument types
        if go.get(cid) == "NOTRUN":
            ck.count("not-run-after-hangs")
            continue
        g = go_result(go.get(cid, "CRASH missing"))
        m = mod.get(cid)
        if m is None:
            continue
        im, s = m["IM"], m["S"]
        if fn in ("match", "gmatch") and not bad:
            # non-magic pattern: the match is the pattern where plain find finds it, nil otherwise
            conv = lambda r: r if not r.startswith("ok:i") else "ok:" + arg(a[1])
            im, s = conv(im), conv(s)
        ck.count("fn:" + fn)
        ck.count("outcome:" + g.split(":")[0] + (":" + g.split(":")[1] if g.startswith("err:") else ""))
        ck.case(lines[i].split(" ", 1)[1], nontrivial=(g not in ("ok:", "ok:s-", "ok:n")) or fn == "len")
        if g == "panic" or g.startswith("crash"):
            nviol += 1
            if reported.setdefault(fn + "/crash", 0) < 2:
                reported[fn + "/crash"] += 1
                ck.violation("string.%s: Go panic / crash on %s" % (fn, lines[i]),
                             {"kind": "Go!=S", "engine": "strlib", "case": lines[i].split(" ", 1)[1], "impl": go.get(cid), "spec_S": s,
                              "theorems": THEOREMS_STR})
            continue
        if not same_S(g, s):
            k = known_string_finding(fn, a, g, im, s, raw)
            kf = ck.known_match(lambda e: e["id"] == k) if k else None
            if kf is not None:
                ck.known_finding(kf)
                ck.count("known:" + k)
            else:
                nviol += 1
                reported.setdefault(fn, [])
                reported[fn].append((len(lines[i]), i, g, im, s))
        elif g != im and not (bad and g.startswith("err:")):
            imdiff.append((i, g, im, s))
    for fn, lst in reported.items():
        if not isinstance(lst, list):
            continue
        lst.sort()
        # the smallest failing input of each kind of difference (Go outcome class / spec outcome class), at most 4 per function,
        # so that two different defects of one function are both shown
        seen, pick = set(), []
        for e in lst:
            sig = (e[2] if e[2].startswith("err:") else e[2][:3], e[4][:3])
            if sig not in seen and len(pick) < 4:
                seen.add(sig)
                pick.append(e)
        for _, i, g, im, s in pick:
            ck.violation("string.%s differs from the manual's definition: %s -> Go %s, spec %s (%d failing cases for this function)"
                         % (fn, lines[i].split(" ", 1)[1], g, s, len(lst)),
                         {"kind": "Go!=S", "engine": "strlib", "case": lines[i].split(" ", 1)[1], "impl": g, "model_IM": im, "spec_S": s,
                          "failing_cases_of_this_function": len(lst), "theorems": [t for t in THEOREMS_STR if fn in t]})
    for i in (0, len(cases) // 3, len(cases) - 1):
        cid = "%s%d" % (tag, i)
        if cid in go and cid in mod:
            ck.sample({"case": lines[i].split(" ", 1)[1], "impl": go[cid][:200], "IM": mod[cid]["IM"][:200], "S": mod[cid]["S"][:200]})
    return nviol, imdiff, lines


def run(tier, seed):
    ck = vlib.Check("C19", tier, seed, level="proof")
    ok_obl = ck.obligations(PROP, clean=False)
    gvh, oracle = build(ck)
    if gvh is None:
        return ck.finish("n/a", TRUSTED, [])

    # ---------------- corpus + known-finding witnesses first
    corpus = []
    cdir = os.path.join(vlib.VERIF, "corpus", "C19")
    if os.path.isdir(cdir):
        for fn in sorted(os.listdir(cdir)):
            for l in open(os.path.join(cdir, fn)):
                l = l.strip()
                if l and not l.startswith("#"):
                    corpus.append(l)
    scorp = [l for l in corpus if not l.startswith("T")]
    tcorp = [l for l in corpus if l.startswith("T")]

    def parse_case(l):
        """corpus line '<fn> <arg>..' with args i<hex> s<hex> n f<bits> b0 b1 t, as spelled: typed like the generated cases"""
        import struct
        f = l.split()
        raw = []
        for a in f[1:]:
            if a == "n":
                raw.append(NIL)
            elif a == "t":
                raw.append(TBL)
            elif a in ("b0", "b1"):
                raw.append(a == "b1")
            elif a[0] == "f":
                raw.append(F(struct.unpack(">d", bytes.fromhex(a[1:]))[0]))
            elif a[0] == "i":
                raw.append(int(a[1:], 16))
            else:
                raw.append(bytes.fromhex(a[1:]) if a != "s-" else b"")
        norm = coerce_args(f[0], raw)
        return (f[0], tuple(norm) if norm is not None else None, tuple(raw), norm is None)

    cases = [parse_case(l) for l in scorp] + gen_string_cases(tier, ck.rng, ck) + typed_string_cases(ck.rng, ck)
    ck.log("string cases: %d (corpus %d)" % (len(cases), len(scorp)))
    nviol, imdiff, lines = check_strings(ck, gvh, oracle, cases)
    ck.log("string functions: %d Go!=S, %d Go!=IM" % (nviol, len(imdiff)))

    # ---------------- table functions and sort
    tv, timdiff = check_tables(ck, gvh, oracle, tier, tcorp)
    nviol += tv

    if (imdiff or timdiff) and nviol == 0:
        # Go != IM but Go = S everywhere: search harder at the property level (thorough-size enumeration)
        ck.log("Go!=IM on %d string / %d table cases; running the larger property-level search" % (len(imdiff), len(timdiff)))
        more = gen_string_cases("thorough", ck.rng, ck) if tier != "thorough" else []
        v2 = 0
        if more:
            v2, _, _ = check_strings(ck, gvh, oracle, more, tag="x")
        if tier != "thorough":
            v3, _ = check_tables(ck, gvh, oracle, "thorough", [], tag="y")
            v2 += v3
        if v2 == 0:
            if imdiff:
                i, g, im, s = imdiff[0]
                ck.violation("implementation no longer matches the Coq model StrLib/Str.v (Go≈IM/strlib); no property-level failure found",
                             {"kind": "Go!=IM", "correspondence": "Go≈IM/strlib", "case": lines[i].split(" ", 1)[1], "impl": g, "model_IM": im,
                              "spec_S": s, "differences": len(imdiff), "theorems_no_longer_about_this_code": THEOREMS_STR}, no_input=True)
            if timdiff:
                ck.violation("implementation no longer matches the Coq model StrLib/Tab.v (Go≈IM/strlib tables); no property-level failure found",
                             dict(timdiff[0], kind="Go!=IM", correspondence="Go≈IM/strlib", differences=len(timdiff),
                                  theorems_no_longer_about_this_code=THEOREMS_TAB), no_input=True)
    if not ok_obl:
        ck.violation("proof obligations of C19 no longer check: " + str(ck.cov.get("obligation_failure", ""))[:300],
                     {"kind": "proof", "theorem_file": PROP, "detail": ck.cov.get("obligation_failure")}, no_input=(nviol == 0))
    ck.cov["correspondence_differences_IM"] = len(imdiff) + len(timdiff)
    ck.cov["exhaustive"] = False
    return ck.finish(
        rule="one case = one library call. Strings: sub/byte for every (i,j) of the position lattice {minint, minint+1, -len-2..len+2, maxint-1, maxint} "
             "(j also absent) over all strings of length <= %d over {a,00,ff} + 3 longer ones; len/reverse/upper/lower on every string of <= %d symbols over "
             "{a,Z,m,00,80,ff,U+00E9} and all 256 single bytes; rep over strings x counts {minint..maxint lattice} x separators (allocations >= 2^16 skipped); "
             "char over tuples of the byte-range lattice; plain find over s x pattern x init lattice; random longer inputs. "
             "Tables: see distribution keys tab:*; every case compared three ways (Go, extracted IM, extracted S); "
             "non-trivial = result is not the empty value; distinct by canonical case line" % ((4, 4) if tier == "thorough" else (3, 3)),
        trusted_base=TRUSTED,
        assumptions=["arguments are passed as Lua integers/strings (argument coercion of floats and numeric strings is not part of the model)",
                     "Go int is 64 bits (amd64)",
                     "string.rep calls whose result would need 2^16..2^40 bytes are not executed (allocation failure is outside the model)"])


def replay(path, seed):
    """Re-runs the case of a replay file on the Go side and on both models."""
    r = json.load(open(path))
    ck = vlib.Check("C19", "quick", seed)
    gvh, oracle = build(ck)
    if gvh is None or "case" not in r:
        print(json.dumps(r, indent=1)[:2000])
        return 1
    line = "r " + r["case"]
    go = run_go(gvh, [line])
    print("case :", r["case"])
    print("impl :", go.get("r"))
    if not r["case"].startswith("T"):
        _, mod, _ = run_oracle(oracle, [line])
        print("impl canonical:", go_result(go.get("r", "")))
        print("model:", mod.get("r"))
        return 0
    c = parse_tab_case(r["case"])
    g = parse_tab_go(go.get("r", ""))
    if c["op"] == "sort":
        print("sort predicates:", sort_predicates(c, g))
        return 0
    _, mod, _ = run_oracle(oracle, [tab_oracle_line("r", c, g)])
    print("impl canonical:", tab_go_canon(c, g))
    print("model:", mod.get("r"))
    return 0
