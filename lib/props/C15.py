# C15 — Lua pattern matching follows the manual for every pattern and subject.
#
#  proof obligations : coq/theories/Properties/C15.v  (models Pattern/{Common,Build,Machine,Spec,Drivers}.v)
#  correspondence    : gvh-pattern (pattern.New / Match / MatchFromStart through the Go API + hook
#                      VerifDump/VerifMatchRaw, string.find/match/gmatch/gsub on a real runtime)
#                      vs oracle/pattern (extracted Build + Machine = IM, Spec + lstrlib drivers = S)
#  three-way         : Go = IM (everything, incl. compiled items, charged budget, internal panics)
#                      Go = S  (match / captures / gsub result+count / gmatch sequence / error class)
#  a Go != S difference is accepted only when it falls in a recorded defect class
#  (known_findings.d/C15.json) AND the IM predicts exactly the Go behaviour.
import itertools
import json
import os
import threading

from lib import vlib

PROP = ["Properties/C15.v"]
TRUSTED = [
    "Coq 8.16.1 kernel (coqc); vm_compute only in Example/_refuted witnesses and the 256-byte mask check",
    "no axioms (Print Assumptions: closed under the global context for every C15 theorem)",
    "extraction: ExtrOcamlBasic only, no Extract Constant; positive/N/Z/nat kept as Coq datatypes",
    "oracle/common/proto.ml + oracle/pattern/driver.ml (text protocol glue), OCaml 4.13.1",
    "Go harness harness/cmd/gvh-pattern/main.go + hook /repo/lib/stringlib/pattern/verif_pattern.go (VerifDump, VerifMatchRaw)",
    "Python generator/diff in lib/props/C15.py; the S side of gsub/gmatch follows lstrlib.c 5.4 (lastmatch rule)",
    "reference oracle harness/cmd/gvh-pattern/ref/reflua.c on the system liblua5.3 (PUC-Rio Lua 5.3.6): Spec = reference on every non-malformed-stream case (distribution key reference-lua-compared)",
    "modelled not verified: Go strings/slices/regexp (gsub's \"%.\" scan), StringNormPos (init is passed already normalised), table/function replacements of gsub",
]

TOKENS = ["a", "b", ".", "%a", "%d", "[ab]", "[^a]", "[a-b]", "*", "+", "-", "?", "^", "$", "(", ")", "()",
          "%1", "%bab", "%f[a]", "%%", "[c-a]", "%f[^a]", "%baa"]
# the last three: %b with identical delimiters (the closing test comes first); before it: a reversed range (denotes the empty set); a frontier on a complemented set (contains \0, so the
# virtual \0 before the subject and after its end matters)
QUANT = {"*", "+", "-", "?"}
REPLS = ["x", "", "%0", "%1", "<%1>", "%%", "%2", "%1%0", "x%", "%y"]
import re
BIG = 1 << 40
UNDEF_RANGE = re.compile(rb"\[[^\]]*(-%|%.-[^\]])")
# 4th argument of gsub: absent / integers incl. negative, 0, min- and maxinteger / floats with and without integer value
NTOKS = ["A"] * 12 + ["i0", "i1", "i1", "i2", "i3", "i-1", "i-2", "i-8000000000000000", "i7fffffffffffffff",
                      "f2.0", "f1.0", "f0.0", "f-1.0", "f1.5", "f-0.5"]


def ntok(v):
    """legacy ints (-1 = absent) or ready-made tokens"""
    if isinstance(v, str):
        return v
    if v is None or v == -1:
        return "A"
    return "i%x" % v if v >= 0 else "i-%x" % (-v)


def nlua(tok):
    if tok == "A":
        return ""
    if tok[0] == "i":
        v = int(tok[1:], 16)
        return ", math.mininteger" if v == -(1 << 63) else ", %d" % v
    return ", " + tok[1:]


def pick_n(rng):
    return NTOKS[rng.below(len(NTOKS))]
REF_EVERY = 3


def hx(b):
    return b.hex() if b else "-"


def subjects(maxlen, alpha=b"abc"):
    out = [b""]
    for n in range(1, maxlen + 1):
        for t in itertools.product(alpha, repeat=n):
            out.append(bytes(t))
    return out


def py_expect(tokens):
    """Independent statement of which token patterns are well formed (manual 6.4.1): parentheses
    balance and %1 names a capture that is already closed.  Returns 'ok' or the error class the
    first offending token gives in a left-to-right scan."""
    ncap = 0
    stack = []
    closed = set()
    n = len(tokens)
    for i, t in enumerate(tokens):
        if t == "(":
            ncap += 1
            stack.append(ncap)
        elif t == "()":
            ncap += 1
            closed.add(ncap)
        elif t == ")":
            if not stack:
                return "invalid_pattern_capture"
            closed.add(stack.pop())
        elif t == "%1":
            if 1 not in closed:
                return "invalid_capture_index1"
    if stack:
        return "unfinished_capture"
    return "ok"


class Case:
    __slots__ = ("ptn", "s", "init", "repl", "maxn", "bud", "mode", "kind", "tokens", "ref")

    def __init__(self, ptn, s, init, repl=b"x", maxn=-1, bud=BIG, mode="a", kind="enum", tokens=None):
        self.ptn, self.s, self.init, self.repl, self.maxn, self.bud, self.mode, self.kind, self.tokens = \
            ptn, s, init, repl, ntok(maxn), bud, mode, kind, tokens
        # compared with reference PUC-Lua too?  (not the malformed stream; not descending ranges, which the manual leaves open)
        # ... nor a set with a range whose bound is written with % ("the interaction between ranges and classes is not defined")
        self.ref = mode == "a" and kind != "malformed-stream" and len(ptn) < 200 and not UNDEF_RANGE.search(ptn)

    def line(self, i):
        return "k%d %s %s %d %s %s %d %s" % (i, hx(self.ptn), hx(self.s), self.init, hx(self.repl), self.maxn,
                                             self.bud, self.mode)

    def canon(self):
        return "%s|%s|%d|%s|%s|%d|%s" % (hx(self.ptn), hx(self.s), self.init, hx(self.repl), self.maxn, self.bud, self.mode)

    def desc(self):
        return {"pattern": self.ptn.decode("latin-1"), "subject": self.s.decode("latin-1"), "init_0based": self.init,
                "repl": self.repl.decode("latin-1"), "maxn": self.maxn, "budget": self.bud, "kind": self.kind,
                "lua": "string.find/match/gmatch(%r, %r, %d); string.gsub(%r, %r, %r%s)" % (
                    self.s.decode("latin-1"), self.ptn.decode("latin-1"), self.init + 1, self.s.decode("latin-1"),
                    self.ptn.decode("latin-1"), self.repl.decode("latin-1"), nlua(self.maxn))}


def fields(line):
    f = line.split(" ")
    return f[0], dict(x.split("=", 1) for x in f[1:] if "=" in x)


def pick_repl(rng):
    return REPLS[rng.below(len(REPLS))].encode()


def pick_budget(rng):
    k = rng.below(10)
    if k < 6:
        return BIG
    if k < 8:
        return 0
    return 1 + rng.below(6)


def gen_cases(ck, tier):
    rng = ck.rng
    cases = []
    # ---- corpus / recorded witnesses first
    corpus = os.path.join(vlib.VERIF, "corpus", "C15")
    if os.path.isdir(corpus):
        for fn in sorted(os.listdir(corpus)):
            for l in open(os.path.join(corpus, fn)):
                l = l.rstrip("\n")
                if l and not l.startswith("#"):
                    t = l.split("\t")
                    cases.append(Case(t[0].encode("latin-1").decode("unicode_escape").encode("latin-1"),
                                      t[1].encode("latin-1").decode("unicode_escape").encode("latin-1"),
                                      int(t[2]), t[3].encode("latin-1").decode("unicode_escape").encode("latin-1") if len(t) > 3 else b"x",
                                      (t[4] if t[4][:1] in "Aif" else int(t[4])) if len(t) > 4 else -1, BIG, "a", "corpus"))
    # ---- exhaustive small domain
    quick = tier == "quick"
    subj_all = subjects(5)
    subj_small = subjects(3)
    full_tok = 2                       # patterns of <= full_tok tokens: every subject of length <= 3, every init
    rate3 = (1, 12) if quick else (1, 1)      # fraction of (pattern) kept for 3 / 4 token patterns
    per_pat3, per_pat4 = (6, 4) if quick else (40, 4)
    rate4 = (1, 150) if quick else (1, 1)
    npat = {1: 0, 2: 0, 3: 0, 4: 0}
    for n in range(1, 5):
        for toks in itertools.product(TOKENS, repeat=n):
            ptn = "".join(toks).encode()
            if n <= full_tok:
                npat[n] += 1
                if py_expect(toks) != "ok":
                    cases.append(Case(ptn, b"ab", 0, b"x", -1, BIG, "a", "enum%d-malformed" % n, toks))
                    continue
                for s in subj_small:
                    for init in range(0, len(s) + 2):
                        cases.append(Case(ptn, s, init, pick_repl(rng), pick_n(rng),
                                          pick_budget(rng), "a", "enum%d" % n, toks))
                # longer subjects, sampled
                for _ in range(6 if quick else 60):
                    s = subj_all[40 + rng.below(len(subj_all) - 40)]
                    cases.append(Case(ptn, s, rng.below(len(s) + 2), pick_repl(rng), pick_n(rng),
                                      pick_budget(rng), "a", "enum%d-long" % n, toks))
            else:
                num, den = (rate3 if n == 3 else rate4)
                # every pattern goes through the builder comparison in thorough; a slice in quick
                if rng.below(den) >= num:
                    continue
                npat[n] += 1
                if py_expect(toks) != "ok":
                    cases.append(Case(ptn, b"ab", 0, b"x", -1, BIG, "a", "enum%d-malformed" % n, toks))
                    continue
                for _ in range(per_pat3 if n == 3 else per_pat4):
                    s = subj_all[rng.below(len(subj_all))]
                    cases.append(Case(ptn, s, rng.below(len(s) + 2), pick_repl(rng), pick_n(rng),
                                      pick_budget(rng), "a", "enum%d" % n, toks))
    # ---- back-references, with captures that can be empty (round 8: seeded change C15-m9 — a back-reference to a capture
    # holding "" never matched — was missed: such patterns need >= 5 tokens and the enumeration stops at 4)
    inners = ["a*", "a?", "a-", ".-", "[ab]*", "%d*", "b?", "a", "a+", ".", ""]
    mids = ["", "b", "c*", "a"]
    tails = ["", "b", "$", "%1"]
    heads = ["", "^", "c"]
    brsubj = subjects(4)
    for inner in inners:
        for mid in mids:
            for tl in tails:
                for hd in heads:
                    if inner == "":
                        continue
                    ptn = (hd + "(" + inner + ")" + mid + "%1" + tl).encode()
                    for _ in range(3 if quick else 40):
                        sb = brsubj[rng.below(len(brsubj))]
                        cases.append(Case(ptn, sb, rng.below(len(sb) + 2), pick_repl(rng), pick_n(rng),
                                          pick_budget(rng), "a", "backref"))
                    cases.append(Case(ptn, b"", 0, pick_repl(rng), pick_n(rng), BIG, "a", "backref"))
                    cases.append(Case(ptn, b"b", 0, pick_repl(rng), pick_n(rng), BIG, "a", "backref"))
    # ---- random longer patterns / subjects over a wider alphabet
    nrand = 4000 if quick else 150000
    wide = TOKENS + ["c", "%s", "%w", "%x", "%u", "%l", "%p", "%c", "%g", "%A", "%D", "%S", "[%a_]", "[^%d]", "[]]", "[^]a]", "[a-]",
                     "[%]]", "%.", "%(", "%2", "%bcc", "%f[%w]", "%f[^a]", "[b-a]", "[z-a]", "[^b-a]", "[a-a]", "[%a-]", "\x00", "%z", " ", "1", "A", "_"]
    salpha = b"abcabc1A _()\x00\xff."
    for _ in range(nrand):
        n = 1 + rng.geometric(5, 12)
        toks = [wide[rng.below(len(wide))] if rng.chance(1, 3) else TOKENS[rng.below(len(TOKENS))] for _ in range(n)]
        ptn = "".join(toks).encode("latin-1")
        sl = rng.geometric(7, 24)
        s = bytes(salpha[rng.below(len(salpha))] if rng.chance(1, 4) else b"ab"[rng.below(2)] for _ in range(sl))
        cases.append(Case(ptn, s, rng.below(len(s) + 2), pick_repl(rng), pick_n(rng),
                          pick_budget(rng), "a", "random"))
    # ---- malformed stream: arbitrary bytes biased to the magic characters
    nmal = 3000 if quick else 100000
    magic = b"%[]^$()*+-?.bf0129aZ\x00\xff]["
    for _ in range(nmal):
        n = rng.geometric(4, 10)
        ptn = bytes(magic[rng.below(len(magic))] for _ in range(n))
        s = bytes(b"ab%["[rng.below(4)] for _ in range(rng.below(5)))
        cases.append(Case(ptn, s, rng.below(len(s) + 1), pick_repl(rng), -1, pick_budget(rng), "a", "malformed-stream"))
    # ---- too complex
    cases.append(Case(b"a" * 10001, b"a", 0, b"x", -1, 0, "p", "too-complex"))
    cases.append(Case(b"a" * 10000, b"a", 0, b"x", -1, 0, "p", "too-complex"))
    return cases, npat


# -------------------------------------------------------------------- known-finding classes
def classify_gs(case, sanchor, flags):
    ids = []
    if "k" in flags:
        ids.append("C15-gsub-counts-skipped-empty-match")
    return ids


def run_pair(gvh, oracle, lines):
    res = {}

    def go():
        res["g"] = vlib.run_lines(gvh, ["cases"], lines, timeout=3000)

    def oc():
        res["o"] = vlib.run_lines(oracle, [], lines, timeout=3000)
    t1, t2 = threading.Thread(target=go), threading.Thread(target=oc)
    t1.start(); t2.start(); t1.join(); t2.join()
    return res["g"], res["o"]


def build_reflua(ck):
    """Reference oracle: PUC-Rio Lua 5.3.6 from the system's liblua5.3 (same matcher and same
    empty-match rule as 5.4).  Optional: returns None when gcc / liblua5.3 are not available."""
    src = os.path.join(vlib.HARNESS, "cmd", "gvh-pattern", "ref", "reflua.c")
    out = os.path.join(vlib.WORK, "bin", "reflua")
    if os.path.exists(out) and os.path.getmtime(out) >= os.path.getmtime(src):
        return out
    rc, so, se = vlib.sh(["gcc", "-O1", src, "-o", out, "-llua5.3"], timeout=120)
    if rc != 0:
        ck.log("reference Lua oracle not built (gcc/liblua5.3 missing?): " + se[-300:])
        return None
    return out


def compare_ref(case, G, O, R, sanchor):
    """Spec (S side of the oracle) against reference Lua.  Returns list of (field, detail)."""
    out = []
    for key in ("F", "M", "GM", "GS"):
        if key == "GM" and case.init != 0:
            continue          # 5.3 has no init argument for gmatch
        sp = O.get(key, "|").split("|")[1]
        r = R.get(key)
        if r is not None and r != sp:
            if G.get(key) == r:
                # the implementation agrees with reference Lua: the specification model is the one in error
                out.append(("s-ref", key, "Spec %s vs reference Lua %s" % (sp, r)))
            else:
                # neither does the implementation: a deviation in a part the specification model takes over from
                # the implementation model (contents of character sets) -- reference Lua is the oracle
                out.append(("go-ref", key, "%s vs reference Lua %s (specification model: %s)" % (G.get(key), r, sp)))
    return out


def compare(ck, case, G, O, stats):
    """Returns list of (kind, field, detail) problems; kind in go-im, go-s, panic."""
    probs = []
    known_hits = []
    # ---------------- builder
    if G.get("B") != O.get("B"):
        probs.append(("go-im", "B", "%s vs model %s" % (G.get("B"), O.get("B"))))
    gb = G.get("B", "")
    if case.tokens is not None:
        exp = py_expect(case.tokens)
        got = "ok" if gb.startswith("ok:") else gb[4:]
        # the manual fixes that a malformed pattern is an error, not which message: compare ok/error
        if (exp == "ok") != (got == "ok"):
            probs.append(("go-s", "B", "builder says %s, the manual's grammar says %s" % (got, exp)))
    if not gb.startswith("ok:"):
        stats["err:" + gb[4:].rstrip("0123456789")] = stats.get("err:" + gb[4:].rstrip("0123456789"), 0) + 1
        return probs, known_hits, False
    sanchor = gb.split(":")[2][0] == "1"
    # hypothesis of C15_api_equiv_spec on the builder's output
    if O.get("WF") != "1":
        probs.append(("go-im", "B", "the compiled pattern violates Top.wf_pattern (hypothesis of C15_api_equiv_spec): " + gb))
    stats["wf_pattern-true"] = stats.get("wf_pattern-true", 0) + (1 if O.get("WF") == "1" else 0)
    stats["oracle-fuel>=proved-bound"] = stats.get("oracle-fuel>=proved-bound", 0) + (1 if O.get("FB") == "1" else 0)
    brp = O.get("BRP") == "1"
    beyond = case.init > len(case.s)
    # ---------------- API level
    for key, skey in (("MS", "SS"), ("MM", "SM")):
        g, o = G.get(key), O.get(key)
        if g != o:
            probs.append(("go-im", key, "%s vs model %s" % (g, o)))
        if g is None:
            continue
        gres, gused, gpan = g.split("/")
        if gpan == "1":
            probs.append(("panic", key, "Go run-time panic inside the matcher (hidden by recover): " + g))
        killed = bool(case.bud) and int(gused) == case.bud + 1     # a budget kill legitimately yields nil
        if not beyond and gpan == "0" and not killed and O.get(skey) is not None and gres != O.get(skey):
            probs.append(("go-s", key, "%s vs manual %s" % (gres, O.get(skey))))
        # budget clause: bytes were consumed => something was charged (when a budget is given)
        if case.bud and gpan == "0" and gres != "nil":
            caps0 = gres[1:].split(",")[0].split(":")
            if int(caps0[1]) > int(caps0[0]) and int(gused) == 0:
                probs.append(("go-s", key, "match consumed bytes but charged 0 cpu: " + g))
    if case.mode != "a":
        return probs, known_hits, True
    # ---------------- Lua level
    for key in ("F", "M", "GM", "GS"):
        g = G.get(key)
        o = O.get(key, "|").split("|")
        im, sp = o[0], o[1]
        if g != im:
            probs.append(("go-im", key, "%s vs model %s" % (g, im)))
        if g == sp:
            continue
        ids = []
        if key == "GS":
            ids = classify_gs(case, sanchor, o[2] if len(o) > 2 else "")
        if ids and g == im:
            known_hits += ids
        elif g is not None and "panic" in g and not ids:
            probs.append(("panic", key, "Go panic escaped from string function: %s (manual: %s)" % (g, sp)))
        else:
            probs.append(("go-s", key, "%s vs manual %s" % (g, sp)))
    return probs, known_hits, True


FN = {"F": "string.find", "M": "string.match", "GM": "string.gmatch", "GS": "string.gsub",
      "MS": "Pattern.MatchFromStart", "MM": "Pattern.Match", "B": "pattern.New"}
THEOREMS = ["C15_api_equiv_spec", "C15_machine_equiv_spec_find", "C15_machine_equiv_spec_at", "C15_run_budget", "C15_masks_correct", "C15_gsub_count_refuted"]


def evaluate(ck, gvh, oracle, cases, stats, report=True, reflua=None):
    lines = [c.line(i) for i, c in enumerate(cases)]
    refres = {}
    refthread = None
    if reflua:
        # the reference interpreter is the slow side: corpus + every 3rd (quick) / 4th (thorough) eligible case
        reflines = [lines[i] for i, c in enumerate(cases) if c.ref and (c.kind == "corpus" or i % REF_EVERY == 0)]

        def runref():
            rc, out, err = vlib.run_lines(reflua, [], reflines, timeout=3000)
            for l in out:
                rid, R = fields(l)
                refres[rid] = R
        refthread = threading.Thread(target=runref)
        refthread.start()
    (rc1, gout, e1), (rc2, oout, e2) = run_pair(gvh, oracle, lines)
    if refthread:
        refthread.join()
    if rc1 != 0 or len(gout) != len(lines):
        ck.violation("gvh-pattern crashed or produced %d/%d lines" % (len(gout), len(lines)),
                     {"kind": "crash", "stderr": e1[-2000:], "case": cases[min(len(gout), len(cases) - 1)].desc()})
    if rc2 != 0 or len(oout) != len(lines):
        ck.violation("oracle crashed (%d/%d lines)" % (len(oout), len(lines)),
                     {"kind": "oracle-crash", "stderr": e2[-2000:], "case": cases[min(len(oout), len(cases) - 1)].desc()}, no_input=True)
    n = min(len(gout), len(oout))
    all_probs = []
    for i in range(n):
        c = cases[i]
        gid, G = fields(gout[i])
        oid, O = fields(oout[i])
        if gid != oid:
            ck.violation("protocol desync at case %d" % i, {"kind": "desync"}, no_input=True)
            break
        if any("fuel" in v for v in O.values()):
            stats["model-out-of-fuel"] = stats.get("model-out-of-fuel", 0) + 1
            continue
        probs, hits, built = compare(ck, c, G, O, stats)
        if built and gid in refres:
            stats["reference-lua-compared"] = stats.get("reference-lua-compared", 0) + 1
            for kind, fld, det in compare_ref(c, G, O, refres[gid], G.get("B", "").split(":")[2][0] == "1"):
                probs.append((kind, fld, det))
        nontriv = built and (G.get("MM", "nil").startswith("c") or G.get("MS", "nil").startswith("c"))
        ck.case(c.canon(), nontriv or not built)
        ck.count("kind:" + c.kind)
        ck.count("built:" + ("ok" if built else "error"))
        if built:
            ck.count("match:" + ("yes" if nontriv else "no"))
            ck.count("subject-len:%d" % min(len(c.s), 8))
            ck.count("budget:" + ("0" if c.bud == 0 else "big" if c.bud == BIG else "small"))
            if G.get("MM", "").split("/")[1:2] == [str(c.bud + 1)] and c.bud:
                ck.count("budget-kill")
        for h in set(hits):
            k = ck.known_match(lambda k, h=h: k["id"] == h)
            if k is None:
                probs.append(("go-s", "known", "difference of class %s is not a recorded finding" % h))
            else:
                ck.known_finding(k)
        for p in probs:
            all_probs.append((i, p))
    return all_probs, gout, oout


def shrink_case(gvh, oracle, ck, case, kind, field):
    """Greedy shrinking: shorter subject / pattern while the same kind of problem persists."""
    def bad(c):
        (r1, g, _), (r2, o, _) = run_pair(gvh, oracle, [c.line(0)])
        if not g or not o:
            return False
        _, G = fields(g[0]); _, O = fields(o[0])
        if any("fuel" in v for v in O.values()):
            return False
        probs, hits, _ = compare(ck, c, G, O, {})
        return any(p[0] == kind and p[1] == field for p in probs)
    cur = case
    changed = True
    rounds = 0
    while changed and rounds < 40:
        changed = False
        rounds += 1
        cands = []
        for i in range(len(cur.s)):
            s2 = cur.s[:i] + cur.s[i + 1:]
            cands.append(Case(cur.ptn, s2, min(cur.init, len(s2) + 1), cur.repl, cur.maxn, cur.bud, cur.mode, cur.kind, None))
        for i in range(len(cur.ptn)):
            cands.append(Case(cur.ptn[:i] + cur.ptn[i + 1:], cur.s, cur.init, cur.repl, cur.maxn, cur.bud, cur.mode, cur.kind, None))
        if cur.init > 0:
            cands.append(Case(cur.ptn, cur.s, cur.init - 1, cur.repl, cur.maxn, cur.bud, cur.mode, cur.kind, None))
        if cur.maxn != "A":
            cands.append(Case(cur.ptn, cur.s, cur.init, cur.repl, "A", cur.bud, cur.mode, cur.kind, None))
        if cur.repl != b"x":
            cands.append(Case(cur.ptn, cur.s, cur.init, b"x", cur.maxn, cur.bud, cur.mode, cur.kind, None))
        if cur.bud not in (0, BIG):
            cands.append(Case(cur.ptn, cur.s, cur.init, cur.repl, cur.maxn, BIG, cur.mode, cur.kind, None))
        for c in cands[:60]:
            if bad(c):
                cur = c
                changed = True
                break
    return cur


def cpu_clause(ck, gvh):
    """matching work is charged to the CPU budget: linear work is visible in used cpu, and a
    quadratic/exponential match is killed by a small budget."""
    progs = [
        ("lin", 'local s=("a"):rep(3000); return (s:find("a*b"))', 10 ** 9, "ok", 3000 * 3000 // 2),
        ("kill", 'local s=("a"):rep(3000); return (s:find("a*b"))', 20000, "killed", 0),
        ("expo", 'local s=("a"):rep(40); return (s:match("a-a-a-a-a-a-a-a-a-a-b"))', 50000, "killed", 0),
        ("gsub", 'local s=("ab"):rep(2000); return (s:gsub("a", "x"))', 10 ** 9, "ok", 2000),
        # back-reference comparisons are charged by length: quadratic work must hit a 10^6 budget (N^2/8 = 5*10^7)
        ("backref", 'local s=("a"):rep(20000); return (s:find("^(a*)%1c"))', 10 ** 6, "killed", 0),
        ("backref-ok", 'local s=("a"):rep(2000); return (s:find("^(a*)%1c"))', 10 ** 9, "ok", 2000 * 2000 // 8),
        ("gmatch", 'local n=0; for w in (("ab "):rep(1000)):gmatch("%a+") do n=n+1 end; return n', 10 ** 9, "ok", 2000),
    ]
    lines = ["%s %s cpu=%d" % (name, src.encode().hex(), cpu) for name, src, cpu, _, _ in progs]
    rc, out, err = vlib.run_lines(gvh, ["lua"], lines, timeout=300)
    res = {}
    for l in out:
        f = l.split(" ")
        res[f[0]] = f
    for name, src, cpu, want, minused in progs:
        f = res.get(name)
        ck.count("cpu-clause")
        if f is None:
            ck.violation("cpu clause: no output for " + name, {"kind": "crash", "lua": src, "stderr": err[-1000:]})
            continue
        status = f[1]
        x = [t for t in f if t.startswith("X:")][0][2:].split(",")
        used = int(x[1])
        ck.case("cpu|" + name, True)
        if status != want or (want == "ok" and used < minused):
            ck.violation("matching work is not charged to the CPU budget (%s: status %s, used cpu %d, expected %s and >= %d)" %
                         (name, status, used, want, minused),
                         {"kind": "Go!=S", "engine": "pattern", "lua": src, "cpu_limit": cpu, "status": status, "used_cpu": used,
                          "expected_status": want, "expected_min_used": minused})
        ck.sample({"cpu_clause": name, "status": status, "used_cpu": used, "limit": cpu})


def run(tier, seed):
    ck = vlib.Check("C15", tier, seed, level="proof")
    ok_obl = ck.obligations(PROP, clean=False)
    gvh, err = ck.build_gvh(pkg="./cmd/gvh-pattern", name="gvh_pattern" + ("_mut" if os.environ.get("VERIF_OVERLAY") else ""),
                             overlay=os.environ.get("VERIF_OVERLAY"))   # overlay: mutation experiments only
    if gvh is None:
        ck.violation("harness does not build against /repo", {"kind": "build", "stderr": err[-3000:]}, no_input=True)
        return ck.finish("n/a", TRUSTED, [])
    oracle = ck.build_oracle("pattern")
    if oracle is None:
        ck.violation("oracle (extracted model) does not build", {"kind": "build"}, no_input=True)
        return ck.finish("n/a", TRUSTED, [])
    global REF_EVERY
    REF_EVERY = 3 if tier == "quick" else 4
    cases, npat = gen_cases(ck, tier)
    ck.log("cases: %d (patterns by token count: %s)" % (len(cases), npat))
    stats = {}
    reflua = build_reflua(ck)
    probs, gout, oout = evaluate(ck, gvh, oracle, cases, stats, reflua=reflua)
    ck.log("evaluated; %d problems" % len(probs))
    for k, v in stats.items():
        ck.count(k, v)
    # ---------------- recorded witnesses must still fail (otherwise the IM is stale)
    for k in ck.known:
        if k.get("status") == "open" and ck.cov["known_findings_hit"].get(k["id"], 0) == 0 and k.get("witness_case"):
            w = k["witness_case"]
            c = Case(w["pattern"].encode("latin-1"), w["subject"].encode("latin-1"), w["init"], w.get("repl", "x").encode("latin-1"),
                     w.get("maxn", -1), BIG, "a", "witness")
            p2, _, _ = evaluate(ck, gvh, oracle, [c], {})
            probs += [(-1, p) for _, p in p2]
            if ck.cov["known_findings_hit"].get(k["id"], 0) == 0:
                ck.violation("recorded finding %s no longer reproduces: the model Pattern/*.v is stale for this code" % k["id"],
                             {"kind": "Go!=IM", "finding": k, "theorems_no_longer_about_this_code": THEOREMS}, no_input=True)
    # ---------------- report
    go_s = [(i, p) for i, p in probs if p[0] in ("go-s", "panic")]
    go_im = [(i, p) for i, p in probs if p[0] == "go-im"]
    reported = set()
    for i, p in go_s:
        if i < 0:
            continue
        key = (p[0], p[1], cases[i].ptn if len(reported) > 4 else i)
        if (p[0], p[1]) in reported and len(reported) >= 3:
            continue
        if (p[0], p[1]) in reported:
            continue
        reported.add((p[0], p[1]))
        small = shrink_case(gvh, oracle, ck, cases[i], p[0], p[1])
        (r1, g, _), (r2, o, _) = run_pair(gvh, oracle, [small.line(0)])
        ck.violation("%s deviates from the manual's pattern semantics: %s" % (FN.get(p[1], p[1]), p[2][:200]),
                     {"kind": "Go!=S" if p[0] == "go-s" else "Go-panic", "engine": "pattern", "function": FN.get(p[1], p[1]),
                      "case": small.desc(), "case_line": small.line(0), "impl": g[0] if g else None, "model": o[0] if o else None,
                      "original_case": cases[i].desc(), "count_of_such_differences": len([1 for _, q in go_s if q[1] == p[1]]),
                      "theorem": "Spec (Pattern/Spec.v) is the manual's matcher; C15_spec_* state its sanity"})
    go_ref = [(i, p) for i, p in probs if p[0] == "go-ref" and i >= 0]
    seen_ref = set()
    for i, p in go_ref:
        if p[1] in seen_ref:
            continue
        seen_ref.add(p[1])
        # smallest such case by pattern + subject length
        j, q = min([(j, q) for j, q in go_ref if q[1] == p[1]], key=lambda t: (len(cases[t[0]].ptn) + len(cases[t[0]].s), len(cases[t[0]].ptn)))
        ck.violation("%s deviates from reference Lua / the manual: %s" % (FN.get(q[1], q[1]), q[2][:200]),
                     {"kind": "Go!=reference", "engine": "pattern", "function": FN.get(q[1], q[1]), "case": cases[j].desc(),
                      "case_line": cases[j].line(0), "detail": q[2], "count_of_such_differences": len([1 for _, r in go_ref if r[1] == q[1]])})
    ck.cov["go_vs_reference_lua_differences"] = len(go_ref)
    s_ref = [(i, p) for i, p in probs if p[0] == "s-ref"]
    if s_ref:
        i, p = s_ref[0]
        ck.violation("the specification model Pattern/Spec.v + Drivers.v (S) disagrees with reference PUC-Lua 5.3.6 on %s: %s" %
                     (FN.get(p[1], p[1]), p[2][:200]),
                     {"kind": "S!=reference", "field": p[1], "detail": p[2], "case": cases[i].desc() if i >= 0 else None,
                      "case_line": cases[i].line(0) if i >= 0 else None, "differences": len(s_ref)}, no_input=True)
    ck.cov["spec_vs_reference_lua_differences"] = len(s_ref)
    if go_im and not go_s and not go_ref:
        i, p = go_im[0]
        c = cases[i] if i >= 0 else None
        small = shrink_case(gvh, oracle, ck, c, "go-im", p[1]) if c else None
        ck.violation("implementation no longer matches the Coq model Pattern/{Build,Machine,Drivers}.v (Go≈IM/pattern) on %s; "
                     "Go = S on every explored input" % FN.get(p[1], p[1]),
                     {"kind": "Go!=IM", "correspondence": "Go≈IM/pattern", "field": p[1], "detail": p[2][:400],
                      "case": small.desc() if small else None, "case_line": small.line(0) if small else None,
                      "differences": len(go_im), "theorems_no_longer_about_this_code": THEOREMS}, no_input=True)
    cpu_clause(ck, gvh)
    for i in (0, len(cases) // 3, len(cases) // 2, len(cases) - 5):
        if 0 <= i < len(gout):
            ck.sample({"case": cases[i].desc(), "impl": gout[i][:300]})
    if not ok_obl:
        ck.violation("proof obligations of C15 no longer check: " + str(ck.cov.get("obligation_failure", ""))[:300],
                     {"kind": "proof", "theorem_file": PROP, "detail": ck.cov.get("obligation_failure")}, no_input=True)
    ck.cov["correspondence_differences_go_im"] = len(go_im)
    ck.cov["differences_go_s_outside_known_classes"] = len(go_s)
    ck.cov["patterns_by_token_count"] = npat
    ck.cov["exhaustive"] = False
    return ck.finish(
        rule="(pattern, subject, 0-based init, replacement, max-n, cpu budget) tuples: every pattern of <= 2 tokens over the 24-token "
             "alphabet x every subject of length <= 3 over {a,b,c} x every init in 0..len+1, plus sampled longer subjects; a "
             "deterministic slice of the 3- and 4-token patterns x sampled subjects of length <= 5 (sizes in patterns_by_token_count); "
             "random patterns of up to 13 tokens over a 52-token alphabet on subjects up to 24 bytes incl. \\0 and \\xff; a malformed "
             "byte stream; budgets 0 / 2^40 / 1..6.  non-trivial = pattern compiled and some entry point matched, or a build error; "
             "distinct by the whole tuple",
        trusted_base=TRUSTED,
        assumptions=["init is given already normalised (0-based, >= 0); negative / huge init handling belongs to C19",
                     "gsub with table or function replacement is not modelled",
                     "C15_api_equiv_spec assumes Top.wf_pattern of the compiled items; it is evaluated (true) on every pattern the builder "
                     "accepted in this run (distribution key wf_pattern-true) but not proved of Build.v",
                     "the Lua-level drivers (find/match/gmatch/gsub IM vs S) are related by the enumeration, not by a theorem"])


def replay(path, seed):
    r = json.load(open(path))
    ck = vlib.Check("C15", "quick", seed)
    gvh, _ = ck.build_gvh(pkg="./cmd/gvh-pattern", name="gvh_pattern")
    oracle = ck.build_oracle("pattern")
    if "case_line" in r and r["case_line"]:
        line = r["case_line"]
        _, a, _ = vlib.run_lines(gvh, ["cases"], [line])
        _, b, _ = vlib.run_lines(oracle, [], [line])
        print("case :", json.dumps(r.get("case")))
        print("impl :", a[0] if a else None)
        print("model:", b[0] if b else None, " (fields X=im|spec)")
    elif "lua" in r:
        _, a, _ = vlib.run_lines(gvh, ["lua"], ["r %s cpu=%d" % (r["lua"].encode().hex(), r.get("cpu_limit", 0))])
        print("impl :", a[0] if a else None)
    return 0
