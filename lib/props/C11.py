# C11 — errors reach exactly the nearest protected call, with their value intact.
#
#  proof obligations : coq/theories/Properties/C11.v (LuaCore barrier frames, Lua/Meta.v)
#  correspondence    : `gvh lua` (real runtime) vs oracle/luacore (extracted LuaCore) on programs
#                      built from the matrix  value raised x raise site x catch construct
#                      (lib/gen_lua.py ErrorGen), each followed by an observation of the caught
#                      value (identity for tables/functions, class+position for run-time errors)
#                      and an epilogue exercising loops, calls, closures, tables after the catch;
#                      1 program in 3 ends with an error that reaches the embedding caller.
#  known findings    : witnesses replayed on every run (probes); the random stream avoids them.
import json

from lib import vlib, luacore, gen_lua
from lib.gen_lua import *
from lib.props import C01 as base

PID = "C11"
PROP = ["Properties/C11.v"]
TRUSTED = [
    "Coq 8.16.1 kernel (coqc)",
    "axioms: only those Flocq/Reals bring in (Print Assumptions, listed under coverage.axioms)",
    "LuaCore (coq/theories/Lua/*.v) is our reading of the Lua 5.4 manual; the theorems are about LuaCore and speak about golua only as far as the correspondence check shows agreement",
    "extraction: ExtrOcamlBasic only; oracle/common/proto.ml + oracle/luacore/driver.ml, OCaml 4.13.1",
    "Go harness harness/hx/lua.go (`gvh lua`); Python generator/renderer/serialiser lib/gen_lua.py, diff lib/luacore.py",
    "run-time error messages are compared by class + position prefix (chunk:line:), not by text",
]


def emit(*es):
    return SCall(Call(Var("emit"), *es))


def probes():
    ps = []
    ps.append(("C11-pow-error-line", [Return(Call(Var("pcall"), Fn([], False, [Local(["z"], [Bin("pow", Nil(), Int(1))]), Local(["y"], [Int(2)])])))], []))
    CO = lambda f, *a: Call(Fld(Var("coroutine"), f), *a)
    ps.append(("C11-xpcall-handler-sees-coroutine-error", [
        Local(["co"], [CO("create", Fn([], False, [SCall(Call(Var("error"), Tab()))]))]),
        Local(["ok", "e"], [Call(Var("xpcall"), Fn([], False, [Local(["r1", "r2"], [CO("resume", Var("co"))]), emit(Str("resumed"), Var("r1"), Call(Var("type"), Var("r2"))),
                                                              Return(Str("fine"))]),
                                 Fn(["m"], False, [emit(Str("handler")), Return(Str("H"))]))]),
        emit(Var("ok"), Var("e"))], []))
    ps.append(("C11-tailcall-error-position", [
        LocalFn("f", Fn([], False, [Return(Call(Var("error"), Str("tail")))])),
        Return(Call(Var("pcall"), Fn([], False, [Local(["x"], [Call(Var("f"))]), Return(Var("x"))])))], []))
    ps.append(("C11-error-level1-go-caller", [Local(["ok", "e"], [Call(Var("pcall"), Var("error"), Str("msg"))]), Return(Var("ok"), Var("e"))], []))
    ps.append(("C11-context-stack-shared-by-coroutines", [
        Local(["ok", "e"], [Call(Var("xpcall"), Fn([], False, [
            Local(["co"], [CO("wrap", Fn([], False, [SCall(Call(Var("xpcall"), Fn([], False, [SCall(CO("yield", Int(1)))]),
                                                                      Fn(["m"], False, [emit(Str("h2")), Return(Var("m"))])))]))]),
            emit(Call(Var("co"))), SCall(Call(Var("error"), Str("outer"), Int(0)))]),
            Fn(["m"], False, [emit(Str("h1"), Var("m")), Return(Str("H1"))]))]),
        emit(Var("ok"), Var("e"))], []))
    return ps


# Go-only probe (the construct is outside the extracted oracle until coroutines are modelled):
# expected result derived by hand from the manual: the error raised inside the coroutine is
# caught by coroutine.resume, which is nearer than the xpcall; the handler must not run.
XPCALL_CO_SRC = """local co = coroutine.create(function() error({}) end)
local ok, e = xpcall(function()
  local r1, r2 = coroutine.resume(co)
  emit("resumed", r1, type(r2))
  return "fine"
end, function(m) emit("handler") return "H" end)
emit(ok, e)
"""
XPCALL_CO_EXPECT = "ok T:s726573756d6564,b0,s7461626c65;b1,s66696e65 R:- E:-"


def gen_cases(ck, nprog):
    cases, meta = [], []
    feats, kinds = {}, {}
    for i in range(nprog):
        g = gen_lua.ErrorGen(ck.rng.fork(), base.open_finding_profile())
        body, tuples, f = g.program()
        for k, v in f.items():
            feats[k] = feats.get(k, 0) + v
        gen_lua.count_kinds(body, kinds)
        for j in range(2):
            cases.append({"ast": body, "style": (i + j * 2 + (i // 4)) % len(gen_lua.STYLES), "args": [], "rseed": ck.rng.next() & 0xFFFFFFF,
                          "eol": gen_lua.EOLS[(i + j + i // 5) % 4]})
            meta.append(i)
    return cases, meta, feats, kinds


def run(tier, seed):
    ck = vlib.Check(PID, tier, seed, level="proof")
    ok_obl = ck.obligations(PROP)
    ov = vlib.os.environ.get("VERIF_OVERLAY")      # mutation experiments: go build -overlay
    gvh, err = ck.build_gvh(overlay=ov, name=("gvh_verif_mut" if ov else None))
    if gvh is None:
        ck.violation("harness does not build against /repo", {"kind": "build", "stderr": err[-3000:]}, no_input=True)
        return ck.finish("n/a", TRUSTED, [])
    oracle = ck.build_oracle("luacore")
    if oracle is None:
        ck.violation("oracle (extracted LuaCore) does not build", {"kind": "build"}, no_input=True)
        return ck.finish("n/a", TRUSTED, [])
    ck.log("obligations, harness and oracle ready")

    corpus = base.load_corpus(PID)
    if corpus:
        res = luacore.run_both(ck, corpus, gvh, oracle)
        for c, (g, o) in zip(corpus, res):
            ck.count("corpus")
            ck.case("corpus:" + c["name"], True)
            if g != o:
                k = ck.known_match(lambda kk: kk["id"] == c.get("finding"))
                if k:
                    ck.known_finding(k)
                else:
                    ck.violation("corpus case %s: golua and LuaCore disagree" % c["name"],
                                 {"kind": "Go!=S", "src": c["src"], "sx": c["sx"], "args": c.get("args"), "go": g, "luacore": o})

    for fid, body, args in probes():
        case = {"ast": body, "style": 0, "args": args}
        (g, o), = luacore.run_both(ck, [case], gvh, oracle)
        ck.count("probe")
        k = ck.known_match(lambda kk: kk["id"] == fid)
        if g != o:
            if k:
                ck.known_finding(k)
            else:
                base.report(ck, case, g, o, gvh, oracle, what="probe " + fid)
        elif k:
            ck.notes.append("known finding %s: the witness no longer fails (repaired?)" % fid)
    # Go-only probe
    out = vlib.run_lines_resilient(gvh, ["lua"], ["x %s" % XPCALL_CO_SRC.encode().hex()], per_case_timeout=20)
    got = luacore.norm_line(out[0])[1] if out else "MISSING"
    ck.count("probe")
    k = ck.known_match(lambda kk: kk["id"] == "C11-xpcall-handler-sees-coroutine-error")
    if got != XPCALL_CO_EXPECT:
        if k:
            ck.known_finding(k)
        else:
            ck.violation("xpcall handler / coroutine.resume probe: golua differs from the manual's result",
                         {"kind": "Go!=S", "src": XPCALL_CO_SRC, "go": got, "expected": XPCALL_CO_EXPECT,
                          "contradicts": "C11_raise_under_pcall_no_outer_handler (nearest boundary only)"})
    elif k:
        ck.notes.append("known finding C11-xpcall-handler-sees-coroutine-error: the witness no longer fails (repaired?)")

    nprog = int(vlib.os.environ.get("VERIF_NPROG", 0)) or (1000 if tier == "quick" else 15000)
    total = {"same": 0, "diff": 0, "known": 0, "discarded": 0, "raised_and_caught_scenarios": 0, "uncaught_programs": 0}
    cases, meta, feats, kinds = gen_cases(ck, nprog)
    res = luacore.run_both(ck, cases, gvh, oracle)
    reported = set()
    nviol = 0
    for c, m, (g, o) in zip(cases, meta, res):
        ost, gst = o.split(" ")[0], g.split(" ")[0]
        ck.count("status:" + gst)
        if gst == "SKIPPED":
            ck.count("skipped-after-many-hangs")
            continue
        if ost.startswith(("unsupported", "fuel", "HANG")) and not gst.startswith(("gopanic", "CRASH", "HANG")):
            total["discarded"] += 1
            ck.count("discarded:" + ost)
            continue
        ck.case(c["_sx"], gst in ("ok", "error") and " T:- " not in g)
        if gst == "error":
            total["uncaught_programs"] += 1
        if g == o:
            total["same"] += 1
            continue
        total["diff"] += 1
        if m in reported or nviol >= 6:
            continue
        k = base.attribute(ck, c, gvh, oracle)
        if k:
            total["known"] += 1
            ck.known_finding(k)
            continue
        reported.add(m)
        nviol += 1
        if nviol <= 3:
            base.report(ck, c, g, o, gvh, oracle, what="error scenario program", budget=(120 if nviol == 1 else 25))
    base.reference_compare(ck, lambda rng: gen_lua.ErrorGen(rng, dict(luacore.REF53_PROFILE)), 250 if tier == "quick" else 4000, gvh, oracle)
    total["raised_and_caught_scenarios"] = sum(v for k, v in feats.items() if k.startswith("catch:"))
    for i in (0, 2, 4):
        if i < len(cases):
            ck.sample({"lua": cases[i]["_src"][:1800], "go": res[i][0][:500], "luacore": res[i][1][:500]})
    for k, v in sorted(feats.items()):
        ck.count("feature:" + k, v)
    for k, v in sorted(kinds.items()):
        ck.count("ast:" + k, v)
    ck.log(str(total))
    if not ok_obl:
        ck.violation("proof obligations of C11 no longer check: " + str(ck.cov.get("obligation_failure", ""))[:300],
                     {"kind": "proof", "theorem_file": PROP, "detail": ck.cov.get("obligation_failure")}, no_input=True)
    if tier == "thorough":
        ck.coqchk(["GV.Properties.C11"])
    ck.cov["comparison"] = total
    ck.cov["exhaustive"] = False
    return ck.finish(
        rule="programs from lib/gen_lua.py ErrorGen: 2-5 scenarios each drawn from 26 raised values (nil/false/true/int/float/strings at level 0,1,2/"
             "tables and functions by identity/assert/10 classes of run-time error) x 30 raise sites (direct, nested and recursive calls, every loop form, "
             "iterator function, 9 metamethod events, operand/argument/constructor/key/condition positions, tail call, vararg, upvalue function, multiple assignment) "
             "x 13 catch constructs (pcall, pcall with arguments, xpcall with 4 handler shapes, rethrow, pcall(pcall,...), inner catch, xpcall in pcall and "
             "pcall in xpcall, select over results, pcall inside a method), plus random statements in between, a fixed epilogue (loops, closures, recursion with "
             "varargs, metamethod, string ops, further pcalls) and in 1 of 3 programs a final uncaught error; each program in 2 renderings (line numbers differ). "
             "Compared with LuaCore: trace, results, error value or class+position. non-trivial = non-empty trace; distinct by S-expression.",
        trusted_base=TRUSTED,
        assumptions=["errors inside message handlers are not generated (the manual leaves them open); coroutine.resume and coroutine.wrap are among the catch constructs, "
                     "to-be-closed scopes appear through the random statements; the coroutine/xpcall interaction is a fixed probe (oracle result + hand-derived expected result)",
                     "error(msg, 2) is only generated where the caller is Lua code on a single line"])


def replay(path, seed):
    r = json.load(open(path))
    ck = vlib.Check(PID, "quick", seed)
    gvh, _ = ck.build_gvh()
    oracle = ck.build_oracle("luacore")
    for tag in ("shrunk_", ""):
        if r.get(tag + "src") and r.get(tag + "sx"):
            c = {"src": r[tag + "src"], "sx": r[tag + "sx"], "args": r.get("args") or []}
            (g, o), = luacore.run_both(ck, [c], gvh, oracle)
            print("---- %sprogram\n%s" % (tag, c["src"]))
            print("golua  :", g)
            print("luacore:", o)
            print("agree" if g == o else "DISAGREE")
    if r.get("expected"):
        out = vlib.run_lines_resilient(gvh, ["lua"], ["x %s" % r["src"].encode().hex()], per_case_timeout=20)
        print("golua   :", luacore.norm_line(out[0])[1])
        print("expected:", r["expected"])
    return 0
